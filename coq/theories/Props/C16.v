(* Props/C16.v — property C16: ROC confidence bands are well-formed envelopes of pointwise rectangles.
   Statements only; proofs in Proofs/RocCIFacts.v; model in Model/RocCI.v (repaired tree: fixes 8f0da8c, 79f7b15).

   Oracles (universally quantified functions; hypotheses, where needed, are written in the statement):
     succ/pred = np.nextafter, pow = math.pow, Phi/PhiInv/pow15 = norm.cdf/norm.ppf/x**1.5 (C13), ksone_ppf, sqrtQ.
   Samplers: dynamic_choice/builtin_sample are the parameters of Model/BootMetric.v (C14); hist j is the RNG draw
   history of the j-th bootstrap_sample call.  [proper s]: both classes have scored samples, easy counts >= 0.
   [samples_proper]: every sample the configured sampler returns is proper — C11's at-least-one rule.
   That the Python functions call _apply_rule_of_three with n = scores.nb_all_pos / nb_all_neg, pass the arguments of
   _aggregate_rectangles in the modelled order, use ROC_CI_EXTRA_POINTS = 20, and that the experimental functions'
   calls of _find_support_thresholds bind every parameter (defaults None / "fnr") is re-established from the current
   source on every run (coq/ties/Tie_rocci.v). *)
From SA Require Import Model.RocCI Proofs.RocFacts Proofs.RocCIFacts Proofs.TubeFuelFacts.
Open Scope Q_scope.

(* ---------------- _apply_rule_of_three ---------------- *)
(* row j of the result: upper correction [alpha^(1/n), 1] if p_j > (n-1)/n, else lower correction
   [0, 1 - alpha^(1/n)] if p_j < 1/n, else the given interval *)
Theorem C16_rule_of_three_rows : forall pow p ci alpha n j, length p = length ci -> (j < length ci)%nat ->
  nth j (apply_rule_of_three pow p ci alpha n) (None, None) = rule3_row pow (nth j p None) (nth j ci (None, None)) alpha n.
Proof. exact rule3_nth. Qed.
Print Assumptions C16_rule_of_three_rows.

(* rule_of_three_iff: when the rate is a count over the population n handed to the function, an interval is
   substituted exactly when the count is 0 (resp. n) *)
Theorem C16_rule_of_three_iff : forall (c n : Z) v, (0 < n)%Z -> (0 <= c <= n)%Z -> v == inject_Z c / inject_Z n ->
  (rlt_q (Some v) (1 / inject_Z n) = true <-> c = 0%Z) /\
  (rgt_q (Some v) (inject_Z (n - 1) / inject_Z n) = true <-> c = n).
Proof. exact rule3_count_iff. Qed.
Print Assumptions C16_rule_of_three_iff.

(* ... which is the situation at both call sites: scores.fnr / scores.fpr are counts over nb_all_pos / nb_all_neg
   (easy samples included), so with n = nb_all_pos / nb_all_neg the substitution happens exactly at observed rate 0 or 1 *)
Theorem C16_rule3_fnr : forall pow s t ci alpha, easy_ok s -> (0 < nb_all_pos s)%Z ->
  rule3_row pow (s_fnr s t) ci alpha (nb_all_pos s) =
    if (cfn (cm s t) =? nb_all_pos s)%Z then upper_correction pow alpha (nb_all_pos s)
    else if (cfn (cm s t) =? 0)%Z then lower_correction pow alpha (nb_all_pos s) else ci.
Proof. exact rule3_fnr_iff. Qed.
Print Assumptions C16_rule3_fnr.
Theorem C16_rule3_fpr : forall pow s t ci alpha, easy_ok s -> (0 < nb_all_neg s)%Z ->
  rule3_row pow (s_fpr s t) ci alpha (nb_all_neg s) =
    if (cfp (cm s t) =? nb_all_neg s)%Z then upper_correction pow alpha (nb_all_neg s)
    else if (cfp (cm s t) =? 0)%Z then lower_correction pow alpha (nb_all_neg s) else ci.
Proof. exact rule3_fpr_iff. Qed.
Print Assumptions C16_rule3_fpr.
(* the defect repaired by 79f7b15 seen on the formula: with n = number of HARD positives (5) a point with one error
   among 5 hard + 8 easy positives (rate 1/13) is replaced by the zero-count interval; with n = 13 it is kept *)
Theorem C16_rule3_hard_count_mistrigger : forall pow ci alpha,
  rule3_row pow (Some (1 # 13)) ci alpha 5 = lower_correction pow alpha 5 /\
  rule3_row pow (Some (1 # 13)) ci alpha 13 = ci.
Proof. exact rule3_hard_count_mistrigger. Qed.
Print Assumptions C16_rule3_hard_count_mistrigger.

(* ---------------- _aggregate_rectangles ---------------- *)
(* output shape (n, 2) *)
Theorem C16_aggregate_shape : forall x dxp dyp, length x = length dyp -> length (aggregate_rectangles x dxp dyp) = length dyp.
Proof. exact aggregate_length. Qed.
Print Assumptions C16_aggregate_shape.
(* the for-loop (a fold over j with in-place updates) writes row j from row j's initial value only *)
Theorem C16_aggregate_loop : forall x dxp dyp j, length x = length dyp -> (j < length dyp)%nat ->
  nth j (aggregate_rectangles x dxp dyp) (None, None) =
    (lower_at x dxp dyp j (fst (nth j dyp (None, None))), upper_at x dxp dyp j (snd (nth j dyp (None, None)))).
Proof. exact aggregate_nth. Qed.
Print Assumptions C16_aggregate_loop.
(* on NaN-free input row j is (env_lo, env_hi) at x_j ... *)
Theorem C16_aggregate_envelope : forall xq dxq dyq j, length xq = length dyq -> (j < length dyq)%nat ->
  nth j (aggregate_rectangles (map Some xq) (map lift2 dxq) (map lift2 dyq)) (None, None) =
    (Some (env_lo (nth j xq 0) dxq dyq (fst (nth j dyq (0, 0)))), Some (env_hi (nth j xq 0) dxq dyq (snd (nth j dyq (0, 0))))).
Proof. exact aggregate_envelope. Qed.
Print Assumptions C16_aggregate_envelope.
(* ... and env_lo is the minimum of {lo_i | x_j in [dxp_i]} U {lo_j}: a lower bound of that set that belongs to it;
   env_hi the maximum of {hi_i | x_j in [dxp_i]} U {hi_j} *)
Theorem C16_envelope_min : forall xj dxq dyq a,
  env_lo xj dxq dyq a <= a /\
  (forall dx dy, In (dx, dy) (combine dxq dyq) -> insideq xj dx = true -> env_lo xj dxq dyq a <= fst dy) /\
  (env_lo xj dxq dyq a = a \/
   exists dx dy, In (dx, dy) (combine dxq dyq) /\ insideq xj dx = true /\ env_lo xj dxq dyq a = fst dy).
Proof. exact env_lo_spec. Qed.
Print Assumptions C16_envelope_min.
Theorem C16_envelope_max : forall xj dxq dyq a,
  a <= env_hi xj dxq dyq a /\
  (forall dx dy, In (dx, dy) (combine dxq dyq) -> insideq xj dx = true -> snd dy <= env_hi xj dxq dyq a) /\
  (env_hi xj dxq dyq a = a \/
   exists dx dy, In (dx, dy) (combine dxq dyq) /\ insideq xj dx = true /\ env_hi xj dxq dyq a = snd dy).
Proof. exact env_hi_spec. Qed.
Print Assumptions C16_envelope_max.
(* lower <= upper at every point whose own rectangle is ordered; within [lo, hi] if every input y-limit is *)
Theorem C16_aggregate_ordered : forall xq dxq dyq j, length xq = length dyq -> (j < length dyq)%nat ->
  fst (nth j dyq (0, 0)) <= snd (nth j dyq (0, 0)) ->
  env_lo (nth j xq 0) dxq dyq (fst (nth j dyq (0, 0))) <= env_hi (nth j xq 0) dxq dyq (snd (nth j dyq (0, 0))).
Proof. exact aggregate_ordered. Qed.
Print Assumptions C16_aggregate_ordered.
Theorem C16_aggregate_in_range : forall xq dxq dyq j (lo hi : Q), length dxq = length dyq -> (j < length dyq)%nat ->
  (forall dy, In dy dyq -> lo <= fst dy /\ snd dy <= hi) ->
  lo <= env_lo (nth j xq 0) dxq dyq (fst (nth j dyq (0, 0))) /\ env_hi (nth j xq 0) dxq dyq (snd (nth j dyq (0, 0))) <= hi.
Proof. exact aggregate_in_range. Qed.
Print Assumptions C16_aggregate_in_range.

(* ---------------- roc_with_ci ---------------- *)
(* the band at each point is the envelope (aggregate_rectangles) of the pointwise rectangles, a pointwise interval
   being the bootstrap interval of the joint metric with the rule-of-three substitution (pointwise_intervals) *)
Theorem C16_bands_are_envelopes : forall succ pred pow Phi PhiInv pow15 (H : Type) dynamic_choice builtin_sample
    s fnr0 fpr0 thr0 nb_points x alpha cfg (hist : nat -> H) c,
  roc_with_ci succ pred pow Phi PhiInv pow15 H dynamic_choice builtin_sample s fnr0 fpr0 thr0 nb_points x alpha cfg hist = Ret c ->
  exists fnr_ci fpr_ci,
    pointwise_intervals succ pred pow Phi PhiInv pow15 H dynamic_choice builtin_sample s (rc_fnr c) (rc_fpr c) alpha cfg hist
      = Ret (fnr_ci, fpr_ci) /\
    rc_fnr_ci c = Some (aggregate_rectangles (rc_fpr c) fpr_ci fnr_ci) /\
    rc_fpr_ci c = Some (aggregate_rectangles (rc_fnr c) fnr_ci fpr_ci).
Proof. exact roc_with_ci_bands. Qed.
Print Assumptions C16_bands_are_envelopes.

(* any sampler obeying the at-least-one rule, all three bootstrap methods, alpha in (0,1): the returned rates are the
   object's rates at the returned thresholds (support thresholds with 20 extra points), both bands have shape (n,2),
   every limit is a number (NaN-free) within [0,1].  math.pow(alpha, .) is assumed to lie in [0,1]. *)
Theorem C16_roc_with_ci_wellformed : forall succ pred pow Phi PhiInv pow15 (H : Type) dynamic_choice builtin_sample,
  (forall a e, 0 < a -> a < 1 -> 0 <= pow a e /\ pow a e <= 1) ->
  forall s fnr0 fpr0 thr0 nb_points x alpha cfg (hist : nat -> H) c,
  proper s -> 0 < alpha -> alpha < 1 -> (0 < nb_samples cfg)%nat ->
  samples_proper H dynamic_choice builtin_sample s cfg hist ->
  roc_with_ci succ pred pow Phi PhiInv pow15 H dynamic_choice builtin_sample s fnr0 fpr0 thr0 nb_points x alpha cfg hist = Ret c ->
  find_support_thresholds succ pred s fnr0 fpr0 thr0 nb_points (Some ROC_CI_EXTRA_POINTS) x = Ret (rc_thresholds c) /\
  rc_fnr c = rates_at s_fnr s (rc_thresholds c) /\ rc_fpr c = rates_at s_fpr s (rc_thresholds c) /\
  exists fb pb, rc_fnr_ci c = Some fb /\ rc_fpr_ci c = Some pb /\
    unit_rows (length (rc_thresholds c)) fb /\ unit_rows (length (rc_thresholds c)) pb.
Proof. exact roc_with_ci_wellformed. Qed.
Print Assumptions C16_roc_with_ci_wellformed.

(* ordered: lower <= upper for both bands whenever every pointwise interval is ordered (for the bootstrap intervals
   that is C13_ordered, under C13's hypotheses on norm.cdf / norm.ppf; for the substituted intervals it follows from
   0 <= pow <= 1; under an identity sampler the intervals are degenerate) *)
Theorem C16_bands_ordered : forall succ pred pow Phi PhiInv pow15 (H : Type) dynamic_choice builtin_sample,
  (forall a e, 0 < a -> a < 1 -> 0 <= pow a e /\ pow a e <= 1) ->
  forall s fnr0 fpr0 thr0 nb_points x alpha cfg (hist : nat -> H) c fnr_ci fpr_ci,
  proper s -> 0 < alpha -> alpha < 1 -> (0 < nb_samples cfg)%nat ->
  samples_proper H dynamic_choice builtin_sample s cfg hist ->
  roc_with_ci succ pred pow Phi PhiInv pow15 H dynamic_choice builtin_sample s fnr0 fpr0 thr0 nb_points x alpha cfg hist = Ret c ->
  pointwise_intervals succ pred pow Phi PhiInv pow15 H dynamic_choice builtin_sample s (rc_fnr c) (rc_fpr c) alpha cfg hist
    = Ret (fnr_ci, fpr_ci) ->
  ordered_rows fnr_ci -> ordered_rows fpr_ci ->
  exists fb pb, rc_fnr_ci c = Some fb /\ rc_fpr_ci c = Some pb /\ ordered_rows fb /\ ordered_rows pb.
Proof. exact roc_with_ci_ordered. Qed.
Print Assumptions C16_bands_ordered.

(* identity sampler: the pointwise interval of point j collapses to [q_j, q_j] with
   q_j = fnr(threshold_at_fpr(fpr_j)) (resp. fpr(threshold_at_fnr(fnr_j))) — not necessarily the observed rate —
   for all three bootstrap methods, with no hypothesis on the oracles; the rule of three is applied on top.
   [pw_ok q n pw]: pw has n rows, row j = (Some lo, Some hi) with lo == q j == hi. *)
Theorem C16_identity_pointwise : forall succ pred pow Phi PhiInv pow15 (H : Type) dynamic_choice builtin_sample
    s fnr fpr alpha cfg (hist : nat -> H),
  proper s -> identity_sampler H dynamic_choice builtin_sample s cfg hist -> 0 < alpha -> alpha < 1 -> (0 < nb_samples cfg)%nat ->
  length fpr = length fnr ->
  exists t_fpr t_fnr fnr_pw fpr_pw,
    thresholds_at_fpr succ pred s (map rval fpr) = Ret t_fpr /\
    thresholds_at_fnr succ pred s (map rval fnr) = Ret t_fnr /\
    pw_ok (fun j => s_fnr s (Fin (nth j t_fpr 0))) (length fnr) fnr_pw /\
    pw_ok (fun j => s_fpr s (Fin (nth j t_fnr 0))) (length fnr) fpr_pw /\
    pointwise_intervals succ pred pow Phi PhiInv pow15 H dynamic_choice builtin_sample s fnr fpr alpha cfg hist
    = Ret (apply_rule_of_three pow fnr fnr_pw alpha (nb_all_pos s), apply_rule_of_three pow fpr fpr_pw alpha (nb_all_neg s)).
Proof. exact pointwise_identity. Qed.
Print Assumptions C16_identity_pointwise.

(* hence the closed form: under an identity sampler roc_with_ci returns the envelopes of those rectangles with the
   rule-of-three substitution *)
Theorem C16_identity_closed_form : forall succ pred pow Phi PhiInv pow15 (H : Type) dynamic_choice builtin_sample
    s fnr0 fpr0 thr0 nb_points x alpha cfg (hist : nat -> H) ths,
  proper s -> identity_sampler H dynamic_choice builtin_sample s cfg hist -> 0 < alpha -> alpha < 1 -> (0 < nb_samples cfg)%nat ->
  find_support_thresholds succ pred s fnr0 fpr0 thr0 nb_points (Some ROC_CI_EXTRA_POINTS) x = Ret ths ->
  let fnr := rates_at s_fnr s ths in
  let fpr := rates_at s_fpr s ths in
  exists t_fpr t_fnr fnr_pw fpr_pw,
    thresholds_at_fpr succ pred s (map rval fpr) = Ret t_fpr /\
    thresholds_at_fnr succ pred s (map rval fnr) = Ret t_fnr /\
    pw_ok (fun j => s_fnr s (Fin (nth j t_fpr 0))) (length ths) fnr_pw /\
    pw_ok (fun j => s_fpr s (Fin (nth j t_fnr 0))) (length ths) fpr_pw /\
    let fnr_ci := apply_rule_of_three pow fnr fnr_pw alpha (nb_all_pos s) in
    let fpr_ci := apply_rule_of_three pow fpr fpr_pw alpha (nb_all_neg s) in
    roc_with_ci succ pred pow Phi PhiInv pow15 H dynamic_choice builtin_sample s fnr0 fpr0 thr0 nb_points x alpha cfg hist
    = Ret (mkROC fnr fpr ths (Some (aggregate_rectangles fpr fpr_ci fnr_ci)) (Some (aggregate_rectangles fnr fnr_ci fpr_ci))).
Proof. exact roc_with_ci_identity. Qed.
Print Assumptions C16_identity_closed_form.

(* ... and under the identity sampler both bands are NaN-free and ordered with no hypothesis on norm.cdf / norm.ppf
   (only 0 <= math.pow(alpha, .) <= 1 for the substituted intervals) *)
Theorem C16_identity_ordered : forall succ pred pow Phi PhiInv pow15 (H : Type) dynamic_choice builtin_sample
    s fnr0 fpr0 thr0 nb_points x alpha cfg (hist : nat -> H) c,
  (forall a e, 0 < a -> a < 1 -> 0 <= pow a e /\ pow a e <= 1) ->
  proper s -> identity_sampler H dynamic_choice builtin_sample s cfg hist -> 0 < alpha -> alpha < 1 -> (0 < nb_samples cfg)%nat ->
  roc_with_ci succ pred pow Phi PhiInv pow15 H dynamic_choice builtin_sample s fnr0 fpr0 thr0 nb_points x alpha cfg hist = Ret c ->
  exists fb pb, rc_fnr_ci c = Some fb /\ rc_fpr_ci c = Some pb /\
    some_rows (length (rc_thresholds c)) fb /\ some_rows (length (rc_thresholds c)) pb /\ ordered_rows fb /\ ordered_rows pb.
Proof. exact roc_with_ci_identity_ordered. Qed.
Print Assumptions C16_identity_ordered.

(* ---------------- the experimental band functions ---------------- *)
(* pointwise_band_ci: accepts its arguments (the call of _find_support_thresholds uses its defaults: no extra points,
   x_axis "fnr"); under an identity sampler the same closed-form intervals, not aggregated *)
Theorem C16_pointwise_band_identity : forall succ pred pow Phi PhiInv pow15 (H : Type) dynamic_choice builtin_sample
    s fnr0 fpr0 thr0 nb_points alpha cfg (hist : nat -> H) ths,
  proper s -> identity_sampler H dynamic_choice builtin_sample s cfg hist -> 0 < alpha -> alpha < 1 -> (0 < nb_samples cfg)%nat ->
  find_support_thresholds succ pred s fnr0 fpr0 thr0 nb_points default_nb_extra_points default_x_axis = Ret ths ->
  let fnr := rates_at s_fnr s ths in
  let fpr := rates_at s_fpr s ths in
  exists t_fpr t_fnr fnr_pw fpr_pw,
    thresholds_at_fpr succ pred s (map rval fpr) = Ret t_fpr /\
    thresholds_at_fnr succ pred s (map rval fnr) = Ret t_fnr /\
    pw_ok (fun j => s_fnr s (Fin (nth j t_fpr 0))) (length ths) fnr_pw /\
    pw_ok (fun j => s_fpr s (Fin (nth j t_fnr 0))) (length ths) fpr_pw /\
    pointwise_band_ci succ pred pow Phi PhiInv pow15 H dynamic_choice builtin_sample s fnr0 fpr0 thr0 nb_points alpha cfg hist
    = Ret (mkROC fnr fpr ths (Some (apply_rule_of_three pow fnr fnr_pw alpha (nb_all_pos s)))
                             (Some (apply_rule_of_three pow fpr fpr_pw alpha (nb_all_neg s)))).
Proof. exact pointwise_band_identity. Qed.
Print Assumptions C16_pointwise_band_identity.

(* pointwise_band_ci, any sampler obeying the at-least-one rule: rates match thresholds, both bands (n,2), every limit a
   number within [0,1] *)
Theorem C16_pointwise_band_wellformed : forall succ pred pow Phi PhiInv pow15 (H : Type) dynamic_choice builtin_sample,
  (forall a e, 0 < a -> a < 1 -> 0 <= pow a e /\ pow a e <= 1) ->
  forall s fnr0 fpr0 thr0 nb_points alpha cfg (hist : nat -> H) c,
  proper s -> 0 < alpha -> alpha < 1 -> (0 < nb_samples cfg)%nat ->
  samples_proper H dynamic_choice builtin_sample s cfg hist ->
  pointwise_band_ci succ pred pow Phi PhiInv pow15 H dynamic_choice builtin_sample s fnr0 fpr0 thr0 nb_points alpha cfg hist = Ret c ->
  find_support_thresholds succ pred s fnr0 fpr0 thr0 nb_points default_nb_extra_points default_x_axis = Ret (rc_thresholds c) /\
  rc_fnr c = rates_at s_fnr s (rc_thresholds c) /\ rc_fpr c = rates_at s_fpr s (rc_thresholds c) /\
  exists fb pb, rc_fnr_ci c = Some fb /\ rc_fpr_ci c = Some pb /\
    unit_rows (length (rc_thresholds c)) fb /\ unit_rows (length (rc_thresholds c)) pb.
Proof. exact pointwise_band_wellformed. Qed.
Print Assumptions C16_pointwise_band_wellformed.

(* simultaneous_joint_region_ci: rates match thresholds, bands of shape (n,2), NaN-free, ordered (KS critical values
   >= 0); not confined to [0,1] (the property claims that for roc_with_ci only) *)
Theorem C16_sjr_wellformed : forall succ pred ksone_ppf s fnr0 fpr0 thr0 nb_points alpha c,
  proper s -> (forall q n, 0 <= ksone_ppf q n) ->
  simultaneous_joint_region_ci succ pred ksone_ppf s fnr0 fpr0 thr0 nb_points alpha = Ret c ->
  find_support_thresholds succ pred s fnr0 fpr0 thr0 nb_points default_nb_extra_points default_x_axis = Ret (rc_thresholds c) /\
  rc_fnr c = rates_at s_fnr s (rc_thresholds c) /\ rc_fpr c = rates_at s_fpr s (rc_thresholds c) /\
  exists fb pb, rc_fnr_ci c = Some fb /\ rc_fpr_ci c = Some pb /\
    some_rows (length (rc_thresholds c)) fb /\ some_rows (length (rc_thresholds c)) pb /\ ordered_rows fb /\ ordered_rows pb.
Proof. exact sjr_wellformed. Qed.
Print Assumptions C16_sjr_wellformed.

(* fixed_width_band_ci, _partial: rates match thresholds, both bands have shape (n,2) and are NaN-free.  NOT proved:
   lower <= upper (needs the displaced curves to stay monotone under np.interp); the oracle checks ordering on the
   implementation.  The fuel of the tube search is immaterial (C16_fixed_width_fuel_immaterial below). *)
Theorem C16_fixed_width_shape_partial : forall succ pred sqrtQ (H : Type) dc bs fuel s fnr0 fpr0 thr0 nb_points alpha cfg (hist : nat -> H) c,
  fixed_width_band_ci succ pred sqrtQ H dc bs fuel s fnr0 fpr0 thr0 nb_points alpha cfg hist = Ret c ->
  find_support_thresholds succ pred s fnr0 fpr0 thr0 nb_points default_nb_extra_points default_x_axis = Ret (rc_thresholds c) /\
  rc_fnr c = rates_at s_fnr s (rc_thresholds c) /\ rc_fpr c = rates_at s_fpr s (rc_thresholds c) /\
  exists fb pb, rc_fnr_ci c = Some fb /\ rc_fpr_ci c = Some pb /\
    some_rows (length (rc_thresholds c)) fb /\ some_rows (length (rc_thresholds c)) pb.
Proof. exact fixed_width_shape. Qed.
Print Assumptions C16_fixed_width_shape_partial.

(* the fuel of the model's tube search is immaterial: starting from [0,1] the interval halves at every step and the loop
   condition delta_max - delta_min > 1e-2 fails after exactly 7 halvings, so with any fuel >= 8 the out-of-fuel branch is
   never reached and fixed_width_band_ci returns the same result — the fuelled model is Python's while loop *)
Theorem C16_fixed_width_fuel_immaterial : forall succ pred sqrtQ (H : Type) dc bs f1 f2 s fnr0 fpr0 thr0 nb_points alpha cfg (hist : nat -> H),
  (8 <= f1)%nat -> (8 <= f2)%nat ->
  fixed_width_band_ci succ pred sqrtQ H dc bs f1 s fnr0 fpr0 thr0 nb_points alpha cfg hist
  = fixed_width_band_ci succ pred sqrtQ H dc bs f2 s fnr0 fpr0 thr0 nb_points alpha cfg hist.
Proof. exact fixed_width_fuel. Qed.
Print Assumptions C16_fixed_width_fuel_immaterial.

(* ... and when the containment test is total (non-empty curves) the search returns a radius in [0,1] *)
Theorem C16_tube_search_returns : forall succ f x y xs ys k,
  (forall d, exists c, is_contained succ x y xs ys k d = Ret c) -> (8 <= f)%nat ->
  exists r, tube_search succ f x y xs ys k 0 1 = Ret r /\ 0 <= r /\ r <= 1.
Proof. intros succ f x y xs ys k T F. apply (tube_search_returns succ 7); [exact T | reflexivity | lia]. Qed.
Print Assumptions C16_tube_search_returns.

(* ---------------- non-vacuity ---------------- *)
(* 5 hard + 8 easy positives (low scores positive), 4 negatives, identity sampler (a callable returning the object),
   3 samples, bc method, alpha = 1/8, nb_points = 6: roc_with_ci returns 14 points (6 + 4 extra + 4 sentinels); every limit is a number in [0,1],
   lower <= upper, and some point carries the rule-of-three interval [0, 1 - pow] (pow = 1/2 here). *)
Definition ex_s : scores := mk_scores [1#1; 2#1; 2#1; 4#1; 6#1] [2#1; 3#1; 5#1; 5#1] 8 0 Neg Pos false.
Definition ex_cfg : config scores := mkConfig 3%nat MBc (SCallable (fun _ s => s)).
Definition ex_curve :=
  roc_with_ci succ64 pred64 (fun _ _ => 1#2) (fun _ => 1#2) (fun _ => 0) (fun _ => 1) unit
              (fun _ c => sampling_method c) (fun _ _ _ _ => Err)
              ex_s None None None (Some 6%Z) (XName XFpr) (1#8) ex_cfg (fun _ => tt).
Definition row_ok (r : rate * rate) : bool :=
  match r with (Some lo, Some hi) => Qleb 0 lo && Qleb lo hi && Qleb hi 1 | _ => false end.
Example C16_example :
  match ex_curve with
  | Ret c => match rc_fnr_ci c, rc_fpr_ci c with
             | Some fb, Some pb =>
                 Nat.eqb (length fb) 14 && Nat.eqb (length pb) 14 && Nat.eqb (length (rc_thresholds c)) 14 &&
                 forallb row_ok fb && forallb row_ok pb &&
                 existsb (fun r => match r with (Some lo, Some hi) => Qeqb lo 0 && Qeqb hi (1#2) | _ => false end) fb
             | _, _ => false
             end
  | Raise => false
  end = true.
Proof. vm_compute. reflexivity. Qed.
Example C16_example_hyps : proper ex_s /\ identity_sampler unit (fun _ c => sampling_method c) (fun _ _ _ _ => Err) ex_s ex_cfg (fun _ => tt).
Proof. split; [repeat split; vm_compute; discriminate|]. intros j _. reflexivity. Qed.
