(* Props/C08.v — property C08: symmetry under class swap, direction reversal and rescaling. Statements only. *)
From SA Require Import Model.Symmetry Model.Threshold Proofs.SymmetryFacts Proofs.InvIncrFacts Proofs.EquivarianceFacts Proofs.NegationFacts Proofs.AucInvarianceFacts Proofs.EerEquivarianceFacts Proofs.EerFacts Proofs.CarrierB64 Proofs.AucAffineFacts Proofs.AucNegateFacts Proofs.AucFacts.
From SA Require Import Model.Eer.
From SA Require Import Model.Auc Model.Harness.
Open Scope Q_scope.

(* swap() exchanges the roles of the classes exactly: at EVERY threshold (incl. +-inf), for all score
   lists (ties, easy samples, empty classes), all four configurations, the confusion matrix of the
   swapped object is the original one with both axes exchanged. No sortedness hypothesis is needed. *)
Theorem C08_swap_cm : forall (s : scores) (t : ext),
  cm (swap s) t = mkCmz (ctn (cm s t)) (cfp (cm s t)) (cfn (cm s t)) (ctp (cm s t)).
Proof. exact swap_cm. Qed.
Print Assumptions C08_swap_cm.

(* hence FPR, TPR, TOPR of the original = FNR, TNR, TONR of the swapped object and vice versa
   (req = equal as rates, NaN matching NaN) *)
Theorem C08_swap_rates : forall (s : scores) (t : ext),
  req (s_fnr (swap s) t) (s_fpr s t) /\ req (s_fpr (swap s) t) (s_fnr s t) /\
  req (s_tnr (swap s) t) (s_tpr s t) /\ req (s_tpr (swap s) t) (s_tnr s t) /\
  req (s_tonr (swap s) t) (s_topr s t) /\ req (s_topr (swap s) t) (s_tonr s t).
Proof. exact swap_rates. Qed.
Print Assumptions C08_swap_rates.

Theorem C08_swap_involutive : forall s, swap (swap s) = s.
Proof. exact swap_involutive. Qed.
Print Assumptions C08_swap_involutive.

(* negating all scores while flipping score_class leaves every confusion matrix unchanged at the
   negated threshold (+inf <-> -inf) *)
Theorem C08_negate_cm : forall (s : scores) (t : ext), cm (neg_scores s) (neg_ext t) = cm s t.
Proof. exact neg_cm. Qed.
Print Assumptions C08_negate_cm.

(* an increasing affine map of the scores leaves every confusion matrix (hence every rate)
   unchanged at the mapped threshold *)
Theorem C08_affine_cm : forall (a b : Q) (s : scores) (t : ext), 0 < a ->
  cm (affine_scores a b s) (affine_ext a b t) = cm s t.
Proof. exact affine_cm. Qed.
Print Assumptions C08_affine_cm.

(* thresholds under an increasing affine map, _partial: for every list of scores, target, metric
   direction (increasing / ratio_class), configuration and method, the threshold returned by
   _threshold_at_ratio for the mapped scores is the mapped threshold — whenever the (normalised)
   target is interior, i.e. not answered by a one-ulp sentinel.  At a sentinel exact equivariance is
   false in binary64 (nextafter(a*x+b) <> a*nextafter(x)+b); there, for EER thresholds and for the
   invariance of EER and AUC values, the statement is checked on the implementation by
   harness/props/C08.py within the few ulp the property grants. *)
Theorem C08_affine_thresholds_interior_partial :
  forall (succ pred : Q -> Q) (a b : Q) (s s' : scores) (l : list Q) (u : Q) (inc : bool) (rc : label) (m : method),
  score_class s' = score_class s -> equal_class s' = equal_class s -> (1 <= len l)%Z ->
  interior l (tar_target s inc u) (tar_lc s rc) ->
  threshold_at_ratio succ pred s' (map (fun x => a * x + b) l) u inc rc m
  == a * threshold_at_ratio succ pred s l u inc rc m + b.
Proof. exact tar_affine_interior. Qed.
Print Assumptions C08_affine_thresholds_interior_partial.

(* thresholds under negation, _partial: negating all scores ([mirror l] = the negated scores in ascending
   order) and flipping score_class negates the threshold returned by _threshold_at_ratio, for every list of
   scores, metric direction, configuration and method — whenever the target is interior for both objects
   ([interior2]: neither answers with a one-ulp sentinel).  In the last 1/N of the scale one object returns
   its end sample and the mirrored one the sentinel one ulp beyond it; that ulp is what the property grants
   and the harness checks on the implementation. *)
Theorem C08_negate_thresholds_interior_partial :
  forall (succ pred : Q -> Q) (s s' : scores) (l : list Q) (u : Q) (inc : bool) (rc : label) (m : method),
  score_class s' = flip (score_class s) -> equal_class s' = equal_class s -> (1 <= len l)%Z ->
  interior2 l (tar_target s inc u) (tar_lc s rc) ->
  threshold_at_ratio succ pred s' (mirror l) u inc rc m == - threshold_at_ratio succ pred s l u inc rc m.
Proof. exact tar_negate_interior. Qed.
Print Assumptions C08_negate_thresholds_interior_partial.

(* the hypotheses are satisfiable, and the six public functions agree on a concrete object and its negation *)
Example C08_negate_example :
  let s := mk_scores [1#1; 3#1; 4#1; 9#2] [2#1; 0#1; 5#2] 0 0 Pos Neg false in
  interior2 (pos s) (tar_target s true (1#2)) (tar_lc s Pos) /\
  (forall mt, In mt [MTpr; MFnr; MTnr; MFpr; MTopr; MTonr] ->
     match threshold_at succ64 pred64 mt (neg_scores s) (1#2) Linear, threshold_at succ64 pred64 mt s (1#2) Linear with
     | Ret a, Ret b => Qeqb a (- b) = true | _, _ => False end).
Proof.
  split.
  - unfold interior2, interior, shifted; cbn; repeat split; reflexivity.
  - intros mt H. cbn [In] in H. repeat (destruct H as [<-|H]; [vm_compute; reflexivity|]). destruct H.
Qed.

(* the full AUC is unchanged by an increasing affine map of the scores and by reversing the score direction: both
   sides equal their Mann-Whitney statistic (C07), which only compares scores across the classes.  Arbitrary ties,
   easy samples, all four configurations, any carrier whose representable values contain both score sets.
   (For the EER see C08_eer_affine_compatible below.) *)
Theorem C08_full_auc_affine :
  forall (isD : Q -> Prop) (succ pred : Q -> Q), carrier isD succ pred ->
  forall (a b : Q) (s : scores), 0 < a ->
  pos s <> [] -> neg s <> [] -> (0 <= easy_pos s)%Z -> (0 <= easy_neg s)%Z ->
  Forall isD (pos s ++ neg s) -> Forall isD (map (fun x => a * x + b) (pos s ++ neg s)) ->
  auc succ pred (affine_scores a b s) 0 1 AFpr ATpr == auc succ pred s 0 1 AFpr ATpr.
Proof. exact full_auc_affine. Qed.
Print Assumptions C08_full_auc_affine.

Theorem C08_full_auc_negate :
  forall (isD : Q -> Prop) (succ pred : Q -> Q), carrier isD succ pred ->
  forall (s : scores),
  pos s <> [] -> neg s <> [] -> (0 <= easy_pos s)%Z -> (0 <= easy_neg s)%Z ->
  Forall isD (pos s ++ neg s) -> Forall isD (map Qopp (pos s ++ neg s)) ->
  auc succ pred (neg_scores s) 0 1 AFpr ATpr == auc succ pred s 0 1 AFpr ATpr.
Proof. exact full_auc_negate. Qed.
Print Assumptions C08_full_auc_negate.

(* both hold of the binary64 model outright (its nextafter is a carrier, Proofs/CarrierB64.v) *)
Theorem C08_full_auc_invariant_binary64 :
  forall (a b : Q) (s : scores), 0 < a ->
  pos s <> [] -> neg s <> [] -> (0 <= easy_pos s)%Z -> (0 <= easy_neg s)%Z ->
  Forall isD64 (pos s ++ neg s) ->
  (Forall isD64 (map (fun x => a * x + b) (pos s ++ neg s)) ->
     auc succ64 pred64 (affine_scores a b s) 0 1 AFpr ATpr == auc succ64 pred64 s 0 1 AFpr ATpr) /\
  auc succ64 pred64 (neg_scores s) 0 1 AFpr ATpr == auc succ64 pred64 s 0 1 AFpr ATpr.
Proof.
  intros a b s Ha Hp Hn Ep En D. split.
  - intro D'. exact (C08_full_auc_affine isD64 succ64 pred64 b64_carrier a b s Ha Hp Hn Ep En D D').
  - apply (C08_full_auc_negate isD64 succ64 pred64 b64_carrier s Hp Hn Ep En D).
    rewrite Forall_forall in *. intros y Hy. apply in_map_iff in Hy. destruct Hy as (x & <- & Hx). apply isD64_opp, D, Hx.
Qed.
Print Assumptions C08_full_auc_invariant_binary64.

(* Increasing affine maps that commute with np.nextafter on the scores of the object ([commutes_on]:
   succ (a*x+b) == a*succ x + b and the same for pred, for every score x; decidable on a given object by
   [commutes_onb].  In binary64: scalings by a power of two as long as no score or image is subnormal or
   overflows; on the integer carrier every translation).  Then EVERY threshold returned by the six threshold_at_*
   functions is mapped by the same map — every target, the one-ulp sentinels included, every method, all four
   configurations, ties, easy samples, empty classes (both sides raise) — with no interior hypothesis ... *)
Theorem C08_affine_thresholds_compatible :
  forall (succ pred : Q -> Q) (a b : Q) (s : scores) (mt : metric6) (u : Q) (m : method), 0 < a -> wf s ->
  commutes_on succ pred a b (pos s ++ neg s) ->
  match threshold_at succ pred mt (affine_scores a b s) u m, threshold_at succ pred mt s u m with
  | Ret t', Ret t => t' == a * t + b
  | Raise, Raise => True
  | _, _ => False
  end.
Proof. exact threshold_at_affine_scores. Qed.
Print Assumptions C08_affine_thresholds_compatible.

(* ... and eer() returns the same EER (the identical rational: the bisection depends on its function only through
   its sign and visits the same points) and the mapped threshold; any fuel, ties allowed, every exit of eer().
   For maps that do not commute with nextafter the sentinels move by the ulp the property grants and the
   statement is checked on the implementation (harness/props/C08.py, C06.py). *)
Theorem C08_eer_affine_compatible :
  forall (succ pred : Q -> Q) (a b : Q) (fuel : nat) (s : scores), 0 < a -> wf s ->
  commutes_on succ pred a b (pos s ++ neg s) ->
  match eer succ pred fuel (affine_scores a b s), eer succ pred fuel s with
  | Ret (t', e'), Ret (t, e) => e' = e /\ t' == a * t + b
  | Raise, Raise => True
  | _, _ => False
  end.
Proof. exact eer_affine_scores. Qed.
Print Assumptions C08_eer_affine_compatible.

(* PARTIAL AUC, every window [lower, upper] and every pair of axes: unchanged (the same rational, not only ==) under
   an increasing affine map that commutes with nextafter on the object's scores — the evaluation points are the
   mapped points, the confusion matrices at them are the same, so auc() runs on the same two rate vectors *)
Theorem C08_partial_auc_affine_compatible :
  forall (succ pred : Q -> Q) (a b : Q) (s : scores) (lower upper : Q) (xa ya : axis), 0 < a -> wf s ->
  commutes_on succ pred a b (pos s ++ neg s) ->
  auc succ pred (affine_scores a b s) lower upper xa ya = auc succ pred s lower upper xa ya.
Proof. exact auc_affine_scores. Qed.
Print Assumptions C08_partial_auc_affine_compatible.

(* PARTIAL AUC under reversal of the score direction (scores negated, score_class flipped): every window, x-axis
   any of FPR / TPR / FNR / TNR, any y-axis, on a carrier whose nextafter is symmetric under negation on the
   object's scores; arbitrary ties, easy samples, both equal_class settings *)
Theorem C08_partial_auc_negate :
  forall (isD : Q -> Prop) (succ pred : Q -> Q), carrier isD succ pred ->
  forall (s : scores), good s -> anticommutes_on succ pred (pos s ++ neg s) ->
  forall (lower upper : Q) (xa ya : axis), match xa with ATopr | ATonr => False | _ => True end ->
  auc succ pred (neg_scores s) lower upper xa ya = auc succ pred s lower upper xa ya.
Proof. exact auc_negate_full. Qed.
Print Assumptions C08_partial_auc_negate.

(* binary64 is sign-symmetric, so there the reversal statement has no hypothesis on nextafter at all *)
Theorem C08_partial_auc_negate_binary64 :
  forall (s : scores), good s ->
  forall (lower upper : Q) (xa ya : axis), match xa with ATopr | ATonr => False | _ => True end ->
  auc succ64 pred64 (neg_scores s) lower upper xa ya = auc succ64 pred64 s lower upper xa ya.
Proof.
  intros s G lower upper xa ya Hx. apply (auc_negate_full isD64 succ64 pred64 b64_carrier s G); [|exact Hx].
  intros x _. split; [apply succ64_opp|apply pred64_opp].
Qed.
Print Assumptions C08_partial_auc_negate_binary64.

(* non-vacuity: a partial window on an object with a cross-class tie and easy samples, scaled by 4 (commutes in
   binary64, decided by computation) and reversed; the area is neither 0 nor the width of the window *)
Example C08_partial_auc_example :
  let s := mk_scores [1#1; 3#1; 3#1; 5#1] [1#2; 3#1; 4#1] 1 2 Pos Neg false in
  commutes_on succ64 pred64 4 0 (pos s ++ neg s) /\
  auc succ64 pred64 (affine_scores 4 0 s) (1#10) (1#2) AFpr ATpr = auc succ64 pred64 s (1#10) (1#2) AFpr ATpr /\
  auc succ64 pred64 (neg_scores s) (1#10) (1#2) AFpr ATpr = auc succ64 pred64 s (1#10) (1#2) AFpr ATpr /\
  Qltb 0 (auc succ64 pred64 s (1#10) (1#2) AFpr ATpr) && Qltb (auc succ64 pred64 s (1#10) (1#2) AFpr ATpr) (4#10) = true.
Proof.
  split; [apply commutes_onb_ok; vm_compute; reflexivity|].
  split; [vm_compute; reflexivity|]. split; vm_compute; reflexivity.
Qed.

(* the bisection only looks at the sign of its function *)
Theorem C08_find_root_sign_only : forall fuel f g xa xe ff xtol, same_sign f g ->
  find_root fuel f xa xe ff xtol = find_root fuel g xa xe ff xtol.
Proof. exact find_root_sign_ext. Qed.
Print Assumptions C08_find_root_sign_only.

Theorem C08_commutes_decidable : forall succ pred a b l,
  commutes_onb succ pred a b l = true -> commutes_on succ pred a b l.
Proof. exact commutes_onb_ok. Qed.

(* the hypotheses are satisfiable in binary64: scaling by 4 commutes with nextafter on the eight scores of this
   object (decided by computation), the object is sorted, and the conclusion is visible: same EER (non-zero),
   4 times the threshold; likewise a translation by 7 on the integer carrier *)
Example C08_eer_affine_example :
  let s := mk_scores [1#1; 3#1; 5#1; 7#1] [1#2; 2#1; 4#1; 6#1] 0 1 Pos Pos false in
  commutes_on succ64 pred64 4 0 (pos s ++ neg s) /\
  match eer succ64 pred64 64 (affine_scores 4 0 s), eer succ64 pred64 64 s with
  | Ret (t', e'), Ret (t, e) => Qeqb e' e && Qeqb t' (4 * t) && Qltb 0 e
  | _, _ => false end = true /\
  commutes_on (fun x => x + 1) (fun x => x - 1) 1 7 (pos s ++ neg s) /\
  match eer (fun x => x + 1) (fun x => x - 1) 64 (affine_scores 1 7 s), eer (fun x => x + 1) (fun x => x - 1) 64 s with
  | Ret (t', e'), Ret (t, e) => Qeqb e' e && Qeqb t' (t + 7) && Qltb 0 e
  | _, _ => false end = true.
Proof.
  split; [apply commutes_onb_ok; vm_compute; reflexivity|].
  split; [vm_compute; reflexivity|].
  split; [apply int_translation_commutes|vm_compute; reflexivity].
Qed.

(* binary64 instance with a cross-class tie and easy samples *)
Example C08_auc_example :
  let s := mk_scores [3#1; 1#1; 3#1; 5#1] [4#1; 0#1; 3#1] 1 2 Pos Neg false in
  Qeqb (auc succ64 pred64 (affine_scores (2#1) (1#2) s) 0 1 AFpr ATpr) (auc succ64 pred64 s 0 1 AFpr ATpr)
  && Qeqb (auc succ64 pred64 (neg_scores s) 0 1 AFpr ATpr) (auc succ64 pred64 s 0 1 AFpr ATpr) = true.
Proof. vm_compute. reflexivity. Qed.

Example C08_example :
  cm (swap (mk_scores [1#1; 3#1] [2#1] 1 0 Pos Neg false)) (Fin (2#1)) = mkCmz 1 0 1 2.
Proof. reflexivity. Qed.
