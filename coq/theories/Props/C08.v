(* Props/C08.v — property C08: symmetry under class swap, direction reversal and rescaling. Statements only. *)
From SA Require Import Model.Symmetry Model.Threshold Proofs.SymmetryFacts Proofs.InvIncrFacts Proofs.EquivarianceFacts Proofs.NegationFacts Proofs.AucInvarianceFacts.
From SA Require Import Model.Auc Model.Harness.
Open Scope Q_scope.

(* swap() exchanges the roles of the classes exactly: at EVERY threshold (incl. +-inf), for all score
   lists (ties, easy samples, empty classes), all four configurations, the confusion matrix of the
   swapped object is the original one with both axes exchanged. No sortedness hypothesis is needed. *)
Theorem C08_swap_cm : forall (s : scores) (t : ext),
  cm (swap s) t = mkCmz (ctn (cm s t)) (cfp (cm s t)) (cfn (cm s t)) (ctp (cm s t)).
Proof. exact swap_cm. Qed.
Print Assumptions C08_swap_cm.

(* hence FPR, TPR, TOPR of the original = FNR, TNR, TONR of the swapped object and vice versa
   (req = equal as rates, NaN matching NaN) *)
Theorem C08_swap_rates : forall (s : scores) (t : ext),
  req (s_fnr (swap s) t) (s_fpr s t) /\ req (s_fpr (swap s) t) (s_fnr s t) /\
  req (s_tnr (swap s) t) (s_tpr s t) /\ req (s_tpr (swap s) t) (s_tnr s t) /\
  req (s_tonr (swap s) t) (s_topr s t) /\ req (s_topr (swap s) t) (s_tonr s t).
Proof. exact swap_rates. Qed.
Print Assumptions C08_swap_rates.

Theorem C08_swap_involutive : forall s, swap (swap s) = s.
Proof. exact swap_involutive. Qed.
Print Assumptions C08_swap_involutive.

(* negating all scores while flipping score_class leaves every confusion matrix unchanged at the
   negated threshold (+inf <-> -inf) *)
Theorem C08_negate_cm : forall (s : scores) (t : ext), cm (neg_scores s) (neg_ext t) = cm s t.
Proof. exact neg_cm. Qed.
Print Assumptions C08_negate_cm.

(* an increasing affine map of the scores leaves every confusion matrix (hence every rate)
   unchanged at the mapped threshold *)
Theorem C08_affine_cm : forall (a b : Q) (s : scores) (t : ext), 0 < a ->
  cm (affine_scores a b s) (affine_ext a b t) = cm s t.
Proof. exact affine_cm. Qed.
Print Assumptions C08_affine_cm.

(* thresholds under an increasing affine map, _partial: for every list of scores, target, metric
   direction (increasing / ratio_class), configuration and method, the threshold returned by
   _threshold_at_ratio for the mapped scores is the mapped threshold — whenever the (normalised)
   target is interior, i.e. not answered by a one-ulp sentinel.  At a sentinel exact equivariance is
   false in binary64 (nextafter(a*x+b) <> a*nextafter(x)+b); there, for EER thresholds and for the
   invariance of EER and AUC values, the statement is checked on the implementation by
   harness/props/C08.py within the few ulp the property grants. *)
Theorem C08_affine_thresholds_interior_partial :
  forall (succ pred : Q -> Q) (a b : Q) (s s' : scores) (l : list Q) (u : Q) (inc : bool) (rc : label) (m : method),
  score_class s' = score_class s -> equal_class s' = equal_class s -> (1 <= len l)%Z ->
  interior l (tar_target s inc u) (tar_lc s rc) ->
  threshold_at_ratio succ pred s' (map (fun x => a * x + b) l) u inc rc m
  == a * threshold_at_ratio succ pred s l u inc rc m + b.
Proof. exact tar_affine_interior. Qed.
Print Assumptions C08_affine_thresholds_interior_partial.

(* thresholds under negation, _partial: negating all scores ([mirror l] = the negated scores in ascending
   order) and flipping score_class negates the threshold returned by _threshold_at_ratio, for every list of
   scores, metric direction, configuration and method — whenever the target is interior for both objects
   ([interior2]: neither answers with a one-ulp sentinel).  In the last 1/N of the scale one object returns
   its end sample and the mirrored one the sentinel one ulp beyond it; that ulp is what the property grants
   and the harness checks on the implementation. *)
Theorem C08_negate_thresholds_interior_partial :
  forall (succ pred : Q -> Q) (s s' : scores) (l : list Q) (u : Q) (inc : bool) (rc : label) (m : method),
  score_class s' = flip (score_class s) -> equal_class s' = equal_class s -> (1 <= len l)%Z ->
  interior2 l (tar_target s inc u) (tar_lc s rc) ->
  threshold_at_ratio succ pred s' (mirror l) u inc rc m == - threshold_at_ratio succ pred s l u inc rc m.
Proof. exact tar_negate_interior. Qed.
Print Assumptions C08_negate_thresholds_interior_partial.

(* the hypotheses are satisfiable, and the six public functions agree on a concrete object and its negation *)
Example C08_negate_example :
  let s := mk_scores [1#1; 3#1; 4#1; 9#2] [2#1; 0#1; 5#2] 0 0 Pos Neg false in
  interior2 (pos s) (tar_target s true (1#2)) (tar_lc s Pos) /\
  (forall mt, In mt [MTpr; MFnr; MTnr; MFpr; MTopr; MTonr] ->
     match threshold_at succ64 pred64 mt (neg_scores s) (1#2) Linear, threshold_at succ64 pred64 mt s (1#2) Linear with
     | Ret a, Ret b => Qeqb a (- b) = true | _, _ => False end).
Proof.
  split.
  - unfold interior2, interior, shifted; cbn; repeat split; reflexivity.
  - intros mt H. cbn [In] in H. repeat (destruct H as [<-|H]; [vm_compute; reflexivity|]). destruct H.
Qed.

(* the full AUC is unchanged by an increasing affine map of the scores and by reversing the score direction: both
   sides equal their Mann-Whitney statistic (C07), which only compares scores across the classes.  Arbitrary ties,
   easy samples, all four configurations, any carrier whose representable values contain both score sets.
   (Invariance of the EER value and equivariance of the EER threshold are checked on the implementation only.) *)
Theorem C08_full_auc_affine :
  forall (isD : Q -> Prop) (succ pred : Q -> Q), carrier isD succ pred ->
  forall (a b : Q) (s : scores), 0 < a ->
  pos s <> [] -> neg s <> [] -> (0 <= easy_pos s)%Z -> (0 <= easy_neg s)%Z ->
  Forall isD (pos s ++ neg s) -> Forall isD (map (fun x => a * x + b) (pos s ++ neg s)) ->
  auc succ pred (affine_scores a b s) 0 1 AFpr ATpr == auc succ pred s 0 1 AFpr ATpr.
Proof. exact full_auc_affine. Qed.
Print Assumptions C08_full_auc_affine.

Theorem C08_full_auc_negate :
  forall (isD : Q -> Prop) (succ pred : Q -> Q), carrier isD succ pred ->
  forall (s : scores),
  pos s <> [] -> neg s <> [] -> (0 <= easy_pos s)%Z -> (0 <= easy_neg s)%Z ->
  Forall isD (pos s ++ neg s) -> Forall isD (map Qopp (pos s ++ neg s)) ->
  auc succ pred (neg_scores s) 0 1 AFpr ATpr == auc succ pred s 0 1 AFpr ATpr.
Proof. exact full_auc_negate. Qed.
Print Assumptions C08_full_auc_negate.

(* binary64 instance with a cross-class tie and easy samples *)
Example C08_auc_example :
  let s := mk_scores [3#1; 1#1; 3#1; 5#1] [4#1; 0#1; 3#1] 1 2 Pos Neg false in
  Qeqb (auc succ64 pred64 (affine_scores (2#1) (1#2) s) 0 1 AFpr ATpr) (auc succ64 pred64 s 0 1 AFpr ATpr)
  && Qeqb (auc succ64 pred64 (neg_scores s) 0 1 AFpr ATpr) (auc succ64 pred64 s 0 1 AFpr ATpr) = true.
Proof. vm_compute. reflexivity. Qed.

Example C08_example :
  cm (swap (mk_scores [1#1; 3#1] [2#1] 1 0 Pos Neg false)) (Fin (2#1)) = mkCmz 1 0 1 2.
Proof. reflexivity. Qed.
