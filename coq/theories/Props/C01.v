(* Props/C01.v — property C01: statements only. Each is closed by a lemma of Proofs/CmFacts.v. *)
From SA Require Import Model.Scores Model.Bsearch Proofs.CmFacts Proofs.BsearchFacts.
Open Scope Z_scope.

(* Every cell of Scores.cm(t) is the number of samples the documented decision rule places in it,
   plus the declared easy samples; all score lists, all four configurations, every threshold
   including +-inf. *)
Theorem C01_cm_counts : forall (s : scores) (t : ext),
  cm s t = mkCmz
    (count (fun x => dec (score_class s) (equal_class s) x t) (pos s) + easy_pos s)
    (count (fun x => negb (dec (score_class s) (equal_class s) x t)) (pos s))
    (count (fun x => dec (score_class s) (equal_class s) x t) (neg s))
    (count (fun x => negb (dec (score_class s) (equal_class s) x t)) (neg s) + easy_neg s).
Proof. exact cm_counts. Qed.
Print Assumptions C01_cm_counts.

(* TP+FN and FP+TN never depend on the threshold *)
Theorem C01_margins_const : forall (s : scores) (t t' : ext),
  ctp (cm s t) + cfn (cm s t) = ctp (cm s t') + cfn (cm s t') /\
  cfp (cm s t) + ctn (cm s t) = cfp (cm s t') + ctn (cm s t').
Proof. exact cm_margins_const. Qed.
Print Assumptions C01_margins_const.

Theorem C01_margins : forall (s : scores) (t : ext),
  ctp (cm s t) + cfn (cm s t) = len (pos s) + easy_pos s /\
  cfp (cm s t) + ctn (cm s t) = len (neg s) + easy_neg s.
Proof. exact cm_margins. Qed.
Print Assumptions C01_margins.

(* pointwise_cm summed over samples gives the same matrix *)
Theorem C01_pointwise_sum : forall sc ec (labels : list bool) (xs : list Q) (t : ext),
  pointwise_sum sc ec labels xs t = cm (from_labels labels xs 0 0 sc ec false) t.
Proof. exact pointwise_sum_eq_cm. Qed.
Print Assumptions C01_pointwise_sum.

(* A textbook lower/upper-bound binary search (Model/Bsearch.v) returns, on a
   sorted array, exactly the count that the model above uses for np.searchsorted; hence Scores.cm
   computed through the binary search equals counting whenever the constructor's sortedness invariant
   holds (wf). *)
Theorem C01_binary_search_is_count : forall (sd : side) (l : list Q) (t : ext),
  sorted l -> searchsorted_bin sd l t = searchsorted sd l t.
Proof. exact searchsorted_bin_count. Qed.
Print Assumptions C01_binary_search_is_count.

Theorem C01_cm_through_binary_search : forall (s : scores) (t : ext), wf s -> cm_bin s t = cm s t.
Proof. exact cm_bin_cm. Qed.
Print Assumptions C01_cm_through_binary_search.

(* the sortedness hypothesis is not decoration: a binary search on unsorted data (is_sorted=True
   passed wrongly) does not count (documented caller obligation, not a defect) *)
Example C01_needs_sorted_example :
  cm_bin (mk_scores [3#1; 1#1; 2#1] [0#1] 0 0 Pos Pos true) (Fin (2#1)) = mkCmz 1 2 0 1 /\
  cm (mk_scores [3#1; 1#1; 2#1] [0#1] 0 0 Pos Pos true) (Fin (2#1)) = mkCmz 2 1 0 1.
Proof. split; reflexivity. Qed.

(* non-vacuity: a concrete object with ties across classes and an easy sample *)
Example C01_example :
  cm (mk_scores [3#1; 1#1; 2#1] [2#1; 0#1] 1 0 Pos Neg false) (Fin (2#1)) = mkCmz 2 2 0 2.
Proof. reflexivity. Qed.
