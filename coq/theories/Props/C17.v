(* Props/C17.v — property C17 (general threshold search): statements only.
   Each is closed by a lemma of Proofs/InvertPLFacts.v.
   Vocabulary (Model/InvertPL.v): [pl_wf x y] = same length, x non-decreasing, equal x carry equal y
   (the docstring's assumption); [is_crossing y t j] = segment j satisfies the code's crossing_up or
   crossing_down test; [on_graph x y z v] = (z, v) lies on the piecewise-linear interpolant of the
   samples; [invert1 x y t] = the array returned for one target; [invert_pl] = the whole call. *)
From SA Require Import Model.InvertPL Proofs.InvertPLFacts.
Open Scope Q_scope.

(* When some segment crosses, every returned point is the interpolation point of a crossing
   segment: it lies in [x_j, x_{j+1}) and the chord through the two samples takes the value t there. *)
Theorem C17_crossing_points : forall x y t z, pl_wf x y -> (exists j, is_crossing y t j) ->
  In z (invert1 x y t) ->
  exists j, is_crossing y t j /\ z = interp x y t j /\
    nth j x 0 <= z /\ z < nth (S j) x 0 /\
    t == nth j y 0 + (nth (S j) y 0 - nth j y 0) * ((z - nth j x 0) / (nth (S j) x 0 - nth j x 0)).
Proof. exact invert1_crossing_sound. Qed.
Print Assumptions C17_crossing_points.

(* "points at which the interpolant equals the target whenever the samples cross or touch it":
   if a sample equals t, or two consecutive samples lie strictly on either side of t, then every
   returned point is a solution of f(z) = t. *)
Theorem C17_solutions : forall x y t, pl_wf x y -> y <> [] ->
  (exists j, (j < length y)%nat /\ nth j y 0 == t) \/
  (exists j, (S j < length y)%nat /\
     ((nth j y 0 < t /\ t < nth (S j) y 0) \/ (nth (S j) y 0 < t /\ t < nth j y 0))) ->
  Forall (fun z => on_graph x y z t) (invert1 x y t).
Proof. exact invert1_solutions. Qed.
Print Assumptions C17_solutions.

Theorem C17_strictly_increasing : forall x y t, pl_wf x y -> strictly_increasing (invert1 x y t).
Proof. exact invert1_increasing. Qed.
Print Assumptions C17_strictly_increasing.

Theorem C17_inside_sampled_range : forall x y t z, pl_wf x y -> y <> [] -> In z (invert1 x y t) ->
  nth 0 x 0 <= z /\ z <= nth (length x - 1) x 0.
Proof. exact invert1_in_range. Qed.
Print Assumptions C17_inside_sampled_range.

(* every strict sign change between consecutive samples is represented by a point strictly inside
   that segment *)
Theorem C17_complete_strict : forall x y t j, pl_wf x y -> (S j < length y)%nat ->
  (nth j y 0 < t /\ t < nth (S j) y 0) \/ (nth (S j) y 0 < t /\ t < nth j y 0) ->
  exists z, In z (invert1 x y t) /\ nth j x 0 < z /\ z < nth (S j) x 0.
Proof. exact invert1_complete_strict. Qed.
Print Assumptions C17_complete_strict.

(* touch table (DESIGN A.5): a sample equal to t whose successor differs from t — whatever the
   predecessor does, so all four rows of the table and the right end of a plateau — is reported
   exactly once, as the sample point itself *)
Theorem C17_touch_once : forall x y t j, pl_wf x y -> (S j < length y)%nat ->
  nth j y 0 == t -> ~ nth (S j) y 0 == t -> qcount (nth j x 0) (invert1 x y t) = 1%Z.
Proof. exact invert1_touch_once. Qed.
Print Assumptions C17_touch_once.

(* no crossing is recorded inside a plateau at the target *)
Theorem C17_plateau : forall y t j, nth j y 0 == t -> nth (S j) y 0 == t -> ~ is_crossing y t j.
Proof. exact plateau_no_crossing. Qed.
Print Assumptions C17_plateau.

(* otherwise: the single sample point whose value is closest to the target (first such index) *)
Theorem C17_fallback : forall x y t, y <> [] -> length x = length y -> (forall j, ~ is_crossing y t j) ->
  exists k, (k < length x)%nat /\ invert1 x y t = [nth k x 0] /\
    (forall m, (m < length y)%nat -> Qabs (nth k y 0 - t) <= Qabs (nth m y 0 - t)) /\
    (forall m, (m < k)%nat -> Qabs (nth k y 0 - t) < Qabs (nth m y 0 - t)).
Proof. exact invert1_fallback. Qed.
Print Assumptions C17_fallback.

(* one entry per target; a scalar target gives a bare array *)
Theorem C17_one_entry_per_target : forall x y tg, y <> [] ->
  match tg with
  | TScalar t => invert_pl x y tg = Ok (Bare (invert1 x y t))
  | TArray ts => exists s, invert_pl x y tg = Ok (ListOf s) /\ length s = length ts /\
                   forall k, (k < length ts)%nat -> nth k s [] = invert1 x y (nth k ts 0)
  end.
Proof. exact invert_pl_shape. Qed.
Print Assumptions C17_one_entry_per_target.

Theorem C17_error_iff_no_samples : forall x y tg, invert_pl x y tg = ErrValue <-> y = [].
Proof. exact invert_pl_err. Qed.
Print Assumptions C17_error_iff_no_samples.

(* threshold_at_metric is this inversion applied to the metric at the selected points ... *)
Theorem C17_threshold_at_metric : forall metric s tg p,
  threshold_at_metric metric s tg p =
  match select_points s p with
  | ErrValue => ErrValue
  | Ok points => invert_pl points (metric s points) tg
  end.
Proof. exact threshold_at_metric_is_inversion. Qed.
Print Assumptions C17_threshold_at_metric.

(* ... at all scores (sorted; ValueError iff fewer than two scores), ... *)
Theorem C17_points_all_scores : forall s pts, select_points s PNone = Ok pts ->
  sorted pts /\ Permutation (pos s ++ neg s) pts /\ (2 <= length pts)%nat.
Proof. exact select_points_none_sorted. Qed.
Print Assumptions C17_points_all_scores.
Theorem C17_points_all_scores_err : forall s,
  select_points s PNone = ErrValue <-> (length (pos s) + length (neg s) < 2)%nat.
Proof. exact select_points_err_none. Qed.
Print Assumptions C17_points_all_scores_err.

(* ... at k evenly spaced points spanning the scores (ValueError iff all scores coincide), ... *)
Theorem C17_points_int : forall s k l, wf s -> select_points s (PInt k) = Ok l ->
  exists mn mx, In mn (pos s ++ neg s) /\ In mx (pos s ++ neg s) /\
    (forall v, In v (pos s ++ neg s) -> mn <= v /\ v <= mx) /\ mn < mx /\ linspace mn mx k = Ok l.
Proof. exact select_points_int. Qed.
Print Assumptions C17_points_int.
Theorem C17_linspace : forall a b k, (2 <= k)%Z -> exists l, linspace a b k = Ok l /\ length l = Z.to_nat k /\
  nth 0 l 0 == a /\ nth (Z.to_nat k - 1) l 0 == b /\
  forall i, (i < Z.to_nat k)%nat -> nth i l 0 == a + inject_Z (Z.of_nat i) * ((b - a) / inject_Z (k - 1)).
Proof. exact linspace_spec. Qed.
Print Assumptions C17_linspace.
Theorem C17_linspace_sorted : forall a b k l, a < b -> (2 <= k)%Z -> linspace a b k = Ok l -> sorted l.
Proof. exact linspace_sorted. Qed.
Print Assumptions C17_linspace_sorted.
Theorem C17_points_int_err : forall s k, wf s -> (0 <= k)%Z ->
  (select_points s (PInt k) = ErrValue <->
   forall u v, In u (pos s ++ neg s) -> In v (pos s ++ neg s) -> u == v).
Proof. exact select_points_int_err. Qed.
Print Assumptions C17_points_int_err.

(* ... or at the user-supplied points. *)
Theorem C17_points_user : forall s pts, select_points s (PArr pts) = Ok pts.
Proof. exact select_points_arr. Qed.
Print Assumptions C17_points_user.

(* ---- non-vacuity: duplicates in x with equal y, a touch, a plateau at the target, two solutions *)
Example C17_example_wf :
  pl_wf [0; 1; 1; 2; 3; 4; 5] [0; 2; 2; 1; 1; 3; 0] /\
  map Qred (invert1 [0; 1; 1; 2; 3; 4; 5] [0; 2; 2; 1; 1; 3; 0] 1) = [1#2; 3; 14#3].
Proof.
  split; [|vm_compute; reflexivity]. split; [reflexivity|]. split.
  - repeat (constructor; [|repeat (constructor; try (unfold Qle; simpl; lia))]). constructor.
  - intros j Hj. simpl in Hj. do 6 (destruct j as [|j]; [simpl; intro H; try reflexivity; try (unfold Qeq in H; simpl in H; lia)|]). lia.
Qed.
(* boundary of the completeness clause (not part of the property text, which does not say "all
   solutions"; the docstring does): a touch at the LAST sample is not reported when another
   crossing exists.  The interpolant equals 1 at x = 2 as well. *)
Example C17_last_sample_touch_not_reported :
  map Qred (invert1 [0; 1; 2] [0; 2; 1] 1) = [1#2].
Proof. vm_compute. reflexivity. Qed.
Example C17_example_fallback : invert1 [0; 1; 2] [0; 0; 0] 5 = [0].
Proof. vm_compute. reflexivity. Qed.
