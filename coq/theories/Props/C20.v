(* Props/C20.v — property C20 (synthetic datasets): statements only, each closed by a lemma of
   Proofs/DatasetsFacts.v.  scipy.stats.norm.{cdf, ppf, sf, isf} and np.sqrt are universally quantified
   functions Q -> Q; what is assumed of them is written in each statement (oracle hypotheses, DESIGN 3.4). *)
From SA Require Import Model.Datasets Proofs.DatasetsFacts.
Open Scope Q_scope.

(* ---- NormalDataset: analytic rates and thresholds are mutually inverse *)
Theorem C20_fnr_of_threshold_at_fnr : forall Cdf Ppf : Q -> Q,
  (forall a b, a == b -> Cdf a == Cdf b) ->
  (forall p, 0 < p -> p < 1 -> Cdf (Ppf p) == p) ->
  forall d x, ~ sigma_pos d == 0 -> 0 < x -> x < 1 ->
  nd_fnr Cdf d (nd_threshold_at_fnr Ppf d x) == x.
Proof. exact fnr_at_threshold_at_fnr. Qed.
Print Assumptions C20_fnr_of_threshold_at_fnr.
Theorem C20_threshold_at_fnr_of_fnr : forall Cdf Ppf : Q -> Q,
  (forall z, Ppf (Cdf z) == z) ->
  forall d t, ~ sigma_pos d == 0 -> nd_threshold_at_fnr Ppf d (nd_fnr Cdf d t) == t.
Proof. exact threshold_at_fnr_at_fnr. Qed.
Print Assumptions C20_threshold_at_fnr_of_fnr.
Theorem C20_fpr_of_threshold_at_fpr : forall Sf Isf : Q -> Q,
  (forall a b, a == b -> Sf a == Sf b) ->
  (forall p, 0 < p -> p < 1 -> Sf (Isf p) == p) ->
  forall d x, ~ sigma_neg d == 0 -> 0 < x -> x < 1 ->
  nd_fpr Sf d (nd_threshold_at_fpr Isf d x) == x.
Proof. exact fpr_at_threshold_at_fpr. Qed.
Print Assumptions C20_fpr_of_threshold_at_fpr.
Theorem C20_threshold_at_fpr_of_fpr : forall Sf Isf : Q -> Q,
  (forall z, Isf (Sf z) == z) ->
  forall d t, ~ sigma_neg d == 0 -> nd_threshold_at_fpr Isf d (nd_fpr Sf d t) == t.
Proof. exact threshold_at_fpr_at_fpr. Qed.
Print Assumptions C20_threshold_at_fpr_of_fpr.

(* ---- roc(): rates consistent with the thresholds, thresholds at the requested operating points *)
Theorem C20_roc_consistent : forall (Cdf Ppf Sf Isf : Q -> Q) d fnr fpr fn fp th,
  nd_roc Cdf Ppf Sf Isf d fnr fpr = Ok (fn, fp, th) ->
  fn = map (nd_fnr Cdf d) th /\ fp = map (nd_fpr Sf d) th /\
  ((exists f, fnr = Some f /\ fpr = None /\ th = map (nd_threshold_at_fnr Ppf d) f) \/
   (exists f, fnr = None /\ fpr = Some f /\ th = map (nd_threshold_at_fpr Isf d) f)).
Proof. exact roc_consistent. Qed.
Print Assumptions C20_roc_consistent.
Theorem C20_roc_error : forall (Cdf Ppf Sf Isf : Q -> Q) d fnr fpr,
  nd_roc Cdf Ppf Sf Isf d fnr fpr = ErrValue <-> (fnr = None /\ fpr = None) \/ (fnr <> None /\ fpr <> None).
Proof. exact roc_error. Qed.
Print Assumptions C20_roc_error.

(* ---- from_metrics: FNR and FPR at threshold 0 are the requested ones, with the implied sizes *)
Theorem C20_from_metrics_fnr : forall Cdf Ppf : Q -> Q,
  (forall a b, a == b -> Cdf a == Cdf b) ->
  (forall p, 0 < p -> p < 1 -> Cdf (Ppf p) == p) ->
  forall fnr fpr fs ps sp sn, ~ sp == 0 -> 0 < fnr -> fnr < 1 ->
  nd_fnr Cdf (nd_from_metrics Ppf fnr fpr fs ps sp sn) 0 == fnr.
Proof. exact from_metrics_fnr. Qed.
Print Assumptions C20_from_metrics_fnr.
Theorem C20_from_metrics_fpr : forall Cdf Ppf Sf : Q -> Q,
  (forall a b, a == b -> Sf a == Sf b) ->
  (forall p, 0 < p -> p < 1 -> Cdf (Ppf p) == p) ->
  (forall z, Sf z == 1 - Cdf z) ->
  forall fnr fpr fs ps sp sn, ~ sn == 0 -> 0 < fpr -> fpr < 1 ->
  nd_fpr Sf (nd_from_metrics Ppf fnr fpr fs ps sp sn) 0 == fpr.
Proof. exact from_metrics_fpr. Qed.
Print Assumptions C20_from_metrics_fpr.
Theorem C20_from_metrics_sizes : forall (Ppf : Q -> Q) fnr fpr fs ps sp sn,
  0 < fnr -> 0 < fpr -> (0 <= fs)%Z -> (0 <= ps)%Z ->
  let d := nd_from_metrics Ppf fnr fpr fs ps sp sn in
  let nb_pos := Qfloor (inject_Z fs / fnr) in
  let nb_neg := Qfloor (inject_Z ps / fpr) in
  n_ds d = Some (nb_pos + nb_neg)%Z /\ p_pos d = inject_Z nb_pos / inject_Z (nb_pos + nb_neg) /\
  sigma_pos d = sp /\ sigma_neg d = sn /\ nd_score_class d = Pos /\
  mu_pos d = - Ppf fnr * sp /\ mu_neg d = - Ppf (1 - fpr) * sn.
Proof. exact from_metrics_sizes. Qed.
Print Assumptions C20_from_metrics_sizes.

(* ---- sample(): n scores split k / n-k with the model's score direction, for every draw history
        within numpy's contract (0 <= k <= n, the normal draws have the requested sizes) *)
Theorem C20_sample_sizes : forall d n_arg p_arg k xs ys calls s n,
  (match n_arg with Some m => Some m | None => n_ds d end) = Some n ->
  nd_sample d n_arg p_arg k xs ys = Some (calls, s) ->
  (0 <= k <= n)%Z -> len xs = k -> len ys = (n - k)%Z ->
  (len (pos s) + len (neg s) = n)%Z /\ len (pos s) = k /\
  score_class s = nd_score_class d /\ easy_pos s = 0%Z /\ easy_neg s = 0%Z /\
  Permutation xs (pos s) /\ Permutation ys (neg s) /\ sorted (pos s) /\ sorted (neg s) /\
  calls = [CBinomial n (match p_arg with Some p => p | None => p_pos d end) None;
           CNormal (mu_pos d) (sigma_pos d) k; CNormal (mu_neg d) (sigma_neg d) (n - k)].
Proof. exact nd_sample_sizes. Qed.
Print Assumptions C20_sample_sizes.

(* ---- BernoulliDataset, non-random: exactly floor(n*p) successes in n draws, whatever the shuffle *)
Theorem C20_bernoulli_nonrandom : forall p n_self n_arg n perm,
  n_or n_arg n_self = Some n -> (0 <= n)%Z -> 0 <= p -> p <= 1 -> is_perm perm (Z.to_nat n) ->
  exists data, bern_sample p n_self n_arg false (HShuffle perm) = Ok ([CShuffle n], data) /\
    ones data = Qfloor (inject_Z n * p) /\ len data = n /\ all01 data.
Proof. exact bern_nonrandom. Qed.
Print Assumptions C20_bernoulli_nonrandom.
Theorem C20_bernoulli_random : forall p n_self n_arg n vals, n_or n_arg n_self = Some n ->
  bern_sample p n_self n_arg true (HBinomial vals) = Ok ([CBinomial 1 p (Some n)], vals).
Proof. exact bern_random. Qed.
Print Assumptions C20_bernoulli_random.
Theorem C20_bernoulli_no_size : forall p n_self n_arg random h, n_or n_arg n_self = None ->
  bern_sample p n_self n_arg random h = ErrValue.
Proof. exact bern_no_size. Qed.
Print Assumptions C20_bernoulli_no_size.

(* ---- CorrelatedBernoullilDataset (for every sqrt function: no hypothesis on np.sqrt is needed) *)
Theorem C20_joint_probabilities_sum_to_one : forall (sqrtQ : Q -> Q) p1 p2 rho,
  Qsum (corr_probs sqrtQ p1 p2 rho) == 1.
Proof. exact corr_probs_sum. Qed.
Print Assumptions C20_joint_probabilities_sum_to_one.
Theorem C20_joint_marginals : forall (sqrtQ : Q -> Q) p1 p2 rho,
  exists a0 a1 a2 a3, corr_probs sqrtQ p1 p2 rho = [a0; a1; a2; a3] /\
    a0 + a1 + a2 + a3 == 1 /\ a1 + a3 == p1 /\ a2 + a3 == p2.
Proof. exact corr_probs_shape. Qed.
Print Assumptions C20_joint_marginals.
(* ValueError exactly when some joint probability is negative *)
Theorem C20_correlated_error_iff : forall (sqrtQ : Q -> Q) p1 p2 rho n_self n_arg n random h,
  n_or n_arg n_self = Some n -> (0 <= n)%Z ->
  (random = true -> exists j, h = HChoice j) ->
  (random = false -> exists perm, h = HShuffle perm /\ is_perm perm (Z.to_nat n)) ->
  (corr_sample sqrtQ p1 p2 rho n_self n_arg random h = ErrValue <->
   exists q, In q (corr_probs sqrtQ p1 p2 rho) /\ q < 0).
Proof. exact corr_error_iff. Qed.
Print Assumptions C20_correlated_error_iff.
(* non-random sample: shape (2,n), 0/1 values, both marginal counts in [n*p_i, n*p_i + 2): the sum
   of two fractional parts — inside the property's "within three draws" *)
Theorem C20_correlated_nonrandom : forall (sqrtQ : Q -> Q) p1 p2 rho n_self n_arg n perm,
  n_or n_arg n_self = Some n -> (0 <= n)%Z ->
  (forall q, In q (corr_probs sqrtQ p1 p2 rho) -> 0 <= q) -> is_perm perm (Z.to_nat n) ->
  exists r0 r1, corr_sample sqrtQ p1 p2 rho n_self n_arg false (HShuffle perm) = Ok ([CShuffle n], (r0, r1)) /\
    len r0 = n /\ len r1 = n /\ all01 r0 /\ all01 r1 /\
    inject_Z n * p1 <= inject_Z (ones r0) /\ inject_Z (ones r0) < inject_Z n * p1 + 2 /\
    inject_Z n * p2 <= inject_Z (ones r1) /\ inject_Z (ones r1) < inject_Z n * p2 + 2.
Proof. exact corr_nonrandom. Qed.
Print Assumptions C20_correlated_nonrandom.
Theorem C20_correlated_random : forall (sqrtQ : Q -> Q) p1 p2 rho n_self n_arg n joint,
  n_or n_arg n_self = Some n -> (forall q, In q (corr_probs sqrtQ p1 p2 rho) -> 0 <= q) ->
  corr_sample sqrtQ p1 p2 rho n_self n_arg true (HChoice joint) =
  Ok ([CChoice 4 n (corr_probs sqrtQ p1 p2 rho)], (map (fun j => (j mod 2)%Z) joint, map (fun j => (j / 2)%Z) joint)).
Proof. exact corr_random. Qed.
Print Assumptions C20_correlated_random.
Theorem C20_correlated_random_shape : forall (joint : list Z) (n : Z), len joint = n ->
  Forall (fun j => (0 <= j <= 3)%Z) joint ->
  len (map (fun j => (j mod 2)%Z) joint) = n /\ len (map (fun j => (j / 2)%Z) joint) = n /\
  all01 (map (fun j => (j mod 2)%Z) joint) /\ all01 (map (fun j => (j / 2)%Z) joint).
Proof. exact corr_random_shape. Qed.
Print Assumptions C20_correlated_random_shape.

(* ---- non-vacuity *)
(* the oracle hypotheses are jointly satisfiable (a toy "distribution" on Q: Cdf z = z) *)
Example C20_hypotheses_consistent :
  let Cdf := fun z : Q => z in let Ppf := fun p : Q => p in
  let Sf := fun z : Q => 1 - z in let Isf := fun p : Q => 1 - p in
  (forall a b, a == b -> Cdf a == Cdf b) /\ (forall a b, a == b -> Sf a == Sf b) /\
  (forall p, 0 < p -> p < 1 -> Cdf (Ppf p) == p) /\ (forall z, Ppf (Cdf z) == z) /\
  (forall p, 0 < p -> p < 1 -> Sf (Isf p) == p) /\ (forall z, Isf (Sf z) == z) /\
  (forall z, Sf z == 1 - Cdf z).
Proof. cbv zeta. repeat split; intros; try assumption; try ring; try (now rewrite H). Qed.
(* n*p not an integer: 7 * 3/10 = 2.1 -> 2 ones; shuffle [6;0;5;1;4;2;3] *)
Example C20_example_bernoulli :
  bern_sample (3 # 10) None (Some 7%Z) false (HShuffle [6; 0; 5; 1; 4; 2; 3]%nat) =
  Ok ([CShuffle 7], [1; 0; 1; 0; 0; 0; 0]%Z).
Proof. vm_compute. reflexivity. Qed.
(* rho <> 0 (sqrt supplied as a rational over-approximation): p1 = p2 = 1/2, rho = 1/2, n = 10 *)
Example C20_example_correlated :
  corr_sample (fun _ => 1 # 4) (1 # 2) (1 # 2) (1 # 2) (Some 10%Z) None false (HShuffle (seq 0 10)) =
  Ok ([CShuffle 10], ([0; 0; 0; 1; 0; 1; 1; 1; 1; 1]%Z, [0; 0; 0; 0; 1; 1; 1; 1; 1; 1]%Z)).
Proof. vm_compute. reflexivity. Qed.
(* a negative joint probability: rho = -1 with p1 = p2 = 1/4 *)
Example C20_example_correlated_error :
  corr_sample (fun _ => 3 # 16) (1 # 4) (1 # 4) (-1) (Some 10%Z) None false (HShuffle (seq 0 10)) = ErrValue.
Proof. vm_compute. reflexivity. Qed.
