(* Props/C14.v — property C14 (Scores.bootstrap_metric / bootstrap_ci): statements only; proofs in
   Proofs/BootMetricFacts.v.  The model (Model/BootMetric.v) is parametric in the object type S, the kwargs K,
   metric values V, attribute names N, draw histories H, the built-in samplers (property C11) and
   getattr(type(self), .); every statement below holds for all of them.  The equality between the generated
   definitions of the two Python functions and this model is re-proved on every run (coq/ties/Tie_boot.v). *)
From SA Require Import Model.BootMetric Proofs.BootCIFacts Proofs.BootMetricFacts.
Open Scope Q_scope.

(* one row per bootstrap sample (nb_samples rows); row j is the metric — resolved on the object's own class
   when given by name, with the caller's kwargs — of the j-th sample the configured sampler produced *)
Theorem C14_rows : forall (S K V N H : Type) dynamic_choice builtin_sample getattr_type
    (self : S) (metric : metric_arg S K V N) (cfg : config S) (hist : nat -> H) (kw : K) rows d,
  bootstrap_metric S K V N H dynamic_choice builtin_sample getattr_type self metric cfg hist kw = Ok rows ->
  length rows = nb_samples cfg /\
  forall j, (j < nb_samples cfg)%nat ->
    exists sample, bootstrap_sample S H dynamic_choice builtin_sample self cfg (hist j) j = Ok sample /\
                   nth j rows d = resolve_metric S K V N getattr_type self metric sample kw.
Proof. exact bootstrap_metric_rows. Qed.
Print Assumptions C14_rows.

Theorem C14_rows_converse : forall (S K V N H : Type) dynamic_choice builtin_sample getattr_type
    (self : S) (metric : metric_arg S K V N) (cfg : config S) (hist : nat -> H) (kw : K) (samples : nat -> S),
  (forall j, (j < nb_samples cfg)%nat -> bootstrap_sample S H dynamic_choice builtin_sample self cfg (hist j) j = Ok (samples j)) ->
  bootstrap_metric S K V N H dynamic_choice builtin_sample getattr_type self metric cfg hist kw
  = Ok (map (fun j => resolve_metric S K V N getattr_type self metric (samples j) kw) (seq 0 (nb_samples cfg))).
Proof. exact bootstrap_metric_ok. Qed.
Print Assumptions C14_rows_converse.

(* keyword arguments are forwarded unchanged *)
Theorem C14_kwargs_forwarded : forall (S K V N H : Type) dynamic_choice builtin_sample getattr_type
    (self : S) (f : metric_fn S K V) (cfg : config S) (hist : nat -> H) (kw kw' : K),
  bootstrap_metric S K V N H dynamic_choice builtin_sample getattr_type self (Callable f) cfg hist kw
  = bootstrap_metric S K V N H dynamic_choice builtin_sample getattr_type self (Callable (fun x _ => f x kw)) cfg hist kw'.
Proof. exact bootstrap_metric_kwargs. Qed.
Print Assumptions C14_kwargs_forwarded.

(* names are resolved with getattr(type(self), name), i.e. along the class chain of the object itself, so a
   method defined by the subclass (GroupScores.group_tpr, or an override) is the one used *)
Theorem C14_by_name : forall (S K V N H : Type) dynamic_choice builtin_sample getattr_type
    (self : S) (nm : N) (cfg : config S) (hist : nat -> H) (kw : K),
  bootstrap_metric S K V N H dynamic_choice builtin_sample getattr_type self (ByName nm) cfg hist kw
  = bootstrap_metric S K V N H dynamic_choice builtin_sample getattr_type self (Callable (getattr_type self nm)) cfg hist kw.
Proof. exact bootstrap_metric_by_name. Qed.
Print Assumptions C14_by_name.
Theorem C14_subclass_method_wins : forall (N F : Type) (N_eqb : N -> N -> bool) own bases nm f,
  lookup N F N_eqb own nm = Some f -> lookup_mro N F N_eqb (own :: bases) nm = Some f.
Proof. exact lookup_mro_subclass. Qed.
Print Assumptions C14_subclass_method_wins.
Theorem C14_inherited_method : forall (N F : Type) (N_eqb : N -> N -> bool) own bases nm,
  lookup N F N_eqb own nm = None -> lookup_mro N F N_eqb (own :: bases) nm = lookup_mro N F N_eqb bases nm.
Proof. exact lookup_mro_inherited. Qed.
Print Assumptions C14_inherited_method.

(* custom sampler dispatch: a callable sampling_method is applied to self, once per row *)
Theorem C14_custom_sampler : forall (S K V N H : Type) dynamic_choice builtin_sample getattr_type
    (self : S) (metric : metric_arg S K V N) (cfg : config S) f (hist : nat -> H) (kw : K),
  sampling_method cfg = SCallable f ->
  bootstrap_metric S K V N H dynamic_choice builtin_sample getattr_type self metric cfg hist kw
  = Ok (map (fun j => resolve_metric S K V N getattr_type self metric (f j self) kw) (seq 0 (nb_samples cfg))).
Proof. exact bootstrap_metric_custom. Qed.
Print Assumptions C14_custom_sampler.
Theorem C14_bad_sampler_raises : forall (S H : Type) dynamic_choice builtin_sample (self : S) (cfg : config S) (h : H) j,
  sampling_method cfg = SUnsupportedStr \/ sampling_method cfg = SOther ->
  bootstrap_sample S H dynamic_choice builtin_sample self cfg h j = Err.
Proof. exact unsupported_sampler_raises. Qed.
Print Assumptions C14_bad_sampler_raises.

(* bootstrap_ci = the CI routine on exactly those replicates, point estimate = metric of the original object,
   the caller's alpha, the configured method *)
Theorem C14_ci_is_formula : forall (S K V N H R : Type) dynamic_choice builtin_sample getattr_type utils_bootstrap_ci
    (self : S) (metric : metric_arg S K V N) alpha (cfg : config S) (hist : nat -> H) (kw : K),
  bootstrap_ci_m S K V N H R dynamic_choice builtin_sample getattr_type utils_bootstrap_ci self metric alpha cfg hist kw =
  match bootstrap_metric S K V N H dynamic_choice builtin_sample getattr_type self metric cfg hist kw with
  | Ok rows => utils_bootstrap_ci rows (Some (resolve_metric S K V N getattr_type self metric self kw)) alpha (bootstrap_method cfg)
  | Err => Err
  end.
Proof. exact bootstrap_ci_m_spec. Qed.
Print Assumptions C14_ci_is_formula.

(* identity sampler: all replicates equal the estimate ... *)
Theorem C14_identity_rows : forall (S K V N H : Type) dynamic_choice builtin_sample getattr_type
    (self : S) (metric : metric_arg S K V N) (cfg : config S) (hist : nat -> H) (kw : K),
  (forall j, (j < nb_samples cfg)%nat -> bootstrap_sample S H dynamic_choice builtin_sample self cfg (hist j) j = Ok self) ->
  bootstrap_metric S K V N H dynamic_choice builtin_sample getattr_type self metric cfg hist kw
  = Ok (repeat (resolve_metric S K V N getattr_type self metric self kw) (nb_samples cfg)).
Proof. exact bootstrap_metric_identity. Qed.
Print Assumptions C14_identity_rows.
(* ... and the C13 routine on such replicates returns (estimate, estimate) for every finite component, for all
   three methods (bc/bca go through p0 = 1, z0 = +inf, level 1).  No hypothesis on Phi/PhiInv/pow15. *)
Theorem C14_identity_collapse : forall (Phi PhiInv pow15 : Q -> Q) yshape (hat : list rate) n alpha m,
  0 < alpha -> alpha < 1 -> (0 < n)%nat -> length hat = prod_shape yshape ->
  (forall j, (j < length hat)%nat -> exists c, nth j hat None = Some c) ->
  exists data, utils_ci Phi PhiInv pow15 yshape (repeat hat n) (Some hat) alpha m = Ok (yshape ++ [2%nat], data) /\
    length data = (2 * length hat)%nat /\
    forall j c, (j < length hat)%nat -> nth j hat None = Some c ->
      exists lo hi, nth (j * 2 + 0) data None = Some lo /\ nth (j * 2 + 1) data None = Some hi /\ lo == c /\ hi == c.
Proof. exact identity_collapse. Qed.
Print Assumptions C14_identity_collapse.
(* end to end: Scores.bootstrap_ci under an identity sampler *)
Theorem C14_identity_ci : forall (S K N H : Type) dynamic_choice builtin_sample getattr_type (Phi PhiInv pow15 : Q -> Q) yshape
    (self : S) (metric : metric_arg S K (list rate) N) alpha (cfg : config S) (hist : nat -> H) (kw : K),
  let hat := resolve_metric S K (list rate) N getattr_type self metric self kw in
  (forall j, (j < nb_samples cfg)%nat -> bootstrap_sample S H dynamic_choice builtin_sample self cfg (hist j) j = Ok self) ->
  0 < alpha -> alpha < 1 -> (0 < nb_samples cfg)%nat -> length hat = prod_shape yshape ->
  (forall j, (j < length hat)%nat -> exists c, nth j hat None = Some c) ->
  exists data,
    bootstrap_ci_m S K (list rate) N H _ dynamic_choice builtin_sample getattr_type (utils_ci Phi PhiInv pow15 yshape)
                   self metric alpha cfg hist kw = Ok (yshape ++ [2%nat], data) /\
    forall j c, (j < length hat)%nat -> nth j hat None = Some c ->
      exists lo hi, nth (j * 2 + 0) data None = Some lo /\ nth (j * 2 + 1) data None = Some hi /\ lo == c /\ hi == c.
Proof. exact identity_ci. Qed.
Print Assumptions C14_identity_ci.

(* an integer-valued metric (e.g. confusion-matrix counts) is treated like the same values as floats (fix 4a7af20) *)
Theorem C14_int_metric_same : forall (S K N H : Type) dynamic_choice builtin_sample getattr_type (Phi PhiInv pow15 : Q -> Q) dt yshape
    (self : S) (metric : metric_arg S K (list rate) N) alpha (cfg : config S) (hist : nat -> H) (kw : K),
  bootstrap_ci_m S K (list rate) N H _ dynamic_choice builtin_sample getattr_type (utils_ci_dt Phi PhiInv pow15 dt yshape)
                 self metric alpha cfg hist kw
  = bootstrap_ci_m S K (list rate) N H _ dynamic_choice builtin_sample getattr_type (utils_ci Phi PhiInv pow15 yshape)
                 self metric alpha cfg hist kw.
Proof. exact int_metric_same. Qed.
Print Assumptions C14_int_metric_same.

(* the CI routine never makes bootstrap_ci fail (fix fa251ac): when the sampling calls succeed, bc/bca return shape
   metric_shape+(2,), entry j = one-component interval of replicate column j with estimate j — (NaN, NaN) exactly for
   components that are NaN in every sample (C13_component_total), the other components unaffected *)
Theorem C14_ci_total : forall (S K N H : Type) dynamic_choice builtin_sample getattr_type (Phi PhiInv pow15 : Q -> Q) yshape
    (self : S) (metric : metric_arg S K (list rate) N) alpha (cfg : config S) (hist : nat -> H) (kw : K) rows,
  (forall x, 0 <= Phi x /\ Phi x <= 1) ->
  bootstrap_method cfg <> MQuantile ->
  bootstrap_metric S K (list rate) N H dynamic_choice builtin_sample getattr_type self metric cfg hist kw = Ok rows ->
  let hat := resolve_metric S K (list rate) N getattr_type self metric self kw in
  length hat = prod_shape yshape ->
  exists data,
    bootstrap_ci_m S K (list rate) N H _ dynamic_choice builtin_sample getattr_type (utils_ci Phi PhiInv pow15 yshape)
                   self metric alpha cfg hist kw = Ok (yshape ++ [2%nat], data) /\
    forall j, (j < prod_shape yshape)%nat ->
      ci_col Phi PhiInv pow15 (bootstrap_method cfg) (column rows j) (nth j hat None) alpha
      = Ok (nth (j * 2 + 0) data None, nth (j * 2 + 1) data None).
Proof. exact bootstrap_ci_m_total. Qed.
Print Assumptions C14_ci_total.

(* reproducibility: results are a function of the arguments and of the RNG draw histories of the calls made;
   equal histories (same global seed, same call sequence) give equal results *)
Theorem C14_deterministic_metric : forall (S K V N H : Type) dynamic_choice builtin_sample getattr_type
    (self : S) (metric : metric_arg S K V N) (cfg : config S) (hist hist' : nat -> H) (kw : K),
  (forall j, (j < nb_samples cfg)%nat -> hist j = hist' j) ->
  bootstrap_metric S K V N H dynamic_choice builtin_sample getattr_type self metric cfg hist kw
  = bootstrap_metric S K V N H dynamic_choice builtin_sample getattr_type self metric cfg hist' kw.
Proof. exact bootstrap_metric_deterministic. Qed.
Print Assumptions C14_deterministic_metric.
Theorem C14_deterministic_ci : forall (S K V N H R : Type) dynamic_choice builtin_sample getattr_type utils_bootstrap_ci
    (self : S) (metric : metric_arg S K V N) alpha (cfg : config S) (hist hist' : nat -> H) (kw : K),
  (forall j, (j < nb_samples cfg)%nat -> hist j = hist' j) ->
  bootstrap_ci_m S K V N H R dynamic_choice builtin_sample getattr_type utils_bootstrap_ci self metric alpha cfg hist kw
  = bootstrap_ci_m S K V N H R dynamic_choice builtin_sample getattr_type utils_bootstrap_ci self metric alpha cfg hist' kw.
Proof. exact bootstrap_ci_m_deterministic. Qed.
Print Assumptions C14_deterministic_ci.

(* non-vacuity: objects = lists of scores, metric "mean-like" = first element + kwarg, a counting custom sampler
   that shifts by the call index, looked up by name on a subclass that overrides the base method *)
Example C14_example :
  let S := list Q in
  let base : class_table nat (metric_fn S Q (list rate)) := [(0%nat, fun s k => [Some (hd 0 s + k)])] in
  let sub : class_table nat (metric_fn S Q (list rate)) := [(0%nat, fun s k => [Some (hd 0 s + k + 100)])] in
  let ga (self : S) (nm : nat) := match lookup_mro nat _ Nat.eqb [sub; base] nm with Some f => f | None => fun _ _ => [] end in
  let cfg := mkConfig 3%nat MQuantile (SCallable (fun j s => map (fun x => x + inject_Z (Z.of_nat j)) s)) in
  bootstrap_metric S Q (list rate) nat unit (fun _ c => sampling_method c) (fun _ _ _ _ => Err) ga [1; 2] (ByName 0%nat) cfg (fun _ => tt) (1#2)
  = Ok [[Some (1 + inject_Z 0 + (1#2) + 100)]; [Some (1 + inject_Z 1 + (1#2) + 100)]; [Some (1 + inject_Z 2 + (1#2) + 100)]].
Proof. reflexivity. Qed.
