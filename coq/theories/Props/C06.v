From SA Require Import Model.Eer.
Example C06_placeholder : isclose 1 1 = true.
Proof. reflexivity. Qed.
