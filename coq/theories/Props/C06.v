(* Props/C06.v — property C06: EER is a crossing point. Statements only.
   Model of the repaired tree (fix 8b94371: strict comparisons in the perfect-separation shortcut).
   succ/pred = np.nextafter; fuel = bound on bisection iterations (64 in the executable instance). *)
From SA Require Import Model.Eer Proofs.InvIncrFacts Proofs.RoundtripFacts Proofs.EerFacts Proofs.EerGapFacts Proofs.CarrierB64.
Open Scope Q_scope.

(* 0 <= e <= 1 and e never exceeds the smaller of the two hard-sample fractions: all inputs with both
   classes non-empty, ties allowed, all configurations, any easy counts. *)
Theorem C06_range :
  forall (succ pred : Q -> Q) (fuel : nat) (s : scores) (t e : Q),
  proper s -> eer succ pred fuel s = Ret (t, e) ->
  0 <= e /\ e <= Qmin2 (hard_pos_ratio s) (hard_neg_ratio s) /\ e <= 1.
Proof. exact eer_range. Qed.
Print Assumptions C06_range.

(* for ANY input (ties included) a reported EER of 0 comes with a threshold at which there are no
   errors.  On the original tree this failed for classes sharing their boundary score
   (known_findings.json, fixed 8b94371). *)
Theorem C06_zero_clause :
  forall (succ pred : Q -> Q) (fuel : nat) (s : scores) (t e : Q),
  proper s -> eer succ pred fuel s = Ret (t, e) -> e == 0 ->
  cfp (cm s (Fin t)) = 0%Z /\ cfn (cm s (Fin t)) = 0%Z.
Proof. exact eer_zero_no_errors. Qed.
Print Assumptions C06_zero_clause.

(* FPR side: whenever the returned threshold is the FPR-side threshold for e (the bisection exit
   and the hard_pos_ratio < hard_neg_ratio edge exit return exactly that), the false-positive count
   is within one sample of e * N_neg_all; untied negatives. *)
Theorem C06_fpr_side :
  forall (succ pred : Q -> Q), (forall x, x < succ x) -> (forall x, pred x < x) ->
  forall (fuel : nat) (s : scores) (t e : Q),
  proper s -> ssorted (neg s) -> eer succ pred fuel s = Ret (t, e) -> t = t_fpr succ pred s e ->
  within1 (cfp (cm s (Fin t))) (e * inject_Z (len (neg s) + easy_neg s)).
Proof. exact eer_fpr_side. Qed.
Print Assumptions C06_fpr_side.

(* the two hypotheses on nextafter are theorems about the binary64 model (Proofs/CarrierB64.v) *)
Theorem C06_fpr_side_binary64 :
  forall (fuel : nat) (s : scores) (t e : Q),
  proper s -> ssorted (neg s) -> eer succ64 pred64 fuel s = Ret (t, e) -> t = t_fpr succ64 pred64 s e ->
  within1 (cfp (cm s (Fin t))) (e * inject_Z (len (neg s) + easy_neg s)).
Proof. exact (C06_fpr_side succ64 pred64 succ64_gt pred64_lt). Qed.
Print Assumptions C06_fpr_side_binary64.

(* FNR side, _partial: proved whenever no scored positive is decided differently by the returned threshold and by
   the FNR-side threshold for e ([not_separated]: the two thresholds lie in the same gap between consecutive
   positives; in particular when they coincide, the exact-root case below).  The full clause needs that
   condition: it is guaranteed when the bisection tolerance is small against the gaps of the positives
   (rho = N_neg * max gap(neg) * xtol / min gap(pos) < 1, DESIGN A.4); without it the clause is FALSE on the real
   code: clustered positives 0.5 + i*1.25e-12, neg = [0,1] give FNR(t)=1.0 at e=0.25 (known_findings.json, open).
   The oracle checks the clause on every run and classifies failures by rho. *)
Theorem C06_fnr_side_same_gap_partial :
  forall (succ pred : Q -> Q), (forall x, x < succ x) -> (forall x, pred x < x) ->
  forall (fuel : nat) (s : scores) (t e : Q),
  proper s -> ssorted (pos s) -> eer succ pred fuel s = Ret (t, e) ->
  not_separated s t (t_fnr succ pred s e) ->
  within1 (cfn (cm s (Fin t))) (e * inject_Z (len (pos s) + easy_pos s)).
Proof. exact eer_fnr_side_same_gap. Qed.
Print Assumptions C06_fnr_side_same_gap_partial.

Theorem C06_fnr_side_partial :
  forall (succ pred : Q -> Q), (forall x, x < succ x) -> (forall x, pred x < x) ->
  forall (fuel : nat) (s : scores) (t e : Q),
  proper s -> ssorted (pos s) -> eer succ pred fuel s = Ret (t, e) -> t = t_fnr succ pred s e ->
  within1 (cfn (cm s (Fin t))) (e * inject_Z (len (pos s) + easy_pos s)).
Proof. exact eer_fnr_side_exact_root. Qed.
Print Assumptions C06_fnr_side_partial.

(* the bisection never leaves its interval (any f, any fuel) *)
Theorem C06_find_root_range :
  forall fuel (f : Q -> Q) xa xe ff xtol r, xa <= xe -> find_root fuel f xa xe ff xtol = Ret r -> xa <= r /\ r <= xe.
Proof. exact find_root_range. Qed.
Print Assumptions C06_find_root_range.

(* Equivariance under increasing affine maps: Props/C08.v, C08_eer_affine_compatible (maps commuting with nextafter: identical
   EER, mapped threshold); general maps and direction reversal: checked on the implementation (C06 / C08 oracles). *)

Example C06_example :
  match eer succ64 pred64 64 (mk_scores [1#1; 3#1; 5#1; 7#1] [0#1; 2#1; 4#1; 6#1] 0 0 Pos Pos false) with
  | Ret (t, e) => Qeqb e (5#16) && Qeqb t (7#2)
  | Raise => false end = true.
Proof. vm_compute. reflexivity. Qed.

(* the same-gap hypothesis is satisfiable where the exact-root one is not: here the returned threshold differs from
   the FNR-side threshold for e, and no positive lies between them *)
Example C06_same_gap_example :
  let s := mk_scores [1#1; 3#1; 5#1; 8#1; 9#1] [0#1; 2#1; 4#1; 6#1] 0 0 Pos Pos false in
  match eer succ64 pred64 64 s with
  | Ret (t, e) =>
      forallb (fun p => Bool.eqb (dec Pos Pos p (Fin t)) (dec Pos Pos p (Fin (t_fnr succ64 pred64 s e)))) (pos s)
      && negb (Qeqb t (t_fnr succ64 pred64 s e))
  | Raise => false end = true.
Proof. vm_compute. reflexivity. Qed.
