(* Props/C02.v — property C02: threshold setting round-trips within one sample; the three methods are
   coherent. Statements only. Exact-rational model of the repaired tree; np.nextafter = succ/pred with
   x < succ x, pred x < x.  "within1 c v" means c - 1 <= v <= c + 1 (counts, i.e. rates times the
   population: one sample).  "ssorted l" = strictly increasing (no value repeated). *)
From SA Require Import Model.Threshold Proofs.ExtremeFacts Proofs.InvIncrFacts Proofs.RoundtripFacts.
Open Scope Q_scope.

(* --- round trip, untied scores: for each metric the count that defines it, at the returned
   threshold (method linear), is within ONE sample of the hard target times the class size; the hard
   target is the requested rate rescaled for easy samples and clipped to [0,1] (hard_target_*
   are the literal rescaling expressions of the code). All four configurations, any easy counts. --- *)
Theorem C02_roundtrip_untied :
  forall (succ pred : Q -> Q), (forall x, x < succ x) -> (forall x, pred x < x) ->
  forall (s : scores) (r T : Q),
  (ssorted (pos s) -> threshold_at_tpr succ pred s r Linear = Ret T ->
     within1 (ctp (cm s (Fin T)) - easy_pos s) (clip01 (hard_target_tpr s r) * inject_Z (len (pos s)))) /\
  (ssorted (pos s) -> threshold_at_fnr succ pred s r Linear = Ret T ->
     within1 (cfn (cm s (Fin T))) (clip01 (hard_target_fnr s r) * inject_Z (len (pos s)))) /\
  (ssorted (neg s) -> threshold_at_tnr succ pred s r Linear = Ret T ->
     within1 (ctn (cm s (Fin T)) - easy_neg s) (clip01 (hard_target_tnr s r) * inject_Z (len (neg s)))) /\
  (ssorted (neg s) -> threshold_at_fpr succ pred s r Linear = Ret T ->
     within1 (cfp (cm s (Fin T))) (clip01 (hard_target_fpr s r) * inject_Z (len (neg s)))) /\
  (ssorted (concat_scores s) -> threshold_at_topr succ pred s r Linear = Ret T ->
     within1 (ctp (cm s (Fin T)) + cfp (cm s (Fin T)) - easy_pos s)
             (clip01 (hard_target_topr s r) * inject_Z (len (concat_scores s)))) /\
  (ssorted (concat_scores s) -> threshold_at_tonr succ pred s r Linear = Ret T ->
     within1 (cfn (cm s (Fin T)) + ctn (cm s (Fin T)) - easy_neg s)
             (clip01 (hard_target_tonr s r) * inject_Z (len (concat_scores s)))).
Proof.
  intros succ pred Hs Hp s r T.
  split; [intros; now apply (roundtrip_tpr succ pred Hs Hp)|].
  split; [intros; now apply (roundtrip_fnr succ pred Hs Hp)|].
  split; [intros; now apply (roundtrip_tnr succ pred Hs Hp)|].
  split; [intros; now apply (roundtrip_fpr succ pred Hs Hp)|].
  split; [intros; now apply (roundtrip_topr succ pred Hs Hp)|].
  intros; now apply (roundtrip_tonr succ pred Hs Hp).
Qed.
Print Assumptions C02_roundtrip_untied.

(* the same with the rescaling spelled out in terms of the requested rate r, for the four class
   metrics: the defining count is within one sample of r * N_all clipped to the achievable range
   ([0, N] false negatives / false positives; [e, N + e] true positives / negatives, written here
   after subtracting the e easy samples), and for TOPR / TONR over the whole population
   (count of test-positive / test-negative outcomes minus the easy positives / negatives within one
   sample of r * N_all - e clipped to [0, N_hard]). *)
Theorem C02_roundtrip_rates :
  forall (succ pred : Q -> Q), (forall x, x < succ x) -> (forall x, pred x < x) ->
  forall s r T,
  (ssorted (pos s) -> (0 <= easy_pos s)%Z -> threshold_at_tpr succ pred s r Linear = Ret T ->
     within1 (ctp (cm s (Fin T)) - easy_pos s)
             (clipQ 0 (inject_Z (len (pos s))) (r * inject_Z (len (pos s) + easy_pos s) - inject_Z (easy_pos s)))) /\
  (ssorted (pos s) -> (0 <= easy_pos s)%Z -> threshold_at_fnr succ pred s r Linear = Ret T ->
     within1 (cfn (cm s (Fin T))) (clipQ 0 (inject_Z (len (pos s))) (r * inject_Z (len (pos s) + easy_pos s)))) /\
  (ssorted (neg s) -> (0 <= easy_neg s)%Z -> threshold_at_tnr succ pred s r Linear = Ret T ->
     within1 (ctn (cm s (Fin T)) - easy_neg s)
             (clipQ 0 (inject_Z (len (neg s))) (r * inject_Z (len (neg s) + easy_neg s) - inject_Z (easy_neg s)))) /\
  (ssorted (neg s) -> (0 <= easy_neg s)%Z -> threshold_at_fpr succ pred s r Linear = Ret T ->
     within1 (cfp (cm s (Fin T))) (clipQ 0 (inject_Z (len (neg s))) (r * inject_Z (len (neg s) + easy_neg s)))) /\
  (ssorted (concat_scores s) -> (0 <= easy_pos s)%Z -> (0 <= easy_neg s)%Z -> threshold_at_topr succ pred s r Linear = Ret T ->
     within1 (ctp (cm s (Fin T)) + cfp (cm s (Fin T)) - easy_pos s)
             (clipQ 0 (inject_Z (nb_hard_samples s)) (r * inject_Z (nb_all_samples s) - inject_Z (easy_pos s)))) /\
  (ssorted (concat_scores s) -> (0 <= easy_pos s)%Z -> (0 <= easy_neg s)%Z -> threshold_at_tonr succ pred s r Linear = Ret T ->
     within1 (cfn (cm s (Fin T)) + ctn (cm s (Fin T)) - easy_neg s)
             (clipQ 0 (inject_Z (nb_hard_samples s)) (r * inject_Z (nb_all_samples s) - inject_Z (easy_neg s)))).
Proof.
  intros succ pred Hs Hp s r T.
  split; [intros; now apply (roundtrip_tpr_rate succ pred s r T Hs Hp)|].
  split; [intros; now apply (roundtrip_fnr_rate succ pred s r T Hs Hp)|].
  split; [intros; now apply (roundtrip_tnr_rate succ pred s r T Hs Hp)|].
  split; [intros; now apply (roundtrip_fpr_rate succ pred s r T Hs Hp)|].
  split; [intros; now apply (roundtrip_topr_rate succ pred s r T Hs Hp)|].
  intros; now apply (roundtrip_tonr_rate succ pred s r T Hs Hp).
Qed.
Print Assumptions C02_roundtrip_rates.

(* --- ties allowed: the metric just below and just above the returned threshold (counting with <
   and with <=) brackets the hard target to the same tolerance; stated on _threshold_at_ratio for any
   list of scores, direction flags and target (all six metrics go through it) --- *)
Theorem C02_bracket_with_ties :
  forall (succ pred : Q -> Q), (forall x, x < succ x) -> (forall x, pred x < x) ->
  forall (s : scores) (l : list Q) (u : Q) (increasing : bool) (ratio_class : label),
  sorted l -> (1 <= len l)%Z ->
  let T := threshold_at_ratio succ pred s l u increasing ratio_class Linear in
  let v := (if flipped s increasing then 1 - clip01 u else clip01 u) * inject_Z (len l) in
  inject_Z (below SLeft l T) - 1 <= v /\ v <= inject_Z (below SRight l T) + 1.
Proof. exact tar_bracket. Qed.
Print Assumptions C02_bracket_with_ties.

(* --- coherence of the three methods (normalised increasing metric = _invert_increasing_function) --- *)
Theorem C02_lower_higher_are_samples_or_sentinels :
  forall (succ pred : Q -> Q) (l : list Q) (u : Q) (lc : bool), (1 <= len l)%Z ->
  (In (inv_incr succ pred l u lc Lower) l \/ inv_incr succ pred l u lc Lower = pred (nthZ l 0)
     \/ inv_incr succ pred l u lc Lower = succ (nthZ l (len l - 1))) /\
  (In (inv_incr succ pred l u lc Higher) l \/ inv_incr succ pred l u lc Higher = pred (nthZ l 0)
     \/ inv_incr succ pred l u lc Higher = succ (nthZ l (len l - 1))).
Proof. exact lower_higher_in_list. Qed.
Print Assumptions C02_lower_higher_are_samples_or_sentinels.

Theorem C02_linear_between_lower_and_higher :
  forall (succ pred : Q -> Q) (l : list Q) (u : Q) (lc : bool), sorted l -> (1 <= len l)%Z ->
  inv_incr succ pred l u lc Lower <= inv_incr succ pred l u lc Linear /\
  inv_incr succ pred l u lc Linear <= inv_incr succ pred l u lc Higher.
Proof. exact lower_le_linear_le_higher. Qed.
Print Assumptions C02_linear_between_lower_and_higher.

(* linear = convex combination of lower and higher weighted by ceil(x) - x, x = (shifted) target * N *)
Theorem C02_linear_is_convex_combination :
  forall (succ pred : Q -> Q) (l : list Q) (u : Q) (lc : bool),
  let la := inject_Z (Qceiling (xpos l u lc)) - xpos l u lc in
  inv_incr succ pred l u lc Linear == la * inv_incr succ pred l u lc Lower + (1 - la) * inv_incr succ pred l u lc Higher.
Proof. exact linear_convex. Qed.
Print Assumptions C02_linear_is_convex_combination.

(* metric(lower) <= metric(higher) for the normalised metric, with either tie convention *)
Theorem C02_metric_lower_le_higher :
  forall (succ pred : Q -> Q) (l : list Q) (u : Q) (lc : bool), sorted l -> (1 <= len l)%Z ->
  (count (fun x => Qltb x (inv_incr succ pred l u lc Lower)) l <= count (fun x => Qltb x (inv_incr succ pred l u lc Higher)) l)%Z /\
  (count (fun x => Qleb x (inv_incr succ pred l u lc Lower)) l <= count (fun x => Qleb x (inv_incr succ pred l u lc Higher)) l)%Z.
Proof. exact lower_higher_counts. Qed.
Print Assumptions C02_metric_lower_le_higher.

(* the threshold is a monotone function of the target, for every method: non-decreasing for the
   normalised increasing metric, and through _threshold_at_ratio non-decreasing / non-increasing
   according to whether the direction is flipped (decreasing metric xor score_class = neg) *)
Theorem C02_threshold_monotone_in_target :
  forall (succ pred : Q -> Q), (forall x, x < succ x) -> (forall x, pred x < x) ->
  forall (l : list Q) (u u' : Q) (lc : bool) (m : method), sorted l -> (1 <= len l)%Z -> u <= u' ->
  inv_incr succ pred l u lc m <= inv_incr succ pred l u' lc m.
Proof. exact inv_monotone. Qed.
Print Assumptions C02_threshold_monotone_in_target.

Theorem C02_threshold_at_ratio_monotone :
  forall (succ pred : Q -> Q) s l u u' inc rc m,
  (forall x, x < succ x) -> (forall x, pred x < x) -> sorted l -> (1 <= len l)%Z -> u <= u' ->
  if flipped s inc then threshold_at_ratio succ pred s l u' inc rc m <= threshold_at_ratio succ pred s l u inc rc m
  else threshold_at_ratio succ pred s l u inc rc m <= threshold_at_ratio succ pred s l u' inc rc m.
Proof. exact tar_monotone. Qed.
Print Assumptions C02_threshold_at_ratio_monotone.


From SA Require Import Proofs.CarrierB64.

(* ---- binary64: the only facts about np.nextafter used above, x < succ x and pred x < x, are theorems about the executable
   binary64 model (succ64_gt, pred64_lt in Proofs/CarrierB64.v), so every statement above that quantifies over succ / pred
   holds of that model with no hypothesis on nextafter left.  The statement of X_binary64 is the statement of X with
   succ := succ64, pred := pred64 and the two hypotheses discharged (computed from X's own type, so it cannot drift). ---- *)
Theorem C02_roundtrip_untied_binary64 :
  ltac:(let t := type of (on_binary64 C02_roundtrip_untied) in let t' := eval cbv beta in t in exact t').
Proof. exact (on_binary64 C02_roundtrip_untied). Qed.
Print Assumptions C02_roundtrip_untied_binary64.
Theorem C02_roundtrip_rates_binary64 :
  ltac:(let t := type of (on_binary64 C02_roundtrip_rates) in let t' := eval cbv beta in t in exact t').
Proof. exact (on_binary64 C02_roundtrip_rates). Qed.
Print Assumptions C02_roundtrip_rates_binary64.
Theorem C02_bracket_with_ties_binary64 :
  ltac:(let t := type of (on_binary64 C02_bracket_with_ties) in let t' := eval cbv beta in t in exact t').
Proof. exact (on_binary64 C02_bracket_with_ties). Qed.
Print Assumptions C02_bracket_with_ties_binary64.
Theorem C02_threshold_monotone_in_target_binary64 :
  ltac:(let t := type of (on_binary64 C02_threshold_monotone_in_target) in let t' := eval cbv beta in t in exact t').
Proof. exact (on_binary64 C02_threshold_monotone_in_target). Qed.
Print Assumptions C02_threshold_monotone_in_target_binary64.

Example C02_example :
  ssorted [1#1; 2#1; 4#1; 8#1] /\
  match threshold_at_fnr succ64 pred64 (mk_scores [1#1; 2#1; 4#1; 8#1] [3#1] 0 0 Pos Pos false) (3#8) Linear with
  | Ret t => Qeqb t (3#1) | Raise => false end = true.
Proof.
  split; [unfold ssorted; repeat first [apply SSorted_nil | apply SSorted_cons | apply Forall_nil | apply Forall_cons | reflexivity]|vm_compute; reflexivity].
Qed.
