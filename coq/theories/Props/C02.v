(* Props/C02.v — placeholder while the proofs are being written *)
From SA Require Import Model.Threshold.
Example C02_placeholder : reverse_method Lower = Higher.
Proof. reflexivity. Qed.
