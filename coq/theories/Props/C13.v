(* Props/C13.v — property C13 (utils.bootstrap_ci): statements only; proofs in Proofs/QuantileFacts.v,
   Proofs/BootCIFacts.v.  Phi = scipy.stats.norm.cdf, PhiInv = scipy.stats.norm.ppf on (0,1),
   pow15 = (x -> x ** 1.5): universally quantified oracles; the hypotheses made on them appear in each
   statement and are repeated in the harness TRUSTED list.  rate = option Q, None = NaN.
   [ci_col m col th alpha] = limits of ONE metric component (column [col] of theta, estimate [th]);
   [bootstrap_ci] = the whole array call.  [res_rel req2] = equal results up to == on Q (Err with Err). *)
From SA Require Import Model.BootCI Proofs.QuantileFacts Proofs.BootCIFacts.
Open Scope Q_scope.

(* ---------------- agreement with the documented formulas (unconditional) ---------------- *)

(* 'quantile': the alpha/2 and 1-alpha/2 empirical quantiles (NumPy linear method, NaNs removed) *)
Theorem C13_quantile_formula : forall (Phi PhiInv pow15 : Q -> Q) col th alpha,
  0 < alpha -> alpha < 1 ->
  ci_col Phi PhiInv pow15 MQuantile col th alpha
  = Ok (nanquantile col (alpha * (1#2)), nanquantile col (1 - alpha * (1#2))).
Proof. exact quantile_formula. Qed.
Print Assumptions C13_quantile_formula.

(* the empirical quantile itself: order statistics at the grid points k/(n-1), linear in between
   (definition of quantile_sorted in Model/BootCI.v); NaNs are dropped first *)
Theorem C13_quantile_grid : forall (l : list Q) (k : nat),
  (1 < length l)%nat -> (k < length l)%nat ->
  quantile_sorted l (inject_Z (Z.of_nat k) / inject_Z (len l - 1)) == nth k l 0.
Proof. exact quantile_sorted_grid. Qed.
Print Assumptions C13_quantile_grid.

(* p0 = fraction of the non-NaN replicates not exceeding the estimate (NaN comparisons are False) *)
Theorem C13_p0_formula : forall col t,
  p0_of col (Some t) =
  rdiv (inject_Z (count (fun r : rate => match r with Some x => Qleb x t | None => false end) col))
       (inject_Z (count (fun r : rate => match r with Some _ => true | None => false end) col)).
Proof. exact p0_formula. Qed.
Print Assumptions C13_p0_formula.

(* 'bc': levels Phi(2 z0 + z_alpha), z0 = ppf(p0) (with ppf(0) = -inf, ppf(1) = +inf, cdf(-+inf) = 0,1),
   limits = empirical quantiles at those levels *)
Theorem C13_bc_formula : forall (Phi PhiInv pow15 : Q -> Q) col th alpha,
  levels Phi PhiInv pow15 MBc col th alpha =
  match ppf_x PhiInv (p0_of col th) with
  | Some (Fin z0) => (Some (Phi (2 * z0 + PhiInv (alpha * (1#2)))), Some (Phi (2 * z0 + PhiInv (1 - alpha * (1#2)))))
  | Some NegInf => (Some 0, Some 0)
  | Some PosInf => (Some 1, Some 1)
  | None => (None, None)
  end.
Proof. exact bc_formula. Qed.
Print Assumptions C13_bc_formula.

(* 'bca': levels Phi(z0 + (z0+z_alpha)/(1 - a (z0+z_alpha))); at the pole the float division gives +-inf;
   where z0 is not finite the code keeps z = z0 *)
Theorem C13_bca_formula : forall (Phi PhiInv pow15 : Q -> Q) col th alpha,
  levels Phi PhiInv pow15 MBca col th alpha =
  match ppf_x PhiInv (p0_of col th) with
  | Some (Fin z0) =>
      let a := accel pow15 col th in
      let lev za := let s := z0 + za in
                    if Qeqb (1 - a * s) 0 then Some (if Qltb 0 s then 1 else 0)
                    else Some (Phi (z0 + s / (1 - a * s))) in
      (lev (PhiInv (alpha * (1#2))), lev (PhiInv (1 - alpha * (1#2))))
  | Some NegInf => (Some 0, Some 0)
  | Some PosInf => (Some 1, Some 1)
  | None => (None, None)
  end.
Proof. exact bca_formula. Qed.
Print Assumptions C13_bca_formula.

(* the acceleration a = sum d^3 / (6 (sum d^2)^1.5) over the non-NaN replicates, 0 when the denominator is 0 *)
Theorem C13_accel_formula : forall (pow15 : Q -> Q) col t,
  accel pow15 col (Some t) =
  let d := map (fun x => x - t) (somes col) in
  let den := 6 * pow15 (Qsum (map (fun x => x * x) d)) in
  if Qeqb den 0 then 0 else Qsum (map (fun x => x * x * x) d) / den.
Proof. exact accel_formula. Qed.
Print Assumptions C13_accel_formula.

(* z0 = ppf(p0) is the finite normal score strictly inside (0,1) *)
Theorem C13_z0_formula : forall (PhiInv : Q -> Q) p, 0 < p -> p < 1 -> ppf_x PhiInv (Some p) = Some (Fin (PhiInv p)).
Proof. exact ppf_x_inside. Qed.
Print Assumptions C13_z0_formula.

(* bc/bca limits are the empirical quantiles at the adjusted levels *)
Theorem C13_bcx_limits : forall (Phi PhiInv pow15 : Q -> Q) m col th alpha,
  m <> MQuantile ->
  ci_col Phi PhiInv pow15 m col th alpha = ci_at_levels col (levels Phi PhiInv pow15 m col th alpha).
Proof. exact bcx_limits. Qed.
Print Assumptions C13_bcx_limits.

(* with a = 0 bca is bc (comment in the code) *)
Theorem C13_bca_reduces_to_bc : forall a z0 za, a == 0 -> xeq (bca_arg a z0 za) (bc_arg z0 za).
Proof. exact bca_arg_a0. Qed.
Print Assumptions C13_bca_reduces_to_bc.

(* ---------------- the empirical quantile: the facts everything else rests on ---------------- *)
Theorem C13_quantile_monotone : forall col q q', 0 <= q -> q <= q' -> q' <= 1 -> rle (nanquantile col q) (nanquantile col q').
Proof. exact nanquantile_mono. Qed.
Print Assumptions C13_quantile_monotone.

Theorem C13_quantile_in_range : forall col q v, 0 <= q -> q <= 1 -> nanquantile col q = Some v ->
  (exists a b, In (Some a) col /\ In (Some b) col /\ a <= v /\ v <= b) /\
  (forall m, (forall x, In (Some x) col -> m <= x) -> m <= v) /\
  (forall M, (forall x, In (Some x) col -> x <= M) -> v <= M).
Proof. exact nanquantile_range. Qed.
Print Assumptions C13_quantile_in_range.

Theorem C13_quantile_perm_nan : forall c1 c2 q, Permutation (somes c1) (somes c2) -> req (nanquantile c1 q) (nanquantile c2 q).
Proof. exact nanquantile_perm. Qed.
Print Assumptions C13_quantile_perm_nan.

Theorem C13_quantile_affine : forall a b col q, 0 < a -> 0 <= q -> q <= 1 ->
  req (nanquantile (map (rmap (fun x => a * x + b)) col) q) (rmap (fun x => a * x + b) (nanquantile col q)).
Proof. exact nanquantile_affine. Qed.
Print Assumptions C13_quantile_affine.

(* ---------------- derived clauses, all three methods ---------------- *)
(* side_cond m col th alpha: True for quantile and bc; for bca, where z0 is finite,
   -1 < a (z0 + z_alpha) < 1 for both tails (the property's side condition). *)

(* both limits are numbers as soon as the component has one finite replicate (Phi takes values in [0,1]) *)
Theorem C13_bcx_defined : forall (Phi PhiInv pow15 : Q -> Q),
  (forall x, 0 <= Phi x /\ Phi x <= 1) ->
  forall m col th alpha, m <> MQuantile -> somes col <> [] ->
  exists ql qu lo hi, levels Phi PhiInv pow15 m col th alpha = (Some ql, Some qu) /\
    ci_col Phi PhiInv pow15 m col th alpha = Ok (Some lo, Some hi) /\
    nanquantile col ql = Some lo /\ nanquantile col qu = Some hi.
Proof. exact ci_col_bcx_ok. Qed.
Print Assumptions C13_bcx_defined.

(* lower <= upper *)
Theorem C13_ordered : forall (Phi PhiInv pow15 : Q -> Q),
  (forall x, 0 <= Phi x /\ Phi x <= 1) ->
  (forall x y, x <= y -> Phi x <= Phi y) ->
  (forall p p', 0 < p -> p <= p' -> p' < 1 -> PhiInv p <= PhiInv p') ->
  forall m col th alpha lo hi,
  0 < alpha -> alpha < 1 -> side_cond PhiInv pow15 m col th alpha ->
  ci_col Phi PhiInv pow15 m col th alpha = Ok (lo, hi) -> rle lo hi.
Proof. exact ci_col_ordered. Qed.
Print Assumptions C13_ordered.

(* within the range of the finite replicates (no hypothesis on the oracles is needed) *)
Theorem C13_in_range : forall (Phi PhiInv pow15 : Q -> Q) m col th alpha lo hi,
  ci_col Phi PhiInv pow15 m col th alpha = Ok (lo, hi) -> in_range col lo /\ in_range col hi.
Proof. exact ci_col_in_range. Qed.
Print Assumptions C13_in_range.

(* unchanged by NaN replicates and by reordering: the result depends on the multiset of finite replicates only *)
Theorem C13_nan_perm_invariant : forall (Phi PhiInv pow15 : Q -> Q),
  (forall x y, x == y -> Phi x == Phi y) ->
  (forall x y, x == y -> pow15 x == pow15 y) ->
  forall m c1 c2 th alpha, Permutation (somes c1) (somes c2) ->
  res_rel req2 (ci_col Phi PhiInv pow15 m c1 th alpha) (ci_col Phi PhiInv pow15 m c2 th alpha).
Proof. exact ci_col_perm. Qed.
Print Assumptions C13_nan_perm_invariant.
Theorem C13_nan_insert : forall l1 l2, somes (l1 ++ None :: l2) = somes (l1 ++ l2).
Proof. exact somes_insert_none. Qed.
Print Assumptions C13_nan_insert.
Theorem C13_reorder : forall l1 l2, Permutation l1 l2 -> Permutation (somes l1) (somes l2).
Proof. exact somes_perm. Qed.
Print Assumptions C13_reorder.

(* equivariant under x -> a x + b, a > 0, applied to replicates and estimate *)
Theorem C13_affine_equivariant : forall (Phi PhiInv pow15 : Q -> Q),
  (forall x y, x == y -> Phi x == Phi y) ->
  (forall x y, x == y -> pow15 x == pow15 y) ->
  (forall c x, 0 < c -> pow15 (c * c * x) == c * c * c * pow15 x) ->
  forall m a b col th alpha, 0 < a ->
  res_rel req2 (ci_col Phi PhiInv pow15 m (map (rmap (fun x => a * x + b)) col) (rmap (fun x => a * x + b) th) alpha)
               (res_map (pair_map (rmap (fun x => a * x + b))) (ci_col Phi PhiInv pow15 m col th alpha)).
Proof. exact ci_col_affine. Qed.
Print Assumptions C13_affine_equivariant.

(* nested in alpha *)
Theorem C13_nested : forall (Phi PhiInv pow15 : Q -> Q),
  (forall x, 0 <= Phi x /\ Phi x <= 1) ->
  (forall x y, x <= y -> Phi x <= Phi y) ->
  (forall p p', 0 < p -> p <= p' -> p' < 1 -> PhiInv p <= PhiInv p') ->
  forall m col th alpha alpha' lo hi lo' hi',
  0 < alpha -> alpha <= alpha' -> alpha' < 1 ->
  side_cond PhiInv pow15 m col th alpha -> side_cond PhiInv pow15 m col th alpha' ->
  ci_col Phi PhiInv pow15 m col th alpha = Ok (lo, hi) ->
  ci_col Phi PhiInv pow15 m col th alpha' = Ok (lo', hi') ->
  rle lo lo' /\ rle hi' hi.
Proof. exact ci_col_nested. Qed.
Print Assumptions C13_nested.

(* ---------------- the array call: components, shape ---------------- *)

(* quantile method, scalar or array alpha: the moveaxis/reshape bookkeeping yields shape
   metric_shape+alpha_shape+(2,) and puts at [y, k, :] the pair of quantiles of component y at alpha_k *)
Theorem C13_quantile_array : forall yshape rows ashape alphas,
  Forall (fun a => 0 <= a /\ a <= 1) alphas ->
  bootstrap_ci_quantile yshape rows ashape alphas
  = Ok (yshape ++ ashape ++ [2%nat], quantile_pairs (columns rows (prod_shape yshape)) alphas).
Proof. exact bootstrap_ci_quantile_ok. Qed.
Print Assumptions C13_quantile_array.
Theorem C13_quantile_array_entries : forall cols alphas j k,
  (j < length cols)%nat -> (k < length alphas)%nat ->
  nth (j * (length alphas * 2) + (k * 2 + 0)) (quantile_pairs cols alphas) None
    = nanquantile (nth j cols []) (nth k alphas 0 * (1#2)) /\
  nth (j * (length alphas * 2) + (k * 2 + 1)) (quantile_pairs cols alphas) None
    = nanquantile (nth j cols []) (1 - nth k alphas 0 * (1#2)).
Proof. exact quantile_pairs_nth. Qed.
Print Assumptions C13_quantile_array_entries.

(* bc/bca: entry j of a successful array call is the one-component computation on column j and estimate j *)
Theorem C13_component_independent : forall (Phi PhiInv pow15 : Q -> Q) m yshape rows hs alpha sh data j,
  m <> MQuantile -> length hs = prod_shape yshape -> (j < prod_shape yshape)%nat ->
  bootstrap_ci_bcx Phi PhiInv pow15 m yshape rows (Some hs) alpha = Ok (sh, data) ->
  ci_col Phi PhiInv pow15 m (column rows j) (nth j hs None) alpha
    = Ok (nth (j * 2 + 0) data None, nth (j * 2 + 1) data None) /\
  length data = prod_shape sh.
Proof. exact bootstrap_ci_bcx_component. Qed.
Print Assumptions C13_component_independent.

(* ... and (after fix fa251ac) the call always succeeds, so component independence is unconditional: under
   0 <= Phi <= 1 a bc/bca call returns an array of shape metric_shape+(2,), every entry being the one-component
   computation on its own column and estimate; a component without a finite replicate gets (NaN, NaN) and does
   not affect the others. *)
Theorem C13_component_independent_total : forall (Phi PhiInv pow15 : Q -> Q),
  (forall x, 0 <= Phi x /\ Phi x <= 1) ->
  forall m yshape rows hs alpha,
  m <> MQuantile -> length hs = prod_shape yshape ->
  exists data, bootstrap_ci_bcx Phi PhiInv pow15 m yshape rows (Some hs) alpha = Ok (yshape ++ [2%nat], data) /\
    length data = prod_shape (yshape ++ [2%nat]) /\
    forall j, (j < prod_shape yshape)%nat ->
      ci_col Phi PhiInv pow15 m (column rows j) (nth j hs None) alpha = Ok (nth (j * 2 + 0) data None, nth (j * 2 + 1) data None).
Proof. exact bootstrap_ci_bcx_total. Qed.
Print Assumptions C13_component_independent_total.
Theorem C13_all_nan_component_nan : forall (Phi PhiInv pow15 : Q -> Q) m col th alpha,
  m <> MQuantile -> somes col = [] -> ci_col Phi PhiInv pow15 m col th alpha = Ok (None, None).
Proof. exact ci_col_bcx_nan. Qed.
Print Assumptions C13_all_nan_component_nan.
(* one component: never an exception; the limits are NaN exactly when there is no finite replicate *)
Theorem C13_component_total : forall (Phi PhiInv pow15 : Q -> Q),
  (forall x, 0 <= Phi x /\ Phi x <= 1) ->
  forall m col th alpha, m <> MQuantile ->
  exists lo hi, ci_col Phi PhiInv pow15 m col th alpha = Ok (lo, hi) /\
    (lo = None <-> somes col = []) /\ (hi = None <-> somes col = []).
Proof. exact ci_col_bcx_total. Qed.
Print Assumptions C13_component_total.
(* the array call can only raise if some component's own computation raises (which the previous theorem excludes) *)
Theorem C13_array_raises_iff : forall (Phi PhiInv pow15 : Q -> Q) m yshape rows hs alpha,
  m <> MQuantile ->
  (bootstrap_ci_bcx Phi PhiInv pow15 m yshape rows (Some hs) alpha = Err <->
   exists c h, In (c, h) (combine (columns rows (prod_shape yshape)) hs) /\ ci_col Phi PhiInv pow15 m c h alpha = Err).
Proof. exact bootstrap_ci_bcx_err. Qed.
Print Assumptions C13_array_raises_iff.
(* concrete instance: an all-NaN second component next to a finite first one, method bc *)
Example C13_all_nan_component_example : forall (Phi PhiInv pow15 : Q -> Q),
  bootstrap_ci_bcx Phi PhiInv pow15 MBc [2%nat] [[Some 1; None]; [Some 2; None]] (Some [Some 5; Some 5]) (1#10)
  = Ok ([2%nat; 2%nat], [nanquantile [Some 1; Some 2] 1; nanquantile [Some 1; Some 2] 1; None; None]).
Proof. intros. reflexivity. Qed.

(* shape metric_shape + alpha_shape + (2,) and as many entries *)
Theorem C13_shape : forall (Phi PhiInv pow15 : Q -> Q) yshape rows hats al m sh data,
  alpha_consistent al -> hats_consistent m yshape hats ->
  bootstrap_ci Phi PhiInv pow15 yshape rows hats al m = Ok (sh, data) ->
  sh = yshape ++ alpha_shape al ++ [2%nat] /\ length data = prod_shape sh.
Proof. exact bootstrap_ci_shape. Qed.
Print Assumptions C13_shape.

(* integer-typed replicates and estimate (after fix 4a7af20): treated exactly like the same values as floats, for
   every method; so formula agreement holds for count-valued metrics too *)
Theorem C13_int_dtype_same : forall (Phi PhiInv pow15 : Q -> Q) dt yshape rows hats al m,
  bootstrap_ci_dt Phi PhiInv pow15 dt yshape rows hats al m = bootstrap_ci Phi PhiInv pow15 yshape rows hats al m.
Proof. exact int_dtype_same. Qed.
Print Assumptions C13_int_dtype_same.

(* ---------------- non-vacuity ---------------- *)
(* a concrete oracle instance satisfying every hypothesis used above (piecewise-linear cdf, linear ppf,
   pow15 = 0: the homogeneity hypothesis has no other computable rational instance) *)
Example C13_hypotheses_satisfiable :
  (forall x, 0 <= Phi0 x /\ Phi0 x <= 1) /\ (forall x y, x <= y -> Phi0 x <= Phi0 y) /\
  (forall x y, x == y -> Phi0 x == Phi0 y) /\
  (forall p p', 0 < p -> p <= p' -> p' < 1 -> PhiInv0 p <= PhiInv0 p') /\
  (forall x y, x == y -> pow0 x == pow0 y) /\
  (forall c x, 0 < c -> pow0 (c * c * x) == c * c * c * pow0 x).
Proof.
  repeat split; try apply Phi0_range; [exact Phi0_mono|exact Phi0_comp|exact PhiInv0_mono|exact pow0_homog].
Qed.
(* concrete runs: a skewed column with a NaN, estimate inside the range; pow15 x = 7 x (close to x ** 1.5 at
   the value 42 where it is used) so that the acceleration is not 0 *)
Example C13_example_quantile :
  match ci_col Phi0 PhiInv0 pow0 MQuantile [Some 4; None; Some 1; Some 2; Some 8; Some 1] None (1#2) with
  | Ok (Some lo, Some hi) => lo == 1 /\ hi == 4
  | _ => False
  end.
Proof. vm_compute. split; reflexivity. Qed.
Example C13_example_bca :
  let col := [Some 4; None; Some 1; Some 2; Some 8; Some 1] in
  p0_of col (Some 2) = Some (3#5) /\
  side_cond PhiInv0 (fun x => 7 * x) MBca col (Some 2) (1#2) /\
  exists lo hi, ci_col Phi0 PhiInv0 (fun x => 7 * x) MBca col (Some 2) (1#2) = Ok (Some lo, Some hi) /\ lo < hi.
Proof.
  split; [reflexivity|]. split.
  - vm_compute. repeat split; discriminate || reflexivity.
  - eexists. eexists. split; [vm_compute; reflexivity|reflexivity].
Qed.
