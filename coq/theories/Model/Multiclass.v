(* Model/Multiclass.v — hand model of the multiclass part of score_analysis/cm.py (ConfusionMatrix):
   construction from labels / predictions / weights, from a dict of dicts, a DataFrame or an array,
   one_vs_all, the cm_class_metric wrapper, _class_metric_as_dict, and the N-class forms of
   metrics.pop / accuracy / error_rate.  One matrix at a time: a stacked input of leading shape X is
   the pointwise map (DESIGN 3.6).  Class labels are integers ([Z]); the harness maps string labels to
   integers by an order-preserving numbering, so that np.unique's order is the order on Z.
   No proofs here. *)
From SA Require Export Model.Metrics.
Open Scope Q_scope.

Definition cls := Z.
(* an N x N matrix: list of rows *)
Definition mat := list (list Q).

Definition sumQ (l : list Q) : Q := fold_right Qplus 0 l.
(* matrix[i, j] *)
Definition entry (M : mat) (i j : nat) : Q := nth j (nth i M []) 0.
(* np.sum(matrix[..., j, :], axis=-1) *)
Definition row_sum (M : mat) (j : nat) : Q := sumQ (nth j M []).
(* np.sum(matrix[..., :, j], axis=-1) *)
Definition col_sum (M : mat) (j : nat) : Q := sumQ (map (fun r => nth j r 0) M).
(* np.sum(matrix, axis=(-1, -2)) *)
Definition total (M : mat) : Q := sumQ (map sumQ M).
(* np.sum(np.diagonal(matrix, axis1=-1, axis2=-2), axis=-1) *)
Definition traceN (M : mat) : Q := sumQ (map (fun i => entry M i i) (seq 0 (length M))).

(* metrics.pop / accuracy / error_rate on an N x N matrix *)
Definition popN (M : mat) : Q := total M.
Definition accuracyN (M : mat) : rate := rdiv (traceN M) (total M).
Definition error_rateN (M : mat) : rate := rcompl (accuracyN M).

(* ---------- _assign_from_predictions ---------- *)
(* idx_map = {c: i for i, c in enumerate(classes)}: a later duplicate overwrites an earlier one *)
Fixpoint idx_from (i : nat) (classes : list cls) (c : cls) : option nat :=
  match classes with
  | [] => None
  | x :: r => match idx_from (S i) r c with
              | Some j => Some j
              | None => if Z.eqb x c then Some i else None
              end
  end.
Definition idx_map (classes : list cls) (c : cls) : option nat := idx_from 0 classes c.

(* np.zeros((n, n)) *)
Definition zeros (n : nat) : mat := repeat (repeat 0 n) n.
Fixpoint upd {A} (l : list A) (i : nat) (f : A -> A) : list A :=
  match l, i with
  | [], _ => []
  | x :: r, O => f x :: r
  | x :: r, S k => x :: upd r k f
  end.
(* matrix[i][j] += w *)
Definition add_at (M : mat) (i j : nat) (w : Q) : mat := upd M i (fun row => upd row j (fun x => x + w)).

(* (label, prediction, weight); weights=None is weight 1 for every sample *)
Definition sample := (cls * cls * Q)%type.
Definition s_label (s : sample) : cls := fst (fst s).
Definition s_pred (s : sample) : cls := snd (fst s).
Definition s_weight (s : sample) : Q := snd s.

(* one iteration of the for-loop; None = KeyError (label or prediction not among the classes) *)
Definition assign_step (classes : list cls) (acc : option mat) (s : sample) : option mat :=
  match acc with
  | None => None
  | Some M =>
      match idx_map classes (s_label s), idx_map classes (s_pred s) with
      | Some i, Some j => Some (add_at M i j (s_weight s))
      | _, _ => None
      end
  end.
Definition assign_from_predictions (classes : list cls) (samples : list sample) : option mat :=
  fold_left (assign_step classes) samples (Some (zeros (length classes))).

(* np.unique: sorted, duplicate-free *)
Fixpoint zinsert_uniq (x : Z) (l : list Z) : list Z :=
  match l with
  | [] => [x]
  | y :: r => if Z.ltb x y then x :: y :: r else if Z.eqb x y then y :: r else y :: zinsert_uniq x r
  end.
Definition np_unique (l : list Z) : list Z := fold_right zinsert_uniq [] l.
(* classes=None, binary=False: np.unique(np.concatenate([np.unique(labels), np.unique(predictions)])) *)
Definition implicit_classes (samples : list sample) : list cls :=
  np_unique (np_unique (map s_label samples) ++ np_unique (map s_pred samples)).

(* ---------- _assign_from_matrix ---------- *)
Fixpoint assoc {A} (k : cls) (d : list (cls * A)) : option A :=
  match d with
  | [] => None
  | (k', v) :: r => if Z.eqb k k' then Some v else assoc k r
  end.
Definition memz (x : Z) (l : list Z) : bool := existsb (Z.eqb x) l.
(* set(a) == set(b) *)
Definition set_eqb (a b : list cls) : bool := forallb (fun x => memz x b) a && forallb (fun x => memz x a) b.
Fixpoint nodupb (l : list cls) : bool :=
  match l with [] => true | x :: r => negb (memz x r) && nodupb r end.

(* a Python dict of dicts; keys of a dict are distinct (hypothesis of the theorems) *)
Definition dict2 := list (cls * list (cls * Q)).
(* matrix[r][c]; the default is unreachable after the key checks *)
Definition dict_get2 (d : dict2) (r c : cls) : Q :=
  match assoc r d with
  | Some row => match assoc c row with Some v => v | None => 0 end
  | None => 0
  end.
(* [[f r c for c in classes] for r in classes] *)
Definition tabulate (f : cls -> cls -> Q) (classes : list cls) : mat :=
  map (fun r => map (fun c => f r c) classes) classes.

(* None = ValueError *)
Definition from_dict (d : dict2) (classes : option (list cls)) : option (mat * list cls) :=
  let keys := map fst d in
  match (match classes with
         | Some cs => if set_eqb cs keys then Some cs else None
         | None => Some keys
         end) with
  | None => None
  | Some cs =>
      if forallb (fun kv => set_eqb (map fst (snd kv)) cs) d
      then Some (tabulate (dict_get2 d) cs, cs)
      else None
  end.

(* pandas DataFrame: index, columns, values *)
Record dframe := { df_rows : list cls; df_cols : list cls; df_vals : mat }.
(* position of a label in a unique index *)
Fixpoint index_of (c : cls) (l : list cls) : nat :=
  match l with [] => O | x :: r => if Z.eqb c x then O else S (index_of c r) end.
(* matrix.loc[r, c] *)
Definition df_get (df : dframe) (r c : cls) : Q :=
  entry (df_vals df) (index_of r (df_rows df)) (index_of c (df_cols df)).
Definition from_df (df : dframe) (classes : option (list cls)) : option (mat * list cls) :=
  if negb (set_eqb (df_rows df) (df_cols df)) then None
  else if negb (nodupb (df_rows df)) then None
  else if negb (nodupb (df_cols df)) then None
  else match (match classes with
              | Some cs => if set_eqb cs (df_rows df) then Some cs else None
              | None => Some (df_rows df)
              end) with
       | None => None
       | Some cs => Some (tabulate (df_get df) cs, cs)
       end.

(* array / nested lists: classes default to range(matrix.shape[-1]) when binary=False, [1, 0] when binary *)
Definition from_array (M : mat) (classes : option (list cls)) (binary : bool) : mat * list cls :=
  (M, match classes with
      | Some cs => cs
      | None => if binary then [1%Z; 0%Z] else map Z.of_nat (seq 0 (length (hd [] M)))
      end).

(* the input checks at the end of __init__ (ndim >= 2 holds for every [mat]) *)
Definition valid_cm (M : mat) (classes : list cls) (binary : bool) : bool :=
  forallb (fun r => Nat.eqb (length r) (length M)) M &&
  Nat.leb 2 (length classes) && Nat.eqb (length classes) (length (hd [] M)) &&
  nodupb classes && (negb binary || Nat.eqb (length classes) 2).

(* ---------- one_vs_all ---------- *)
(* np.delete(a, j, axis): drop position j *)
Fixpoint remove_nth {A} (j : nat) (l : list A) {struct l} : list A :=
  match l, j with
  | [], _ => []
  | _ :: r, O => r
  | x :: r, S k => x :: remove_nth k r
  end.
(* others = np.delete(np.delete(self.matrix, j, axis=-1), j, axis=-2): the entries outside row j and column j *)
Definition others (M : mat) (j : nat) : mat := remove_nth j (map (remove_nth j) M).
(* the j-th 2x2 matrix, cell by cell in the order of the loop body; cell [1,1] is the direct sum of the
   entries outside row j and column j (repaired code, /repo f952c55) *)
Definition ova_one (M : mat) (j : nat) : cm2 :=
  let c00 := entry M j j in
  let c01 := row_sum M j - c00 in
  let c10 := col_sum M j - c00 in
  let c11 := total (others M j) in
  Build_cm2 c00 c01 c10 c11.
(* for j in range(self.nb_classes) *)
Definition one_vs_all (M : mat) (nb_classes : nat) : list cm2 := map (ova_one M) (seq 0 nb_classes).

(* ---------- _class_metric_as_dict and the cm_class_metric wrapper ---------- *)
(* {c: np.take(arr, j, axis=axis) for j, c in enumerate(self.classes)} *)
Fixpoint enumerate_from {A} (i : nat) (l : list A) : list (nat * A) :=
  match l with [] => [] | x :: r => (i, x) :: enumerate_from (S i) r end.
Definition class_metric_as_dict {A} (d : A) (classes : list cls) (arr : list A) : list (cls * A) :=
  map (fun jc => (snd jc, nth (fst jc) arr d)) (enumerate_from 0 classes).
(* reading a Python dict built by a comprehension: the last binding of a key wins *)
Fixpoint dict_last {A} (k : cls) (d : list (cls * A)) : option A :=
  match d with
  | [] => None
  | (k', v) :: r => match dict_last k r with
                    | Some w => Some w
                    | None => if Z.eqb k k' then Some v else None
                    end
  end.

Definition cm2_of_mat (M : mat) : cm2 := Build_cm2 (entry M 0 0) (entry M 0 1) (entry M 1 0) (entry M 1 1).

Inductive result (A : Type) : Type :=
| Scalar (a : A)                      (* binary matrix: the metric of the matrix itself *)
| PerClass (l : list A)               (* array of shape (N,) / (N, 2) *)
| AsDict (d : list (cls * A))
| RaiseValueError.
Arguments Scalar {A}. Arguments PerClass {A}. Arguments AsDict {A}. Arguments RaiseValueError {A}.

Definition cm_class_metric {A} (dflt : A) (metric : cm2 -> A)
    (M : mat) (classes : list cls) (binary as_dict : bool) : result A :=
  if binary && as_dict then RaiseValueError
  else if binary then Scalar (metric (cm2_of_mat M))
  else let res := map metric (one_vs_all M (length classes)) in
       if as_dict then AsDict (class_metric_as_dict dflt classes res) else PerClass res.

(* permuting rows and columns by a list of indices *)
Definition permute (M : mat) (sigma : list nat) : mat :=
  map (fun i => map (fun j => entry M i j) sigma) sigma.
