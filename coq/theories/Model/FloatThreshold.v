(* Model/FloatThreshold.v — binary64 model of threshold setting (scores.py: the ratio properties,
   threshold_at_{tpr,fnr,tnr,fpr,topr,tonr}, _threshold_at_ratio, _invert_increasing_function), operation by
   operation in IEEE-754 double precision (Coq's primitive floats = the hardware's binary64, round to nearest even).
   It is the float-level companion of Model/Threshold.v (exact rationals): the theorems are about the rational model,
   this one exists to be compared bit for bit with the implementation on arbitrary doubles (stream F).
   np.nextafter(x, +-inf) = next_up / next_down; np.floor / np.ceil are computed exactly with the 2^52 trick
   (|x| < 2^51, far beyond any index); NaN inputs are outside. *)
From Coq Require Import PrimFloat Uint63 ZArith List Bool.
Import ListNotations.
Open Scope float_scope.

Inductive flabel := FPos | FNeg.
Inductive fmethod := FLower | FHigher | FLinear.
Definition frev (m : fmethod) : fmethod := match m with FLower => FHigher | FHigher => FLower | FLinear => FLinear end.
Definition is_pos (l : flabel) : bool := match l with FPos => true | FNeg => false end.

Definition two52 : float := 0x1p+52.
(* round |x| to the nearest integer (ties to even), exact for |x| < 2^51 *)
Definition rint_abs (a : float) : float := (a + two52) - two52.
Definition ffloor (x : float) : float :=
  let a := abs x in
  if two52 <=? a then x else
  let r := rint_abs a in
  if 0 <=? x then (if a <? r then r - 1 else r)
  else - (if r <? a then r + 1 else r).
Definition fceil (x : float) : float := - ffloor (- x).

(* a float holding a small non-negative integer -> Z (0 for negative arguments) *)
Definition Z_of_int_float (k : float) : Z :=
  if k <=? 0 then 0%Z else
  let '(m, e) := frshiftexp k in
  let mant := Uint63.to_Z (normfr_mantissa m) in          (* m * 2^53 *)
  let ex := (Uint63.to_Z e - 2101)%Z in                    (* k = m * 2^ex *)
  Z.shiftr mant (53 - ex).
Definition float_of_Z (z : Z) : float := of_uint63 (Uint63.of_Z z).

Definition fnth (l : list float) (i : Z) : float := nth (Z.to_nat i) l 0.
Definition flen (l : list float) : Z := Z.of_nat (length l).
Definition fmax (a b : float) : float := if a <? b then b else a.      (* np.maximum on non-NaN *)
Definition fmin (a b : float) : float := if b <? a then b else a.      (* np.minimum on non-NaN *)
Definition b2f (b : bool) : float := if b then 1 else 0.

(* Scores._invert_increasing_function, one target *)
Definition inv_incr_f (l : list float) (target_ratio : float) (left_continuous : bool) (m : fmethod) : float :=
  let n := flen l in
  let nf := float_of_Z n in
  let at_upper_end := 1 <=? target_ratio in
  let target_ratio := if negb left_continuous then target_ratio - 1 / nf else target_ratio in
  let target := target_ratio * nf in
  let left_f := ffloor target in
  let right_f := fceil target in
  let la := right_f - target in
  let clip (k : float) := Z.max (Z.min (if k <? 0 then (-1)%Z else Z_of_int_float k) (n - 1)) 0 in
  let li := clip left_f in
  let ri := clip right_f in
  let threshold :=
    match m with
    | FLinear => la * fnth l li + (1 - la) * fnth l ri
    | FLower => fnth l li
    | FHigher => fnth l ri
    end in
  let threshold := if target_ratio <=? 0 then next_down (fnth l 0) else threshold in
  let threshold := if at_upper_end then next_up (fnth l (n - 1)) else threshold in
  threshold.

Record fscores := mkF { fpos : list float; fneg : list float; feasy_pos : Z; feasy_neg : Z; fsc : flabel; fec : flabel }.

Definition threshold_at_ratio_f (s : fscores) (l : list float) (target_ratio : float) (increasing : bool)
    (ratio_class : flabel) (m : fmethod) : float :=
  let lc := is_pos ratio_class in
  let lc := if negb (is_pos (fec s)) then negb lc else lc in
  let '(tr, m) := if negb increasing then (1 - target_ratio, frev m) else (target_ratio, m) in
  let '(tr, lc, m) := if negb (is_pos (fsc s)) then (1 - tr, negb lc, frev m) else (tr, lc, m) in
  inv_incr_f l tr lc m.

Definition hard_pos_ratio_f (s : fscores) : float :=
  if (0 <? feasy_pos s)%Z then float_of_Z (flen (fpos s)) / float_of_Z (flen (fpos s) + feasy_pos s) else 1.
Definition hard_neg_ratio_f (s : fscores) : float :=
  if (0 <? feasy_neg s)%Z then float_of_Z (flen (fneg s)) / float_of_Z (flen (fneg s) + feasy_neg s) else 1.
Definition nb_all_f (s : fscores) : Z := (feasy_pos s + feasy_neg s + (flen (fpos s) + flen (fneg s)))%Z.
Definition hard_ratio_f (s : fscores) : float :=
  1 - (if (0 <? feasy_pos s + feasy_neg s)%Z then float_of_Z (feasy_pos s + feasy_neg s) / float_of_Z (nb_all_f s) else 0).

(* insertion sort (np.sort of the pooled scores; no NaN) *)
Fixpoint finsert (x : float) (l : list float) : list float :=
  match l with [] => [x] | y :: r => if x <=? y then x :: y :: r else y :: finsert x r end.
Fixpoint fsort (l : list float) : list float := match l with [] => [] | x :: r => finsert x (fsort r) end.

Inductive fmetric := FTpr | FFnr | FTnr | FFpr | FTopr | FTonr.

(* the six public functions on one target; None = ValueError (no sample to threshold) *)
Definition threshold_at_f (mt : fmetric) (s : fscores) (r : float) (m : fmethod) : option float :=
  match mt with
  | FTpr => if (flen (fpos s) =? 0)%Z then None else
      let au := 1 <=? r in
      let r := fmax (r - (1 - hard_pos_ratio_f s)) 0 in
      let r := fmin (r / hard_pos_ratio_f s) 1 in
      let r := fmax r (b2f au) in
      Some (threshold_at_ratio_f s (fpos s) r false FPos m)
  | FFnr => if (flen (fpos s) =? 0)%Z then None else
      Some (threshold_at_ratio_f s (fpos s) (fmin (r / hard_pos_ratio_f s) 1) true FPos m)
  | FTnr => if (flen (fneg s) =? 0)%Z then None else
      let au := 1 <=? r in
      let r := fmax (r - (1 - hard_neg_ratio_f s)) 0 in
      let r := fmin (r / hard_neg_ratio_f s) 1 in
      let r := fmax r (b2f au) in
      Some (threshold_at_ratio_f s (fneg s) r true FNeg m)
  | FFpr => if (flen (fneg s) =? 0)%Z then None else
      Some (threshold_at_ratio_f s (fneg s) (fmin (r / hard_neg_ratio_f s) 1) false FNeg m)
  | FTopr =>
      let c := fsort (fneg s ++ fpos s) in
      if (flen c =? 0)%Z then None else
      let e := float_of_Z (feasy_pos s) / float_of_Z (nb_all_f s) in
      let au := 1 <=? r in
      let r := fmax (r - e) 0 in
      let r := fmin (r / hard_ratio_f s) 1 in
      let r := fmax r (b2f au) in
      Some (threshold_at_ratio_f s c r false FPos m)
  | FTonr =>
      let c := fsort (fneg s ++ fpos s) in
      if (flen c =? 0)%Z then None else
      let e := float_of_Z (feasy_neg s) / float_of_Z (nb_all_f s) in
      let au := 1 <=? r in
      let r := fmax (r - e) 0 in
      let r := fmin (r / hard_ratio_f s) 1 in
      let r := fmax r (b2f au) in
      Some (threshold_at_ratio_f s c r true FNeg m)
  end.

(* bitwise comparison of results (NaN never occurs on the inputs sent through) *)
Definition feq (a b : float) : bool := (a =? b) && (PrimFloat.eqb (1 / a) (1 / b) || negb (a =? 0)).
Definition thr_agree (r : option float) (got : option float) : bool :=
  match r, got with Some a, Some b => feq a b | None, None => true | _, _ => false end.

(* correspondence term: for every (target, returned threshold) pair the float model returns the same double *)
Definition fthr_check (mt : fmetric) (s : fscores) (m : fmethod) (pairs : list (float * option float)) : bool :=
  forallb (fun p => thr_agree (threshold_at_f mt s (fst p) m) (snd p)) pairs.

Example float_threshold_example :
  thr_agree (threshold_at_f FFnr (mkF [1; 2; 3; 4] [0x1p-1] 0 0 FPos FPos) 0x1.3333333333333p-2 FLinear) (Some 0x1.199999999999ap+1) = true.
Proof. vm_compute. reflexivity. Qed.
