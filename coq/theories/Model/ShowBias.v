(* Model/ShowBias.v — hand model of score_analysis/showbias.py (showbias, _apply_normalization,
   _get_group_index) on top of the GroupScores model (Model/Group.v), the ConfusionMatrix metrics
   (Model/Metrics.v) and the bootstrap models (Model/BootMetric.v, Model/BootCI.v).  Function by function,
   as the code is at fix 4320e1c / d3c5691 (multi-column groups keyed by the tuple of their values and
   numbered; no np.squeeze).  No proofs here (Proofs/ShowBiasFacts.v).

   A DataFrame is the list of its rows; a row carries the values of the group column(s) (a tuple of
   strings), its label and its score.  pandas itself (column selection, Index / MultiIndex / DataFrame
   construction) is outside the model: a frame is (index labels, column labels, 2-d data).
   Group names: GroupScores of Model/Group.v has integer group names.  For a list of group columns the
   code itself numbers the distinct tuples (key_numbers); for a single column the strings are the names and
   the model numbers them in their sorted order (an order isomorphism, so sorted(set(.)) is preserved).
   The last section keeps the index reconstruction of the code BEFORE fix 4320e1c ("_".join / split("_")),
   only to state what that finding was. *)
From Coq Require Import String Ascii.
From SA Require Export Model.Group.
From SA Require Export Model.BootMetric.
Open Scope Q_scope.

(* ---------- strings ---------- *)
Definition us_char : ascii := "_"%char.
Definition us : string := "_"%string.
(* "_".join(parts) *)
Definition join_us (parts : list string) : string := String.concat us parts.

(* ---------- the data ---------- *)
Definition key := list string.          (* tuple of group values of one row *)
Record row := mkRow { r_keys : key; r_label : Z; r_score : Q }.

(* group_columns: a column name (str) or a list of n column names *)
Inductive gcols := GStr | GList (n : nat).

Definition key_eq_dec : forall a b : key, {a = b} + {a <> b} := list_eq_dec string_dec.
Definition key_eqb (a b : key) : bool := if key_eq_dec a b then true else false.

(* tuple comparison: lexicographic, str by code points *)
Fixpoint lex_ltb (a b : key) : bool :=
  match a, b with
  | [], [] => false
  | [], _ :: _ => true
  | _ :: _, [] => false
  | x :: r, y :: s => String.ltb x y || (String.eqb x y && lex_ltb r s)
  end.
(* sort key of a group: the string itself / ("_".join(key), key) *)
Definition key_ltb (gc : gcols) (a b : key) : bool :=
  match gc with
  | GStr => String.ltb (hd EmptyString a) (hd EmptyString b)
  | GList _ =>
      let ja := join_us a in let jb := join_us b in
      String.ltb ja jb || (String.eqb ja jb && lex_ltb a b)
  end.

(* sorted(set(xs), key=...): set() = duplicates removed, sorted() = insertion sort (any stable sort gives the
   same list when the order is strict on distinct elements) *)
Fixpoint ins_by {A} (ltb : A -> A -> bool) (x : A) (l : list A) : list A :=
  match l with
  | [] => [x]
  | y :: r => if ltb y x then y :: ins_by ltb x r else x :: y :: r
  end.
Definition sort_by {A} (ltb : A -> A -> bool) (l : list A) : list A := fold_right (ins_by ltb) [] l.
Definition group_keys (gc : gcols) (ks : list key) : list key := sort_by (key_ltb gc) (nodup key_eq_dec ks).

(* key_numbers[key] *)
Fixpoint key_number (x : key) (l : list key) : Z :=
  match l with
  | [] => 0%Z
  | y :: r => if key_eqb x y then 0%Z else (1 + key_number x r)%Z
  end.
(* group_keys[number] *)
Definition key_of (names : list key) (g : G) : key := nth (Z.to_nat g) names [].

(* a[mask] *)
Definition mask {A} (m : list bool) (l : list A) : list A := map snd (filter (fun p => fst p) (combine m l)).

(* GroupScores.from_labels(labels, scores, groups, pos_label, score_class, equal_class) *)
Definition from_labels_g (argsort : list Q -> list nat) (labels : list Z) (xs : list Q) (gl : list G)
           (pos_label : Z) (sc ec : label) : gscores :=
  let isp := map (fun l => Z.eqb l pos_label) labels in
  let isn := map negb isp in
  mk_gscores argsort (mask isp xs) (mask isn xs) (mask isp gl) (mask isn gl) sc ec None false.

(* ---------- the metric: getattr(ConfusionMatrix, name)() for the names without extra arguments ---------- *)
Inductive mname :=
| Mpop | Maccuracy | Merror_rate | Mtp | Mtn | Mfp | Mfn | Mp | Mn | Mtop | Mton
| Mtpr | Mtnr | Mfpr | Mfnr | Mtar | Mfrr | Mtrr | Mfar | Mtopr | Mtonr | Macceptance_rate | Mrejection_rate
| Mppv | Mnpv | Mfdr | Mfor_ | Mclass_accuracy | Mclass_error_rate.
Definition cm_metric (m : mname) (c : cm2) : rate :=
  match m with
  | Mpop => Some (pop c) | Mtp => Some (tp c) | Mtn => Some (tn c) | Mfp => Some (fp c) | Mfn => Some (fn c)
  | Mp => Some (p c) | Mn => Some (n c) | Mtop => Some (top c) | Mton => Some (ton c)
  | Maccuracy => accuracy c | Merror_rate => error_rate c
  | Mtpr => tpr c | Mtnr => tnr c | Mfpr => fpr c | Mfnr => fnr c
  | Mtar => tar c | Mfrr => frr c | Mtrr => trr c | Mfar => far c
  | Mtopr => topr c | Mtonr => tonr c | Macceptance_rate => acceptance_rate c | Mrejection_rate => rejection_rate c
  | Mppv => ppv c | Mnpv => npv c | Mfdr => fdr c | Mfor_ => for_ c
  | Mclass_accuracy => accuracy c | Mclass_error_rate => error_rate c     (* binary matrix: no one_vs_all *)
  end.
Definition metric_of_cmz (m : mname) (c : cmz) : rate := cm_metric m (to_cm2 c).

(* calculate_metric(sample, threshold=ts) = getattr(sample.cm(threshold), metric)()            shape (T,) *)
Definition calculate_metric (m : mname) (gs : gscores) (ts : list ext) : list rate :=
  map (fun t => metric_of_cmz m (cm (base gs) t)) ts.
(* sample.group_cm(threshold) with an array threshold: [self[group].cm(threshold) for group in self.groups] *)
Definition group_cm_arr (gs : gscores) (ts : list ext) : Sampling.res (list (list cmz)) :=
  groupwise (fun s => map (cm s) ts) gs.
(* calculate_group_metric(sample, threshold=ts) = getattr(sample.group_cm(threshold), metric)()  shape (G, T);
   the Err arm is unreachable (group_cm indexes with the object's own group names, GroupFacts.groupwise_spec) *)
Definition calculate_group_metric (m : mname) (gs : gscores) (ts : list ext) : list (list rate) :=
  match group_cm_arr gs ts with
  | Sampling.Ok cms => map (map (metric_of_cmz m)) cms
  | Sampling.Err _ => []
  end.

(* ---------- _apply_normalization ---------- *)
Inductive normalize := NOverall | NMin | NUnsupported.

(* np.minimum on possibly-NaN floats: NaN propagates *)
Definition rmin2 (a b : rate) : rate :=
  match a, b with Some x, Some y => Some (if Qleb x y then x else y) | _, _ => None end.
Fixpoint map2 {A B C} (f : A -> B -> C) (a : list A) (b : list B) : list C :=
  match a, b with x :: r, y :: s => f x y :: map2 f r s | _, _ => [] end.
(* np.min(a, axis=0) for an array given as the list of its axis-0 slices (each flattened) *)
Definition min_axis0 (slices : list (list rate)) : list rate :=
  match slices with [] => [] | s :: r => fold_left (map2 rmin2) r s end.
(* np.where(d != 0, np.divide(x, d, out=zeros, where=d != 0), x), one element:
   NaN != 0 is True and x / NaN = NaN;  d == 0 leaves x;  NaN / d = NaN *)
Definition norm1 (x d : rate) : rate :=
  match d with
  | None => None
  | Some dv => if Qeqb dv 0 then x else option_map (fun xv => xv / dv) x
  end.
(* the same, operation by operation (these are what the translator emits for the return expression; the tie lemma
   tie_norm1 proves the composition equal to [norm1]) *)
Definition ne0 (d : rate) : bool := match d with None => true | Some v => negb (Qeqb v 0) end.      (* d != 0 *)
Definition np_divide_where1 (c : bool) (x d : rate) : rate :=           (* np.divide(x, d, out=zeros, where=c) *)
  if c then match x, d with Some a, Some b => Some (a / b) | _, _ => None end else Some 0.
Definition np_where1 (c : bool) (a b : rate) : rate := if c then a else b.                          (* np.where(c, a, b) *)
(* normalize == "by_overall" / normalize == "by_min" *)
Definition is_by_overall (nz : normalize) : bool := match nz with NOverall => true | _ => false end.
Definition is_by_min (nz : normalize) : bool := match nz with NMin => true | _ => false end.

(* broadcasting a (T,) vector against (G, T) slices flattened row-major *)
Fixpoint tile {A} (k : nat) (l : list A) : list A := match k with O => [] | S k' => l ++ tile k' l end.

(* _apply_normalization(group_metrics, score_object, metric, normalize, **kwargs).
   [slices] are the axis-0 slices of the array argument, each flattened: for the (G, T) array of reported values the
   G rows (reps = 1); for the (nb_samples, G, T) array of replicates the nb_samples matrices (reps = G).  The code
   is the same for both ranks: np.min(.., axis=0) runs over whatever axis 0 is. *)
Definition apply_normalization (nz : normalize) (overall : list rate) (reps : nat) (slices : list (list rate))
  : res (list (list rate)) :=
  match nz with
  | NOverall => let d := tile reps overall in Ok (map (fun s => map2 norm1 s d) slices)
  | NMin => let d := min_axis0 slices in Ok (map (fun s => map2 norm1 s d) slices)
  | NUnsupported => Err                                    (* raise ValueError *)
  end.

(* ---------- frames ---------- *)
Record frame := mkFrame { f_index : list key; f_columns : list Q; f_data : list (list rate) }.
Record biasframe := mkBias { b_values : frame; b_alpha : option Q; b_lower : option frame; b_upper : option frame }.

(* _get_group_index: pd.Index(group_names) / pd.MultiIndex.from_tuples(group_names, names=group_columns) *)
Definition get_group_index (names : list key) (gc : gcols) : res (list key) :=
  match gc with
  | GStr => Ok names
  | GList n => if forallb (fun k => Nat.eqb (length k) n) names then Ok names else Err
  end.

(* threshold = np.asarray(kwargs["threshold"]); a 0-d threshold becomes a 1-element array *)
Inductive thr_arg := TScalar (q : Q) | TList (l : list Q).
Definition threshold_array (a : thr_arg) : list Q := match a with TScalar q => [q] | TList l => l end.

(* arr[..., k] of a (G*T*2) flat array, as G rows of T entries *)
Fixpoint chunks {A} (n : nat) (k : nat) (l : list A) : list (list A) :=
  match n with O => [] | S n' => firstn k l :: chunks n' k (skipn k l) end.
Fixpoint every_other {A} (l : list A) : list A :=
  match l with
  | [] => []
  | x :: r => x :: match r with [] => [] | _ :: r' => every_other r' end
  end.
Definition ci_lower (data : list rate) : list rate := every_other data.
Definition ci_upper (data : list rate) : list rate := every_other (tl data).

Section ShowBias.
  Variable argsort : list Q -> list nat.
  (* get_bootstrap_ci(theta=, theta_hat=, alpha=, method=) = utils.bootstrap_ci: metric shape, replicates (one flattened
     row per sample), point estimate, alpha, method -> (shape, flat data) *)
  Variable ci_routine : list nat -> list (list rate) -> option (list rate) -> Q -> method -> res (list nat * list rate).

  (* what bootstrap_config is for showbias: nb_samples, bootstrap_method and the sampler; the built-in samplers are
     the subject of C11/C12 — here the j-th built-in sample is given (the "history" of call j is its result) *)
  Definition sb_config := BootMetric.config gscores.
  Definition sb_bootstrap_metric (self : gscores) (f : metric_fn gscores (list ext) (list rate))
             (cfg : sb_config) (hist : nat -> res gscores) (ts : list ext) : res (list (list rate)) :=
    bootstrap_metric gscores (list ext) (list rate) unit (res gscores)
      (fun _ c => SReplacement) (fun _ _ _ h => h) (fun _ _ => f) self (Callable f) cfg hist ts.

  Definition showbias (rows : list row) (gc : gcols) (m : mname) (nz : option normalize)
             (want_ci : bool) (cfg : sb_config) (hist : nat -> res gscores) (alpha : Q)
             (pos_label : Z) (sc ec : label) (thr : thr_arg) : res biasframe :=
    (* groups: the column itself / the number of the row's tuple among the sorted distinct tuples *)
    let names := group_keys gc (map r_keys rows) in
    let groups_col := map (fun r => key_number (r_keys r) names) rows in
    let threshold := threshold_array thr in
    let ts := map Fin threshold in
    let score_object := from_labels_g argsort (map r_label rows) (map r_score rows) groups_col pos_label sc ec in
    let group_metric_flat := fun (s : gscores) (k : list ext) => concat (calculate_group_metric m s k) in
    let group_names := map (key_of names) (groups score_object) in
    let G := length (groups score_object) in
    let T := length ts in
    res_bind (get_group_index group_names gc) (fun group_index =>
    let group_metrics0 := calculate_group_metric m score_object ts in
    res_bind (match nz with
              | None => Ok group_metrics0
              | Some z => apply_normalization z (calculate_metric m score_object ts) 1 group_metrics0
              end) (fun group_metrics =>
    if want_ci then
      res_bind (sb_bootstrap_metric score_object group_metric_flat cfg hist ts) (fun samples0 =>
      res_bind (match nz with
                | None => Ok samples0
                | Some z => apply_normalization z (calculate_metric m score_object ts) G samples0
                end) (fun samples =>
      let theta_hat := concat (calculate_group_metric m score_object ts) in
      res_bind (ci_routine [G; T] samples (Some theta_hat) alpha (bootstrap_method cfg)) (fun ci =>
      Ok (mkBias (mkFrame group_index threshold group_metrics) (Some alpha)
                 (Some (mkFrame group_index threshold (chunks G T (ci_lower (snd ci)))))
                 (Some (mkFrame group_index threshold (chunks G T (ci_upper (snd ci)))))))))
    else Ok (mkBias (mkFrame group_index threshold group_metrics) None None None))).
End ShowBias.

(* the instance with utils.bootstrap_ci of Model/BootCI.v (scipy's normal cdf / ppf and x ** 1.5 as oracles) *)
Definition std_ci (Phi PhiInv pow15 : Q -> Q) (yshape : list nat) (rows : list (list rate)) (hat : option (list rate))
           (alpha : Q) (m : method) : res (list nat * list rate) :=
  bootstrap_ci Phi PhiInv pow15 yshape rows hat (AScalar alpha) m.
Definition showbias_std (argsort : list Q -> list nat) (Phi PhiInv pow15 : Q -> Q) :=
  showbias argsort (std_ci Phi PhiInv pow15).

(* directly from the rows: the confusion matrix of a set of rows under pos_label / score_class / equal_class *)
Definition rows_cm (pos_label : Z) (sc ec : label) (rs : list row) (t : ext) : cmz :=
  mkCmz (count (fun r => Z.eqb (r_label r) pos_label && dec sc ec (r_score r) t) rs)
        (count (fun r => Z.eqb (r_label r) pos_label && negb (dec sc ec (r_score r) t)) rs)
        (count (fun r => negb (Z.eqb (r_label r) pos_label) && dec sc ec (r_score r) t) rs)
        (count (fun r => negb (Z.eqb (r_label r) pos_label) && negb (dec sc ec (r_score r) t)) rs).
(* the rows whose group value(s) are k *)
Definition rows_of (k : key) (rs : list row) : list row := filter (fun r => key_eqb (r_keys r) k) rs.

(* every row has one group value per group column *)
Definition rows_wf (gc : gcols) (rs : list row) : Prop :=
  Forall (fun r => length (r_keys r) = match gc with GStr => 1%nat | GList n => n end) rs.

(* ---------- the code before fix 4320e1c (kept to state the finding; not used by [showbias]) ---------- *)
(* str.split("_") as a total function *)
Fixpoint split_us (s : string) : list string :=
  match s with
  | EmptyString => [EmptyString]
  | String c r =>
      if Ascii.eqb c us_char then EmptyString :: split_us r
      else match split_us r with
           | [] => [String c EmptyString]
           | part :: parts => String c part :: parts
           end
  end.
Fixpoint has_us (s : string) : bool :=
  match s with EmptyString => false | String c r => Ascii.eqb c us_char || has_us r end.
(* zip( *[name.split("_") for name in group_names] ) truncates to the shortest split; MultiIndex.from_arrays raises
   ValueError unless the number of arrays equals len(group_columns) *)
Definition legacy_group_index (joined : list string) (gc : gcols) : res (list key) :=
  match gc with
  | GStr => Ok (map (fun s => [s]) joined)
  | GList n =>
      let parts := map split_us joined in
      let w := fold_right Nat.min (length (hd [] parts)) (map (@length string) parts) in
      if Nat.eqb w n then Ok (map (firstn w) parts) else Err
  end.
(* the old grouping: rows keyed by the joined string; labels = split of the sorted distinct joined strings *)
Definition legacy_labels (rows : list row) (gc : gcols) : res (list key) :=
  let joined := map (fun r => match gc with GStr => hd EmptyString (r_keys r) | GList _ => join_us (r_keys r) end) rows in
  let names := sort_by String.ltb (nodup string_dec joined) in
  legacy_group_index names gc.

