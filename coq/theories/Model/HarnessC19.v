(* Model/HarnessC19.v — boolean comparison helpers used only by generated C19 correspondence files. *)
From Coq Require Import Strings.String.
From SA Require Export Model.Fraud Model.Harness.
Open Scope Q_scope.

(* a constructor outcome of the model against what the implementation did: raised ValueError, or the
   fields of the object and its confusion matrices at the given thresholds *)
Definition fraud_agree (r : Res.res scores) (raised : bool) (pos_exp neg_exp : list Q) (eg ef : Z)
    (sc_exp ec_exp : label) (thr : list ext) (cms : list cmz) : bool :=
  match r with
  | ErrValue => raised
  | Ok s => negb raised && qlist_eqb (pos s) pos_exp && qlist_eqb (neg s) neg_exp &&
            Z.eqb (easy_pos s) eg && Z.eqb (easy_neg s) ef &&
            label_eqb (score_class s) sc_exp && label_eqb (equal_class s) ec_exp &&
            list_eqb cmz_eqb (map (cm s) thr) cms
  end.

Definition res_label_eqb (a b : Res.res label) : bool :=
  match a, b with Ok x, Ok y => label_eqb x y | ErrValue, ErrValue => true | _, _ => false end.
Definition doc_label_eqb (a b : doc_label) : bool :=
  match a, b with DocPos, DocPos | DocNeg, DocNeg => true | _, _ => false end.
Definition res_doc_eqb (a b : Res.res doc_label) : bool :=
  match a, b with Ok x, Ok y => doc_label_eqb x y | ErrValue, ErrValue => true | _, _ => false end.
