(* Model/Fraud.v — hand model of score_analysis/applications/doc_fraud.py: the DocLabel enum, the two
   label translations, FraudScores.__init__ (delegation to Scores.__init__ + range validation), the
   genuines/frauds aliases and FraudScores.from_labels.  No proofs here.
   The translator (harness/translate/doc_fraud_tr.py) regenerates these definitions from the current
   source and coq/ties/Tie_fraud.v proves them equal. *)
From SA Require Export Base.Prelude Base.Res Model.Scores.
From Coq Require Import Strings.String.
Open Scope Q_scope.

(* class DocLabel(Enum): pos = "genuine"; neg = "fraud"   — members identified by their names *)
Inductive doc_label := DocPos | DocNeg.
Definition doc_name (d : doc_label) : string :=
  match d with DocPos => "pos"%string | DocNeg => "neg"%string end.
Definition doc_value (d : doc_label) : string :=
  match d with DocPos => "genuine"%string | DocNeg => "fraud"%string end.
(* class BinaryLabel(Enum): pos = "pos"; neg = "neg" *)
Definition binary_value (l : label) : string :=
  match l with Pos => "pos"%string | Neg => "neg"%string end.

(* Enum call E(x): a member is returned unchanged, a string is looked up among the member values in
   definition order, ValueError when absent *)
Definition enum_lookup {A} (members : list A) (value : A -> string) (s : string) : res A :=
  match find (fun m => String.eqb (value m) s) members with Some m => Ok m | None => ErrValue end.
Inductive doc_arg := DMember (d : doc_label) | DStr (s : string).
Inductive bin_arg := BMember (l : label) | BStr (s : string).
Definition DocLabel_call (value : doc_label -> string) (a : doc_arg) : res doc_label :=
  match a with DMember d => Ok d | DStr s => enum_lookup [DocPos; DocNeg] value s end.
Definition BinaryLabel_call (value : label -> string) (a : bin_arg) : res label :=
  match a with BMember l => Ok l | BStr s => enum_lookup [Pos; Neg] value s end.

(* return BinaryLabel(DocLabel(label).name) *)
Definition doc_to_binary_label (a : doc_arg) : res label :=
  bind (DocLabel_call doc_value a) (fun m => BinaryLabel_call binary_value (BStr (doc_name m))).

(* label = BinaryLabel(label); return DocLabel.pos if label == BinaryLabel.pos else DocLabel.neg *)
Definition binary_to_doc_label (a : bin_arg) : res doc_label :=
  bind (BinaryLabel_call binary_value a) (fun l => Ok (if label_eqb l Pos then DocPos else DocNeg)).

(* the properties genuines / frauds and their setters *)
Definition genuines (s : scores) : list Q := pos s.
Definition frauds (s : scores) : list Q := neg s.
Definition set_pos (s : scores) (v : list Q) : scores :=
  mkScores v (neg s) (easy_pos s) (easy_neg s) (score_class s) (equal_class s).
Definition set_neg (s : scores) (v : list Q) : scores :=
  mkScores (pos s) v (easy_pos s) (easy_neg s) (score_class s) (equal_class s).
Definition set_genuines := set_pos.
Definition set_frauds := set_neg.

(* np.any(a < c), np.any(a > c) *)
Definition any_b (f : Q -> bool) (l : list Q) : bool := existsb f l.

(* FraudScores.__init__ *)
Definition fraud_scores (genuines_ frauds_ : list Q) (nb_easy_genuines nb_easy_frauds : Z)
    (score_class_ : doc_arg) : res scores :=
  bind (doc_to_binary_label score_class_) (fun sc =>
  bind (doc_to_binary_label (DStr "genuine")) (fun ec =>
  let self := mk_scores genuines_ frauds_ nb_easy_genuines nb_easy_frauds sc ec false in
  if any_b (fun v => Qltb v 0) (genuines self) || any_b (fun v => Qltb 1 v) (genuines self) then ErrValue
  else if any_b (fun v => Qltb v 0) (frauds self) || any_b (fun v => Qltb 1 v) (frauds self) then ErrValue
  else Ok self)).
(* (the median heuristic that follows only emits a warning) *)
(* defaults of nb_easy_genuines, nb_easy_frauds, score_class *)
Definition init_defaults : Z * Z * doc_arg := (0%Z, 0%Z, DStr "genuine").

(* scores[mask] *)
Definition mask_select (mask : list bool) (xs : list Q) : list Q :=
  map snd (filter (fun p => fst p) (combine mask xs)).

(* FraudScores.from_labels: labels compared with genuine_label by == / != *)
Definition fraud_from_labels (labels : list Z) (xs : list Q) (genuine_label : Z)
    (nb_easy_genuines nb_easy_frauds : Z) (score_class_ : doc_arg) : res scores :=
  let genuines_ := mask_select (map (fun l => Z.eqb l genuine_label) labels) xs in
  let frauds_ := mask_select (map (fun l => negb (Z.eqb l genuine_label)) labels) xs in
  fraud_scores genuines_ frauds_ nb_easy_genuines nb_easy_frauds score_class_.

(* ---- specification vocabulary *)
Definition in_unit (v : Q) : Prop := 0 <= v /\ v <= 1.
