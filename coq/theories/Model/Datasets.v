(* Model/Datasets.v — hand model of score_analysis/experimental/datasets.py: NormalDataset,
   BernoulliDataset, CorrelatedBernoullilDataset.  Follows the Python statement by statement in exact
   rational arithmetic.  scipy.stats.norm.{cdf, ppf, sf, isf} (standard normal) and np.sqrt are Section
   variables; the RNG is an explicit history of draws (DESIGN 3.4, 3.5).  No proofs here. *)
From SA Require Export Base.Prelude Base.Res Model.Scores.
Open Scope Q_scope.

(* ================================================================== NormalDataset *)
Record normal_ds := mkNormal {
  mu_pos : Q; mu_neg : Q; sigma_pos : Q; sigma_neg : Q; p_pos : Q; n_ds : option Z; nd_score_class : label }.

(* dataclass construction + __post_init__: mu_neg defaults to -mu_pos *)
Definition normal_dataset (mu_pos_ : Q) (mu_neg_ : option Q) (sigma_pos_ sigma_neg_ p_pos_ : Q)
    (n_ : option Z) (sc : label) : normal_ds :=
  mkNormal mu_pos_ (match mu_neg_ with None => - mu_pos_ | Some m => m end) sigma_pos_ sigma_neg_ p_pos_ n_ sc.
(* field defaults: sigma_pos = 3.75, sigma_neg = 3.0, p_pos = 0.5, n = None, score_class = "pos" *)
Definition normal_defaults : Q * Q * Q := (15 # 4, 3, 1 # 2).

(* int(x) for a float: truncation towards zero *)
Definition Qtrunc (x : Q) : Z := if Qltb x 0 then Qceiling x else Qfloor x.

Section Normal.
  (* scipy.stats.norm.cdf / ppf / sf / isf of the standard normal (loc=0, scale=1) *)
  Variables Cdf Ppf Sf Isf : Q -> Q.

  (* scipy's loc/scale convention: cdf(x, loc, scale) = Cdf((x - loc)/scale), ppf(q, loc, scale) = Ppf(q)*scale + loc *)
  Definition norm_cdf (x loc scale : Q) : Q := Cdf ((x - loc) / scale).
  Definition norm_sf (x loc scale : Q) : Q := Sf ((x - loc) / scale).
  Definition norm_ppf (q loc scale : Q) : Q := Ppf q * scale + loc.
  Definition norm_isf (q loc scale : Q) : Q := Isf q * scale + loc.

  Definition nd_threshold_at_fnr (d : normal_ds) (fnr : Q) : Q := norm_ppf fnr (mu_pos d) (sigma_pos d).
  Definition nd_threshold_at_fpr (d : normal_ds) (fpr : Q) : Q := norm_isf fpr (mu_neg d) (sigma_neg d).
  Definition nd_fnr (d : normal_ds) (threshold : Q) : Q := norm_cdf threshold (mu_pos d) (sigma_pos d).
  Definition nd_fpr (d : normal_ds) (threshold : Q) : Q := norm_sf threshold (mu_neg d) (sigma_neg d).

  (* NormalDataset.roc: (fnr, fpr, thresholds) or ValueError unless exactly one of fnr/fpr is given *)
  Definition nd_roc (d : normal_ds) (fnr fpr : option (list Q)) : res (list Q * list Q * list Q) :=
    match fnr, fpr with
    | None, None => ErrValue
    | Some _, Some _ => ErrValue
    | Some f, None =>
        let thresholds := map (fun q => norm_ppf q (mu_pos d) (sigma_pos d)) f in
        Ok (map (fun t => norm_cdf t (mu_pos d) (sigma_pos d)) thresholds,
            map (fun t => norm_sf t (mu_neg d) (sigma_neg d)) thresholds, thresholds)
    | None, Some f =>
        let thresholds := map (fun q => norm_isf q (mu_neg d) (sigma_neg d)) f in
        Ok (map (fun t => norm_cdf t (mu_pos d) (sigma_pos d)) thresholds,
            map (fun t => norm_sf t (mu_neg d) (sigma_neg d)) thresholds, thresholds)
    end.

  (* NormalDataset.from_metrics *)
  Definition nd_from_metrics (fnr fpr : Q) (fnr_support fpr_support : Z) (sigma_pos_ sigma_neg_ : Q) : normal_ds :=
    let mu_pos_ := - Ppf fnr * sigma_pos_ in
    let nb_pos := Qtrunc (inject_Z fnr_support / fnr) in
    let mu_neg_ := - Ppf (1 - fpr) * sigma_neg_ in
    let nb_neg := Qtrunc (inject_Z fpr_support / fpr) in
    let n := (nb_pos + nb_neg)%Z in
    let p_pos_ := inject_Z nb_pos / inject_Z n in
    normal_dataset mu_pos_ (Some mu_neg_) sigma_pos_ sigma_neg_ p_pos_ (Some n) Pos.
End Normal.

(* what the code asks of the generator, in program order *)
Inductive rng_call :=
| CBinomial (n : Z) (p : Q) (size : option Z)
| CNormal (loc scale : Q) (size : Z)
| CShuffle (len : Z)
| CChoice (a : Z) (size : Z) (p : list Q).

(* NormalDataset.sample(n, p_pos, rng): k = the binomial draw, xs / ys = the two normal draws.
   None when neither n nor self.n is given (the code then fails inside numpy). *)
Definition nd_sample (d : normal_ds) (n_arg : option Z) (p_arg : option Q) (k : Z) (xs ys : list Q)
    : option (list rng_call * scores) :=
  match (match n_arg with Some n => Some n | None => n_ds d end) with
  | None => None
  | Some n =>
      let p := match p_arg with Some p => p | None => p_pos d end in
      let nb_pos := k in
      let nb_neg := (n - nb_pos)%Z in
      Some ([CBinomial n p None; CNormal (mu_pos d) (sigma_pos d) nb_pos; CNormal (mu_neg d) (sigma_neg d) nb_neg],
            mk_scores xs ys 0 0 (nd_score_class d) Pos false)
  end.

(* ================================================================== BernoulliDataset *)
(* n = n or self.n *)
Definition n_or (n_arg n_self : option Z) : option Z :=
  match n_arg with
  | Some k => if (k =? 0)%Z then n_self else Some k
  | None => n_self
  end.

Definition repeatZ (v k : Z) : list Z := repeat v (Z.to_nat k).
(* rng.shuffle(data) with the drawn permutation: position i receives data[perm[i]] *)
Definition apply_perm (data : list Z) (perm : list nat) : list Z := map (fun i => nth i data 0%Z) perm.

Inductive draw :=
| HBinomial (vals : list Z)        (* rng.binomial(1, p, size=n) *)
| HShuffle (perm : list nat)       (* rng.shuffle *)
| HChoice (vals : list Z).         (* rng.choice(4, size=n, p=p) *)

Definition bern_sample (p : Q) (n_self n_arg : option Z) (random : bool) (h : draw) : res (list rng_call * list Z) :=
  match n_or n_arg n_self with
  | None => ErrValue
  | Some n =>
      if random then
        match h with HBinomial vals => Ok ([CBinomial 1 p (Some n)], vals) | _ => ErrValue end
      else
        let pos_ := Qfloor (inject_Z n * p) in
        let neg_ := (n - pos_)%Z in
        if (pos_ <? 0)%Z || (neg_ <? 0)%Z then ErrValue      (* np.repeat: negative count *)
        else let data := (repeatZ 0 neg_ ++ repeatZ 1 pos_)%list in
             match h with HShuffle perm => Ok ([CShuffle (len data)], apply_perm data perm) | _ => ErrValue end
  end.

(* ================================================================== CorrelatedBernoullilDataset *)
Section Correlated.
  Variable sqrtQ : Q -> Q.     (* np.sqrt *)

  (* p = [a, 1 - p2 - a, 1 - p1 - a, p1 + p2 + a - 1] *)
  Definition corr_probs (p1 p2 rho : Q) : list Q :=
    let c := (1 - p1) * (1 - p2) in
    let a := c + rho * sqrtQ (p1 * p2 * c) in
    [a; 1 - p2 - a; 1 - p1 - a; p1 + p2 + a - 1].

  (* nb = floor(n * p); nb[-1] = n - sum(nb[:-1]) *)
  Definition corr_counts (n : Z) (p : list Q) : list Z :=
    let nb := map (fun q => Qfloor (inject_Z n * q)) p in
    (removelast nb ++ [(n - Zsum (removelast nb))%Z])%list.

  (* np.repeat(np.arange(4), nb) *)
  Fixpoint repeat_arange (i : Z) (nb : list Z) : list Z :=
    match nb with [] => [] | k :: r => (repeatZ i k ++ repeat_arange (i + 1) r)%list end.

  Definition corr_sample (p1 p2 rho : Q) (n_self n_arg : option Z) (random : bool) (h : draw)
      : res (list rng_call * (list Z * list Z)) :=
    match n_or n_arg n_self with
    | None => ErrValue
    | Some n =>
        let p := corr_probs p1 p2 rho in
        if existsb (fun q => Qltb q 0) p then ErrValue
        else if random then
          match h with
          | HChoice joint => Ok ([CChoice 4 n p], (map (fun j => (j mod 2)%Z) joint, map (fun j => (j / 2)%Z) joint))
          | _ => ErrValue
          end
        else
          let nb := corr_counts n p in
          if existsb (fun k => (k <? 0)%Z) nb then ErrValue     (* np.repeat: negative count *)
          else let joint0 := repeat_arange 0 nb in
               match h with
               | HShuffle perm =>
                   let joint := apply_perm joint0 perm in
                   Ok ([CShuffle (len joint0)], (map (fun j => (j mod 2)%Z) joint, map (fun j => (j / 2)%Z) joint))
               | _ => ErrValue
               end
    end.
End Correlated.

(* ---- specification vocabulary *)
Definition ones (l : list Z) : Z := count (fun v => (v =? 1)%Z) l.
Definition is_perm (perm : list nat) (n : nat) : Prop := Permutation perm (seq 0 n).
Definition all01 (l : list Z) : Prop := Forall (fun v => v = 0%Z \/ v = 1%Z) l.
