(* Model/FloatInvertPL.v — binary64 model of utils.invert_pl_function (one target), operation by operation.
   Compared bit for bit with the implementation (C17) on every finite input. *)
From Coq Require Import PrimFloat List Bool.
Import ListNotations.
Open Scope float_scope.

Definition fcrossing (y0 y1 t : float) : bool := ((y0 <=? t) && (t <? y1)) || ((t <=? y0) && (y1 <? t)).

Fixpoint fsegments (j : nat) (x y : list float) (t : float) : list float :=
  match x, y with
  | x0 :: ((x1 :: _) as xr), y0 :: ((y1 :: _) as yr) =>
      let rest := fsegments (S j) xr yr t in
      if fcrossing y0 y1 t then
        let la := (t - y0) / (y1 - y0) in
        ((1 - la) * x0 + la * x1) :: rest
      else rest
  | _, _ => []
  end.

Fixpoint fargmin_from (i best : nat) (bv : float) (l : list float) : nat :=
  match l with
  | [] => best
  | v :: r => if v <? bv then fargmin_from (S i) i v r else fargmin_from (S i) best bv r
  end.
Definition fargmin (l : list float) : nat := match l with [] => 0%nat | v :: r => fargmin_from 1 0 v r end.
Definition fclosest (x y : list float) (t : float) : float := nth (fargmin (map (fun v => abs (v - t)) y)) x 0.

Definition finvert1 (x y : list float) (t : float) : list float :=
  match fsegments 0 x y t with [] => [fclosest x y t] | s => s end.

Definition feqb (a b : float) : bool := (a =? b) && (PrimFloat.eqb (1 / a) (1 / b) || negb (a =? 0)).
Fixpoint flist_eq (a b : list float) : bool :=
  match a, b with [] , [] => true | u :: a', v :: b' => feqb u v && flist_eq a' b' | _, _ => false end.
Definition finvert_check (x y : list float) (pairs : list (float * list float)) : bool :=
  forallb (fun p => flist_eq (finvert1 x y (fst p)) (snd p)) pairs.

Example float_invert_example : finvert_check [0; 1; 2; 3] [0; 2; 1; 3] [(0x1.8p+0, [0x1.8p-1; 0x1.8p+0; 0x1.2p+1])] = true.
Proof. vm_compute. reflexivity. Qed.
