(* Model/HarnessC18.v — boolean comparison helpers used only by the generated correspondence files of C18. *)
From Coq Require Import String.
From SA Require Export Model.BootHarness.
From SA Require Export Model.ShowBias.
Open Scope Q_scope.

Definition rel_close (tol : Q) (a b : rate) : bool :=
  match a, b with
  | Some x, Some y => Qabs_le x y (tol * (if Qleb 0 y then y else - y)) || Qabs_le x y tol
  | None, None => true
  | _, _ => false
  end.
Definition str_list_eqb := list_eqb String.eqb.
Definition frame_close (tol : Q) (f : frame) (idx : list key) (cols : list Q) (data : list (list rate)) : bool :=
  list_eqb str_list_eqb (f_index f) idx && list_eqb Qeqb (f_columns f) cols &&
  list_eqb (list_eqb (rel_close tol)) (f_data f) data.

Definition method_eqb (a b : method) : bool :=
  match a, b with MQuantile, MQuantile | MBc, MBc | MBca, MBca => true | _, _ => false end.
(* stands for utils.bootstrap_ci in a correspondence run: checks that the model hands over the arrays the implementation
   handed over (shape, replicates, point estimate, alpha, method) and returns the implementation's result *)
Definition ci_stub (tol : Q) (exp_shape : list nat) (exp_theta : list (list rate)) (exp_hat : list rate) (exp_alpha : Q)
           (exp_m : method) (ret : list rate)
  : list nat -> list (list rate) -> option (list rate) -> Q -> method -> res (list nat * list rate) :=
  fun sh rows hat a m =>
    if nat_list_eqb sh exp_shape && list_eqb (list_eqb (rel_close tol)) rows exp_theta &&
       match hat with Some h => list_eqb (rel_close tol) h exp_hat | None => false end &&
       Qeqb a exp_alpha && method_eqb m exp_m
    then Ok (sh ++ [2%nat], ret) else Err.
Definition opt_frame_close (tol : Q) (f : option frame) (idx : list key) (cols : list Q) (data : option (list (list rate))) : bool :=
  match f, data with
  | Some fr, Some d => frame_close tol fr idx cols d
  | None, None => true
  | _, _ => false
  end.
Definition bias_close (tol : Q) (r : res biasframe) (idx : list key) (cols : list Q) (vals : list (list rate))
           (lower upper : option (list (list rate))) : bool :=
  match r with
  | Ok b => frame_close tol (b_values b) idx cols vals && opt_frame_close tol (b_lower b) idx cols lower &&
            opt_frame_close tol (b_upper b) idx cols upper
  | Err => false
  end.
