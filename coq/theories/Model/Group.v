(* Model/Group.v — hand model of score_analysis/group_scores.py: GroupScores.__init__, swap,
   __getitem__, group_cm, groupwise, _sampling_method, bootstrap_sample.  Function by function, as
   the code is.  No proofs.

   A GroupScores object is a Scores object (easy counts 0) plus two label arrays that run parallel
   to pos / neg, plus the list of group names.  Group names are integers here (the harness maps the
   implementation's names — strings or ints — to integers order-preservingly).
   np.argsort (default quicksort, NOT stable) is a Section variable: the theorems hold for ANY
   function returning a sorting permutation; the executable instance is [iargsort]. *)
From SA Require Export Model.Sampling.
Open Scope Q_scope.

Definition G := Z.

Record gscores := mkG {
  base : scores;
  pos_groups : list G; neg_groups : list G;
  groups : list G }.

(* the (score, label) pairs of a class: what "the label stays attached to its score" is about *)
Definition pairs_pos (gs : gscores) : list (Q * G) := combine (pos (base gs)) (pos_groups gs).
Definition pairs_neg (gs : gscores) : list (Q * G) := combine (neg (base gs)) (neg_groups gs).
(* the two arrays of each class are aligned *)
Definition gwf (gs : gscores) : Prop :=
  length (pos (base gs)) = length (pos_groups gs) /\ length (neg (base gs)) = length (neg_groups gs).

(* a[idx] for idx : array of positions given as nat *)
Definition take_nat {A} (d : A) (l : list A) (idx : list nat) : list A := map (fun i => nth i l d) idx.

(* sorted(set(xs)) on integers *)
Fixpoint zinsert (x : Z) (l : list Z) : list Z :=
  match l with
  | [] => [x]
  | y :: r => if (x <? y)%Z then x :: y :: r else if (x =? y)%Z then y :: r else y :: zinsert x r
  end.
Definition sorted_set (l : list Z) : list Z := fold_right zinsert [] l.

(* a stable argsort (insertion sort on (key, position) pairs): the executable instance *)
Fixpoint kinsert {A} (x : Q * A) (l : list (Q * A)) : list (Q * A) :=
  match l with
  | [] => [x]
  | y :: r => if Qleb (fst x) (fst y) then x :: y :: r else y :: kinsert x r
  end.
Definition ksort {A} (l : list (Q * A)) : list (Q * A) := fold_right kinsert [] l.
Definition iargsort (l : list Q) : list nat := map snd (ksort (combine l (seq 0 (length l)))).

Definition select {A} (g : G) (xs : list A) (gl : list G) : list A :=
  map fst (filter (fun p => Z.eqb (snd p) g) (combine xs gl)).

Section WithArgsort.
Variable argsort : list Q -> list nat.

(* GroupScores.__init__ *)
Definition mk_gscores (ps ns : list Q) (pg ng : list G) (sc ec : label)
           (group_names : option (list G)) (is_sorted : bool) : gscores :=
  (* super().__init__(..., nb_easy_pos=0, nb_easy_neg=0, is_sorted=True) *)
  let b := mk_scores ps ns 0 0 sc ec true in
  let gsn := match group_names with
             | None => sorted_set (pg ++ ng)          (* sorted(set(pos_groups) | set(neg_groups)) *)
             | Some names => names
             end in
  if is_sorted then mkG b pg ng gsn
  else
    let pos_idx := argsort (pos b) in
    let neg_idx := argsort (neg b) in
    mkG (mkScores (take_nat 0 (pos b) pos_idx) (take_nat 0 (neg b) neg_idx)
                  (easy_pos b) (easy_neg b) (score_class b) (equal_class b))
        (take_nat 0%Z pg pos_idx) (take_nat 0%Z ng neg_idx) gsn.

(* GroupScores.swap *)
Definition gswap (gs : gscores) : gscores :=
  mk_gscores (neg (base gs)) (pos (base gs)) (neg_groups gs) (pos_groups gs)
    (match score_class (base gs) with Pos => Neg | Neg => Pos end)
    (match equal_class (base gs) with Pos => Neg | Neg => Pos end) None true.

(* GroupScores.__getitem__ (the cache is not modelled) *)
Definition group_scores (gs : gscores) (g : G) : scores :=
  mk_scores (select g (pos (base gs)) (pos_groups gs)) (select g (neg (base gs)) (neg_groups gs))
            0 0 (score_class (base gs)) (equal_class (base gs)) true.
Definition getitem (gs : gscores) (g : G) : res scores :=
  if existsb (Z.eqb g) (groups gs) then Ok (group_scores gs g) else Err EValueError.

Fixpoint map_res {A B} (f : A -> res B) (l : list A) : res (list B) :=
  match l with
  | [] => Ok []
  | x :: r => match f x with
              | Err e => Err e
              | Ok y => match map_res f r with Err e => Err e | Ok ys => Ok (y :: ys) end
              end
  end.

(* GroupScores.group_cm: [self[group].cm(threshold) for group in self.groups] *)
Definition group_cm (gs : gscores) (t : ext) : res (list cmz) :=
  map_res (fun g => match getitem gs g with Ok s => Ok (cm s t) | Err e => Err e end) (groups gs).
(* groupwise(metric)(scores): [metric(scores[group]) for group in scores.groups] *)
Definition groupwise {A} (metric : scores -> A) (gs : gscores) : res (list A) :=
  map_res (fun g => match getitem gs g with Ok s => Ok (metric s) | Err e => Err e end) (groups gs).

(* GroupScores._sampling_method *)
Definition g_resolve_method (gs : gscores) (c : config) : method :=
  match sampling_method c with
  | MDynamic =>
      match stratified_sampling c with
      | SByGroup => MReplacement
      | _ => if (nb_hard_pos (base gs) <? SINGLE_PASS_SAMPLE_THRESHOLD)%Z
                || (nb_hard_neg (base gs) <? SINGLE_PASS_SAMPLE_THRESHOLD)%Z
             then MReplacement else MSinglePass
      end
  | m => m
  end.

(* the by_group loop: one _sample_indices(by_label=False) per group, in the order of self.groups *)
Record gpart := mkPart { p_group : G; p_pos : list Q; p_neg : list Q }.
Fixpoint sample_groups (gs : gscores) (single_pass : bool) (names : list G) : M (list gpart) :=
  match names with
  | [] => ret []
  | g :: rest =>
      let s := group_scores gs g in
      r <- sample_indices s false single_pass ;;
      parts <- sample_groups gs single_pass rest ;;
      ret (mkPart g (take_idx 0 (pos s) (pos_idx r)) (take_idx 0 (neg s) (neg_idx r)) :: parts)
  end.
Definition labels_of {A} (g : G) (l : list A) : list G := map (fun _ => g) l.

(* GroupScores.bootstrap_sample; [gf] is the custom sampling method when config.sampling_method is
   a callable (its type differs from the Scores one, so it is passed next to the config) *)
Definition g_bootstrap_sample (c : config) (gf : gscores -> gscores) (gs : gscores) : M gscores :=
  if smoothing c then raise EValueError else
  let m := g_resolve_method gs c in
  let run (sp : bool) : M gscores :=
    match stratified_sampling c with
    | SByLabel | SNone =>
        r <- sample_indices (base gs) (is_by_label c) sp ;;
        ret (mk_gscores (take_idx 0 (pos (base gs)) (pos_idx r)) (take_idx 0 (neg (base gs)) (neg_idx r))
                        (take_idx 0%Z (pos_groups gs) (pos_idx r)) (take_idx 0%Z (neg_groups gs) (neg_idx r))
                        (score_class (base gs)) (equal_class (base gs)) (Some (groups gs)) sp)
    | SByGroup =>
        parts <- sample_groups gs sp (groups gs) ;;
        match parts with
        | [] => raise EValueError            (* np.concatenate of an empty list *)
        | _ =>
          ret (mk_gscores (concat (map p_pos parts)) (concat (map p_neg parts))
                          (concat (map (fun p => labels_of (p_group p) (p_pos p)) parts))
                          (concat (map (fun p => labels_of (p_group p) (p_neg p)) parts))
                          (score_class (base gs)) (equal_class (base gs)) (Some (groups gs)) false)
        end
    | SOther => raise EValueError
    end in
  match m with
  | MReplacement => run false
  | MSinglePass => run true
  | MProportion => raise EValueError
  | MOtherString => raise EValueError
  | MCallable _ => ret (gf gs)
  | MInvalid => raise EValueError
  | MDynamic => raise EBadHistory          (* unreachable *)
  end.

End WithArgsort.

(* single-pass flag of a resolved method *)
Definition is_sp (m : method) : bool := match m with MSinglePass => true | _ => false end.

(* NumPy's contract for np.argsort: it returns a permutation of the positions that sorts the array
   (nothing is promised about the order of ties) *)
Definition argsort_ok (argsort : list Q -> list nat) : Prop :=
  (forall l, Permutation (argsort l) (seq 0 (length l))) /\ (forall l, sorted (take_nat 0 l (argsort l))).

(* per-group counting *)
Definition has_label (g : G) (p : Q * G) : bool := Z.eqb (snd p) g.
Definition group_count (g : G) (gs : gscores) : Z :=
  (count (has_label g) (pairs_pos gs) + count (has_label g) (pairs_neg gs))%Z.
Definition cmz_sum (l : list cmz) : cmz := fold_right cmz_add cmz_zero l.

(* ---------- comparison helpers for the correspondence files ---------- *)
(* canonical order of (score, label) pairs: by score, then label (argsort is unstable: pairs with
   equal scores may come in any order) *)
Definition pair_leb (a b : Q * G) : bool :=
  Qltb (fst a) (fst b) || (Qeqb (fst a) (fst b) && (snd a <=? snd b)%Z).
Fixpoint pinsert (x : Q * G) (l : list (Q * G)) : list (Q * G) :=
  match l with
  | [] => [x]
  | y :: r => if pair_leb x y then x :: y :: r else y :: pinsert x r
  end.
Definition canon (l : list (Q * G)) : list (Q * G) := fold_right pinsert [] l.
Fixpoint pl_eqb (a b : list (Q * G)) : bool :=
  match a, b with
  | [], [] => true
  | x :: r, y :: s => Qeqb (fst x) (fst y) && Z.eqb (snd x) (snd y) && pl_eqb r s
  | _, _ => false
  end.
Definition sortedb (l : list Q) : bool :=
  match l with [] => true | x :: r => forallb (fun p => Qleb (fst p) (snd p)) (combine l r) end.
(* same flags / group list / aligned arrays, scores sorted, same pairs up to the order of ties *)
Definition gscores_agree (a b : gscores) : bool :=
  pl_eqb (canon (pairs_pos a)) (canon (pairs_pos b)) && pl_eqb (canon (pairs_neg a)) (canon (pairs_neg b))
  && Nat.eqb (length (pos (base a))) (length (pos_groups a)) && Nat.eqb (length (neg (base a))) (length (neg_groups a))
  && Nat.eqb (length (pos (base b))) (length (pos_groups b)) && Nat.eqb (length (neg (base b))) (length (neg_groups b))
  && ql_eqb (pos (base a)) (pos (base b)) && ql_eqb (neg (base a)) (neg (base b))
  && Z.eqb (easy_pos (base a)) (easy_pos (base b)) && Z.eqb (easy_neg (base a)) (easy_neg (base b))
  && label_eq (score_class (base a)) (score_class (base b)) && label_eq (equal_class (base a)) (equal_class (base b))
  && zl_eqb (groups a) (groups b).
Definition gsample_agrees (tol : Q) (r : res (gscores * list draw * list draw)) (hist : list draw)
           (expected : gscores) : bool :=
  match r with
  | Ok (b, rest, calls) =>
      match rest with [] => true | _ => false end && calls_close tol calls hist && gscores_agree b expected
  | Err _ => false
  end.
Definition res_scores_agree (r : res scores) (expected : scores) : bool :=
  match r with Ok s => scores_eqb s expected | Err _ => false end.
Definition cmz_eqb' (a b : cmz) : bool :=
  Z.eqb (ctp a) (ctp b) && Z.eqb (cfn a) (cfn b) && Z.eqb (cfp a) (cfp b) && Z.eqb (ctn a) (ctn b).
Fixpoint cml_eqb (a b : list cmz) : bool :=
  match a, b with
  | [], [] => true
  | x :: r, y :: s => cmz_eqb' x y && cml_eqb r s
  | _, _ => false
  end.
Definition res_cml_agree (r : res (list cmz)) (expected : list cmz) : bool :=
  match r with Ok l => cml_eqb l expected | Err _ => false end.
