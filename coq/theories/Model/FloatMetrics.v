(* Model/FloatMetrics.v — binary64 model (Coq primitive floats) of the two-term rates of metrics.py and of
   utils.binomial_ci, operation by operation in the order NumPy performs them:
     tpr = tp / (tp + fn), fnr = fn / (tp + fn), tnr = tn / (fp + tn), fpr = fp / (fp + tn),
     ppv = tp / (tp + fp), npv = tn / (tn + fn), fdr = 1 - ppv, for = 1 - npv   (NaN where the denominator is 0)
     binomial_ci: p = count / nobs ; std = sqrt((p * (1 - p)) / nobs) ; dist = z * std ; (p - dist, p + dist)
   with z = scipy.stats.norm.isf(alpha / 2) as recorded from the implementation.  Integer matrices enter as the
   doubles of their cells (cells and sums below 2^53, so the conversions are exact).  Compared bit for bit (NaN
   matching NaN) with metrics.* by C04; no theorem is stated about it. *)
From Coq Require Import PrimFloat List Bool.
Import ListNotations.
Open Scope float_scope.

Definition fsame (a b : float) : bool := (a =? b) || (is_nan a && is_nan b).
Definition fdivn (num den : float) : float := if den =? 0 then nan else num / den.

Record fcm := mkFcm { f_tp : float; f_fn : float; f_fp : float; f_tn : float }.

Definition tpr_f m := fdivn (f_tp m) (f_tp m + f_fn m).
Definition fnr_f m := fdivn (f_fn m) (f_tp m + f_fn m).
Definition tnr_f m := fdivn (f_tn m) (f_fp m + f_tn m).
Definition fpr_f m := fdivn (f_fp m) (f_fp m + f_tn m).
Definition ppv_f m := fdivn (f_tp m) (f_tp m + f_fp m).
Definition npv_f m := fdivn (f_tn m) (f_tn m + f_fn m).
Definition fdr_f m := 1 - ppv_f m.
Definition for_f m := 1 - npv_f m.
Definition rates_f (m : fcm) : list float :=
  [tpr_f m; fnr_f m; tnr_f m; fpr_f m; ppv_f m; npv_f m; fdr_f m; for_f m].

Definition binomial_ci_f (count nobs z : float) : float * float :=
  let p := fdivn count nobs in
  let std := sqrt (fdivn (p * (1 - p)) nobs) in
  let dist := z * std in
  (p - dist, p + dist).
(* tpr_ci, tnr_ci, fpr_ci, fnr_ci *)
Definition cis_f (m : fcm) (z : float) : list (float * float) :=
  [binomial_ci_f (f_tp m) (f_tp m + f_fn m) z; binomial_ci_f (f_tn m) (f_fp m + f_tn m) z;
   binomial_ci_f (f_fp m) (f_fp m + f_tn m) z; binomial_ci_f (f_fn m) (f_tp m + f_fn m) z].

Fixpoint all2 {A B} (f : A -> B -> bool) (l : list A) (r : list B) : bool :=
  match l, r with
  | [], [] => true
  | a :: l', b :: r' => f a b && all2 f l' r'
  | _, _ => false
  end.
Definition pair_same (a b : float * float) : bool := fsame (fst a) (fst b) && fsame (snd a) (snd b).

(* correspondence terms: per matrix, the eight rates; per matrix and z, the four intervals *)
Definition frates_check (l : list (fcm * list float)) : bool :=
  forallb (fun c => all2 fsame (rates_f (fst c)) (snd c)) l.
Definition fcis_check (z : float) (l : list (fcm * list (float * float))) : bool :=
  forallb (fun c => all2 pair_same (cis_f (fst c) z) (snd c)) l.

Example float_metrics_example :
  frates_check [(mkFcm 3 1 0 0, [0x1.8p-1; 0x1p-2; nan; nan; 1; 0; 0; 1])] = true /\
  fcis_check 2 [(mkFcm 2 2 0 0, [(0, 1); (nan, nan); (nan, nan); (0, 1)])] = true.
Proof. split; vm_compute; reflexivity. Qed.
