(* Model/HarnessMetrics.v — boolean comparison helpers used only by the generated correspondence files
   of C04 / C05 (model of metrics.py / cm.py evaluated by vm_compute against the implementation's outputs). *)
From SA Require Export Model.Harness Model.Multiclass.
Open Scope Q_scope.

Definition Qabsb (x : Q) : Q := if Qleb 0 x then x else - x.
(* |x - y| <= tol * max(|x|, |y|): agreement up to float rounding *)
Definition Qclose_rel (tol x y : Q) : bool :=
  let s := if Qleb (Qabsb x) (Qabsb y) then Qabsb y else Qabsb x in Qabs_le x y (tol * s).
(* e = true: the implementation's float is (by its short dyadic form) exactly the model's rational;
   e = false: correctly rounded quotients / rounded sums: relative 2^-52, or absolute 2^-52 for
   values obtained as 1 - x *)
Definition tol52 : Q := 1 # 4503599627370496.
Definition qcmp (ex : bool * Q) (x : Q) : bool :=
  if fst ex then Qeqb x (snd ex) else Qclose_rel (4 * tol52) x (snd ex).
Definition rcmp (ex : bool * rate) (x : rate) : bool :=
  match x, snd ex with
  | Some a, Some b => if fst ex then Qeqb a b else (Qclose_rel tol52 a b || Qabs_le a b (4 * tol52))
  | None, None => true
  | _, _ => false
  end.
Fixpoint all2 {A B} (f : A -> B -> bool) (l1 : list A) (l2 : list B) : bool :=
  match l1, l2 with
  | [], [] => true
  | x :: r, y :: s => f x y && all2 f r s
  | _, _ => false
  end.

Definition q_metrics : list (cm2 -> Q) := [tp; tn; fp; fn; p; n; top; ton; pop].
Definition r_metrics : list (cm2 -> rate) :=
  [accuracy; error_rate; tpr; tnr; fpr; fnr; tar; frr; trr; far; topr; tonr; acceptance_rate; rejection_rate;
   ppv; npv; fdr; for_].
Definition ci_metrics (isf sqrtQ : Q -> Q) : list (cm2 -> Q -> rate * rate) :=
  [tpr_ci isf sqrtQ; tnr_ci isf sqrtQ; fpr_ci isf sqrtQ; fnr_ci isf sqrtQ].
(* the alias intervals tar_ci ... far_ci are definitional (tie lemmas) and compared by the oracle only *)

(* expected values: one list (over the stacked matrices) per function, in the order of the tables above *)
Definition check_q (ms : list cm2) (exp : list (list (bool * Q))) : bool :=
  all2 (fun f e => all2 qcmp e (map f ms)) q_metrics exp.
Definition check_r (ms : list cm2) (exp : list (list (bool * rate))) : bool :=
  all2 (fun f e => all2 rcmp e (map f ms)) r_metrics exp.

(* Interval: the model is run with isf := the constant z (the float scipy returned for alpha/2, as an
   exact rational) and sqrtQ := identity, so that it returns (p - z*v, p + z*v) with v = p(1-p)/n exactly;
   the implementation's (lo, hi) must have centre p (1e-12, scaled by 1 + width) and ((hi-lo)/(2z))^2 = v (1e-9 relative). *)
Definition ci_agree (z : Q) (impl model : rate * rate) : bool :=
  match model, impl with
  | (Some lo, Some hi), (Some ilo, Some ihi) =>
      Qabs_le ((lo + hi) * (1#2)) ((ilo + ihi) * (1#2)) ((1 # 1000000000000) * (1 + Qabsb (ihi - ilo))) &&
      (let h := (ihi - ilo) * (1#2) / z in
       Qabs_le ((hi - lo) * (1#2) / z) (h * h) ((1 # 1000000000) * (1 + h * h)))
  | (None, None), (None, None) => true
  | _, _ => false
  end.
Definition check_ci (ms : list cm2) (alpha z : Q) (exp : list (list (rate * rate))) : bool :=
  all2 (fun f e => all2 (ci_agree z) e (map (fun m => f m alpha) ms)) (ci_metrics (fun _ => z) (fun x => x)) exp.

(* ---------- C05 ---------- *)
Definition mat_eqb (a b : mat) : bool := list_eqb (list_eqb Qeqb) a b.
Definition cm2_eqb (a b : cm2) : bool :=
  Qeqb (m00 a) (m00 b) && Qeqb (m01 a) (m01 b) && Qeqb (m10 a) (m10 b) && Qeqb (m11 a) (m11 b).
Definition opt_mat_eqb (a b : option mat) : bool :=
  match a, b with Some x, Some y => mat_eqb x y | None, None => true | _, _ => false end.
Definition opt_cm_eqb (a b : option (mat * list cls)) : bool :=
  match a, b with
  | Some (x, c), Some (y, d) => mat_eqb x y && zlist_eqb c d
  | None, None => true
  | _, _ => false
  end.
Definition rcmp_tol (a b : rate) : bool :=
  match a, b with
  | Some x, Some y => Qclose_rel tol52 x y || Qabs_le x y (4 * tol52)
  | None, None => true
  | _, _ => false
  end.
Definition c05_q_metrics : list (cm2 -> Q) := [tp; tn; fp; fn; p; n; top; ton].
Definition c05_r_metrics : list (cm2 -> rate) :=
  [tpr; tnr; fpr; fnr; topr; tonr; ppv; npv; fdr; for_; accuracy; error_rate].
(* everything observable on one (unstacked) multiclass matrix: the one-vs-all matrices cell by cell, the per-class
   counts (exact), the per-class rates, accuracy / error_rate / pop *)
Definition c05_check_matrix (M : mat) (N : nat) (ova : list cm2) (qs : list (list Q)) (rs : list (list rate))
    (acc err : rate) (popv : Q) : bool :=
  let o := one_vs_all M N in
  list_eqb cm2_eqb o ova &&
  all2 (fun f e => list_eqb Qeqb (map f o) e) c05_q_metrics qs &&
  all2 (fun f e => all2 rcmp_tol (map f o) e) c05_r_metrics rs &&
  rcmp_tol (accuracyN M) acc && rcmp_tol (error_rateN M) err && Qeqb (popN M) popv.
Definition c05_check_dict {A} (cmp : A -> A -> bool) (r : result A) (items : list (cls * A)) : bool :=
  match r with
  | AsDict d => all2 (fun kv e => Z.eqb (fst kv) (fst e) && cmp (snd kv) (snd e)) d items
  | _ => false
  end.
