(* Model/HarnessC17.v — boolean comparison helpers used only by generated C17 correspondence files. *)
From SA Require Export Model.InvertPL Model.Harness.
Open Scope Q_scope.

(* tol = 0 makes this exact equality *)
Definition qlist_close (tol : Q) (a b : list Q) : bool := list_eqb (fun u v => Qabs_le u v tol) a b.

Definition inverted_agree (tol : Q) (a b : Res.res inverted) : bool :=
  match a, b with
  | ErrValue, ErrValue => true
  | Ok (Bare u), Ok (Bare v) => qlist_close tol u v
  | Ok (ListOf u), Ok (ListOf v) => list_eqb (qlist_close tol) u v
  | _, _ => false
  end.

(* threshold_at_metric against the implementation: the recorded evaluation points, the recorded metric
   values and the result; end to end whenever points and values are reproduced exactly *)
Definition tam_check (m : metric_name) (s : scores) (tg : target) (p : points_arg)
    (pts_rec y_rec : list Q) (result : Res.res inverted) (tolp tolz : Q) : bool :=
  match select_points s p, result with
  | ErrValue, ErrValue => true
  | Ok pts, _ =>
      qlist_close tolp pts pts_rec &&
      qlist_close (1 # 1125899906842624) (metric_of_name m s pts_rec) y_rec &&
      inverted_agree tolz (invert_pl pts_rec y_rec tg) result &&
      (if qlist_eqb pts pts_rec && qlist_eqb (metric_of_name m s pts_rec) y_rec
       then inverted_agree tolz (threshold_at_metric (metric_of_name m) s tg p) result else true)
  | _, _ => false
  end.
