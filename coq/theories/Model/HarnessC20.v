(* Model/HarnessC20.v — boolean comparison helpers used only by generated C20 correspondence files. *)
From SA Require Export Model.Datasets Model.Harness.
Open Scope Q_scope.

(* a finite table standing for an external function (scipy.stats.norm.*, np.sqrt): the harness supplies
   the values at the exact arguments the model asks for; any other argument yields a sentinel *)
Definition oracle_tab (tab : list (Q * Q)) (z : Q) : Q :=
  match find (fun p => Qeqb (fst p) z) tab with Some p => snd p | None => (-1000003) end.

Definition qlist_close20 (tol : Q) (a b : list Q) : bool := list_eqb (fun u v => Qabs_le u v tol) a b.
Definition opt_z_eqb (a b : option Z) : bool :=
  match a, b with Some x, Some y => Z.eqb x y | None, None => true | _, _ => false end.

Definition call_eqb (tol : Q) (a b : rng_call) : bool :=
  match a, b with
  | CBinomial n p s, CBinomial n' p' s' => Z.eqb n n' && Qeqb p p' && opt_z_eqb s s'
  | CNormal l sc k, CNormal l' sc' k' => Qeqb l l' && Qeqb sc sc' && Z.eqb k k'
  | CShuffle k, CShuffle k' => Z.eqb k k'
  | CChoice a k p, CChoice a' k' p' => Z.eqb a a' && Z.eqb k k' && qlist_close20 tol p p'
  | _, _ => false
  end.

Definition sample_agree (r : option (list rng_call * scores)) (calls : list rng_call) (ps ns : list Q) (sc : label) : bool :=
  match r with
  | None => false
  | Some (c, s) => list_eqb (call_eqb 0) c calls && qlist_eqb (pos s) ps && qlist_eqb (neg s) ns &&
                   label_eqb (score_class s) sc && label_eqb (equal_class s) Pos &&
                   Z.eqb (easy_pos s) 0 && Z.eqb (easy_neg s) 0
  end.

Definition bern_agree (r : Res.res (list rng_call * list Z)) (raised : bool) (calls : list rng_call) (data : list Z) : bool :=
  match r with
  | ErrValue => raised
  | Ok (c, d) => negb raised && list_eqb (call_eqb 0) c calls && zlist_eqb d data
  end.

Definition corr_agree (tol : Q) (r : Res.res (list rng_call * (list Z * list Z))) (raised : bool) (calls : list rng_call)
    (r0 r1 : list Z) : bool :=
  match r with
  | ErrValue => raised
  | Ok (c, (d0, d1)) => negb raised && list_eqb (call_eqb tol) c calls && zlist_eqb d0 r0 && zlist_eqb d1 r1
  end.

Definition roc_agree (tol : Q) (r : Res.res (list Q * list Q * list Q)) (raised : bool) (fn fp th : list Q) : bool :=
  match r with
  | ErrValue => raised
  | Ok (a, b, c) => negb raised && qlist_close20 tol a fn && qlist_close20 tol b fp && qlist_close20 tol c th
  end.

Definition nds_agree (tol : Q) (d : normal_ds) (mp mn sp sn pp : Q) (n : option Z) (sc : label) : bool :=
  Qabs_le (mu_pos d) mp tol && Qabs_le (mu_neg d) mn tol && Qeqb (sigma_pos d) sp && Qeqb (sigma_neg d) sn &&
  Qabs_le (p_pos d) pp tol && opt_z_eqb (n_ds d) n && label_eqb (nd_score_class d) sc.
