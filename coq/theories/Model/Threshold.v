(* Model/Threshold.v — hand model of threshold setting in score_analysis/scores.py:
   the ratio properties, threshold_at_{tpr,fnr,tnr,fpr,topr,tonr}, _threshold_at_ratio and
   _invert_increasing_function, for one (scalar) target.  Array targets are the elementwise map.
   Exact rational arithmetic (DESIGN 3.3); np.nextafter = succ/pred parameters (Base/Carrier.v). *)
From SA Require Export Base.Carrier Model.Scores.
Open Scope Q_scope.

Inductive res (A : Type) : Type := Ret (a : A) | Raise.
Arguments Ret {A} a.
Arguments Raise {A}.

Inductive method := Lower | Higher | Linear.
Definition method_eqb (a b : method) : bool :=
  match a, b with Lower, Lower | Higher, Higher | Linear, Linear => true | _, _ => false end.
(* reverse_method dictionary *)
Definition reverse_method (m : method) : method :=
  match m with Lower => Higher | Higher => Lower | Linear => Linear end.

(* ---------- ratio properties (scores.py 145-207) ---------- *)
Definition hard_pos_ratio (s : scores) : Q :=
  if (0 <? easy_pos s)%Z then inject_Z (len (pos s)) / inject_Z (len (pos s) + easy_pos s) else 1.
Definition hard_neg_ratio (s : scores) : Q :=
  if (0 <? easy_neg s)%Z then inject_Z (len (neg s)) / inject_Z (len (neg s) + easy_neg s) else 1.
Definition easy_pos_ratio (s : scores) : Q := 1 - hard_pos_ratio s.
Definition easy_neg_ratio (s : scores) : Q := 1 - hard_neg_ratio s.
Definition nb_easy_samples (s : scores) : Z := (easy_pos s + easy_neg s)%Z.
Definition nb_hard_samples (s : scores) : Z := (len (pos s) + len (neg s))%Z.
Definition nb_all_pos (s : scores) : Z := (easy_pos s + len (pos s))%Z.
Definition nb_all_neg (s : scores) : Z := (easy_neg s + len (neg s))%Z.
Definition nb_all_samples (s : scores) : Z := (nb_easy_samples s + nb_hard_samples s)%Z.
Definition easy_ratio (s : scores) : Q :=
  if (0 <? nb_easy_samples s)%Z then inject_Z (nb_easy_samples s) / inject_Z (nb_all_samples s) else 0.
Definition hard_ratio (s : scores) : Q := 1 - easy_ratio s.

Definition nthZ (l : list Q) (i : Z) : Q := nth (Z.to_nat i) l 0.
(* np.maximum / np.minimum on scalars *)
Definition Qmaximum := Qmax2.
Definition Qminimum := Qmin2.
(* a numpy bool used as a number *)
Definition b2q (b : bool) : Q := if b then 1 else 0.

Section WithCarrier.
  Variable succ pred : Q -> Q.

  (* Scores._invert_increasing_function, one target *)
  Definition inv_incr (l : list Q) (target_ratio : Q) (left_continuous : bool) (m : method) : Q :=
    let n := len l in
    let at_upper_end := Qleb 1 target_ratio in
    let target_ratio := if negb left_continuous then target_ratio - 1 / inject_Z n else target_ratio in
    let target := target_ratio * inject_Z n in
    let left_idx := Qfloor target in
    let right_idx := Qceiling target in
    let la := inject_Z right_idx - target in
    let left_idx := Z.max (Z.min left_idx (n - 1)) 0 in
    let right_idx := Z.max (Z.min right_idx (n - 1)) 0 in
    let threshold :=
      match m with
      | Linear => la * nthZ l left_idx + (1 - la) * nthZ l right_idx
      | Lower => nthZ l left_idx
      | Higher => nthZ l right_idx
      end in
    let threshold := if Qleb target_ratio 0 then pred (nthZ l 0) else threshold in
    let threshold := if at_upper_end then succ (nthZ l (n - 1)) else threshold in
    threshold.

  (* Scores._threshold_at_ratio, one target, method already validated *)
  Definition threshold_at_ratio (s : scores) (l : list Q) (target_ratio : Q) (increasing : bool)
             (ratio_class : label) (m : method) : Q :=
    let left_continuous := label_eqb ratio_class Pos in
    let left_continuous :=
      if negb (label_eqb (equal_class s) Pos) then negb left_continuous else left_continuous in
    let '(target_ratio, m) :=
      if negb increasing then (1 - target_ratio, reverse_method m) else (target_ratio, m) in
    let '(target_ratio, left_continuous, m) :=
      if negb (label_eqb (score_class s) Pos)
      then (1 - target_ratio, negb left_continuous, reverse_method m)
      else (target_ratio, left_continuous, m) in
    inv_incr l target_ratio left_continuous m.

  Definition threshold_at_tpr (s : scores) (r : Q) (m : method) : res Q :=
    if (len (pos s) =? 0)%Z then Raise else
    let at_upper_end := Qleb 1 r in
    let r := Qmaximum (r - easy_pos_ratio s) 0 in
    let r := Qminimum (r / hard_pos_ratio s) 1 in
    let r := Qmaximum r (b2q at_upper_end) in
    Ret (threshold_at_ratio s (pos s) r false Pos m).
  Definition threshold_at_fnr (s : scores) (r : Q) (m : method) : res Q :=
    if (len (pos s) =? 0)%Z then Raise else
    let r := Qminimum (r / hard_pos_ratio s) 1 in
    Ret (threshold_at_ratio s (pos s) r true Pos m).
  Definition threshold_at_tnr (s : scores) (r : Q) (m : method) : res Q :=
    if (len (neg s) =? 0)%Z then Raise else
    let at_upper_end := Qleb 1 r in
    let r := Qmaximum (r - easy_neg_ratio s) 0 in
    let r := Qminimum (r / hard_neg_ratio s) 1 in
    let r := Qmaximum r (b2q at_upper_end) in
    Ret (threshold_at_ratio s (neg s) r true Neg m).
  Definition threshold_at_fpr (s : scores) (r : Q) (m : method) : res Q :=
    if (len (neg s) =? 0)%Z then Raise else
    let r := Qminimum (r / hard_neg_ratio s) 1 in
    Ret (threshold_at_ratio s (neg s) r false Neg m).
  Definition threshold_at_topr (s : scores) (r : Q) (m : method) : res Q :=
    let concat_scores := isort (neg s ++ pos s) in
    if (len concat_scores =? 0)%Z then Raise else
    let easy_pos_to_total_ratio := inject_Z (easy_pos s) / inject_Z (nb_all_samples s) in
    let at_upper_end := Qleb 1 r in
    let r := Qmaximum (r - easy_pos_to_total_ratio) 0 in
    let r := Qminimum (r / hard_ratio s) 1 in
    let r := Qmaximum r (b2q at_upper_end) in
    Ret (threshold_at_ratio s concat_scores r false Pos m).
  Definition threshold_at_tonr (s : scores) (r : Q) (m : method) : res Q :=
    let concat_scores := isort (neg s ++ pos s) in
    if (len concat_scores =? 0)%Z then Raise else
    let easy_neg_to_total_ratio := inject_Z (easy_neg s) / inject_Z (nb_all_samples s) in
    let at_upper_end := Qleb 1 r in
    let r := Qmaximum (r - easy_neg_to_total_ratio) 0 in
    let r := Qminimum (r / hard_ratio s) 1 in
    let r := Qmaximum r (b2q at_upper_end) in
    Ret (threshold_at_ratio s concat_scores r true Neg m).
End WithCarrier.

Inductive metric6 := MTpr | MFnr | MTnr | MFpr | MTopr | MTonr.
Definition threshold_at (succ pred : Q -> Q) (mt : metric6) :=
  match mt with
  | MTpr => threshold_at_tpr succ pred | MFnr => threshold_at_fnr succ pred
  | MTnr => threshold_at_tnr succ pred | MFpr => threshold_at_fpr succ pred
  | MTopr => threshold_at_topr succ pred | MTonr => threshold_at_tonr succ pred
  end.
Definition metric_at (mt : metric6) (s : scores) (t : ext) : rate :=
  match mt with
  | MTpr => s_tpr s t | MFnr => s_fnr s t | MTnr => s_tnr s t
  | MFpr => s_fpr s t | MTopr => s_topr s t | MTonr => s_tonr s t
  end.
