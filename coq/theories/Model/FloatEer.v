(* Model/FloatEer.v — binary64 model of Scores.eer and Scores._find_root (scores.py), built on Model/FloatThreshold.v.
   Compared bit for bit with the implementation (C06) on every input whose score arrays are float64 or integer typed. *)
From Coq Require Import PrimFloat Uint63 ZArith List Bool.
From SA Require Import Model.FloatThreshold.
Import ListNotations.
Open Scope float_scope.

Definition xtol_f : float := 0x1.b7cdfd9d7bdbbp-34.      (* 1e-10 *)
Definition atol_f : float := 0x1.5798ee2308c3ap-27.      (* 1e-8 *)
Definition rtol_f : float := 0x1.4f8b588e368f1p-17.      (* 1e-5 *)
(* np.sign *)
Definition fsign (x : float) : float := if 0 <? x then 1 else if x <? 0 then -1 else 0.
(* np.isclose(a, b) for finite a, b *)
Definition isclose_f (a b : float) : bool := abs (a - b) <=? atol_f + rtol_f * abs b.

Fixpoint find_root_loop_f (fuel : nat) (f : float -> float) (xa xe : float) (find_first : bool) : float :=
  match fuel with
  | O => (xa + xe) / 2
  | S k =>
    if abs (xa - xe) <? xtol_f then (xa + xe) / 2
    else
      let xm := (xa + xe) / 2 in
      if f xm <? 0 then find_root_loop_f k f xm xe find_first
      else if 0 <? f xm then find_root_loop_f k f xa xm find_first
      else if find_first then find_root_loop_f k f xa xm find_first
      else find_root_loop_f k f xm xe find_first
  end.
Definition find_root_f (fuel : nat) (f : float -> float) (xa xe : float) (find_first : bool) : option float :=
  if negb ((f xa <=? 0) && (0 <=? f xe)) then None else Some (find_root_loop_f fuel f xa xe find_first).

Definition thr0 (r : option float) : float := match r with Some t => t | None => 0 end.
Definition t_fpr_f (s : fscores) (x : float) : float := thr0 (threshold_at_f FFpr s x FLinear).
Definition t_fnr_f (s : fscores) (x : float) : float := thr0 (threshold_at_f FFnr s x FLinear).

Definition eer_f (fuel : nat) (s : fscores) : option (float * float) :=
  if ((flen (fpos s) =? 0) || (flen (fneg s) =? 0))%Z then None else
  let p0 := fnth (fpos s) 0 in let pl := fnth (fpos s) (flen (fpos s) - 1) in
  let n0 := fnth (fneg s) 0 in let nl := fnth (fneg s) (flen (fneg s) - 1) in
  if (nl <? p0) && is_pos (fsc s) then Some ((p0 + nl) / 2, 0)
  else if (pl <? n0) && negb (is_pos (fsc s)) then Some ((pl + n0) / 2, 0)
  else
    let sign := - fsign (t_fpr_f s 0 - t_fnr_f s 0) in
    let f := fun x => sign * (t_fpr_f s x - t_fnr_f s x) in
    let hp := hard_pos_ratio_f s in let hn := hard_neg_ratio_f s in
    let max_eer := if hn <? hp then hn else hp in          (* Python min(a, b): b if b < a else a *)
    if f max_eer <? 0 then
      if isclose_f hp hn then Some ((t_fpr_f s max_eer + t_fnr_f s max_eer) / 2, max_eer)
      else if hp <? hn then Some (t_fpr_f s hp, hp)
      else Some (t_fnr_f s hn, hn)
    else
      match find_root_f fuel f 0 max_eer true, find_root_f fuel f 0 max_eer false with
      | Some lft, Some rgt => let e := (lft + rgt) / 2 in Some (t_fpr_f s e, e)
      | _, _ => None
      end.

Definition eer_agree (r : option (float * float)) (t e : float) : bool :=
  match r with Some (t', e') => feq t' t && feq e' e | None => false end.

Example float_eer_example :
  eer_agree (eer_f 200 (mkF [1; 3; 5; 8; 9] [0; 2; 4; 6] 0 0 FPos FPos)) 0x1.e38e38e380000p+1 0x1.1c71c71c80000p-2 = true.
Proof. vm_compute. reflexivity. Qed.
