(* Model/Symmetry.v — transformed Scores objects used by C08 / C09: negated scores with flipped
   direction, increasing affine maps, and easy samples materialised as extreme scores.  These mirror
   what a caller would construct with the public constructor (which sorts). *)
From SA Require Export Model.Scores.
Open Scope Q_scope.

Definition neg_ext (t : ext) : ext :=
  match t with NegInf => PosInf | Fin q => Fin (- q) | PosInf => NegInf end.
Definition affine_ext (a b : Q) (t : ext) : ext :=
  match t with NegInf => NegInf | Fin q => Fin (a * q + b) | PosInf => PosInf end.

(* Scores(-pos, -neg, score_class flipped, equal_class kept) *)
Definition neg_scores (s : scores) : scores :=
  mk_scores (map Qopp (pos s)) (map Qopp (neg s)) (easy_pos s) (easy_neg s)
            (flip (score_class s)) (equal_class s) false.
(* Scores(a*pos+b, a*neg+b, same flags) *)
Definition affine_scores (a b : Q) (s : scores) : scores :=
  mk_scores (map (fun x => a * x + b) (pos s)) (map (fun x => a * x + b) (neg s)) (easy_pos s) (easy_neg s)
            (score_class s) (equal_class s) false.

(* the easy samples present as actual scores: k positives at [ppos] and m negatives at [pneg] *)
Definition materialise (s : scores) (ppos pneg : Q) : scores :=
  mk_scores (pos s ++ repeat ppos (Z.to_nat (easy_pos s))) (neg s ++ repeat pneg (Z.to_nat (easy_neg s)))
            0 0 (score_class s) (equal_class s) false.
