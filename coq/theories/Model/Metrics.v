(* Model/Metrics.v — hand model of score_analysis/metrics.py and utils.binomial_ci,
   function by function, on one 2x2 matrix (stacked matrices are the pointwise map, Base/Arr.v).
   No proofs here. The translator regenerates the same definitions from the current source
   (build/run/*/Gen_metrics.v) and Tie/Tie_metrics.v proves them equal. *)
From SA Require Export Base.Rate.
Open Scope Q_scope.

(* matrix[..., i, j] *)
Record cm2 := { m00 : Q; m01 : Q; m10 : Q; m11 : Q }.

Definition tp (m : cm2) : Q := m00 m.
Definition tn (m : cm2) : Q := m11 m.
Definition fp (m : cm2) : Q := m10 m.
Definition fn (m : cm2) : Q := m01 m.
Definition p (m : cm2) : Q := m00 m + m01 m.
Definition n (m : cm2) : Q := m10 m + m11 m.
Definition top (m : cm2) : Q := m00 m + m10 m.
Definition ton (m : cm2) : Q := m01 m + m11 m.
(* np.sum(matrix, axis=(-1,-2)) *)
Definition msum (m : cm2) : Q := m00 m + m01 m + m10 m + m11 m.
(* np.sum(np.diagonal(matrix), axis=-1) *)
Definition mtrace (m : cm2) : Q := m00 m + m11 m.
Definition pop (m : cm2) : Q := msum m.
Definition accuracy (m : cm2) : rate := rdiv (mtrace m) (msum m).
Definition error_rate (m : cm2) : rate := rcompl (accuracy m).
Definition tpr (m : cm2) : rate := rdiv (m00 m) (m00 m + m01 m).
Definition tnr (m : cm2) : rate := rdiv (m11 m) (m10 m + m11 m).
Definition fpr (m : cm2) : rate := rdiv (m10 m) (m10 m + m11 m).
Definition fnr (m : cm2) : rate := rdiv (m01 m) (m00 m + m01 m).
Definition tar := tpr.
Definition frr := fnr.
Definition trr := tnr.
Definition far := fpr.
Definition topr (m : cm2) : rate := rdiv (top m) (pop m).
Definition tonr (m : cm2) : rate := rdiv (ton m) (pop m).
Definition acceptance_rate := topr.
Definition rejection_rate := tonr.
Definition ppv (m : cm2) : rate := rdiv (m00 m) (m00 m + m10 m).
Definition npv (m : cm2) : rate := rdiv (m11 m) (m11 m + m01 m).
Definition fdr (m : cm2) : rate := rcompl (ppv m).
Definition for_ (m : cm2) : rate := rcompl (npv m).

Section CI.
  (* scipy.stats.norm.isf and np.sqrt: oracles (DESIGN 3.4) *)
  Variable isf : Q -> Q.
  Variable sqrtQ : Q -> Q.

  (* utils.binomial_ci: (lower, upper), each possibly NaN *)
  Definition binomial_ci (count nobs alpha : Q) : rate * rate :=
    let p := rdiv count nobs in
    let std := rdivr (rmul p (rsub rone p)) nobs in
    let std := rmap sqrtQ std in
    let dist := rscale (isf (alpha / 2)) std in
    (rsub p dist, radd p dist).

  Definition tpr_ci (m : cm2) (alpha : Q) := binomial_ci (tp m) (p m) alpha.
  Definition tnr_ci (m : cm2) (alpha : Q) := binomial_ci (tn m) (n m) alpha.
  Definition fpr_ci (m : cm2) (alpha : Q) := binomial_ci (fp m) (n m) alpha.
  Definition fnr_ci (m : cm2) (alpha : Q) := binomial_ci (fn m) (p m) alpha.
  Definition tar_ci := tpr_ci.
  Definition frr_ci := fnr_ci.
  Definition trr_ci := tnr_ci.
  Definition far_ci := fpr_ci.
End CI.

Definition nonneg (m : cm2) : Prop := 0 <= m00 m /\ 0 <= m01 m /\ 0 <= m10 m /\ 0 <= m11 m.
