(* Model/InvertPL.v — hand model of score_analysis/utils.py: invert_pl_function and of
   score_analysis/scores.py: Scores.threshold_at_metric.  Follows the Python statement by statement
   (exact rational arithmetic, DESIGN 3.3).  No proofs here. *)
From SA Require Export Base.Prelude Base.Res Model.Scores.
From Coq Require Export Qabs.
Open Scope Q_scope.

(* ------------------------------------------------------------------ invert_pl_function *)

(* crossing_up = (y[:-1] <= t) & (y[1:] > t) ; crossing_down = (y[:-1] >= t) & (y[1:] < t) *)
Definition crossing_up (y0 y1 t : Q) : bool := Qleb y0 t && Qltb t y1.
Definition crossing_down (y0 y1 t : Q) : bool := Qleb t y0 && Qltb y1 t.
Definition crossing (y0 y1 t : Q) : bool := crossing_up y0 y1 t || crossing_down y0 y1 t.

(* one column (one target t) of the mask: entries pair y[:-1] with y[1:] *)
Definition crossing_mask (y : list Q) (t : Q) : list bool :=
  map (fun p => crossing (fst p) (snd p) t) (combine (removelast y) (tl y)).

(* np.nonzero(crossing.T): row-major over (target, segment), so for one target the segment indices
   come out in increasing order *)
Fixpoint nonzero_from (i : nat) (m : list bool) : list nat :=
  match m with
  | [] => []
  | b :: r => if b then i :: nonzero_from (S i) r else nonzero_from (S i) r
  end.
Definition nonzero (m : list bool) : list nat := nonzero_from 0 m.

(* la = (t - y[j]) / (y[j+1] - y[j]);  z = (1 - la) * x[j] + la * x[j+1] *)
Definition interp (x y : list Q) (t : Q) (j : nat) : Q :=
  let la := (t - nth j y 0) / (nth (S j) y 0 - nth j y 0) in
  (1 - la) * nth j x 0 + la * nth (S j) x 0.

(* np.argmin: index of the first minimal element *)
Fixpoint argmin_from (i best : nat) (bv : Q) (l : list Q) : nat :=
  match l with
  | [] => best
  | v :: r => if Qltb v bv then argmin_from (S i) i v r else argmin_from (S i) best bv r
  end.
Definition argmin (l : list Q) : nat :=
  match l with [] => 0%nat | v :: r => argmin_from 1 0 v r end.

(* min_ind = argmin(|y - t|); s_min = x[min_ind] *)
Definition closest (x y : list Q) (t : Q) : Q :=
  nth (argmin (map (fun v => Qabs (v - t)) y)) x 0.

(* the list s[t_ind] for one target: the interpolated crossings in segment order, or the
   closest sample when there is none *)
Definition invert1 (x y : list Q) (t : Q) : list Q :=
  match map (interp x y t) (nonzero (crossing_mask y t)) with
  | [] => [closest x y t]
  | s => s
  end.

(* scalar target => bare array, array target => list of arrays *)
Inductive target := TScalar (t : Q) | TArray (ts : list Q).
Inductive inverted := Bare (s : list Q) | ListOf (s : list (list Q)).

(* np.argmin over an empty axis raises ValueError (N = 0), whatever the targets are *)
Definition invert_pl (x y : list Q) (tg : target) : res inverted :=
  match y with
  | [] => ErrValue
  | _ => match tg with
         | TScalar t => Ok (Bare (invert1 x y t))
         | TArray ts => Ok (ListOf (map (invert1 x y) ts))
         end
  end.

(* ------------------------------------------------------------------ threshold_at_metric *)

(* np.linspace(start, stop, num, endpoint=True), exact *)
Definition linspace (start stop : Q) (num : Z) : res (list Q) :=
  if (num <? 0)%Z then ErrValue
  else Ok (map (fun i => start + inject_Z (Z.of_nat i) * ((stop - start) / inject_Z (num - 1)))
               (seq 0 (Z.to_nat num))).

Inductive points_arg := PNone | PInt (k : Z) | PArr (pts : list Q).

(* pos[0] if len(pos) > 0 else inf, etc.: None stands for the infinite default *)
Definition first_opt (l : list Q) : option Q := match l with [] => None | a :: _ => Some a end.
Definition last_opt (l : list Q) : option Q := match l with [] => None | _ => Some (last l 0) end.
Definition min_opt (a b : option Q) : option Q :=
  match a, b with
  | Some u, Some v => Some (Qmin2 u v)       (* Python min(a, b): b if b < a else a *)
  | Some u, None => Some u | None, Some v => Some v | None, None => None
  end.
Definition max_opt (a b : option Q) : option Q :=
  match a, b with
  | Some u, Some v => Some (Qmax2 u v)
  | Some u, None => Some u | None, Some v => Some v | None, None => None
  end.

Definition select_points (s : scores) (p : points_arg) : res (list Q) :=
  match p with
  | PNone =>
      let points := isort (pos s ++ neg s) in
      if (len points <? 2)%Z then ErrValue else Ok points
  | PInt k =>
      match min_opt (first_opt (pos s)) (first_opt (neg s)),
            max_opt (last_opt (pos s)) (last_opt (neg s)) with
      | Some mn, Some mx => if Qleb mx mn then ErrValue else linspace mn mx k
      | _, _ => ErrValue                       (* inf >= -inf *)
      end
  | PArr pts => Ok pts
  end.

(* metric: a callable (sample, thresholds) -> values; a name is resolved on the class *)
Definition threshold_at_metric (metric : scores -> list Q -> list Q) (s : scores)
    (tg : target) (p : points_arg) : res inverted :=
  match select_points s p with
  | ErrValue => ErrValue
  | Ok points => invert_pl points (metric s points) tg
  end.

Inductive metric_name := NTpr | NFnr | NTnr | NFpr | NTopr | NTonr.
(* NaN (a class without samples) is outside the property ("all finite y"); totalised to 0 *)
Definition rate_val (r : rate) : Q := match r with Some v => v | None => 0 end.
Definition metric_of_name (m : metric_name) (s : scores) (points : list Q) : list Q :=
  map (fun t => rate_val (match m with
                          | NTpr => s_tpr s (Fin t) | NFnr => s_fnr s (Fin t)
                          | NTnr => s_tnr s (Fin t) | NFpr => s_fpr s (Fin t)
                          | NTopr => s_topr s (Fin t) | NTonr => s_tonr s (Fin t)
                          end)) points.

(* ------------------------------------------------------------------ specification vocabulary *)

(* (z, v) lies on the graph of the piecewise-linear interpolant of the samples: on a sample, or
   inside a segment of positive length on the chord *)
Definition on_graph (x y : list Q) (z v : Q) : Prop :=
  (exists j, (j < length x)%nat /\ z == nth j x 0 /\ v == nth j y 0) \/
  (exists j, (S j < length x)%nat /\ nth j x 0 < nth (S j) x 0 /\
             nth j x 0 <= z /\ z <= nth (S j) x 0 /\
             v == nth j y 0 + (nth (S j) y 0 - nth j y 0) * ((z - nth j x 0) / (nth (S j) x 0 - nth j x 0))).

(* the assumption of the docstring: x non-decreasing, equal x carry equal y *)
Definition pl_wf (x y : list Q) : Prop :=
  length x = length y /\ sorted x /\
  forall j, (S j < length x)%nat -> nth j x 0 == nth (S j) x 0 -> nth j y 0 == nth (S j) y 0.

Definition strictly_increasing (l : list Q) : Prop := StronglySorted Qlt l.

(* segment j is a crossing segment for t *)
Definition is_crossing (y : list Q) (t : Q) (j : nat) : Prop :=
  (S j < length y)%nat /\ crossing (nth j y 0) (nth (S j) y 0) t = true.
