(* Model/Bsearch.v — the textbook lower/upper-bound binary search (NumPy 1.x's npy_binsearch):
     min = 0; max = n; while (min < max) { mid = min + ((max - min) >> 1);
                                            if (arr[mid] < key) min = mid + 1; else max = mid; }   (side = left)
   with `<=` for side = right, and [cm_bin] = Scores.cm on top of it.  Proofs/BsearchFacts.v shows that it
   returns the count used by the model ([searchsorted]) on sorted input.  NOTE: the NumPy installed here
   (2.5) probes in a different order (its results on UNSORTED arrays differ from this loop), so for
   np.searchsorted itself the trusted contract stays "on sorted input: the count", validated by the
   correspondence runs; this file documents that any correct binary search meets that contract and why
   sortedness (the constructor's invariant) is needed. *)
From SA Require Export Model.Scores.
Open Scope Q_scope.

Fixpoint bsearch (fuel : nat) (P : Q -> bool) (l : list Q) (lo hi : nat) : nat :=
  match fuel with
  | O => lo
  | S k =>
    if Nat.ltb lo hi then
      let mid := (lo + (hi - lo) / 2)%nat in
      if P (nth mid l 0) then bsearch k P l (S mid) hi else bsearch k P l lo mid
    else lo
  end.

Definition side_pred (sd : side) (t : ext) : Q -> bool :=
  match sd with SLeft => fun x => lt_ext x t | SRight => fun x => le_ext x t end.
Definition searchsorted_bin (sd : side) (l : list Q) (t : ext) : Z :=
  Z.of_nat (bsearch (S (length l)) (side_pred sd t) l 0 (length l)).

Definition cm_bin (s : scores) (t : ext) : cmz :=
  let sd := cm_side s in
  let pos_below := searchsorted_bin sd (pos s) t in
  let neg_below := searchsorted_bin sd (neg s) t in
  let pos_above := (len (pos s) - pos_below)%Z in
  let neg_above := (len (neg s) - neg_below)%Z in
  let '(tp, fn, fp, tn) :=
    match score_class s with
    | Pos => (pos_above, pos_below, neg_above, neg_below)
    | Neg => (pos_below, pos_above, neg_below, neg_above)
    end in
  mkCmz (tp + easy_pos s) fn fp (tn + easy_neg s).
