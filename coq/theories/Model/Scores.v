(* Model/Scores.v — hand model of score_analysis/scores.py: the Scores object, cm(), the rates,
   swap(), from_labels(), pointwise_cm().  Follows the Python function by function. No proofs. *)
From SA Require Export Base.Prelude Model.Metrics.
Open Scope Q_scope.

Inductive label := Pos | Neg.
Definition label_eqb (a b : label) : bool :=
  match a, b with Pos, Pos | Neg, Neg => true | _, _ => false end.
Definition flip (l : label) : label := match l with Pos => Neg | Neg => Pos end.

Record scores := mkScores {
  pos : list Q; neg : list Q;              (* sorted by the constructor unless is_sorted *)
  easy_pos : Z; easy_neg : Z;
  score_class : label; equal_class : label }.

(* Scores.__init__ *)
Definition mk_scores (ps ns : list Q) (ep en : Z) (sc ec : label) (is_sorted : bool) : scores :=
  if is_sorted then mkScores ps ns ep en sc ec
  else mkScores (isort ps) (isort ns) ep en sc ec.

Definition wf (s : scores) : Prop := sorted (pos s) /\ sorted (neg s).

(* np.searchsorted(a, v, side): on sorted [a] the number of elements < v (left) / <= v (right) *)
Inductive side := SLeft | SRight.
Definition searchsorted (sd : side) (l : list Q) (t : ext) : Z :=
  match sd with
  | SLeft => count (fun x => lt_ext x t) l
  | SRight => count (fun x => le_ext x t) l
  end.

Record cmz := mkCmz { ctp : Z; cfn : Z; cfp : Z; ctn : Z }.

(* Scores.cm *)
Definition cm_side (s : scores) : side :=
  match score_class s with
  | Pos => match equal_class s with Pos => SLeft | Neg => SRight end
  | Neg => match equal_class s with Pos => SRight | Neg => SLeft end
  end.
Definition cm (s : scores) (t : ext) : cmz :=
  let sd := cm_side s in
  let pos_below := searchsorted sd (pos s) t in
  let neg_below := searchsorted sd (neg s) t in
  let pos_above := (len (pos s) - pos_below)%Z in
  let neg_above := (len (neg s) - neg_below)%Z in
  let '(tp, fn, fp, tn) :=
    match score_class s with
    | Pos => (pos_above, pos_below, neg_above, neg_below)
    | Neg => (pos_below, pos_above, neg_below, neg_above)
    end in
  let tp := (tp + easy_pos s)%Z in
  let tn := (tn + easy_neg s)%Z in
  mkCmz tp fn fp tn.

Definition to_cm2 (c : cmz) : cm2 :=
  Build_cm2 (inject_Z (ctp c)) (inject_Z (cfn c)) (inject_Z (cfp c)) (inject_Z (ctn c)).

(* the rate methods: self.cm(threshold).<rate>() *)
Definition s_tpr (s : scores) (t : ext) : rate := tpr (to_cm2 (cm s t)).
Definition s_fnr (s : scores) (t : ext) : rate := fnr (to_cm2 (cm s t)).
Definition s_tnr (s : scores) (t : ext) : rate := tnr (to_cm2 (cm s t)).
Definition s_fpr (s : scores) (t : ext) : rate := fpr (to_cm2 (cm s t)).
Definition s_topr (s : scores) (t : ext) : rate := topr (to_cm2 (cm s t)).
Definition s_tonr (s : scores) (t : ext) : rate := tonr (to_cm2 (cm s t)).

(* Scores.swap *)
Definition swap (s : scores) : scores :=
  mk_scores (neg s) (pos s) (easy_neg s) (easy_pos s)
    (match score_class s with Pos => Neg | Neg => Pos end)
    (match equal_class s with Pos => Neg | Neg => Pos end) true.

(* Scores.from_labels: labels are given as "is the positive label" flags *)
Definition from_labels (labels : list bool) (xs : list Q) (ep en : Z) (sc ec : label) (is_sorted : bool) : scores :=
  let lx := combine labels xs in
  let ps := map snd (filter (fun p => fst p) lx) in
  let ns := map snd (filter (fun p => negb (fst p)) lx) in
  mk_scores ps ns ep en sc ec is_sorted.

(* the documented decision rule: is a sample with score x "test outcome positive" at threshold t *)
Definition dec (sc ec : label) (x : Q) (t : ext) : bool :=
  match sc, ec with
  | Pos, Pos => negb (lt_ext x t)      (* x >= t *)
  | Pos, Neg => negb (le_ext x t)      (* x >  t *)
  | Neg, Pos => le_ext x t             (* x <= t *)
  | Neg, Neg => lt_ext x t             (* x <  t *)
  end.

(* pointwise_cm for one sample and one threshold: the explicit comparison table *)
Definition ge_ext x t := negb (lt_ext x t).
Definition gt_ext x t := negb (le_ext x t).
Definition b2z (b : bool) : Z := if b then 1%Z else 0%Z.
Definition pointwise_cm1 (sc ec : label) (is_pos : bool) (x : Q) (t : ext) : cmz :=
  let '(top_, ton_) :=
    match sc, ec with
    | Pos, Pos => (ge_ext x t, lt_ext x t)
    | Pos, Neg => (gt_ext x t, le_ext x t)
    | Neg, Pos => (le_ext x t, gt_ext x t)
    | Neg, Neg => (lt_ext x t, ge_ext x t)
    end in
  let p_ := is_pos in
  let n_ := negb is_pos in
  mkCmz (b2z (p_ && top_)) (b2z (p_ && ton_)) (b2z (n_ && top_)) (b2z (n_ && ton_)).

Definition cmz_add (a b : cmz) : cmz :=
  mkCmz (ctp a + ctp b) (cfn a + cfn b) (cfp a + cfp b) (ctn a + ctn b).
Definition cmz_zero : cmz := mkCmz 0 0 0 0.
Definition pointwise_sum (sc ec : label) (labels : list bool) (xs : list Q) (t : ext) : cmz :=
  fold_right cmz_add cmz_zero (map (fun p => pointwise_cm1 sc ec (fst p) (snd p) t) (combine labels xs)).
