(* Model/FloatQuantile.v — binary64 model of np.nanquantile(col, q, method="linear") on one column of finite
   replicates sorted ascending (numpy: _quantile with _QuantileMethods["linear"], _get_gamma, _lerp), over Coq's
   primitive floats.  Compared bit for bit with the limits bootstrap_ci returns (C13, C14). *)
From Coq Require Import PrimFloat Uint63 ZArith List Bool.
From SA Require Import Model.FloatThreshold.
Import ListNotations.
Open Scope float_scope.

Definition quantile_f (l : list float) (q : float) : float :=
  let n := flen l in
  (* _QuantileMethods["linear"]["get_virtual_index"] = (n - 1) * quantiles *)
  let vi := float_of_Z (n - 1) * q in
  let prev_f := ffloor vi in
  let above := float_of_Z (n - 1) <=? vi in
  let below := vi <? 0 in
  let pi := if above then (n - 1)%Z else if below then 0%Z else Z_of_int_float prev_f in
  let ni := if above then (n - 1)%Z else if below then 0%Z else (Z_of_int_float prev_f + 1)%Z in
  (* gamma = virtual_indexes - previous_indexes, the indexes after clipping (above -> -1, below -> 0) *)
  let gamma := vi - (if above then -1 else if below then 0 else prev_f) in
  let a := fnth l pi in let b := fnth l ni in
  let diff := b - a in
  (* _lerp: subtract(b, diff_b_a * (1 - t), where = t >= 0.5) *)
  if 0x1p-1 <=? gamma then b - diff * (1 - gamma) else a + diff * gamma.

Definition fq_check (cols : list (list float * list (float * float))) : bool :=
  forallb (fun c => forallb (fun p => feq (quantile_f (fst c) (fst p)) (snd p)) (snd c)) cols.

Example quantile_f_example :
  fq_check [([1; 2; 4; 8], [(0x1p-2, 0x1.cp+0); (0x1p-1, 3); (1, 8); (0, 1); (0x1.8p-1, 5)])] = true.
Proof. vm_compute. reflexivity. Qed.
