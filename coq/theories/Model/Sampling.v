(* Model/Sampling.v — hand model of the resampling code of score_analysis/scores.py:
   Scores._sampling_method, Scores._sample_indices, Scores.bootstrap_sample.
   Follows the Python function by function, as the code is.  No proofs.

   Randomness (DESIGN 3.5): every call to np.random.* is answered from an explicit *draw history*
   (the list of recorded calls, in program order).  A model function consumes the *results* stored
   in the history and returns, next to its value, the remaining history and the list of calls it
   made *with the parameters the model computed* — the harness compares that list (order and
   parameters) with what the implementation really asked NumPy for. *)
From SA Require Export Base.Prelude Model.Scores.
Open Scope Q_scope.

(* ---------- draw histories ---------- *)
Inductive draw :=
| DBinom (n : Z) (p : Q) (k : Z)                    (* np.random.binomial(n, p)              -> k    *)
| DBinomVec (size n : Z) (p : Q) (ks : list Z)      (* np.random.binomial(size=, n=, p=)     -> ks   *)
| DPoissonVec (size : Z) (lam : Q) (ks : list Z)    (* np.random.poisson(size=, lam=)        -> ks   *)
| DChoice (n size : Z) (idxs : list Z)              (* np.random.choice(n, size, replace=True)  -> idxs *)
| DChoiceNoRepl (n size : Z) (idxs : list Z)        (* np.random.choice(a, size, replace=False), len a = n;
                                                       recorded as the chosen positions          *)
| DChoice1 (n : Z) (i : Z)                          (* np.random.choice(n)  (scalar, no size)   -> i    *)
| DNormal (size : Z) (vals : list Q).               (* np.random.normal(0, h, size) -> vals (h not modelled) *)

Inductive err := EValueError | EZeroDivision | EBadHistory.
Inductive res (A : Type) := Ok (a : A) | Err (e : err).
Arguments Ok {A} a.
Arguments Err {A} e.

(* value, remaining history, calls made *)
Definition M (A : Type) := list draw -> res (A * list draw * list draw).
Definition ret {A} (a : A) : M A := fun h => Ok (a, h, []).
Definition raise {A} (e : err) : M A := fun _ => Err e.
Definition bind {A B} (m : M A) (f : A -> M B) : M B :=
  fun h => match m h with
           | Err e => Err e
           | Ok (a, h1, c1) =>
             match f a h1 with
             | Err e => Err e
             | Ok (b, h2, c2) => Ok (b, h2, c1 ++ c2)
             end
           end.
Notation "x <- m ;; f" := (bind m (fun x => f)) (at level 61, m at next level, right associativity).

(* ---------- the NumPy primitives: argument checks as NumPy makes them, result from the history ---------- *)
Definition bad_prob (p : Q) : bool := Qltb p 0 || Qltb 1 p.

Definition binomial (n : Z) (p : Q) : M Z := fun h =>
  if (n <? 0)%Z || bad_prob p then Err EValueError else
  match h with
  | DBinom _ _ k :: r => Ok (k, r, [DBinom n p k])
  | _ => Err EBadHistory
  end.
Definition binomial_vec (size n : Z) (p : Q) : M (list Z) := fun h =>
  if (size <? 0)%Z || (n <? 0)%Z || bad_prob p then Err EValueError else
  match h with
  | DBinomVec _ _ _ ks :: r => Ok (ks, r, [DBinomVec size n p ks])
  | _ => Err EBadHistory
  end.
Definition poisson_vec (size : Z) (lam : Q) : M (list Z) := fun h =>
  if (size <? 0)%Z || Qltb lam 0 then Err EValueError else
  match h with
  | DPoissonVec _ _ ks :: r => Ok (ks, r, [DPoissonVec size lam ks])
  | _ => Err EBadHistory
  end.
(* choice(n, size, replace=True): "a must be greater than 0 unless no samples are taken" *)
Definition choice (n size : Z) : M (list Z) := fun h =>
  if (size <? 0)%Z || ((n <=? 0)%Z && negb (size =? 0)%Z) then Err EValueError else
  match h with
  | DChoice _ _ idxs :: r => Ok (idxs, r, [DChoice n size idxs])
  | _ => Err EBadHistory
  end.
(* choice(a, size, replace=False) with len a = n: also "cannot take a larger sample than population" *)
Definition choice_norepl (n size : Z) : M (list Z) := fun h =>
  if (size <? 0)%Z || ((n <=? 0)%Z && negb (size =? 0)%Z) || (n <? size)%Z then Err EValueError else
  match h with
  | DChoiceNoRepl _ _ idxs :: r => Ok (idxs, r, [DChoiceNoRepl n size idxs])
  | _ => Err EBadHistory
  end.
(* choice(n) without size: one index; "a must be greater than 0" *)
Definition choice1 (n : Z) : M Z := fun h =>
  if (n <=? 0)%Z then Err EValueError else
  match h with
  | DChoice1 _ i :: r => Ok (i, r, [DChoice1 n i])
  | _ => Err EBadHistory
  end.
Definition normal (size : Z) : M (list Q) := fun h =>
  match h with
  | DNormal _ vals :: r => Ok (vals, r, [DNormal size vals])
  | _ => Err EBadHistory
  end.

(* a[idx] for an index array; np.arange; np.repeat(np.arange(n), counts) *)
Definition take_idx {A} (d : A) (l : list A) (idx : list Z) : list A :=
  map (fun i => nth (Z.to_nat i) l d) idx.
Fixpoint repeat_idx (i : Z) (ks : list Z) : list Z :=
  match ks with
  | [] => []
  | k :: r => repeat i (Z.to_nat k) ++ repeat_idx (i + 1) r
  end.

(* ---------- the counting properties of Scores ---------- *)
Definition nb_hard_pos (s : scores) : Z := len (pos s).
Definition nb_hard_neg (s : scores) : Z := len (neg s).
Definition nb_all_pos (s : scores) : Z := (easy_pos s + len (pos s))%Z.
Definition nb_all_neg (s : scores) : Z := (easy_neg s + len (neg s))%Z.
Definition nb_all_samples (s : scores) : Z :=
  ((easy_pos s + easy_neg s) + (len (pos s) + len (neg s)))%Z.
Definition hard_ratio_of (hard easy : Z) : Q :=
  if (0 <? easy)%Z then inject_Z hard / inject_Z (hard + easy) else 1.
Definition hard_pos_ratio (s : scores) : Q := hard_ratio_of (len (pos s)) (easy_pos s).
Definition hard_neg_ratio (s : scores) : Q := hard_ratio_of (len (neg s)) (easy_neg s).
Definition easy_pos_ratio (s : scores) : Q := 1 - hard_pos_ratio s.
Definition easy_neg_ratio (s : scores) : Q := 1 - hard_neg_ratio s.

(* ---------- BootstrapConfig ---------- *)
Inductive method :=
| MReplacement | MSinglePass | MDynamic | MProportion
| MOtherString                          (* any other string *)
| MCallable (f : scores -> scores)      (* custom sampling method *)
| MInvalid.                             (* neither a string nor callable *)
Inductive strat := SNone | SByLabel | SByGroup | SOther.
Record config := mkConfig {
  sampling_method : method; stratified_sampling : strat; smoothing : bool; ratio : option Q }.

Definition SINGLE_PASS_SAMPLE_THRESHOLD : Z := 100.

(* Scores._sampling_method *)
Definition resolve_method (s : scores) (c : config) : method :=
  match sampling_method c with
  | MDynamic =>
      if (nb_hard_pos s <? SINGLE_PASS_SAMPLE_THRESHOLD)%Z
         || (nb_hard_neg s <? SINGLE_PASS_SAMPLE_THRESHOLD)%Z
         || smoothing c
      then MReplacement else MSinglePass
  | m => m
  end.

(* the built-in (string) methods, as opposed to a user-supplied callable *)
Definition not_callable (c : config) : Prop :=
  match sampling_method c with MCallable _ => False | _ => True end.

(* ---------- Scores._sample_indices ---------- *)
(* lines 917-920: "try to have at least one positive and one negative sample" *)
Definition fix_pos_neg (s : scores) (k : Z) : Z * Z :=
  let nb_pos := k in
  let nb_neg := (nb_all_samples s - nb_pos)%Z in
  let '(nb_pos, nb_neg) :=
    if (nb_pos =? 0)%Z && (0 <? nb_all_pos s)%Z then (1%Z, (nb_all_samples s - 1)%Z) else (nb_pos, nb_neg) in
  let '(nb_pos, nb_neg) :=
    if (nb_neg =? 0)%Z && (0 <? nb_all_neg s)%Z then ((nb_all_samples s - 1)%Z, 1%Z) else (nb_pos, nb_neg) in
  (nb_pos, nb_neg).
(* lines 925-932: "try to have at least one hard sample", returns (nb_hard, nb_easy) of one class *)
Definition fix_hard (self_hard nb_cls nb_easy : Z) : Z * Z :=
  let nb_hard := (nb_cls - nb_easy)%Z in
  if (nb_hard =? 0)%Z && (0 <? self_hard)%Z then (1%Z, (nb_cls - 1)%Z) else (nb_hard, nb_easy).

Record counts := mkCounts { c_easy_pos : Z; c_easy_neg : Z; c_hard_pos : Z; c_hard_neg : Z }.

Definition pos_neg_ratio (s : scores) : Q :=
  if (0 <? nb_all_samples s)%Z then inject_Z (nb_all_pos s) / inject_Z (nb_all_samples s) else 0.

Definition sample_counts (s : scores) (by_label : bool) : M counts :=
  if by_label then
    ret (mkCounts (easy_pos s) (easy_neg s) (nb_hard_pos s) (nb_hard_neg s))
  else
    k <- binomial (nb_all_samples s) (pos_neg_ratio s) ;;
    let '(nb_pos, nb_neg) := fix_pos_neg s k in
    ep <- binomial nb_pos (easy_pos_ratio s) ;;
    en <- binomial nb_neg (easy_neg_ratio s) ;;
    let '(hp, ep) := fix_hard (nb_hard_pos s) nb_pos ep in
    let '(hn, en) := fix_hard (nb_hard_neg s) nb_neg en in
    ret (mkCounts ep en hp hn).

(* _single_pass_sampling(size, n, p) *)
Definition single_pass_sampling (size n : Z) (p : Q) : M (list Z) :=
  if (n <? 100)%Z then binomial_vec size n p else poisson_vec size (inject_Z n * p).

(* p = 1.0 / self.nb_hard_xxx : ZeroDivisionError when the class has no scores *)
Definition one_over (n : Z) : M Q :=
  if (n =? 0)%Z then raise EZeroDivision else ret (1 / inject_Z n).

(* "if not np.any(ks): ks[np.random.choice(n)] = 1" — at least one scored sample of the class *)
Definition all_zero (ks : list Z) : bool := forallb (Z.eqb 0) ks.
Fixpoint set_at (i : nat) (v : Z) (ks : list Z) : list Z :=
  match ks, i with
  | [], _ => []
  | _ :: r, O => v :: r
  | k :: r, S j => k :: set_at j v r
  end.
Definition fix_empty (n : Z) (ks : list Z) : M (list Z) :=
  if all_zero ks then i <- choice1 n ;; ret (set_at (Z.to_nat i) 1%Z ks) else ret ks.

Record sidx := mkSidx { pos_idx : list Z; neg_idx : list Z; s_easy_pos : Z; s_easy_neg : Z }.

Definition sample_indices (s : scores) (by_label single_pass : bool) : M sidx :=
  c <- sample_counts s by_label ;;
  if single_pass then
    pp <- one_over (nb_hard_pos s) ;;
    nb_pos_selected <- single_pass_sampling (nb_hard_pos s) (c_hard_pos c) pp ;;
    pn <- one_over (nb_hard_neg s) ;;
    nb_neg_selected <- single_pass_sampling (nb_hard_neg s) (c_hard_neg c) pn ;;
    nb_pos_selected <- fix_empty (nb_hard_pos s) nb_pos_selected ;;
    nb_neg_selected <- fix_empty (nb_hard_neg s) nb_neg_selected ;;
    ret (mkSidx (repeat_idx 0 nb_pos_selected) (repeat_idx 0 nb_neg_selected) (c_easy_pos c) (c_easy_neg c))
  else
    pi <- choice (nb_hard_pos s) (c_hard_pos c) ;;
    ni <- choice (nb_hard_neg s) (c_hard_neg c) ;;
    ret (mkSidx pi ni (c_easy_pos c) (c_easy_neg c)).

(* ---------- Scores.bootstrap_sample ---------- *)
(* int(x) of a float: truncation towards zero *)
Definition Qtrunc (x : Q) : Z := if Qltb x 0 then Qceiling x else Qfloor x.
Definition proportion_size (r : Q) (n : Z) : Z := Z.max (Qtrunc (r * inject_Z n)) 1.

Fixpoint add_noise (xs noise : list Q) : list Q :=
  match xs, noise with
  | x :: xr, e :: er => (x + e) :: add_noise xr er
  | _, _ => []
  end.

Definition is_by_label (c : config) : bool :=
  match stratified_sampling c with SByLabel => true | _ => false end.

Definition bootstrap_sample (c : config) (s : scores) : M scores :=
  match resolve_method s c with
  | MReplacement =>
      r <- sample_indices s (is_by_label c) false ;;
      let p := take_idx 0 (pos s) (pos_idx r) in
      let n := take_idx 0 (neg s) (neg_idx r) in
      if smoothing c then
        (* bandwidth h is not modelled: the noise values come from the history *)
        ep <- normal (len p) ;;
        en <- normal (len n) ;;
        ret (mk_scores (add_noise p ep) (add_noise n en) (s_easy_pos r) (s_easy_neg r)
                       (score_class s) (equal_class s) false)
      else
        ret (mk_scores p n (s_easy_pos r) (s_easy_neg r) (score_class s) (equal_class s) false)
  | MSinglePass =>
      r <- sample_indices s (is_by_label c) true ;;
      let p := take_idx 0 (pos s) (pos_idx r) in
      let n := take_idx 0 (neg s) (neg_idx r) in
      if smoothing c then raise EValueError
      else ret (mk_scores p n (s_easy_pos r) (s_easy_neg r) (score_class s) (equal_class s) true)
  | MProportion =>
      match ratio c with
      | None => raise EValueError
      | Some rt =>
          let nb_pos := proportion_size rt (len (pos s)) in
          let nb_neg := proportion_size rt (len (neg s)) in
          pi <- choice_norepl (len (pos s)) nb_pos ;;
          ni <- choice_norepl (len (neg s)) nb_neg ;;
          ret (mk_scores (take_idx 0 (pos s) pi) (take_idx 0 (neg s) ni)
                         (Qtrunc (rt * inject_Z (easy_pos s))) (Qtrunc (rt * inject_Z (easy_neg s)))
                         (score_class s) (equal_class s) false)
      end
  | MDynamic => raise EBadHistory        (* unreachable: resolve_method never returns MDynamic *)
  | MOtherString => raise EValueError
  | MCallable f => ret (f s)
  | MInvalid => raise EValueError
  end.

(* ---------- NumPy's contract on the results of a call (used as hypothesis by the theorems) ---------- *)
Definition in_range (n : Z) (i : Z) : Prop := (0 <= i < n)%Z.
Definition draw_ok (d : draw) : Prop :=
  match d with
  | DBinom n p k => (0 <= k <= n)%Z /\ (p == 0 -> k = 0%Z) /\ (p == 1 -> k = n)
  | DBinomVec size n p ks => len ks = size /\ Forall (fun k => (0 <= k <= n)%Z) ks
  | DPoissonVec size lam ks => len ks = size /\ Forall (fun k => (0 <= k)%Z) ks
  | DChoice n size idxs => len idxs = size /\ Forall (in_range n) idxs
  | DChoiceNoRepl n size idxs => len idxs = size /\ Forall (in_range n) idxs /\ NoDup idxs
  | DChoice1 n i => in_range n i
  | DNormal size vals => len vals = size
  end.

(* the mean NumPy documents for the quantity a call draws: binomial n p -> n p; poisson lam -> lam;
   choice(n, size): expected number of times a fixed index is drawn = size / n *)
Definition draw_mean (d : draw) : Q :=
  match d with
  | DBinom n p _ => inject_Z n * p
  | DBinomVec _ n p _ => inject_Z n * p
  | DPoissonVec _ lam _ => lam
  | DChoice n size _ => inject_Z size / inject_Z n
  | DChoiceNoRepl n size _ => inject_Z size / inject_Z n
  | DChoice1 _ _ => 0            (* a position, not a count: no mean is claimed *)
  | DNormal _ _ => 0
  end.

(* the call _single_pass_sampling(size, n, 1/size) makes, together with its result *)
Definition sp_call (size n : Z) (ks : list Z) : draw :=
  if (n <? 100)%Z then DBinomVec size n (1 / inject_Z size) ks
  else DPoissonVec size (inject_Z n * (1 / inject_Z size)) ks.
(* a draw made by the single-pass at-least-one correction *)
Definition is_fixup (d : draw) : Prop := match d with DChoice1 _ _ => True | _ => False end.
(* the index list 0, 1, ..., n-1 (np.arange(n)) *)
Definition zseq (n : nat) : list Z := map Z.of_nat (seq 0 n).

(* ---------- boolean comparison helpers for the correspondence files ---------- *)
Definition Qclose (tol a b : Q) : bool := Qleb (a - b) tol && Qleb (b - a) tol.
Fixpoint zl_eqb (a b : list Z) : bool :=
  match a, b with
  | [], [] => true
  | x :: r, y :: s => Z.eqb x y && zl_eqb r s
  | _, _ => false
  end.
Fixpoint ql_eqb (a b : list Q) : bool :=
  match a, b with
  | [], [] => true
  | x :: r, y :: s => Qeqb x y && ql_eqb r s
  | _, _ => false
  end.
Definition draw_close (tol : Q) (a b : draw) : bool :=
  match a, b with
  | DBinom n p k, DBinom n' p' k' => Z.eqb n n' && Qclose tol p p' && Z.eqb k k'
  | DBinomVec sz n p ks, DBinomVec sz' n' p' ks' =>
      Z.eqb sz sz' && Z.eqb n n' && Qclose tol p p' && zl_eqb ks ks'
  | DPoissonVec sz l ks, DPoissonVec sz' l' ks' => Z.eqb sz sz' && Qclose tol l l' && zl_eqb ks ks'
  | DChoice n sz ix, DChoice n' sz' ix' => Z.eqb n n' && Z.eqb sz sz' && zl_eqb ix ix'
  | DChoiceNoRepl n sz ix, DChoiceNoRepl n' sz' ix' => Z.eqb n n' && Z.eqb sz sz' && zl_eqb ix ix'
  | DChoice1 n i, DChoice1 n' i' => Z.eqb n n' && Z.eqb i i'
  | DNormal sz _, DNormal sz' _ => Z.eqb sz sz'
  | _, _ => false
  end.
Fixpoint calls_close (tol : Q) (a b : list draw) : bool :=
  match a, b with
  | [], [] => true
  | x :: r, y :: s => draw_close tol x y && calls_close tol r s
  | _, _ => false
  end.
Definition label_eq (a b : label) : bool := label_eqb a b.
Definition scores_eqb (a b : scores) : bool :=
  ql_eqb (pos a) (pos b) && ql_eqb (neg a) (neg b) && Z.eqb (easy_pos a) (easy_pos b)
  && Z.eqb (easy_neg a) (easy_neg b) && label_eq (score_class a) (score_class b)
  && label_eq (equal_class a) (equal_class b).
(* smoothing: values are not modelled — compare sizes, easy counts and flags only *)
Definition scores_shape_eqb (a b : scores) : bool :=
  Z.eqb (len (pos a)) (len (pos b)) && Z.eqb (len (neg a)) (len (neg b))
  && Z.eqb (easy_pos a) (easy_pos b) && Z.eqb (easy_neg a) (easy_neg b)
  && label_eq (score_class a) (score_class b) && label_eq (equal_class a) (equal_class b).
Definition err_eqb (a b : err) : bool :=
  match a, b with
  | EValueError, EValueError | EZeroDivision, EZeroDivision | EBadHistory, EBadHistory => true
  | _, _ => false
  end.
(* the model, run on the recorded history, consumed all of it, made the same calls with the same
   parameters (p / lam within tol) and returns the same sample *)
Definition sample_agrees (tol : Q) (shape_only : bool) (r : res (scores * list draw * list draw))
           (hist : list draw) (expected : scores) : bool :=
  match r with
  | Ok (b, rest, calls) =>
      match rest with [] => true | _ => false end
      && calls_close tol calls hist
      && (if shape_only then scores_shape_eqb b expected else scores_eqb b expected)
  | Err _ => false
  end.
Definition error_agrees {A} (r : res A) (e : err) : bool :=
  match r with Err e' => err_eqb e e' | Ok _ => false end.
