(* Model/BootMetric.v — hand model of score_analysis/scores.py: Scores.bootstrap_metric (1066-1098),
   Scores.bootstrap_ci (1100-1133) and the custom-sampler dispatch at the end of bootstrap_sample
   (1057-1062).  Follows the Python statement by statement. No proofs here (Proofs/BootMetricFacts.v).

   The objects (Scores / GroupScores), keyword arguments, metric values and attribute names are abstract
   types; what the code does with them is apply functions.  A metric is a function of (object, kwargs).
   The built-in samplers (lines 983-1056, property C11) are a parameter [builtin_sample] taking the RNG
   draw history of that call; a custom sampler is a Python callable that may keep state, so it is a function
   of the call index j (its history) and the source object.
   getattr(type(self), name) is a lookup along the class chain (method resolution order). *)
From SA Require Export Model.BootCI.
Open Scope Q_scope.

Definition res_bind {A B} (r : res A) (f : A -> res B) : res B :=
  match r with Ok a => f a | Err => Err end.

(* for j in range(n): rows[j] = body j   — raises at the first failing iteration *)
Definition for_rows {A} (n : nat) (body : nat -> res A) : res (list A) :=
  sequence_res (map body (seq 0 n)).

Section BootMetric.
  Variable S : Type.   (* Scores / GroupScores objects *)
  Variable K : Type.   (* **kwargs *)
  Variable V : Type.   (* np.asarray(metric(...)) *)
  Variable N : Type.   (* attribute names *)
  Variable H : Type.   (* RNG draw history of one bootstrap_sample call *)
  Variable R : Type.   (* value returned by utils.bootstrap_ci *)

  Definition metric_fn : Type := S -> K -> V.
  (* metric: Union[str, Callable] *)
  Inductive metric_arg := ByName (nm : N) | Callable (f : metric_fn).

  (* BootstrapConfig.sampling_method: one of the known strings, any other string, a callable, anything else *)
  Inductive sampling :=
  | SDynamic | SReplacement | SSinglePass | SProportion
  | SUnsupportedStr
  | SCallable (f : nat -> S -> S)
  | SOther.
  Record config := mkConfig { nb_samples : nat; bootstrap_method : method; sampling_method : sampling }.

  (* self._sampling_method(config): resolves "dynamic", returns everything else unchanged *)
  Variable dynamic_choice : S -> config -> sampling.
  Definition resolved_sampling (self : S) (cfg : config) : sampling :=
    match sampling_method cfg with SDynamic => dynamic_choice self cfg | other => other end.

  (* the three built-in branches of bootstrap_sample (modelled with property C11) *)
  Variable builtin_sample : sampling -> S -> config -> H -> res S.

  (* bootstrap_sample: dispatch; lines 1057-1062 are the last three arms *)
  Definition bootstrap_sample (self : S) (cfg : config) (h : H) (j : nat) : res S :=
    match resolved_sampling self cfg with
    | SReplacement => builtin_sample SReplacement self cfg h
    | SSinglePass => builtin_sample SSinglePass self cfg h
    | SProportion => builtin_sample SProportion self cfg h
    | SDynamic => Err            (* elif isinstance(sampling_method, str): raise ValueError *)
    | SUnsupportedStr => Err     (* elif isinstance(sampling_method, str): raise ValueError *)
    | SCallable f => Ok (f j self) (* elif callable(sampling_method): scores = sampling_method(self) *)
    | SOther => Err              (* else: raise ValueError *)
    end.

  (* getattr(type(self), name) / getattr(self, name): two different lookups; the code uses the first *)
  Variable getattr_type : S -> N -> metric_fn.

  (* if isinstance(metric, str): metric = getattr(type(self), metric) *)
  Definition resolve_metric (self : S) (metric : metric_arg) : metric_fn :=
    match metric with ByName nm => getattr_type self nm | Callable f => f end.

  (* Scores.bootstrap_metric(self, metric, config, **kwargs) *)
  Definition bootstrap_metric (self : S) (metric : metric_arg) (cfg : config) (hist : nat -> H) (kwargs : K)
    : res (list V) :=
    let metric := resolve_metric self metric in
    let m := metric self kwargs in   (* only m.shape and m.dtype are used, to allocate res *)
    for_rows (nb_samples cfg) (fun j =>
      res_bind (bootstrap_sample self cfg (hist j) j) (fun sample =>
      Ok (metric sample kwargs))).

  (* utils.bootstrap_ci(theta=, theta_hat=, alpha=, method=) *)
  Variable utils_bootstrap_ci : list V -> option V -> Q -> method -> res R.

  (* Scores.bootstrap_ci(self, metric, alpha, config, **kwargs) *)
  Definition bootstrap_ci_m (self : S) (metric : metric_arg) (alpha : Q) (cfg : config) (hist : nat -> H) (kwargs : K)
    : res R :=
    let metric := resolve_metric self metric in
    res_bind (bootstrap_metric self (Callable metric) cfg hist kwargs) (fun samples =>
    utils_bootstrap_ci samples (Some (metric self kwargs)) alpha (bootstrap_method cfg)).
End BootMetric.

Arguments ByName {S K V N} nm.
Arguments Callable {S K V N} f.
Arguments SDynamic {S}. Arguments SReplacement {S}. Arguments SSinglePass {S}. Arguments SProportion {S}.
Arguments SUnsupportedStr {S}. Arguments SCallable {S} f. Arguments SOther {S}.
Arguments mkConfig {S} _ _ _.
Arguments nb_samples {S} c. Arguments bootstrap_method {S} c. Arguments sampling_method {S} c.

(* isinstance(sampling_method, str) / callable(sampling_method) / sampling_method(self) on the values a
   BootstrapConfig.sampling_method can take (used by the regenerated tail of bootstrap_sample) *)
Definition is_str {S} (sm : sampling S) : bool :=
  match sm with SDynamic | SReplacement | SSinglePass | SProportion | SUnsupportedStr => true | _ => false end.
Definition is_callable {S} (sm : sampling S) : bool :=
  match sm with SCallable _ => true | _ => false end.
Definition call_sampler {S} (sm : sampling S) (j : nat) (self : S) : S :=
  match sm with SCallable f => f j self | _ => self end.

(* getattr(type(self), name): first hit along the class chain [type(self); its bases ...] *)
Section ClassChain.
  Variable N F : Type.
  Variable N_eqb : N -> N -> bool.
  Definition class_table : Type := list (N * F).
  Fixpoint lookup (t : class_table) (nm : N) : option F :=
    match t with
    | [] => None
    | (k, f) :: r => if N_eqb k nm then Some f else lookup r nm
    end.
  Fixpoint lookup_mro (mro : list class_table) (nm : N) : option F :=
    match mro with
    | [] => None
    | t :: r => match lookup t nm with Some f => Some f | None => lookup_mro r nm end
    end.
End ClassChain.

(* the instance used for Scores.bootstrap_ci: metric values are flattened arrays of possibly-NaN floats of a
   fixed shape, the CI routine is utils.bootstrap_ci with a scalar alpha *)
Definition utils_ci (Phi PhiInv pow15 : Q -> Q) (yshape : list nat)
           (theta : list (list rate)) (theta_hat : option (list rate)) (alpha : Q) (m : method)
  : res (list nat * list rate) :=
  bootstrap_ci Phi PhiInv pow15 yshape theta theta_hat (AScalar alpha) m.

(* the same with the dtype of the metric values: bootstrap_metric allocates res with dtype = metric(self).dtype and
   theta_hat = metric(self), so both have the metric's dtype *)
Definition utils_ci_dt (Phi PhiInv pow15 : Q -> Q) (dt : dtype) (yshape : list nat)
           (theta : list (list rate)) (theta_hat : option (list rate)) (alpha : Q) (m : method)
  : res (list nat * list rate) :=
  bootstrap_ci_dt Phi PhiInv pow15 dt yshape theta theta_hat (AScalar alpha) m.
