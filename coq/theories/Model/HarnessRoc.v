(* Model/HarnessRoc.v — boolean comparison helpers used only by generated correspondence files of C15. *)
From SA Require Export Model.Harness Model.Roc.
Open Scope Q_scope.

Definition roc64 := roc succ64 pred64.
Definition fst64 := find_support_thresholds succ64 pred64.
Definition qlist_close (tol : Q) : list Q -> list Q -> bool := list_eqb (fun a b => Qabs_le a b tol).
(* thresholds within tol_t (0 = exactly), rates within tol_r (float division k/n is rounded, the model's is exact) *)
Definition roc_agree (tol_t tol_r : Q) (r : res roc_curve) (ths : list Q) (fnr fpr : list rate) : bool :=
  match r with
  | Ret c => qlist_close tol_t (rc_thresholds c) ths && list_eqb (rate_close tol_r) (rc_fnr c) fnr &&
             list_eqb (rate_close tol_r) (rc_fpr c) fpr &&
             match rc_fnr_ci c, rc_fpr_ci c with None, None => true | _, _ => false end
  | Raise => false
  end.
(* thresholds only: when the targets are not dyadic the float thresholds wobble by an ulp around a score, which moves the
   rates by a sample; the rates are then left to the oracle *)
Definition roc_agree_thr (tol_t : Q) (r : res roc_curve) (ths : list Q) : bool :=
  match r with Ret c => qlist_close tol_t (rc_thresholds c) ths | Raise => false end.
Definition res_raises {A} (r : res A) : bool := match r with Raise => true | Ret _ => false end.
Definition fst_agree (tol_t : Q) (r : res (list Q)) (ths : list Q) : bool :=
  match r with Ret l => qlist_close tol_t l ths | Raise => false end.
