(* Model/Eer.v — hand model of Scores.eer and Scores._find_root (scores.py), exact rationals. *)
From Coq Require Export Qabs.
From SA Require Export Model.Threshold.
Open Scope Q_scope.

(* the float constants as exact rationals of the doubles *)
Definition xtol_default : Q := 7737125245533627 # 77371252455336267181195264.   (* 1e-10 *)
Definition isclose_atol : Q := 3022314549036573 # 302231454903657293676544.      (* 1e-8 *)
Definition isclose_rtol : Q := 5902958103587057 # 590295810358705651712.         (* 1e-5 *)
(* value-preserving normalisation of midpoints (a + b) / 2: keeps rationals in lowest terms so that
   evaluation does not blow up; a no-op on the values (norm x == x) *)
Definition norm (x : Q) : Q := Qred x.
(* np.sign *)
Definition Qsgn (x : Q) : Q := if Qltb 0 x then 1 else if Qltb x 0 then -1 else 0.
(* np.isclose(a, b): |a - b| <= atol + rtol * |b| *)
Definition isclose (a b : Q) : bool := Qleb (Qabs (a - b)) (isclose_atol + isclose_rtol * Qabs b).

(* the while loop of _find_root; fuel bounds the number of iterations.  Midpoints are kept in
   lowest terms (Qred, value-preserving) so that evaluation does not blow up. *)
Fixpoint find_root_loop (fuel : nat) (f : Q -> Q) (xa xe : Q) (find_first : bool) (xtol : Q) : Q :=
  match fuel with
  | O => norm ((xa + xe) / 2)
  | S k =>
    if Qltb (Qabs (xa - xe)) xtol then norm ((xa + xe) / 2)
    else
      let xm := norm ((xa + xe) / 2) in
      if Qltb (f xm) 0 then find_root_loop k f xm xe find_first xtol
      else if Qltb 0 (f xm) then find_root_loop k f xa xm find_first xtol
      else if find_first then find_root_loop k f xa xm find_first xtol
      else find_root_loop k f xm xe find_first xtol
  end.
Definition find_root (fuel : nat) (f : Q -> Q) (xa xe : Q) (find_first : bool) (xtol : Q) : res Q :=
  if negb (Qleb (f xa) 0 && Qleb 0 (f xe)) then Raise
  else Ret (find_root_loop fuel f xa xe find_first xtol).

Section WithCarrier.
  Variable succ pred : Q -> Q.
  Variable fuel : nat.

  Definition thr_or0 (r : res Q) : Q := match r with Ret t => t | Raise => 0 end.
  Definition t_fpr (s : scores) (x : Q) : Q := thr_or0 (threshold_at_fpr succ pred s x Linear).
  Definition t_fnr (s : scores) (x : Q) : Q := thr_or0 (threshold_at_fnr succ pred s x Linear).

  (* Scores.eer: (threshold, eer); both classes must be non-empty (otherwise IndexError) *)
  Definition eer (s : scores) : res (Q * Q) :=
    if ((len (pos s) =? 0) || (len (neg s) =? 0))%Z then Raise else
    let p0 := nthZ (pos s) 0 in let pl := nthZ (pos s) (len (pos s) - 1) in
    let n0 := nthZ (neg s) 0 in let nl := nthZ (neg s) (len (neg s) - 1) in
    if Qltb nl p0 && label_eqb (score_class s) Pos then Ret (norm ((p0 + nl) / 2), 0)
    else if Qltb pl n0 && label_eqb (score_class s) Neg then Ret (norm ((pl + n0) / 2), 0)
    else
      let sign := - Qsgn (t_fpr s 0 - t_fnr s 0) in
      let f := fun x => sign * (t_fpr s x - t_fnr s x) in
      let max_eer := Qmin2 (hard_pos_ratio s) (hard_neg_ratio s) in
      if Qltb (f max_eer) 0 then
        if isclose (hard_pos_ratio s) (hard_neg_ratio s)
        then Ret (norm ((t_fpr s max_eer + t_fnr s max_eer) / 2), max_eer)
        else if Qltb (hard_pos_ratio s) (hard_neg_ratio s)
        then Ret (t_fpr s (hard_pos_ratio s), hard_pos_ratio s)
        else Ret (t_fnr s (hard_neg_ratio s), hard_neg_ratio s)
      else
        match find_root fuel f 0 max_eer true xtol_default, find_root fuel f 0 max_eer false xtol_default with
        | Ret lft, Ret rgt => let e := norm ((lft + rgt) / 2) in Ret (t_fpr s e, e)
        | _, _ => Raise
        end.
End WithCarrier.
