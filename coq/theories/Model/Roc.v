(* Model/Roc.v — hand model of score_analysis/roc_curve.py, lines 19-141 and 226-326: the ROCCurve dataclass with its
   derived views, roc(), _find_support_thresholds() (every branch, including the extra-points branch that only
   roc_with_ci uses) and _add_extra_points().  Follows the Python statement by statement, as the code is.
   No proofs here (Proofs/RocFacts.v).

   Numbers: thresholds and targets are finite floats = Q (exact); rates are [rate] (None = NaN); nb_points and
   nb_extra_points are Optional[int] = option Z; np.nextafter = the succ/pred parameters of Base/Carrier.v;
   np.sort = isort; x[::-1] = rev; np.concatenate = ++; np.linspace is exact in Q.
   Raise stands for the exception the Python code raises at that point (ValueError from threshold setting on an
   empty class / from np.linspace with a negative count / unknown x_axis, IndexError from thresholds[[0, -1]] on an
   empty array). *)
From SA Require Export Model.Threshold.
Open Scope Q_scope.

(* x_axis: one of the eight accepted names, or any other string *)
Inductive axis8 := XFnr | XFpr | XTnr | XTpr | XFar | XFrr | XTar | XTrr.
Inductive xaxis := XName (a : axis8) | XOther.
Definition axis8_eqb (a b : axis8) : bool :=
  match a, b with
  | XFnr, XFnr | XFpr, XFpr | XTnr, XTnr | XTpr, XTpr | XFar, XFar | XFrr, XFrr | XTar, XTar | XTrr, XTrr => true
  | _, _ => false
  end.
(* x_axis in {...}: membership of a string in a set literal of accepted names *)
Definition xaxis_in (x : xaxis) (l : list axis8) : bool :=
  match x with XName a => existsb (axis8_eqb a) l | XOther => false end.

Definition rbind {A B} (r : res A) (f : A -> res B) : res B :=
  match r with Ret a => f a | Raise => Raise end.
Fixpoint map_res {A B} (f : A -> res B) (l : list A) : res (list B) :=
  match l with
  | [] => Ret []
  | x :: r => rbind (f x) (fun y => rbind (map_res f r) (fun ys => Ret (y :: ys)))
  end.

(* np.linspace(start, stop, num, endpoint=...): num < 0 raises ValueError; div = num - 1 or num;
   y = arange(num) * (delta / div) + start  (div = 0 only when num = 1, then y = [start]) *)
Definition linspace (start stop : Q) (num : Z) (endpoint : bool) : res (list Q) :=
  if (num <? 0)%Z then Raise else
  let div := if endpoint then (num - 1)%Z else num in
  let step := if (0 <? div)%Z then (stop - start) / inject_Z div else 0 in
  Ret (map (fun i => start + inject_Z (Z.of_nat i) * step) (seq 0 (Z.to_nat num))).

(* a rate method on an array of finite thresholds *)
Definition rates_at (f : scores -> ext -> rate) (s : scores) (ts : list Q) : list rate :=
  map (fun t => f s (Fin t)) ts.

(* np.min / np.max of a two-element array (NaN propagates), and the comparisons x_min > 0.0, x_max < 1.0 *)
Definition rmin2 (a b : rate) : rate := match a, b with Some x, Some y => Some (Qmin2 x y) | _, _ => None end.
Definition rmax2 (a b : rate) : rate := match a, b with Some x, Some y => Some (Qmax2 x y) | _, _ => None end.
Definition rgt0 (a : rate) : bool := match a with Some x => Qltb 0 x | None => false end.
Definition rlt1 (a : rate) : bool := match a with Some x => Qltb x 1 | None => false end.
Definition rval (a : rate) : Q := match a with Some x => x | None => 0 end.

(* _add_extra_points(x_min, x_max, nb_points) *)
Definition add_extra_points (x_min x_max : rate) (nb_points : Z) : res (list Q) :=
  let nb_before := (nb_points / 2)%Z in
  let nb_after := (nb_points - nb_before)%Z in
  let x := [] in
  rbind (if rgt0 x_min
         then rbind (linspace 0 (rval x_min) nb_before false) (fun x_before => Ret (x_before ++ x))
         else Ret x) (fun x =>
  if rlt1 x_max
  then rbind (linspace 1 (rval x_max) nb_after false) (fun x_after => Ret (x ++ x_after))
  else Ret x).

(* the accepted x_axis names (line 304) and the names for which the sorted thresholds are reversed (line 306) *)
Definition valid_axes : list axis8 := [XFnr; XFpr; XTnr; XTpr; XFar; XFrr; XTar; XTrr].
Definition decreasing_axes : list axis8 := [XFpr; XTpr; XFar; XTar].

(* lines 303-311: final sort, x_axis check, the two reversals *)
Definition support_tail (s : scores) (x_axis : xaxis) (thresholds : list Q) : res (list Q) :=
  let thresholds := isort thresholds in
  if negb (xaxis_in x_axis valid_axes) then Raise else
  let thresholds := if xaxis_in x_axis decreasing_axes then rev thresholds else thresholds in
  let thresholds := if label_eqb (score_class s) Neg then rev thresholds else thresholds in
  Ret thresholds.

(* lines 250-254: split of the extra points between the two axes *)
Definition extra_split (nb_extra_points : option Z) : Z * Z :=
  match nb_extra_points with
  | Some e => let a := ((e - 4) / 2)%Z in (a, (e - 4 - a)%Z)
  | None => (0, 0)%Z
  end.
(* lines 269-270 *)
Definition points_split (nb_points : Z) : Z * Z :=
  let nb_fnr_points := (nb_points / 2)%Z in (nb_fnr_points, (nb_points - nb_fnr_points)%Z).

Section WithCarrier.
  Variable succ pred : Q -> Q.

  (* scores.threshold_at_fnr(array) / threshold_at_fpr(array), default method "linear": raises on an empty class
     whatever the array holds, otherwise the elementwise map *)
  Definition arr_threshold_at (f : Q -> res Q) (l : list Q) : res (list Q) :=
    match f 0 with Raise => Raise | Ret _ => map_res f l end.
  Definition thresholds_at_fnr (s : scores) (l : list Q) : res (list Q) :=
    arr_threshold_at (fun r => threshold_at_fnr succ pred s r Linear) l.
  Definition thresholds_at_fpr (s : scores) (l : list Q) : res (list Q) :=
    arr_threshold_at (fun r => threshold_at_fpr succ pred s r Linear) l.

  (* lines 256-276: user thresholds, thresholds of the supplied FNR / FPR values, else the default support *)
  Definition support_base (s : scores) (fnr fpr thresholds : option (list Q)) (nb_points : option Z) : res (list Q) :=
    let thresholds := match thresholds with None => [] | Some t => t end in
    rbind (match fnr with
           | Some f => rbind (thresholds_at_fnr s f) (fun fnr_thresholds => Ret (thresholds ++ fnr_thresholds))
           | None => Ret thresholds
           end) (fun thresholds =>
    rbind (match fpr with
           | Some f => rbind (thresholds_at_fpr s f) (fun fpr_thresholds => Ret (thresholds ++ fpr_thresholds))
           | None => Ret thresholds
           end) (fun thresholds =>
    if (len thresholds =? 0)%Z then
      match nb_points with
      | None => Ret (pos s ++ neg s)
      | Some n =>
          let '(nb_fnr_points, nb_fpr_points) := points_split n in
          rbind (linspace 0 1 nb_fnr_points true) (fun default_fnr =>
          rbind (thresholds_at_fnr s default_fnr) (fun fnr_thresholds =>
          rbind (linspace 0 1 nb_fpr_points true) (fun default_fpr =>
          rbind (thresholds_at_fpr s default_fpr) (fun fpr_thresholds =>
          Ret (fnr_thresholds ++ fpr_thresholds)))))
      end
    else Ret thresholds)).

  (* lines 278-301: the extra points beyond the requested range and the four one-ulp sentinels *)
  Definition support_extra (s : scores) (nb_extra_fnr_points nb_extra_fpr_points : Z) (thresholds : list Q)
    : res (list Q) :=
    let thresholds := isort thresholds in
    if (len thresholds =? 0)%Z then Raise else      (* thresholds[[0, -1]] on an empty array: IndexError *)
    let ends := [nthZ thresholds 0; nthZ thresholds (len thresholds - 1)] in
    let fnr_ends := rates_at s_fnr s ends in
    let fnr_min := rmin2 (nth 0 fnr_ends None) (nth 1 fnr_ends None) in
    let fnr_max := rmax2 (nth 0 fnr_ends None) (nth 1 fnr_ends None) in
    rbind (add_extra_points fnr_min fnr_max nb_extra_fnr_points) (fun fnr_extra =>
    rbind (thresholds_at_fnr s fnr_extra) (fun fnr_thresholds =>
    let fpr_ends := rates_at s_fpr s ends in
    let fpr_min := rmin2 (nth 0 fpr_ends None) (nth 1 fpr_ends None) in
    let fpr_max := rmax2 (nth 0 fpr_ends None) (nth 1 fpr_ends None) in
    rbind (add_extra_points fpr_min fpr_max nb_extra_fpr_points) (fun fpr_extra =>
    rbind (thresholds_at_fpr s fpr_extra) (fun fpr_thresholds =>
    let thresholds := thresholds ++ fnr_thresholds ++ fpr_thresholds in
    Ret (thresholds ++
         [pred (nthZ (pos s) 0)] ++ [succ (nthZ (pos s) (len (pos s) - 1))] ++
         [pred (nthZ (neg s) 0)] ++ [succ (nthZ (neg s) (len (neg s) - 1))]))))).

  (* _find_support_thresholds(scores, fnr, fpr, thresholds, nb_points, nb_extra_points, x_axis) *)
  Definition find_support_thresholds (s : scores) (fnr fpr thresholds : option (list Q))
             (nb_points nb_extra_points : option Z) (x_axis : xaxis) : res (list Q) :=
    let '(nb_extra_fnr_points, nb_extra_fpr_points) := extra_split nb_extra_points in
    rbind (support_base s fnr fpr thresholds nb_points) (fun thresholds =>
    rbind (match nb_extra_points with
           | Some _ => support_extra s nb_extra_fnr_points nb_extra_fpr_points thresholds
           | None => Ret thresholds
           end) (fun thresholds =>
    support_tail s x_axis thresholds)).
End WithCarrier.

(* the defaults of _find_support_thresholds' last two parameters (what the experimental callers rely on) *)
Definition default_nb_extra_points : option Z := None.
Definition default_x_axis : xaxis := XName XFnr.

(* ---------- ROCCurve ---------- *)
Record roc_curve := mkROC {
  rc_fnr : list rate; rc_fpr : list rate; rc_thresholds : list Q;
  rc_fnr_ci : option (list (rate * rate)); rc_fpr_ci : option (list (rate * rate)) }.

Definition v_tpr (c : roc_curve) : list rate := map rcompl (rc_fnr c).     (* 1.0 - self.fnr *)
Definition v_tnr (c : roc_curve) : list rate := map rcompl (rc_fpr c).     (* 1.0 - self.fpr *)
Definition v_frr (c : roc_curve) : list rate := rc_fnr c.
Definition v_far (c : roc_curve) : list rate := rc_fpr c.
Definition v_tar (c : roc_curve) : list rate := v_tpr c.
Definition v_trr (c : roc_curve) : list rate := v_tnr c.
(* np.copy(1.0 - ci[..., ::-1]): the last axis reversed, then complemented *)
Definition compl_ci (ci : list (rate * rate)) : list (rate * rate) :=
  map (fun p => (rcompl (snd p), rcompl (fst p))) ci.
Definition v_tpr_ci (c : roc_curve) := option_map compl_ci (rc_fnr_ci c).
Definition v_tnr_ci (c : roc_curve) := option_map compl_ci (rc_fpr_ci c).
Definition v_frr_ci (c : roc_curve) := rc_fnr_ci c.
Definition v_far_ci (c : roc_curve) := rc_fpr_ci c.
Definition v_tar_ci (c : roc_curve) := v_tpr_ci c.
Definition v_trr_ci (c : roc_curve) := v_tnr_ci c.

(* the attribute of a ROCCurve named by an x_axis string *)
Definition view (a : axis8) (c : roc_curve) : list rate :=
  match a with
  | XFnr => rc_fnr c | XFpr => rc_fpr c | XTnr => v_tnr c | XTpr => v_tpr c
  | XFar => v_far c | XFrr => v_frr c | XTar => v_tar c | XTrr => v_trr c
  end.

(* roc(scores, fnr=, fpr=, thresholds=, nb_points=, x_axis=) *)
Definition roc (succ pred : Q -> Q) (s : scores) (fnr fpr thresholds : option (list Q)) (nb_points : option Z)
           (x_axis : xaxis) : res roc_curve :=
  rbind (find_support_thresholds succ pred s fnr fpr thresholds nb_points None x_axis) (fun thresholds =>
  let fnr := rates_at s_fnr s thresholds in
  let fpr := rates_at s_fpr s thresholds in
  Ret (mkROC fnr fpr thresholds None None)).
