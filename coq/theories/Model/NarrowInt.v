(* Model/NarrowInt.v — the two-cell sums of metrics.py (p, n, top, ton: matrix[..., i, j] + matrix[..., k, l]) and the
   per-class cells of one_vs_all, as NumPy evaluates them when the matrix is held in an unsigned integer dtype of [bits]
   bits: element-wise + of two arrays of that dtype wraps modulo 2^bits; np.sum promotes to 64 bits (pop, accuracy).
   Only used to state the open known finding C04 / C05 (narrow-integer count matrices) as a refutation with a witness. *)
From Coq Require Import ZArith QArith.
Open Scope Z_scope.

Definition wrap (bits : Z) (x : Z) : Z := x mod 2 ^ bits.
Record cm2z := { tp : Z; fn : Z; fp : Z; tn : Z }.
Definition in_dtype (bits : Z) (m : cm2z) : Prop :=
  0 <= tp m < 2 ^ bits /\ 0 <= fn m < 2 ^ bits /\ 0 <= fp m < 2 ^ bits /\ 0 <= tn m < 2 ^ bits.
(* metrics.p / n / top / ton on a uint<bits> matrix *)
Definition p_u (bits : Z) (m : cm2z) : Z := wrap bits (tp m + fn m).
Definition n_u (bits : Z) (m : cm2z) : Z := wrap bits (fp m + tn m).
Definition top_u (bits : Z) (m : cm2z) : Z := wrap bits (tp m + fp m).
Definition ton_u (bits : Z) (m : cm2z) : Z := wrap bits (fn m + tn m).
(* metrics.pop: np.sum promotes *)
Definition pop_u (m : cm2z) : Z := tp m + fn m + fp m + tn m.
(* metrics.tpr = tp / p, as a rational (p <> 0) *)
Definition tpr_u (bits : Z) (m : cm2z) : Q := inject_Z (tp m) / inject_Z (p_u bits m).

(* ConfusionMatrix.one_vs_all on a uint<bits> N x N matrix: the result array has the matrix's dtype, so each of FN_j, FP_j,
   TN_j (formed from promoted np.sum values) is cast back into it, i.e. reduced modulo 2^bits *)
From Coq Require Import List.
Import ListNotations.
Definition zsum (l : list Z) : Z := fold_right Z.add 0 l.
Definition cell (M : list (list Z)) (i j : nat) : Z := nth j (nth i M []) 0.
Definition rowsum (M : list (list Z)) (i : nat) : Z := zsum (nth i M []).
Definition colsum (M : list (list Z)) (j : nat) : Z := zsum (map (fun r => nth j r 0) M).
Definition total (M : list (list Z)) : Z := zsum (map zsum M).
Definition ova_u (bits : Z) (M : list (list Z)) (j : nat) : cm2z :=
  let t := cell M j j in
  {| tp := t; fn := wrap bits (rowsum M j - t); fp := wrap bits (colsum M j - t);
     tn := wrap bits (total M - rowsum M j - colsum M j + t) |}.
