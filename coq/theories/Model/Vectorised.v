(* Model/Vectorised.v — the vectorised queries as shape-preserving maps of the scalar model
   (DESIGN 3.6): cm(threshold array), rates, threshold setting on target arrays, pointwise_cm. *)
From SA Require Export Base.Arr Model.Threshold.
Open Scope Q_scope.

Definition cm_cells (c : cmz) : list Z := [ctp c; cfn c; cfp c; ctn c].
(* Scores.cm(threshold).matrix : shape threshold.shape + (2,2) *)
Definition cm_arr (s : scores) (T : arr ext) : arr Z := aexpand [2; 2]%nat (fun t => cm_cells (cm s t)) T.
(* Scores.<rate>(threshold) : shape threshold.shape *)
Definition rate_arr (mt : metric6) (s : scores) (T : arr ext) : arr rate := amap (metric_at mt s) T.
(* Scores.threshold_at_<metric>(targets) : shape targets.shape *)
Definition thr_arr (succ pred : Q -> Q) (mt : metric6) (s : scores) (m : method) (R : arr Q) : arr (res Q) :=
  amap (fun r => threshold_at succ pred mt s r m) R.
(* pointwise_cm(labels, scores, threshold) : shape scores.shape + threshold.shape + (2,2) *)
Definition pointwise_cm_arr (sc ec : label) (labels : list bool) (xs : arr Q) (T : arr ext) : arr Z :=
  aouter [2; 2]%nat (fun lx t => cm_cells (pointwise_cm1 sc ec (fst lx) (snd lx) t))
         (mkArr (shape xs) (combine labels (data xs))) T.
