(* Model/RocCI.v — hand model of the ROC confidence bands: score_analysis/roc_curve.py lines 144-223 (roc_with_ci),
   329-345 (_apply_rule_of_three), 348-387 (_aggregate_rectangles) and score_analysis/experimental/roc_ci.py
   (pointwise_band_ci, simultaneous_joint_region_ci, fixed_width_band_ci with _displace_curve / _find_tube_radius).
   Follows the Python statement by statement, as the code is (repaired tree: fixes 8f0da8c and 79f7b15).
   No proofs here (Proofs/RocCIFacts.v).

   Built on Model/Roc.v (support thresholds), Model/BootMetric.v (Scores.bootstrap_ci / bootstrap_sample, property C14)
   and Model/BootCI.v (utils.bootstrap_ci, property C13).  Oracles (Section variables, DESIGN 3.4): math.pow,
   scipy.stats.ksone.ppf, np.sqrt, and the three of BootCI (norm.cdf, norm.ppf, x ** 1.5).  The built-in samplers are
   the parameter [builtin_sample] of Model/BootMetric.v (property C11), fed with one RNG draw history per sample.
   Floats that may be NaN are [rate]; comparisons with NaN are False; np.min / np.max propagate NaN; Python's builtin
   min(a, b) / max(a, b) return a unless b < a / b > a. *)
From SA Require Export Model.Roc Model.BootMetric.
Open Scope Q_scope.

Definition ROC_CI_EXTRA_POINTS : Z := 20.

(* comparisons of a possibly-NaN float with a number / with another possibly-NaN float *)
Definition rlt_q (p : rate) (c : Q) : bool := match p with Some x => Qltb x c | None => false end.
Definition rgt_q (p : rate) (c : Q) : bool := match p with Some x => Qltb c x | None => false end.
Definition rleb (a b : rate) : bool := match a, b with Some x, Some y => Qleb x y | _, _ => false end.
Definition rltb (a b : rate) : bool := match a, b with Some x, Some y => Qltb x y | _, _ => false end.

(* ---------- _apply_rule_of_three(p, ci, alpha, n) ---------- *)
Section RuleOfThree.
  Variable pow : Q -> Q -> Q.     (* math.pow *)

  Definition lower_correction (alpha : Q) (n : Z) : rate * rate := (Some 0, Some (1 - pow alpha (1 / inject_Z n))).
  Definition upper_correction (alpha : Q) (n : Z) : rate * rate := (Some (pow alpha (1 / inject_Z n)), Some 1).

  (* np.where(p[:, np.newaxis] < 1.0 / n, lower_correction, ci); np.where(p[:, np.newaxis] > (n - 1) / n, upper_correction, ci) *)
  Definition apply_rule_of_three (p : list rate) (ci : list (rate * rate)) (alpha : Q) (n : Z) : list (rate * rate) :=
    let lower_correction := lower_correction alpha n in
    let upper_correction := upper_correction alpha n in
    let ci := map (fun pc => if rlt_q (fst pc) (1 / inject_Z n) then lower_correction else snd pc) (combine p ci) in
    let ci := map (fun pc => if rgt_q (fst pc) (inject_Z (n - 1) / inject_Z n) then upper_correction else snd pc) (combine p ci) in
    ci.
End RuleOfThree.

(* ---------- _aggregate_rectangles(x, dxp, dyp) ---------- *)
(* inside = (dxp[:, 0] <= x[j]) & (x[j] <= dxp[:, 1]) for one rectangle *)
Definition inside (xj : rate) (dx : rate * rate) : bool := rleb (fst dx) xj && rleb xj (snd dx).
(* a[mask] *)
Definition select {A} (mask : list bool) (l : list A) : list A :=
  map snd (filter (fun p => fst p) (combine mask l)).
(* np.min(a, initial=i) / np.max(a, initial=i) *)
Definition np_min (l : list rate) (init : rate) : rate := fold_left rmin2 l init.
Definition np_max (l : list rate) (init : rate) : rate := fold_left rmax2 l init.
(* Python min(a, b) / max(a, b) on floats *)
Definition py_min (a b : rate) : rate := if rltb b a then b else a.
Definition py_max (a b : rate) : rate := if rltb a b then b else a.
(* l[j] = v  (j < len l; the loop never writes out of range when len x = len dyp) *)
Definition upd {A} (l : list A) (j : nat) (v : A) : list A :=
  if (j <? length l)%nat then firstn j l ++ v :: skipn (S j) l else l.

(* one iteration of `for j in range(len(x))` on the pair of arrays (lower, upper) *)
Definition agg_lower_step (x : list rate) (dxp dyp : list (rate * rate)) (lower : list rate) (j : nat) : list rate :=
  let mask := map (inside (nth j x None)) dxp in
  let lower_rect := np_min (select mask (map fst dyp)) (nth j lower None) in
  upd lower j (py_min (nth j lower None) lower_rect).
Definition agg_upper_step (x : list rate) (dxp dyp : list (rate * rate)) (upper : list rate) (j : nat) : list rate :=
  let mask := map (inside (nth j x None)) dxp in
  let upper_rect := np_max (select mask (map snd dyp)) (nth j upper None) in
  upd upper j (py_max (nth j upper None) upper_rect).
Definition agg_step (x : list rate) (dxp dyp : list (rate * rate)) (st : list rate * list rate) (j : nat)
  : list rate * list rate :=
  (agg_lower_step x dxp dyp (fst st) j, agg_upper_step x dxp dyp (snd st) j).

Definition aggregate_rectangles (x : list rate) (dxp dyp : list (rate * rate)) : list (rate * rate) :=
  let lower := map fst dyp in          (* np.copy(dyp[..., 0]) *)
  let upper := map snd dyp in          (* np.copy(dyp[..., 1]) *)
  let st := fold_left (agg_step x dxp dyp) (seq 0 (length x)) (lower, upper) in
  combine (fst st) (snd st).           (* np.stack([lower, upper], axis=-1) *)

(* ---------- the joint metric and the bands ---------- *)
(* an array of shape (..., 2) stored flat: consecutive pairs *)
Fixpoint to_pairs (l : list rate) : list (rate * rate) :=
  match l with a :: b :: r => (a, b) :: to_pairs r | _ => [] end.

Definition all_ret {A} (l : list (Threshold.res A)) : Threshold.res (list A) := map_res (fun r => r) l.

Section Bands.
  Variable succ pred : Q -> Q.                 (* np.nextafter *)
  Variable pow : Q -> Q -> Q.                  (* math.pow *)
  Variables Phi PhiInv pow15 : Q -> Q.         (* norm.cdf, norm.ppf, x ** 1.5 *)
  Variable ksone_ppf : Q -> Z -> Q.            (* scipy.stats.ksone.ppf(q, n) *)
  Variable H : Type.                           (* RNG draw history of one bootstrap_sample call *)
  Variable dynamic_choice : scores -> config scores -> sampling scores.
  Variable builtin_sample : sampling scores -> scores -> config scores -> H -> BootCI.res scores.

  (* def _metric(_scores): _fnr = _scores.fnr(_scores.threshold_at_fpr(fpr)); _fpr = _scores.fpr(_scores.threshold_at_fnr(fnr));
     np.stack([_fnr, _fpr], axis=0)  — flattened row-major: all _fnr, then all _fpr.  Raises when threshold setting
     raises (a sample without scored positives / negatives).  fnr / fpr are the closed-over curve rates; they are
     numbers whenever the support thresholds could be computed, [rval] only totalises. *)
  Definition joint_metric (fnr fpr : list rate) (s' : scores) (_ : unit) : Threshold.res (list rate) :=
    rbind (thresholds_at_fpr succ pred s' (map rval fpr)) (fun t_fpr =>
    let _fnr := rates_at s_fnr s' t_fpr in
    rbind (thresholds_at_fnr succ pred s' (map rval fnr)) (fun t_fnr =>
    let _fpr := rates_at s_fpr s' t_fnr in
    Ret (_fnr ++ _fpr))).

  (* utils.bootstrap_ci on the rows of a metric that may raise: an exception in any row (or in metric(self))
     propagates out of Scores.bootstrap_ci *)
  Definition ci_routine (n : nat) (rows : list (Threshold.res (list rate))) (hat : option (Threshold.res (list rate)))
             (alpha : Q) (m : BootCI.method) : BootCI.res (list nat * list rate) :=
    match all_ret rows, hat with
    | Ret rows', Some (Ret h) => utils_ci Phi PhiInv pow15 [2%nat; n] rows' (Some h) alpha m
    | _, _ => Err
    end.

  (* scores.bootstrap_ci(metric=_metric, alpha=alpha, config=config) *)
  Definition joint_ci (s : scores) (fnr fpr : list rate) (alpha : Q) (cfg : config scores) (hist : nat -> H)
    : BootCI.res (list nat * list rate) :=
    bootstrap_ci_m scores unit (Threshold.res (list rate)) unit H (list nat * list rate)
      dynamic_choice builtin_sample (fun _ _ _ _ => Raise) (ci_routine (length fnr))
      s (Callable (joint_metric fnr fpr)) alpha cfg hist tt.

  (* lines 209-215: fnr_ci = joint_ci[0], fpr_ci = joint_ci[1], then the rule-of-three substitution with
     n = scores.nb_all_pos / scores.nb_all_neg *)
  Definition pointwise_intervals (s : scores) (fnr fpr : list rate) (alpha : Q) (cfg : config scores) (hist : nat -> H)
    : Threshold.res (list (rate * rate) * list (rate * rate)) :=
    match joint_ci s fnr fpr alpha cfg hist with
    | Err => Raise
    | Ok (_, data) =>
        let pairs := to_pairs data in
        let fnr_ci := firstn (length fnr) pairs in
        let fpr_ci := skipn (length fnr) pairs in
        let fnr_ci := apply_rule_of_three pow fnr fnr_ci alpha (nb_all_pos s) in
        let fpr_ci := apply_rule_of_three pow fpr fpr_ci alpha (nb_all_neg s) in
        Ret (fnr_ci, fpr_ci)
    end.

  (* roc_with_ci(scores, fnr=, fpr=, thresholds=, nb_points=, x_axis=, alpha=, config=) *)
  Definition roc_with_ci (s : scores) (fnr fpr thresholds : option (list Q)) (nb_points : option Z) (x_axis : xaxis)
             (alpha : Q) (cfg : config scores) (hist : nat -> H) : Threshold.res roc_curve :=
    rbind (find_support_thresholds succ pred s fnr fpr thresholds nb_points (Some ROC_CI_EXTRA_POINTS) x_axis) (fun thresholds =>
    let fnr := rates_at s_fnr s thresholds in
    let fpr := rates_at s_fpr s thresholds in
    rbind (pointwise_intervals s fnr fpr alpha cfg hist) (fun ci =>
    let '(fnr_ci, fpr_ci) := ci in
    let fpr_band := aggregate_rectangles fnr fnr_ci fpr_ci in
    let fnr_band := aggregate_rectangles fpr fpr_ci fnr_ci in
    Ret (mkROC fnr fpr thresholds (Some fnr_band) (Some fpr_band)))).

  (* experimental.pointwise_band_ci: _find_support_thresholds with its defaults (no extra points, x_axis "fnr"),
     no aggregation *)
  Definition pointwise_band_ci (s : scores) (fnr fpr thresholds : option (list Q)) (nb_points : option Z)
             (alpha : Q) (cfg : config scores) (hist : nat -> H) : Threshold.res roc_curve :=
    rbind (find_support_thresholds succ pred s fnr fpr thresholds nb_points default_nb_extra_points default_x_axis) (fun thresholds =>
    let fnr := rates_at s_fnr s thresholds in
    let fpr := rates_at s_fpr s thresholds in
    rbind (pointwise_intervals s fnr fpr alpha cfg hist) (fun ci =>
    let '(fnr_ci, fpr_ci) := ci in
    Ret (mkROC fnr fpr thresholds (Some fnr_ci) (Some fpr_ci)))).

  (* experimental.simultaneous_joint_region_ci *)
  Definition shift_ci (p : list rate) (delta : Q) : list (rate * rate) :=
    map (fun r => (rsub r (Some delta), radd r (Some delta))) p.
  Definition simultaneous_joint_region_ci (s : scores) (fnr fpr thresholds : option (list Q)) (nb_points : option Z)
             (alpha : Q) : Threshold.res roc_curve :=
    rbind (find_support_thresholds succ pred s fnr fpr thresholds nb_points default_nb_extra_points default_x_axis) (fun thresholds =>
    let fnr := rates_at s_fnr s thresholds in
    let fpr := rates_at s_fpr s thresholds in
    let fnr_delta := ksone_ppf (1 - alpha / 2) (nb_all_pos s) in
    let fpr_delta := ksone_ppf (1 - alpha / 2) (nb_all_neg s) in
    let fnr_ci := shift_ci fnr fnr_delta in
    let fpr_ci := shift_ci fpr fpr_delta in
    let fpr_band := aggregate_rectangles fnr fnr_ci fpr_ci in
    let fnr_band := aggregate_rectangles fpr fpr_ci fnr_ci in
    Ret (mkROC fnr fpr thresholds (Some fnr_band) (Some fpr_band))).
End Bands.

(* ---------- experimental.fixed_width_band_ci ---------- *)
(* np.clip(x, 0.0, 1.0) *)
Definition clip01 (x : Q) : Q := Qmin2 (Qmax2 x 0) 1.
(* x[0] = v ; x[-1] = v *)
Definition set_first {A} (l : list A) (v : A) : list A := match l with [] => [] | _ :: r => v :: r end.
Definition set_last {A} (l : list A) (v : A) : list A := rev (set_first (rev l) v).

(* np.interp(x, xp, fp) for one x: j = (number of xp <= x) - 1 (binary search on increasing xp);
   left of xp[0] -> fp[0]; at or right of xp[-1] -> fp[-1]; exact hit -> fp[j]; otherwise linear on [xp[j], xp[j+1]] *)
Definition interp1 (xp fp : list Q) (x : Q) : Q :=
  let n := length xp in
  let c := Z.to_nat (count (fun v => Qleb v x) xp) in
  if (c =? 0)%nat then nth 0 fp 0
  else if (n <=? c)%nat then nth (n - 1) fp 0
  else
    let j := (c - 1)%nat in
    if Qeqb (nth j xp 0) x then nth j fp 0
    else
      let slope := (nth (S j) fp 0 - nth j fp 0) / (nth (S j) xp 0 - nth j xp 0) in
      slope * (x - nth j xp 0) + nth j fp 0.
Definition interp (x xp fp : list Q) : list Q := map (interp1 xp fp) x.

Section FixedWidth.
  Variable succ pred : Q -> Q.
  Variable sqrtQ : Q -> Q.                     (* np.sqrt *)
  Variable H : Type.
  Variable dynamic_choice : scores -> config scores -> sampling scores.
  Variable builtin_sample : sampling scores -> scores -> config scores -> H -> BootCI.res scores.

  (* _displace_curve(x, y, v): raises IndexError on empty arrays (x[0]) *)
  Definition displace_curve (x y : list Q) (v0 v1 : Q) : Threshold.res (list Q * list Q) :=
    match x, y with
    | [], _ | _, [] => Raise
    | _, _ =>
        let x := map (fun a => clip01 (a + v0)) x in
        let y := map (fun a => clip01 (a + v1)) y in
        let x := set_first x 0 in
        let y := set_first y (succ 1) in
        let x := set_last x (succ 1) in
        let y := set_last y 0 in
        Ret (x, y)
    end.

  Definition all_geb (a b : list Q) : bool := forallb (fun p => Qleb (snd p) (fst p)) (combine a b).
  Definition all_leb (a b : list Q) : bool := forallb (fun p => Qleb (fst p) (snd p)) (combine a b).

  (* _is_contained(_delta) *)
  Definition is_contained (x y xs ys : list Q) (k delta : Q) : Threshold.res bool :=
    rbind (displace_curve x y (delta * 1) (delta * k)) (fun p =>
    let yp := interp xs (fst p) (snd p) in
    let above := all_geb yp ys in
    rbind (displace_curve x y (- delta * 1) (- delta * k)) (fun m =>
    let ym := interp xs (fst m) (snd m) in
    let below := all_leb ym ys in
    Ret (above && below))).

  (* while delta_max - delta_min > tol: ...   (tol = 1e-2; the interval halves, so 7 iterations; fuel bounds them) *)
  Definition tube_tol : Q := 1 # 100.
  Fixpoint tube_search (fuel : nat) (x y xs ys : list Q) (k delta_min delta_max : Q) : Threshold.res Q :=
    match fuel with
    | O => Raise                                   (* out of fuel: unreachable with fuel >= 8 *)
    | S fuel' =>
        if Qltb tube_tol (delta_max - delta_min) then
          let delta := (delta_max + delta_min) / 2 in
          rbind (is_contained x y xs ys k delta) (fun c =>
          if c then tube_search fuel' x y xs ys k delta_min delta
          else tube_search fuel' x y xs ys k delta delta_max)
        else Ret ((delta_max + delta_min) / 2)
    end.

  (* _find_tube_radius(x, y, xs, ys, k) *)
  Definition find_tube_radius (fuel : nat) (x y xs ys : list Q) (k : Q) : Threshold.res Q :=
    rbind (is_contained x y xs ys k 0) (fun c0 =>
    if c0 then Ret 0 else
    rbind (is_contained x y xs ys k 4) (fun c4 =>
    if negb c4 then Raise                          (* "Could not initialise search for displacement." *)
    else tube_search fuel x y xs ys k 0 1)).

  (* fixed_width_band_ci; rates are numbers once the support thresholds exist ([rval] only totalises) *)
  Definition fixed_width_band_ci (fuel : nat) (s : scores) (fnr fpr thresholds : option (list Q)) (nb_points : option Z)
             (alpha : Q) (cfg : config scores) (hist : nat -> H) : Threshold.res roc_curve :=
    rbind (find_support_thresholds succ pred s fnr fpr thresholds nb_points default_nb_extra_points default_x_axis) (fun thresholds =>
    let fnr_r := rates_at s_fnr s thresholds in
    let fpr_r := rates_at s_fpr s thresholds in
    let fnr := map rval fnr_r in
    let fpr := map rval fpr_r in
    let k := sqrtQ (inject_Z (len (neg s)) / inject_Z (len (pos s))) in
    rbind (map_res (fun j =>
             match bootstrap_sample scores H dynamic_choice builtin_sample s cfg (hist j) j with
             | Err => Raise
             | Ok sample =>
                 let fnr_sample := map rval (rates_at s_fnr sample thresholds) in
                 let fpr_sample := map rval (rates_at s_fpr sample thresholds) in
                 find_tube_radius fuel fnr fpr fnr_sample fpr_sample k
             end) (seq 0 (nb_samples cfg))) (fun delta_samples =>
    (* bootstrap_ci(theta=delta_samples, alpha=2 * alpha, method="quantile")[1] *)
    match nanquantile (map Some delta_samples) (1 - (2 * alpha) * (1#2)) with
    | None => Raise                                (* nb_samples = 0: NaN radius; outside the modelled domain *)
    | Some delta =>
        if negb (q_valid ((2 * alpha) * (1#2)) && q_valid (1 - (2 * alpha) * (1#2))) then Raise else
        rbind (displace_curve fnr fpr delta (delta * k)) (fun plus =>
        rbind (displace_curve fnr fpr (- delta) (- (delta * k))) (fun minus =>
        let '(fnr_plus, fpr_plus) := plus in
        let '(fnr_minus, fpr_minus) := minus in
        let fnr_lo := interp fpr (rev fpr_minus) (rev fnr_minus) in
        let fnr_hi := interp fpr (rev fpr_plus) (rev fnr_plus) in
        let fpr_lo := interp fnr fnr_minus fpr_minus in
        let fpr_hi := interp fnr fnr_plus fpr_plus in
        let fnr_ci := combine (map Some fnr_lo) (map Some fnr_hi) in
        let fpr_ci := combine (map Some fpr_lo) (map Some fpr_hi) in
        Ret (mkROC fnr_r fpr_r thresholds (Some fnr_ci) (Some fpr_ci))))
    end)).
End FixedWidth.
