(* Model/BootHarness.v — boolean comparison helpers used only by generated correspondence files of C13/C14.
   The oracle values (scipy.stats.norm.ppf / cdf results, x ** 1.5) that the implementation actually obtained are
   recorded by the harness and substituted for the Section variables of Model/BootCI.v; the model functions
   themselves (p0_of, accel, level_args, cdf_x, ci_at_levels, column, bootstrap_ci) are the ones evaluated. *)
From Coq Require Import Qabs.
From SA Require Export Model.Harness Model.BootCI Model.BootMetric.
Open Scope Q_scope.

(* |x - y| <= tol * (1 + |y|) *)
Definition close (tol x y : Q) : bool := Qabs_le x y (tol * (1 + Qabs y)).
Definition rclose (tol : Q) (a b : rate) : bool :=
  match a, b with Some x, Some y => close tol x y | None, None => true | _, _ => false end.
(* absolute tolerance *)
Definition rclose_abs (tol : Q) (a b : rate) : bool :=
  match a, b with Some x, Some y => Qabs_le x y tol | None, None => true | _, _ => false end.
Definition xclose (tol : Q) (a b : xval) : bool :=
  match a, b with
  | Some (Fin x), Some (Fin y) => close tol x y
  | Some NegInf, Some NegInf | Some PosInf, Some PosInf | None, None => true
  | _, _ => false
  end.
Definition nat_list_eqb := list_eqb Nat.eqb.

(* norm.ppf as the table of the (argument, result) pairs the implementation's three ppf calls produced *)
Definition ppf_table (p0 : rate) (z0 : Q) (al_lower zl zu : Q) : Q -> Q :=
  fun p =>
    let t := 1 # 1000000000000 in
    match p0 with
    | Some k => if Qabs_le p k t then z0 else if Qabs_le p al_lower t then zl else zu
    | None => if Qabs_le p al_lower t then zl else zu
    end.

Definition rget (r : rate) : Q := match r with Some v => v | None => 0 end.

(* one component of a bc/bca call:
   rec_p0, z0            : argument / finite result of the first ppf call for this component (z0 ignored when infinite)
   al_lower, zl, zu      : recorded alpha/2, ppf(alpha/2), ppf(1 - alpha/2)
   p15                   : (sum d^2) ** 1.5 as computed by numpy at the model's exact sum
   arg_l, arg_u          : arguments recorded at the two cdf calls;  lvl_l, lvl_u : their results
   lo, hi                : the implementation's limits;  tol: relative tolerance for scores; tolv: absolute, for limits *)
Definition check_bcx (m : method) (col : list rate) (th : rate) (alpha : Q)
           (rec_p0 : rate) (z0 al_lower zl zu p15 : Q) (arg_l arg_u : xval) (lvl_l lvl_u : rate)
           (lo hi : rate) (tol tolv : Q) : bool :=
  let PhiInv := ppf_table rec_p0 z0 al_lower zl zu in
  let '(ml, mu) := level_args PhiInv (fun _ => p15) m col th alpha in
  rclose tol (p0_of col th) rec_p0 &&
  close tol (alpha * (1#2)) al_lower &&
  xclose tol ml arg_l && xclose tol mu arg_u &&
  rclose tol (cdf_x (fun _ => rget lvl_l) arg_l) lvl_l &&
  rclose tol (cdf_x (fun _ => rget lvl_u) arg_u) lvl_u &&
  match ci_at_levels col (lvl_l, lvl_u) with
  | Ok (mlo, mhi) => rclose_abs tolv mlo lo && rclose_abs tolv mhi hi
  | Err => false
  end.

(* whole-array comparison (quantile method): shape exactly, entries within an absolute tolerance (0 = exact) *)
Definition arr_close (tolv : Q) (r : res (list nat * list rate)) (shape : list nat) (data : list rate) : bool :=
  match r with
  | Ok (sh, d) => nat_list_eqb sh shape && list_eqb (rclose_abs tolv) d data
  | Err => false
  end.
Definition is_err {A} (r : res A) : bool := match r with Err => true | Ok _ => false end.

(* oracles that are never consulted on the path being checked *)
Definition no_oracle : Q -> Q := fun _ => 1 # 2.

(* ---------- C14: an executable instance of Model/BootMetric.v on the Scores model of C01 ---------- *)
(* metrics s.tpr(threshold) ... with threshold a list (np.array) of thresholds: kwargs = list ext, value = list rate *)
Definition rate_metric (f : scores -> ext -> rate) : metric_fn scores (list ext) (list rate) :=
  fun s ts => map (f s) ts.
(* the class Scores as a method table; names are numbered tpr, fpr, fnr, tnr *)
Definition scores_table : class_table nat (metric_fn scores (list ext) (list rate)) :=
  [(0%nat, rate_metric s_tpr); (1%nat, rate_metric s_fpr); (2%nat, rate_metric s_fnr); (3%nat, rate_metric s_tnr)].
Definition getattr_scores (s : scores) (nm : nat) : metric_fn scores (list ext) (list rate) :=
  match lookup_mro nat _ Nat.eqb [scores_table] nm with Some f => f | None => fun _ _ => [] end.
(* the harness's counting sampler: Scores(pos = source.pos + d, neg = source.neg + d, same easy counts and flags) *)
Definition shift_scores (d : Q) (s : scores) : scores :=
  mk_scores (map (fun x => x + d) (pos s)) (map (fun x => x + d) (neg s)) (easy_pos s) (easy_neg s)
            (score_class s) (equal_class s) false.
Definition model_bootstrap_metric (src : scores) (metric : metric_arg scores (list ext) (list rate) nat)
           (n : nat) (step : Q) (thr : list ext) : res (list (list rate)) :=
  bootstrap_metric scores (list ext) (list rate) nat unit (fun _ c => sampling_method c) (fun _ _ _ _ => Err)
    getattr_scores src metric
    (mkConfig n MQuantile (SCallable (fun j s => shift_scores (inject_Z (Z.of_nat j) * step) s)))
    (fun _ => tt) thr.
Definition rows_close (r : res (list (list rate))) (rows : list (list rate)) : bool :=
  match r with
  | Ok m => list_eqb (list_eqb (rclose_abs (1 # 1000000000000000))) m rows
  | Err => false
  end.
