(* Model/Auc.v — hand model of Scores.auc (scores.py 803-852), exact rationals.
   Rates are taken as Q (both classes non-empty, so no NaN); np.nextafter = succ/pred. *)
From Coq Require Export Qabs.
From SA Require Export Model.Threshold.
Open Scope Q_scope.

Inductive axis := AFpr | ATpr | AFnr | ATnr | ATopr | ATonr.
Definition rate_q (r : rate) : Q := match r with Some x => x | None => 0 end.
Definition axis_at (a : axis) (s : scores) (t : Q) : Q :=
  rate_q (match a with
          | AFpr => s_fpr s (Fin t) | ATpr => s_tpr s (Fin t) | AFnr => s_fnr s (Fin t)
          | ATnr => s_tnr s (Fin t) | ATopr => s_topr s (Fin t) | ATonr => s_tonr s (Fin t)
          end).

(* np.trapezoid(y, x) *)
Fixpoint trapz (y x : list Q) : Q :=
  match y, x with
  | y0 :: ((y1 :: _) as yr), x0 :: ((x1 :: _) as xr) => (x1 - x0) * (y0 + y1) * (1#2) + trapz yr xr
  | _, _ => 0
  end.

(* x[left:right] *)
Definition slice {A} (l : list A) (left right : Z) : list A :=
  firstn (Z.to_nat (right - left)) (skipn (Z.to_nat left) l).

Section WithCarrier.
  Variable succ pred : Q -> Q.

  Definition auc_points (s : scores) : list Q :=
    let all := pos s ++ neg s in
    isort (map pred all ++ map succ all).

  Definition auc (s : scores) (lower upper : Q) (x_axis y_axis : axis) : Q :=
    let points := auc_points s in
    let x := map (axis_at x_axis s) points in
    let y := map (axis_at y_axis s) points in
    let '(x, y) := if Qltb (nthZ x (len x - 1)) (nthZ x 0) then (rev x, rev y) else (x, y) in
    let left := count (fun v => Qltb v lower) x in          (* searchsorted(x, lower, side="left") *)
    let right := count (fun v => Qleb v upper) x in         (* searchsorted(x, upper, side="right") *)
    let left := Z.min left (len y - 1) in
    let right := Z.max right 1 in
    let xs := [lower] ++ slice x left right ++ [upper] in
    let ys := [nthZ y left] ++ slice y left right ++ [nthZ y (right - 1)] in
    Qabs (trapz ys xs).
End WithCarrier.
