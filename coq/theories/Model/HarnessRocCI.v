(* Model/HarnessRocCI.v — boolean comparison helpers used only by generated correspondence files of C16. *)
From SA Require Export Model.HarnessRoc Model.BootHarness Model.RocCI.
Open Scope Q_scope.

Definition pair_close (tol : Q) (a b : rate * rate) : bool :=
  rclose_abs tol (fst a) (fst b) && rclose_abs tol (snd a) (snd b).
Definition rows_close (tol : Q) : list (rate * rate) -> list (rate * rate) -> bool := list_eqb (pair_close tol).

(* math.pow as the table of the two values the implementation can ask for: alpha ** (1 / nb_all_pos), alpha ** (1 / nb_all_neg) *)
Definition pow_table (e1 v1 v2 : Q) : Q -> Q -> Q := fun _ e => if Qeqb e e1 then v1 else v2.

Definition r3_agree (tol powv : Q) (p : list rate) (ci : list (rate * rate)) (alpha : Q) (n : Z) (impl : list (rate * rate)) : bool :=
  rows_close tol (apply_rule_of_three (fun _ _ => powv) p ci alpha n) impl.
Definition agg_agree (x : list rate) (dxp dyp impl : list (rate * rate)) : bool :=
  rows_close 0 (aggregate_rectangles x dxp dyp) impl.

(* samplers: a callable that returns the j-th recorded sample (the object itself when nothing is recorded: identity) *)
Definition no_builtin : sampling scores -> scores -> config scores -> unit -> BootCI.res scores := fun _ _ _ _ => Err.
Definition as_configured : scores -> config scores -> sampling scores := fun _ c => sampling_method c.
Definition replay_sampler (samples : list scores) : sampling scores := SCallable (fun j s => nth j samples s).
Definition cfg_of (n : nat) (m : BootCI.method) (samples : list scores) : config scores := mkConfig n m (replay_sampler samples).

Definition curve_agree (tol_t tol_r tol_b : Q) (r : Threshold.res roc_curve) (ths : list Q) (fnr fpr : list rate)
           (fnr_ci fpr_ci : list (rate * rate)) : bool :=
  match r with
  | Ret c =>
      qlist_close tol_t (rc_thresholds c) ths && list_eqb (rate_close tol_r) (rc_fnr c) fnr &&
      list_eqb (rate_close tol_r) (rc_fpr c) fpr &&
      match rc_fnr_ci c, rc_fpr_ci c with
      | Some a, Some b => rows_close tol_b a fnr_ci && rows_close tol_b b fpr_ci
      | _, _ => false
      end
  | Raise => false
  end.

Definition roc_with_ci64 (powf : Q -> Q -> Q) :=
  roc_with_ci succ64 pred64 powf no_oracle no_oracle no_oracle unit as_configured no_builtin.
Definition pointwise_band_ci64 (powf : Q -> Q -> Q) :=
  pointwise_band_ci succ64 pred64 powf no_oracle no_oracle no_oracle unit as_configured no_builtin.
(* ksone.ppf as the table of the two critical values (population nb_all_pos -> d1, otherwise d2) *)
Definition sjr64 (npos : Z) (d1 d2 : Q) :=
  simultaneous_joint_region_ci succ64 pred64 (fun _ n => if Z.eqb n npos then d1 else d2).
