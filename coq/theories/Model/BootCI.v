(* Model/BootCI.v — hand model of score_analysis/utils.py: bootstrap_ci (lines 36-146, with the fixes 4a7af20 and fa251ac) and of the
   NumPy routine it calls, np.nanquantile (default "linear" method).  Follows the Python statement by
   statement, as the code is.  No proofs here (Proofs/QuantileFacts.v, Proofs/BootCIFacts.v).

   Numbers: replicate values are [rate = option Q] (None = NaN); exact rational arithmetic.
   scipy.stats.norm.cdf / .ppf and the float power x ** 1.5 are Section variables (oracles).
   Values that can be -inf / +inf / NaN in the code (z0 = ppf(p0) with p0 in {0,1}; everything
   computed from it) are [xval = option ext] (None = NaN).
   Modelling bounds (outside the property's quantifier, stated in the harness ASSUMPTIONS):
   alpha in (0,1), so ppf(alpha/2) and ppf(1-alpha/2) are finite and kept in Q; for bc/bca alpha is
   a scalar; theta_hat has as many entries as theta has components. *)
From SA Require Export Base.Prelude Base.Rate.
Open Scope Q_scope.

(* a call that may raise ValueError *)
Inductive res (A : Type) : Type := Ok (a : A) | Err.
Arguments Ok {A} a.
Arguments Err {A}.

Definition res_map {A B} (f : A -> B) (r : res A) : res B :=
  match r with Ok a => Ok (f a) | Err => Err end.
Fixpoint sequence_res {A} (l : list (res A)) : res (list A) :=
  match l with
  | [] => Ok []
  | Ok a :: r => match sequence_res r with Ok s => Ok (a :: s) | Err => Err end
  | Err :: _ => Err
  end.

(* ---------- np.nanquantile(x, q, axis=0) for one 1-d slice, method="linear" ---------- *)

(* _remove_nan_1d *)
Fixpoint somes (l : list rate) : list Q :=
  match l with
  | [] => []
  | Some x :: r => x :: somes r
  | None :: r => somes r
  end.

(* _quantile on a sorted 1-d array: virtual index h = (n-1) q, neighbours floor/ceil, linear
   interpolation with weight gamma = h - floor h *)
Definition quantile_sorted (l : list Q) (q : Q) : Q :=
  let h := inject_Z (len l - 1) * q in
  let fr := h - inject_Z (Qfloor h) in
  (1 - fr) * nth (Z.to_nat (Qfloor h)) l 0 + fr * nth (Z.to_nat (Qceiling h)) l 0.

(* all-NaN slice -> NaN (RuntimeWarning only) *)
Definition nanquantile (col : list rate) (q : Q) : rate :=
  match somes col with
  | [] => None
  | l => Some (quantile_sorted (isort l) q)
  end.

(* _quantile_is_valid: "Quantiles must be in the range [0, 1]" otherwise (NaN q is invalid too) *)
Definition q_valid (q : Q) : bool := Qleb 0 q && Qleb q 1.

(* ---------- bootstrap_ci, one metric component (one column of theta) ---------- *)

Inductive method := MQuantile | MBc | MBca.

Definition xval := option ext.   (* None = NaN *)

(* theta <= theta_hat : comparisons with NaN are False *)
Definition le_hat (th : rate) (x : Q) : bool :=
  match th with Some t => Qleb x t | None => false end.

(* nb_not_nan = sum(~isnan(theta)); p0 = sum(theta <= theta_hat) / nb_not_nan   (0/0 = NaN) *)
Definition p0_of (col : list rate) (th : rate) : rate :=
  rdiv (inject_Z (count (le_hat th) (somes col))) (inject_Z (len (somes col))).

(* theta - theta_hat with the NaN entries dropped (np.nansum skips them) *)
Definition devs (col : list rate) (th : rate) : list Q :=
  match th with Some t => map (fun x => x - t) (somes col) | None => [] end.

Definition cube (x : Q) : Q := x * x * x.
Definition sq (x : Q) : Q := x * x.

Section Boot.
  Variable Phi : Q -> Q.      (* scipy.stats.norm.cdf on finite arguments *)
  Variable PhiInv : Q -> Q.   (* scipy.stats.norm.ppf on (0,1) *)
  Variable pow15 : Q -> Q.    (* x ** 1.5 *)

  (* scipy.stats.norm.ppf(p): -inf at 0, +inf at 1, NaN outside [0,1] and at NaN *)
  Definition ppf_x (p : rate) : xval :=
    match p with
    | None => None
    | Some p =>
        if Qeqb p 0 then Some NegInf
        else if Qeqb p 1 then Some PosInf
        else if Qltb 0 p && Qltb p 1 then Some (Fin (PhiInv p))
        else None
    end.

  (* scipy.stats.norm.cdf(z): 0 at -inf, 1 at +inf, NaN at NaN *)
  Definition cdf_x (z : xval) : rate :=
    match z with
    | None => None
    | Some NegInf => Some 0
    | Some PosInf => Some 1
    | Some (Fin z) => Some (Phi z)
    end.

  (* a_num = nansum((theta - theta_hat) ** 3); a_den = 6 * nansum((theta - theta_hat) ** 2) ** 1.5;
     a = np.divide(a_num, a_den, out=zeros, where=a_den != 0) *)
  Definition accel (col : list rate) (th : rate) : Q :=
    let d := devs col th in
    let a_num := Qsum (map cube d) in
    let a_den := 6 * pow15 (Qsum (map sq d)) in
    if Qeqb a_den 0 then 0 else a_num / a_den.

  (* bc: z = 2 * z0 + z_alpha   (+-inf and NaN propagate) *)
  Definition bc_arg (z0 : xval) (za : Q) : xval :=
    match z0 with
    | Some (Fin z) => Some (Fin (2 * z + za))
    | Some NegInf => Some NegInf
    | Some PosInf => Some PosInf
    | None => None
    end.

  (* bca: fin = isfinite(z0); z = copy(z0); s = z0[fin] + z_alpha; z[fin] = z0[fin] + s / (1 - a[fin] * s).
     Float division: at the pole 1 - a s = +0.0 and s <> 0, so s / 0.0 = +-inf by the sign of s. *)
  Definition bca_arg (a : Q) (z0 : xval) (za : Q) : xval :=
    match z0 with
    | Some (Fin z) =>
        let s := z + za in
        let den := 1 - a * s in
        if Qeqb den 0 then Some (if Qltb 0 s then PosInf else NegInf)
        else Some (Fin (z + s / den))
    | Some NegInf => Some NegInf
    | Some PosInf => Some PosInf
    | None => None
    end.

  (* the two arguments handed to norm.cdf (z_lower, z_upper) *)
  Definition level_args (m : method) (col : list rate) (th : rate) (alpha : Q) : xval * xval :=
    let z0 := ppf_x (p0_of col th) in
    let z_alpha_lower := PhiInv (alpha * (1#2)) in
    let z_alpha_upper := PhiInv (1 - alpha * (1#2)) in
    match m with
    | MBc => (bc_arg z0 z_alpha_lower, bc_arg z0 z_alpha_upper)
    | _ => let a := accel col th in (bca_arg a z0 z_alpha_lower, bca_arg a z0 z_alpha_upper)
    end.

  (* alpha_hat_lower, alpha_hat_upper *)
  Definition levels (m : method) (col : list rate) (th : rate) (alpha : Q) : rate * rate :=
    let '(zl, zu) := level_args m col th alpha in (cdf_x zl, cdf_x zu).

  (* if isnan(alpha_hat_lower[j]) or isnan(alpha_hat_upper[j]): ci[j] = nan   (no finite replicate)
     else: ci[j] = np.nanquantile(theta[:, j], q=[alpha_hat_lower[j], alpha_hat_upper[j]]) ; an
     out-of-range level makes np.nanquantile raise ValueError *)
  Definition ci_at_levels (col : list rate) (lv : rate * rate) : res (rate * rate) :=
    match lv with
    | (Some ql, Some qu) =>
        if q_valid ql && q_valid qu then Ok (nanquantile col ql, nanquantile col qu) else Err
    | _ => Ok (None, None)
    end.

  (* one component, one alpha, any method (for the quantile method theta_hat is ignored) *)
  Definition ci_col (m : method) (col : list rate) (th : rate) (alpha : Q) : res (rate * rate) :=
    match m with
    | MQuantile => ci_at_levels col (Some (alpha * (1#2)), Some (1 - alpha * (1#2)))
    | _ => ci_at_levels col (levels m col th alpha)
    end.

  (* ---------- the array level: theta of shape (N,)+Y given as N rows of flattened Y-data ---------- *)

  Definition column (rows : list (list rate)) (j : nat) : list rate := map (fun r => nth j r None) rows.
  Definition columns (rows : list (list rate)) (size : nat) : list (list rate) :=
    map (column rows) (seq 0 size).
  Definition prod_shape (s : list nat) : nat := fold_right Nat.mul 1%nat s.

  (* np.nanquantile(theta, q, axis=0) for q of shape (2, Z'): result of shape (2, Z', Y') as nested lists *)
  Definition nanquantile_axis0 (cols : list (list rate)) (qs : list (list Q)) : list (list (list rate)) :=
    map (fun qrow => map (fun q => map (fun col => nanquantile col q) cols) qrow) qs.
  (* np.moveaxis(ci, source=[0, 1], destination=[-1, -2]): (n0, n1, n2) -> (n2, n1, n0), out[y][k][t] = in[t][k][y] *)
  Definition moveaxis_01_m1m2 (x : list (list (list rate))) (n0 n1 n2 : nat) : list (list (list rate)) :=
    map (fun y => map (fun k => map (fun t => nth y (nth k (nth t x []) []) None) (seq 0 n0)) (seq 0 n1)) (seq 0 n2).
  (* row-major flattening (np.reshape keeps row-major order) *)
  Definition flatten3 (x : list (list (list rate))) : list rate := concat (map (@concat rate) x).

  (* method == "quantile": lines 78-85 *)
  Definition bootstrap_ci_quantile (yshape : list nat) (rows : list (list rate))
             (ashape : list nat) (alphas : list Q) : res (list nat * list rate) :=
    let alpha_lower := map (fun a => a * (1#2)) alphas in
    let alpha_upper := map (fun a => 1 - a * (1#2)) alphas in
    if forallb q_valid (alpha_lower ++ alpha_upper) then
      let cols := columns rows (prod_shape yshape) in
      let ci := nanquantile_axis0 cols [alpha_lower; alpha_upper] in            (* (2, Z', Y') *)
      let ci := moveaxis_01_m1m2 ci 2 (length alphas) (length cols) in           (* (Y', Z', 2) *)
      Ok (yshape ++ ashape ++ [2%nat], flatten3 ci)                               (* (Y, Z, 2)  *)
    else Err.

  (* method in {"bc", "bca"}: lines 86-141; a component without finite replicates gets (NaN, NaN); the loop
     would raise at a column whose level is outside [0,1] (impossible for a cdf value) *)
  Definition bootstrap_ci_bcx (m : method) (yshape : list nat) (rows : list (list rate))
             (hats : option (list rate)) (alpha : Q) : res (list nat * list rate) :=
    match hats with
    | None => Err                                   (* "Must provide theta_hat when using method ..." *)
    | Some hs =>
        let cols := columns rows (prod_shape yshape) in
        match sequence_res (map (fun ch => ci_at_levels (fst ch) (levels m (fst ch) (snd ch) alpha)) (combine cols hs)) with
        | Err => Err
        | Ok cis => Ok (yshape ++ [2%nat], flat_map (fun c => [fst c; snd c]) cis)
        end
    end.

  Inductive alpha_arg := AScalar (a : Q) | AArray (shape : list nat) (data : list Q).

  Definition bootstrap_ci (yshape : list nat) (rows : list (list rate)) (hats : option (list rate))
             (al : alpha_arg) (m : method) : res (list nat * list rate) :=
    match m with
    | MQuantile =>
        match al with
        | AScalar a => bootstrap_ci_quantile yshape rows [] [a]
        | AArray sh d => bootstrap_ci_quantile yshape rows sh d
        end
    | _ =>
        match al with
        | AScalar a => bootstrap_ci_bcx m yshape rows hats a
        | AArray _ _ => Err   (* array alpha with bc/bca: outside the modelled domain (property: quantile only) *)
        end
    end.

  (* dtype of theta and theta_hat.  The acceleration is computed into a float buffer
     (out=np.zeros_like(a_num, dtype=float)), so integer-typed replicates and estimates are treated like the
     same values as floats; comparing, counting and the quantiles never depended on the dtype. *)
  Inductive dtype := DFloat | DInt.
  Definition bootstrap_ci_dt (dt : dtype) (yshape : list nat) (rows : list (list rate)) (hats : option (list rate))
             (al : alpha_arg) (m : method) : res (list nat * list rate) :=
    bootstrap_ci yshape rows hats al m.
End Boot.
