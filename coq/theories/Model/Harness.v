(* Model/Harness.v — boolean comparison helpers used only by generated correspondence files. *)
From SA Require Export Model.Scores.
Open Scope Q_scope.

Definition cmz_eqb (a b : cmz) : bool :=
  Z.eqb (ctp a) (ctp b) && Z.eqb (cfn a) (cfn b) && Z.eqb (cfp a) (cfp b) && Z.eqb (ctn a) (ctn b).
Fixpoint list_eqb {A} (eqb : A -> A -> bool) (l1 l2 : list A) : bool :=
  match l1, l2 with
  | [], [] => true
  | x :: r, y :: s => eqb x y && list_eqb eqb r s
  | _, _ => false
  end.
Definition qlist_eqb := list_eqb Qeqb.
Definition zlist_eqb := list_eqb Z.eqb.
Definition rate_list_eqb := list_eqb reqb.
Definition ext_eqb (a b : ext) : bool :=
  match a, b with
  | NegInf, NegInf | PosInf, PosInf => true
  | Fin x, Fin y => Qeqb x y
  | _, _ => false
  end.
Definition Qabs_le (x y tol : Q) : bool := Qleb (x - y) tol && Qleb (y - x) tol.
Definition rate_close (tol : Q) (a b : rate) : bool :=
  match a, b with Some x, Some y => Qabs_le x y tol | None, None => true | _, _ => false end.
