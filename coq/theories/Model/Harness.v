(* Model/Harness.v — boolean comparison helpers used only by generated correspondence files. *)
From SA Require Export Model.Scores Model.Bsearch.
Open Scope Q_scope.

Definition cmz_eqb (a b : cmz) : bool :=
  Z.eqb (ctp a) (ctp b) && Z.eqb (cfn a) (cfn b) && Z.eqb (cfp a) (cfp b) && Z.eqb (ctn a) (ctn b).
Fixpoint list_eqb {A} (eqb : A -> A -> bool) (l1 l2 : list A) : bool :=
  match l1, l2 with
  | [], [] => true
  | x :: r, y :: s => eqb x y && list_eqb eqb r s
  | _, _ => false
  end.
Definition qlist_eqb := list_eqb Qeqb.
Definition zlist_eqb := list_eqb Z.eqb.
Definition rate_list_eqb := list_eqb reqb.
Definition ext_eqb (a b : ext) : bool :=
  match a, b with
  | NegInf, NegInf | PosInf, PosInf => true
  | Fin x, Fin y => Qeqb x y
  | _, _ => false
  end.
Definition Qabs_le (x y tol : Q) : bool := Qleb (x - y) tol && Qleb (y - x) tol.
Definition rate_close (tol : Q) (a b : rate) : bool :=
  match a, b with Some x, Some y => Qabs_le x y tol | None, None => true | _, _ => false end.

(* ---------- threshold setting ---------- *)
From SA Require Export Model.Threshold.
Definition thr64 := threshold_at succ64 pred64.
(* model threshold agrees with the implementation's (exactly when tol = 0) *)
Definition thr_agree (tol : Q) (mt : metric6) (s : scores) (m : method) (r impl : Q) : bool :=
  match thr64 mt s r m with
  | Ret t => Qabs_le t impl tol
  | Raise => false
  end.
(* stream F: also accept the model's value at targets a hair to either side (grid targets flip
   floor/ceil under float rounding) *)
Definition thr_agree_f (tol delta : Q) (mt : metric6) (s : scores) (m : method) (r impl : Q) : bool :=
  thr_agree tol mt s m r impl || thr_agree tol mt s m (r + delta) impl || thr_agree tol mt s m (r - delta) impl.
Definition thr_raises (mt : metric6) (s : scores) (m : method) (r : Q) : bool :=
  match thr64 mt s r m with Raise => true | Ret _ => false end.
Fixpoint all2 {A B} (f : A -> B -> bool) (l1 : list A) (l2 : list B) : bool :=
  match l1, l2 with
  | [], [] => true
  | x :: r, y :: s => f x y && all2 f r s
  | _, _ => false
  end.

(* ---------- EER ---------- *)
From SA Require Export Model.Eer.
Definition eer64 := eer succ64 pred64 64.
Definition eer_agree (tol_t tol_e : Q) (s : scores) (t e : Q) : bool :=
  match eer64 s with
  | Ret (t', e') => Qabs_le t' t tol_t && Qabs_le e' e tol_e
  | Raise => false
  end.

(* ---------- AUC ---------- *)
From SA Require Export Model.Auc.
Definition auc64 := auc succ64 pred64.
Definition auc_agree (tol : Q) (s : scores) (lower upper : Q) (xa ya : axis) (impl : Q) : bool :=
  Qabs_le (auc64 s lower upper xa ya) impl tol.

(* ---------- vectorised queries ---------- *)
From SA Require Export Model.Vectorised.
Definition natlist_eqb := list_eqb Nat.eqb.
Definition arrZ_eqb (a : arr Z) (sh : list nat) (d : list Z) : bool := natlist_eqb (shape a) sh && zlist_eqb (data a) d.
