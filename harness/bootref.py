"""Reference evaluation of the documented bootstrap confidence limits (Efron & Hastie, Computer Age Statistical
Inference, (11.33) bias-corrected, (11.39)/(11.40) accelerated) for ONE metric component, independent of
score_analysis: exact Fraction arithmetic for counting, sums and the empirical quantile; SciPy for the normal
cdf/ppf; the float power for x ** 1.5.  Used by the property oracles of C13 and C14 (never by the model)."""
import math
from fractions import Fraction


def exact_quantile(vals, q):
    """NumPy 'linear' empirical quantile of the finite values, exact: position h = (n-1) q,
    (1-frac h) v[floor h] + frac h v[ceil h]."""
    v = sorted(vals)
    n = len(v)
    h = (n - 1) * Fraction(q)
    i = math.floor(h)
    j = math.ceil(h)
    fr = h - i
    return (1 - fr) * v[i] + fr * v[j]


def doc_ci_column(col, th, alpha, method):
    """col: list of Fraction or None (NaN); th: Fraction or None; alpha: float; method: quantile|bc|bca.
    Returns a dict:
      lo, hi      : Fraction limits (None = NaN: no finite replicate)
      undefined   : True when bc/bca levels are undefined (no finite replicate)
      side_ok     : bca side condition |a (z0 + z_alpha)| < 1 (with margin) for both tails (True for other methods)
      darg        : bound on the rounding-induced uncertainty of the cdf argument (0 for quantile)
      ill         : True when the acceleration term is too close to its pole to compare numerically
      p0, z0, a, args, levels : intermediate values (floats) for messages"""
    from scipy.stats import norm

    finite = [x for x in col if x is not None]
    n = len(finite)
    out = {"lo": None, "hi": None, "undefined": False, "side_ok": True, "darg": 0.0, "ill": False,
           "p0": None, "z0": None, "a": None, "args": None, "levels": None, "n": n}
    fa = Fraction(alpha)
    if method == "quantile":
        if n:
            out["lo"] = exact_quantile(finite, fa / 2)
            out["hi"] = exact_quantile(finite, 1 - fa / 2)
            out["levels"] = (float(fa / 2), float(1 - fa / 2))
        return out
    if n == 0:
        out["undefined"] = True
        return out
    k = sum(1 for x in finite if th is not None and x <= th)
    p0 = k / n
    z0 = float(norm.ppf(p0))
    zl = float(norm.ppf(alpha / 2.0))
    zu = float(norm.ppf(1 - alpha / 2.0))
    out["p0"], out["z0"] = p0, z0
    darg = 0.0
    if method == "bc":
        args = (2 * z0 + zl, 2 * z0 + zu)
        darg = 1e-13 * (1 + abs(z0) + abs(zl) + abs(zu)) if math.isfinite(z0) else 0.0
    elif method == "bca":
        d = [x - th for x in finite] if th is not None else []
        s2 = sum((x * x for x in d), Fraction(0))
        s3 = sum((x * x * x for x in d), Fraction(0))
        den = 6 * float(s2) ** 1.5
        a = float(s3) / den if den != 0 else 0.0
        out["a"] = a
        if math.isfinite(z0):
            args = []
            for za in (zl, zu):
                s = z0 + za
                dn = 1 - a * s
                if abs(a * s) >= 1 - 1e-9:
                    out["side_ok"] = False
                if abs(dn) < 1e-4:
                    out["ill"] = True
                    args.append(math.nan)
                    continue
                args.append(z0 + s / dn)
                darg = max(darg, 1e-12 * (1 + s * s) / (dn * dn) + 1e-13 * (1 + abs(z0)))
            args = tuple(args)
        else:
            args = (z0, z0)
    else:
        raise ValueError(method)
    out["args"] = args
    out["darg"] = darg
    if out["ill"]:
        return out
    lv = tuple(float(norm.cdf(x)) for x in args)
    out["levels"] = lv
    out["lo"] = exact_quantile(finite, Fraction(lv[0]))
    out["hi"] = exact_quantile(finite, Fraction(lv[1]))
    return out


def limit_tolerance(col, info):
    """absolute tolerance for comparing a float limit with the exact reference: 1e-9 of the scale of the finite
    replicates plus the effect of the rounding-induced level uncertainty (quantile is (n-1)*range-Lipschitz in the
    level, the normal density is < 0.4)."""
    finite = [x for x in col if x is not None]
    if not finite:
        return 0.0
    scale = float(max(abs(x) for x in finite))
    rng = float(max(finite) - min(finite))
    return 1e-9 * scale + (len(finite) - 1) * rng * 0.4 * info["darg"]
