"""Evaluate a seeded change against the checks.

  /venv/bin/python -m harness.seedtest <seed id> <property id> <dir with patch.diff, demo.py[, notes.md]> [needs text]

Steps (all in a scratch copy of /repo under /tmp, removed afterwards): the patch applies; the repo's
test suite still passes with it; the demo passes on the pristine copy and fails with the patch; then
`VERIF_REPO=<copy> ./check <property>` is run and its verdict recorded.  Results and the artefacts are
stored under /verif/seeded/<seed id>/ (patch.diff, demo.py, meta.json)."""
import json
import os
import shutil
import subprocess
import sys
import time

VERIF = os.path.dirname(os.path.dirname(os.path.abspath(__file__)))
PY = "/venv/bin/python"


def run(cmd, cwd=None, env=None, timeout=1800):
    e = dict(os.environ)
    if env:
        e.update(env)
    p = subprocess.run(cmd, cwd=cwd, env=e, capture_output=True, text=True, timeout=timeout)
    return p.returncode, (p.stdout + p.stderr)


def main():
    seed_id, prop, src = sys.argv[1:4]
    needs = sys.argv[4] if len(sys.argv) > 4 else ""
    extra_props = [p for p in sys.argv[5:]]
    work = f"/tmp/seedrun/{seed_id}"
    shutil.rmtree(work, ignore_errors=True)
    os.makedirs(work)
    clean, mut = os.path.join(work, "clean"), os.path.join(work, "mut")
    for d in (clean, mut):
        run(["git", "clone", "-q", "/repo", d])
    meta = {"seed": seed_id, "property": prop, "needs": needs, "ran": []}
    rc, out = run(["git", "apply", os.path.join(src, "patch.diff")], cwd=mut)
    meta["patch_applies"] = rc == 0
    if rc != 0:
        meta["error"] = out[-500:]
    elif os.environ.get("SEEDTEST_RECHECK") == "1" and os.path.exists(os.path.join(VERIF, "seeded", seed_id, "meta.json")):
        # re-run only the checks on a seed validated earlier (tests / demo results are kept from the stored record)
        old = json.load(open(os.path.join(VERIF, "seeded", seed_id, "meta.json")))
        for k in ("tests_pass_with_change", "tests_line", "demo_passes_without", "demo_fails_with", "demo_output_with"):
            meta[k] = old.get(k)
        meta["ran"] = list(old.get("ran", []))[:2]
        meta["checks"] = {}
        for pr in [prop] + extra_props:
            t0 = time.time()
            rc, out = run([os.path.join(VERIF, "check"), pr, "--tier", "quick"], cwd=VERIF, env={"VERIF_REPO": mut, "VERIF_SEED": "0", "VERIF_EVIDENCE_DIR": os.path.join(work, "evidence")})
            lines = [l for l in out.splitlines() if "VIOLATION" in l or l.startswith("OK ") or "violating input" in l or "broken obligation" in l]
            meta["checks"][pr] = {"exit": rc, "wall_s": round(time.time() - t0, 1), "verdict": [l[:400] for l in lines][:6]}
            meta["ran"].append(f"VERIF_REPO=<patched copy> ./check {pr} --tier quick")
        meta["caught"] = meta["checks"][prop]["exit"] == 1
        meta["caught_with_input"] = meta["caught"] and not any("no-failing-input-found" in l for l in meta["checks"][prop]["verdict"])
    else:
        rc, out = run([PY, "-m", "pytest", "-q", "-p", "no:cacheprovider", "tests"], cwd=mut)
        meta["tests_pass_with_change"] = rc == 0
        meta["tests_line"] = out.strip().splitlines()[-1] if out.strip() else ""
        meta["ran"].append("pytest -q tests (in patched copy)")
        demo = os.path.join(src, "demo.py")
        text = open(demo).read()
        import re as _re
        # some demos assert that the package is imported from their own scratch worktree: point that path at the copies
        # the demo is run from a file (some demos re-invoke themselves through __file__)
        for name_, root_ in (("demo_clean.py", clean), ("demo_mut.py", mut)):
            with open(os.path.join(work, name_), "w") as fh:
                fh.write(_re.sub(r"/tmp/seed/C\d+-wt|/tmp/seed5/wt\d+", root_, text))
        rc0, o0 = run([PY, os.path.join(work, "demo_clean.py")], env={"PYTHONPATH": clean}, cwd=work)
        rc1, o1 = run([PY, os.path.join(work, "demo_mut.py")], env={"PYTHONPATH": mut}, cwd=work)
        meta["demo_passes_without"] = rc0 == 0
        meta["demo_fails_with"] = rc1 != 0
        meta["demo_output_with"] = o1[-600:]
        meta["ran"].append("demo.py with PYTHONPATH=<pristine copy> and <patched copy>")
        meta["checks"] = {}
        for pr in [prop] + extra_props:
            t0 = time.time()
            rc, out = run([os.path.join(VERIF, "check"), pr, "--tier", "quick"], cwd=VERIF, env={"VERIF_REPO": mut, "VERIF_SEED": "0", "VERIF_EVIDENCE_DIR": os.path.join(work, "evidence")})
            lines = [l for l in out.splitlines() if "VIOLATION" in l or l.startswith("OK ") or "violating input" in l or "broken obligation" in l]
            meta["checks"][pr] = {"exit": rc, "wall_s": round(time.time() - t0, 1), "verdict": [l[:400] for l in lines][:6]}
            meta["ran"].append(f"VERIF_REPO=<patched copy> ./check {pr} --tier quick")
        meta["caught"] = meta["checks"][prop]["exit"] == 1
        meta["caught_with_input"] = meta["caught"] and not any("no-failing-input-found" in l for l in meta["checks"][prop]["verdict"])
    dst = os.path.join(VERIF, "seeded", seed_id)
    os.makedirs(dst, exist_ok=True)
    for f in ("patch.diff", "demo.py", "notes.md"):
        if os.path.exists(os.path.join(src, f)):
            shutil.copy(os.path.join(src, f), os.path.join(dst, f))
    valid = meta.get("patch_applies") and meta.get("tests_pass_with_change") and meta.get("demo_passes_without") and meta.get("demo_fails_with")
    meta["valid_seed"] = bool(valid)
    json.dump(meta, open(os.path.join(dst, "meta.json"), "w"), indent=1)
    shutil.rmtree(work, ignore_errors=True)
    print(json.dumps({k: meta.get(k) for k in ("seed", "property", "valid_seed", "caught", "caught_with_input")}))
    for pr, c in meta.get("checks", {}).items():
        print(pr, c["exit"], c["verdict"][:2])


if __name__ == "__main__":
    main()
