"""Runs the implementation (/repo) on a list of cases. Executed as a subprocess:
   PYTHONPATH=/repo /venv/bin/python impl_driver.py <prop id> <cases.json> <results.json>
Every case is run under a 20 s alarm; exceptions are mapped to a small enum."""
import importlib
import json
import os
import signal
import sys
import warnings

HERE = os.path.dirname(os.path.abspath(__file__))
sys.path.insert(0, os.path.dirname(HERE))

ERR_ENUM = ("ValueError", "TypeError", "ZeroDivisionError", "KeyError", "AssertionError",
            "IndexError", "TimeoutError", "AttributeError")


class CaseTimeout(Exception):
    pass


def _alarm(signum, frame):
    raise CaseTimeout()


def main():
    prop, cases_path, out_path = sys.argv[1:4]
    warnings.simplefilter("ignore")
    import numpy as np  # noqa

    np.seterr(all="ignore")
    try:
        import score_analysis
    except Exception as ex:  # the module cannot even be imported
        json.dump({"import_error": f"{type(ex).__name__}: {ex}"}, open(out_path, "w"))
        return
    repo = os.environ.get("VERIF_REPO", "/repo")
    if not os.path.abspath(score_analysis.__file__).startswith(os.path.abspath(repo) + os.sep):
        json.dump({"import_error": f"score_analysis imported from {score_analysis.__file__}, not {repo}"},
                  open(out_path, "w"))
        return
    mod = importlib.import_module(f"harness.props.{prop}")
    cases = json.load(open(cases_path))
    signal.signal(signal.SIGALRM, _alarm)
    # statement coverage of the package under test (DESIGN 4.2): which lines of /repo/score_analysis the cases executed
    executed = {}
    pkg = os.path.join(os.path.abspath(repo), "score_analysis") + os.sep
    trace_on = os.environ.get("VERIF_TRACE", "1") == "1"

    def _local(frame, event, arg):
        if event == "line":
            executed[frame.f_code.co_filename].add(frame.f_lineno)
        return _local

    def _global(frame, event, arg):
        fn = frame.f_code.co_filename
        if fn.startswith(pkg):
            executed.setdefault(fn, set()).add(frame.f_lineno)
            return _local
        return None

    if trace_on:
        sys.settrace(_global)
    results = []

    def _state():
        return (dict(np.geterr()), {k: (v if not callable(v) else None) for k, v in np.get_printoptions().items()})

    state0 = _state()
    for case in cases:
        signal.alarm(int(os.environ.get("VERIF_CASE_TIMEOUT", "20")))
        try:
            res = {"ok": mod.run_impl(case)}
            # process-wide NumPy state (floating-point error handling, print options) is the caller's: a library call that
            # changes it and does not put it back changes what LATER calls do
            if _state() != state0:
                now = _state()
                res = {"err": "Other:GlobalStateChanged", "msg": f"np.geterr()/printoptions changed by the calls of this case: "
                       f"{ {k: v for k, v in now[0].items() if state0[0].get(k) != v} } {[k for k in now[1] if now[1][k] != state0[1].get(k)]}"}
                np.seterr(**state0[0])
                np.set_printoptions(**{k: v for k, v in state0[1].items() if v is not None})
        except CaseTimeout:
            res = {"err": "TimeoutError", "msg": "case exceeded time limit"}
        except Exception as ex:
            name = type(ex).__name__
            res = {"err": name if name in ERR_ENUM else "Other:" + name, "msg": str(ex)[:300]}
        finally:
            signal.alarm(0)
        results.append(res)
    sys.settrace(None)
    json.dump({"results": results, "executed": {k[len(pkg):]: sorted(v) for k, v in executed.items()}}, open(out_path, "w"))


if __name__ == "__main__":
    main()
