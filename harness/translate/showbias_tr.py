"""Translator instance (tie T) for score_analysis/showbias.py: _apply_normalization, _get_group_index and showbias.
Fail-closed: only the statement / expression shapes listed here are accepted, everything else raises Reject.

* _apply_normalization is translated semantically (which branch computes which denominator, which comparison guards
  the division, what the guarded-off entries are).
* showbias: the pandas-facing statements that build `groups`, `threshold` and the score object are accepted only in
  the exact shape they have at fix 4320e1c (their meaning is the model's group_keys / key_number / threshold_array /
  from_labels_g, tied by correspondence); keyword arguments are mapped slot by slot.  Everything from
  `group_names = ...` on — which array is normalised by what, what is handed to the CI routine as theta / theta_hat /
  alpha / method, which slice goes into which frame with which labels — is translated as written, so a changed source
  yields a different Gallina term and the tie lemmas of coq/ties/Tie_showbias.v stop checking."""
import ast
import os

from .pyast import Reject, find_function, strip_doc


def _u(e):
    return ast.unparse(e)


def _expect(node, text, what):
    if _u(node) != text:
        raise Reject(f"{what}: expected `{text}`, found `{_u(node)[:120]}`")


# ------------------------------------------------------------------ _apply_normalization
def _cond_ne0(e, dname):
    """<dname> != 0"""
    if not (isinstance(e, ast.Compare) and len(e.ops) == 1 and isinstance(e.left, ast.Name) and e.left.id == dname
            and isinstance(e.comparators[0], ast.Constant) and e.comparators[0].value == 0):
        raise Reject(f"guard {_u(e)}")
    if not isinstance(e.ops[0], ast.NotEq):
        raise Reject(f"guard operator in {_u(e)} (only != 0 is whitelisted)")
    return "(ne0 d)"


def apply_normalization(fn):
    args = [a.arg for a in fn.args.args]
    if args != ["group_metrics", "score_object", "metric", "normalize"] or fn.args.kwarg is None or fn.args.kwarg.arg != "kwargs":
        raise Reject(f"_apply_normalization signature {args}")
    body = strip_doc(fn.body)
    if len(body) != 2:
        raise Reject(f"_apply_normalization has {len(body)} statements, expected 2")
    node = body[0]
    arms = []
    while True:
        if not isinstance(node, ast.If):
            raise Reject("expected an if / elif chain on normalize")
        t = node.test
        if not (isinstance(t, ast.Compare) and len(t.ops) == 1 and isinstance(t.ops[0], ast.Eq) and _u(t.left) == "normalize"
                and isinstance(t.comparators[0], ast.Constant) and t.comparators[0].value in ("by_overall", "by_min")):
            raise Reject(f"test {_u(t)}")
        cond = {"by_overall": "is_by_overall normalize", "by_min": "is_by_min normalize"}[t.comparators[0].value]
        if len(node.body) != 1 or not isinstance(node.body[0], ast.Assign) or _u(node.body[0].targets[0]) != "denominator_metric":
            raise Reject(f"arm body {_u(node.body[0])[:80]}")
        v = node.body[0].value
        if _u(v) == "metric(score_object, **kwargs)":
            val = "tile reps overall"            # the (T,) overall metric broadcast against the slices
        elif _u(v) == "np.min(group_metrics, axis=0)":
            val = "min_axis0 group_metrics"
        else:
            raise Reject(f"denominator expression {_u(v)}")
        arms.append((cond, f"Ok ({val})"))
        if len(node.orelse) == 1 and isinstance(node.orelse[0], ast.If):
            node = node.orelse[0]
            continue
        if not (len(node.orelse) == 1 and isinstance(node.orelse[0], ast.Raise) and isinstance(node.orelse[0].exc, ast.Call)
                and _u(node.orelse[0].exc.func) == "ValueError"):
            raise Reject("the chain must end with raise ValueError(...)")
        final = "Err"
        break
    chain = final
    for cond, act in reversed(arms):
        chain = f"(if {cond} then {act} else {chain})"
    r = body[1]
    if not (isinstance(r, ast.Return) and isinstance(r.value, ast.Call) and _u(r.value.func) == "np.where"
            and len(r.value.args) == 3 and not r.value.keywords):
        raise Reject(f"return expression {_u(r)[:80]}")
    c, a, b = r.value.args
    guard = _cond_ne0(c, "denominator_metric")
    if not (isinstance(a, ast.Call) and _u(a.func) == "np.divide" and len(a.args) == 2 and _u(a.args[0]) == "group_metrics"
            and _u(a.args[1]) == "denominator_metric"):
        raise Reject(f"division {_u(a)[:80]}")
    kws = {k.arg: k.value for k in a.keywords}
    if set(kws) != {"out", "where"} or _u(kws["out"]) != "np.zeros_like(group_metrics, dtype=float)":
        raise Reject(f"np.divide keywords {_u(a)[:120]}")
    guard2 = _cond_ne0(kws["where"], "denominator_metric")
    _expect(b, "group_metrics", "third argument of np.where")
    elem = f"np_where1 {guard} (np_divide_where1 {guard2} x d) x"
    return (f"res_bind {chain} (fun denominator_metric =>\n"
            f"    Ok (map (fun s => map2 (fun x d => {elem}) s denominator_metric) group_metrics))")


# ------------------------------------------------------------------ _get_group_index
def get_group_index(fn):
    args = [a.arg for a in fn.args.args]
    if args != ["group_names", "group_columns"]:
        raise Reject(f"_get_group_index signature {args}")
    body = strip_doc(fn.body)
    if len(body) != 1 or not isinstance(body[0], ast.If) or len(body[0].body) != 1 or len(body[0].orelse) != 1:
        raise Reject("_get_group_index must be one if / else")
    s = body[0]
    _expect(s.test, "isinstance(group_columns, str)", "_get_group_index test")
    _expect(s.body[0], "return pd.Index(group_names, name=group_columns)", "_get_group_index str arm")
    _expect(s.orelse[0], "return pd.MultiIndex.from_tuples(group_names, names=group_columns)", "_get_group_index list arm")
    return ("match group_columns with\n    | GStr => Ok group_names\n"
            "    | GList n => if forallb (fun k => Nat.eqb (length k) n) group_names then Ok group_names else Err\n    end")


# ------------------------------------------------------------------ showbias
GROUPS_STR = ["groups = data[group_columns]", "group_keys = None"]
GROUPS_LIST = ["row_keys = list(zip(*[data[col] for col in group_columns]))",
               "group_keys = sorted(set(row_keys), key=lambda key: ('_'.join(key), key))",
               "key_numbers = {key: number for number, key in enumerate(group_keys)}",
               "groups = pd.Series([key_numbers[key] for key in row_keys], index=data.index)"]
THRESHOLD = ("if 'threshold' in metric_kwargs:\n    threshold = np.asarray(metric_kwargs['threshold'])\n"
             "    if threshold.ndim == 0:\n        threshold = np.expand_dims(threshold, axis=0)\n"
             "    metric_kwargs['threshold'] = threshold")
PARAM_NAMES = ["data", "group_columns", "label_column", "score_column", "metric", "normalize", "bootstrap_ci",
               "bootstrap_config", "alpha", "pos_label", "score_class", "equal_class"]


class ShowBiasTr:
    def __init__(self):
        self.rank3 = set()       # names bound to the (nb_samples, G, T) replicate array

    def metric_of_object(self, e, fname):
        """<fname>(score_object, **metric_kwargs)"""
        if not (isinstance(e, ast.Call) and isinstance(e.func, ast.Name) and e.func.id == fname and len(e.args) == 1
                and _u(e.args[0]) == "score_object" and len(e.keywords) == 1 and e.keywords[0].arg is None
                and _u(e.keywords[0].value) == "metric_kwargs"):
            raise Reject(f"expected {fname}(score_object, **metric_kwargs): {_u(e)[:100]}")
        return f"({fname} score_object kw)"

    def normalization_call(self, e, target):
        """_apply_normalization(<target>, score_object, calculate_metric, normalize, **metric_kwargs)"""
        if not (isinstance(e, ast.Call) and _u(e.func) == "_apply_normalization" and len(e.args) == 4):
            raise Reject(f"expected a call of _apply_normalization: {_u(e)[:100]}")
        a0, a1, a2, a3 = e.args
        if not (isinstance(a0, ast.Name) and a0.id == target):
            raise Reject(f"_apply_normalization applied to {_u(a0)}, expected {target}")
        _expect(a1, "score_object", "_apply_normalization object")
        _expect(a2, "calculate_metric", "_apply_normalization metric")
        _expect(a3, "normalize", "_apply_normalization mode")
        if len(e.keywords) != 1 or e.keywords[0].arg is not None or _u(e.keywords[0].value) != "metric_kwargs":
            raise Reject(f"_apply_normalization keywords {_u(e)[:120]}")
        reps = "G" if target in self.rank3 else "1%nat"
        return f"apply_normalization nz (calculate_metric score_object kw) {reps} {target}"

    def normalize_stmt(self, s, target):
        """if normalize is not None: <target> = _apply_normalization(<target>, ...)"""
        if not (isinstance(s, ast.If) and not s.orelse and _u(s.test) == "normalize is not None" and len(s.body) == 1
                and isinstance(s.body[0], ast.Assign) and _u(s.body[0].targets[0]) == target):
            raise Reject(f"expected the normalisation of {target}: {_u(s)[:100]}")
        call = self.normalization_call(s.body[0].value, target)
        return f"res_bind (match normalize with None => Ok {target} | Some nz => {call} end) (fun {target} =>"

    def frame(self, e):
        """pd.DataFrame(<data>.tolist(), index=group_index, columns=metric_kwargs.get('threshold'))"""
        if not (isinstance(e, ast.Call) and _u(e.func) == "pd.DataFrame" and len(e.args) == 1):
            raise Reject(f"expected pd.DataFrame(...): {_u(e)[:100]}")
        kws = {k.arg: k.value for k in e.keywords}
        if set(kws) != {"index", "columns"}:
            raise Reject(f"DataFrame keywords {sorted(map(str, kws))}")
        _expect(kws["index"], "group_index", "DataFrame index")
        _expect(kws["columns"], "metric_kwargs.get('threshold')", "DataFrame columns")
        d = e.args[0]
        if not (isinstance(d, ast.Call) and isinstance(d.func, ast.Attribute) and d.func.attr == "tolist" and not d.args and not d.keywords):
            raise Reject(f"DataFrame data {_u(d)[:80]}")
        src = d.func.value
        if isinstance(src, ast.Name) and src.id == "group_metrics":
            data = "group_metrics"
        elif (isinstance(src, ast.Subscript) and _u(src.value) == "bootstrap_ci" and isinstance(src.slice, ast.Tuple)
              and len(src.slice.elts) == 2 and _u(src.slice.elts[0]) == "..." and isinstance(src.slice.elts[1], ast.Constant)
              and src.slice.elts[1].value in (0, 1)):
            data = f"(chunks G T ({'ci_lower' if src.slice.elts[1].value == 0 else 'ci_upper'} (snd bootstrap_ci_arr)))"
        else:
            raise Reject(f"DataFrame data {_u(src)[:80]}")
        return f"(mkFrame group_index threshold {data})"

    def bias_frame(self, e, with_ci):
        if not (isinstance(e, ast.Call) and _u(e.func) == "BiasFrame" and not e.args):
            raise Reject(f"expected BiasFrame(keywords): {_u(e)[:80]}")
        kws = {k.arg: k.value for k in e.keywords}
        if with_ci:
            if set(kws) != {"values", "alpha", "lower", "upper"}:
                raise Reject(f"BiasFrame keywords {sorted(kws)}")
            _expect(kws["alpha"], "alpha", "BiasFrame alpha")
            return (f"Ok (mkBias {self.frame(kws['values'])} (Some alpha) (Some {self.frame(kws['lower'])}) "
                    f"(Some {self.frame(kws['upper'])}))")
        if set(kws) != {"values"}:
            raise Reject(f"BiasFrame keywords {sorted(kws)}")
        _expect(kws["values"], "group_metrics", "BiasFrame values")
        return "Ok (mkBias group_metrics_frame None None None)"

    def ci_block(self, stmts):
        if len(stmts) != 4:
            raise Reject(f"the bootstrap block has {len(stmts)} statements, expected 4")
        s = stmts[0]
        if not (isinstance(s, ast.Assign) and _u(s.targets[0]) == "samples" and isinstance(s.value, ast.Call)
                and _u(s.value.func) == "score_object.bootstrap_metric" and len(s.value.args) == 1):
            raise Reject(f"expected samples = score_object.bootstrap_metric(...): {_u(s)[:100]}")
        _expect(s.value.args[0], "calculate_group_metric", "metric handed to bootstrap_metric")
        named = {k.arg: k.value for k in s.value.keywords if k.arg is not None}
        stars = [k for k in s.value.keywords if k.arg is None]
        if set(named) != {"config"} or _u(named["config"]) != "bootstrap_config" or len(stars) != 1 or _u(stars[0].value) != "metric_kwargs":
            raise Reject(f"bootstrap_metric call {_u(s.value)[:120]}")
        self.rank3.add("samples")
        out = ["res_bind (sb_bootstrap_metric score_object (fun s k => concat (calculate_group_metric s k)) bootstrap_config hist kw) "
               "(fun samples =>"]
        out.append(self.normalize_stmt(stmts[1], "samples"))
        s = stmts[2]
        if not (isinstance(s, ast.Assign) and _u(s.targets[0]) == "bootstrap_ci" and isinstance(s.value, ast.Call)
                and _u(s.value.func) == "get_bootstrap_ci" and not s.value.args):
            raise Reject(f"expected bootstrap_ci = get_bootstrap_ci(keywords): {_u(s)[:100]}")
        kws = {k.arg: k.value for k in s.value.keywords}
        if set(kws) != {"theta", "theta_hat", "alpha", "method"}:
            raise Reject(f"get_bootstrap_ci keywords {sorted(map(str, kws))}")
        if not (isinstance(kws["theta"], ast.Name) and kws["theta"].id in self.rank3):
            raise Reject(f"theta argument {_u(kws['theta'])}")
        if isinstance(kws["theta_hat"], ast.Name) and kws["theta_hat"].id == "group_metrics":
            hat = "(concat group_metrics)"
        else:
            hat = f"(concat {self.metric_of_object(kws['theta_hat'], 'calculate_group_metric')})"
        _expect(kws["alpha"], "alpha", "alpha argument")
        _expect(kws["method"], "bootstrap_config.bootstrap_method", "method argument")
        out.append(f"res_bind (get_bootstrap_ci [G; T] {kws['theta'].id} (Some {hat}) alpha (bootstrap_method bootstrap_config)) "
                   "(fun bootstrap_ci_arr =>")
        s = stmts[3]
        if not isinstance(s, ast.Return):
            raise Reject("the bootstrap block must end with return BiasFrame(...)")
        out.append(self.bias_frame(s.value, True) + ")))")
        return "\n      ".join(out)

    def showbias(self, fn):
        args = [a.arg for a in fn.args.args]
        if args != PARAM_NAMES or fn.args.kwarg is None or fn.args.kwarg.arg != "metric_kwargs" or fn.args.vararg:
            raise Reject(f"showbias signature {args}")
        body = strip_doc(fn.body)
        if len(body) != 14:
            raise Reject(f"showbias has {len(body)} top-level statements, expected 14")
        _expect(body[0], "_validate_column_inputs(data, group_columns, label_column, score_column)", "statement 1")
        # groups
        s = body[1]
        if not (isinstance(s, ast.If) and _u(s.test) == "isinstance(group_columns, str)" and [_u(x) for x in s.body] == GROUPS_STR
                and len(s.orelse) == 1 and isinstance(s.orelse[0], ast.If)):
            raise Reject(f"group construction, str arm: {[_u(x) for x in s.body] if isinstance(s, ast.If) else _u(s)[:80]}")
        s2 = s.orelse[0]
        if not (_u(s2.test) == "isinstance(group_columns, Iterable)" and [_u(x) for x in s2.body] == GROUPS_LIST
                and len(s2.orelse) == 1 and isinstance(s2.orelse[0], ast.Raise)):
            raise Reject(f"group construction, list arm: {[_u(x) for x in s2.body]}")
        if _u(body[2]) != THRESHOLD:
            raise Reject(f"threshold handling: {_u(body[2])[:200]}")
        # score object: keyword slots
        s = body[3]
        if not (isinstance(s, ast.Assign) and _u(s.targets[0]) == "score_object" and isinstance(s.value, ast.Call)
                and _u(s.value.func) == "GroupScores.from_labels" and not s.value.args):
            raise Reject(f"expected score_object = GroupScores.from_labels(keywords): {_u(s)[:100]}")
        kws = {k.arg: _u(k.value) for k in s.value.keywords}
        if set(kws) != {"scores", "labels", "groups", "pos_label", "score_class", "equal_class"}:
            raise Reject(f"from_labels keywords {sorted(map(str, kws))}")
        cols = {"data[score_column].values": "(map r_score rows)", "data[label_column].values": "(map r_label rows)",
                "groups.values": "groups"}
        flags = {"pos_label": "pos_label", "score_class": "score_class", "equal_class": "equal_class"}
        for slot in ("scores", "labels", "groups"):
            if kws[slot] not in cols:
                raise Reject(f"from_labels {slot}={kws[slot]}")
        for slot in ("pos_label", "score_class", "equal_class"):
            if kws[slot] not in flags:
                raise Reject(f"from_labels {slot}={kws[slot]}")
        obj = (f"from_labels_g argsort {cols[kws['labels']]} {cols[kws['scores']]} {cols[kws['groups']]} "
               f"{flags[kws['pos_label']]} {flags[kws['score_class']]} {flags[kws['equal_class']]}")
        # the two closures
        for s, name, attr in ((body[4], "calculate_metric", "cm"), (body[5], "calculate_group_metric", "group_cm")):
            want = f"def {name}(sample: GroupScores, **kwargs):\n    return getattr(sample.{attr}(**kwargs), metric)()"
            if _u(s) != want:
                raise Reject(f"closure {name}: {_u(s)[:160]}")
        _expect(body[6], "group_names = score_object.groups", "statement 7")
        _expect(body[7], "if group_keys is not None:\n    group_names = [group_keys[number] for number in group_names]", "statement 8")
        _expect(body[8], "group_index = _get_group_index(group_names, group_columns)", "statement 9")
        s = body[9]
        if not (isinstance(s, ast.Assign) and _u(s.targets[0]) == "group_metrics"):
            raise Reject(f"statement 10: {_u(s)[:80]}")
        gm = self.metric_of_object(s.value, "calculate_group_metric")
        norm = self.normalize_stmt(body[10], "group_metrics")
        s = body[11]
        if not (isinstance(s, ast.If) and not s.orelse and _u(s.test) == "bootstrap_ci"):
            raise Reject(f"expected `if bootstrap_ci:`: {_u(s)[:80]}")
        ci = self.ci_block(s.body)
        s = body[12]
        if not (isinstance(s, ast.Assign) and _u(s.targets[0]) == "group_metrics"):
            raise Reject(f"statement 13: {_u(s)[:80]}")
        fr = self.frame(s.value)
        s = body[13]
        if not isinstance(s, ast.Return):
            raise Reject("showbias must end with return BiasFrame(values=group_metrics)")
        tail = self.bias_frame(s.value, False)
        return (f"let group_keys := ShowBias.group_keys group_columns (map r_keys rows) in\n"
                f"  let groups := map (fun r => key_number (r_keys r) group_keys) rows in\n"
                f"  let threshold := threshold_array thr in\n"
                f"  let kw := map Fin threshold in\n"
                f"  let score_object := {obj} in\n"
                f"  let calculate_metric := ShowBias.calculate_metric metric in\n"
                f"  let calculate_group_metric := ShowBias.calculate_group_metric metric in\n"
                f"  let group_names := map (key_of group_keys) (Group.groups score_object) in\n"
                f"  let G := length (Group.groups score_object) in\n"
                f"  let T := length kw in\n"
                f"  res_bind (get_group_index group_names group_columns) (fun group_index =>\n"
                f"  let group_metrics := {gm} in\n"
                f"  {norm}\n"
                f"    if bootstrap_ci then\n      {ci}\n"
                f"    else let group_metrics_frame := {fr} in {tail}))")


HEADER = ("(* generated from score_analysis/showbias.py by harness/translate/showbias_tr.py — do not edit *)\n"
          "From SA Require Import Model.ShowBias.\nOpen Scope Q_scope.\n")


def translate_showbias(repo):
    path = os.path.join(repo, "score_analysis", "showbias.py")
    tree = ast.parse(open(path).read())
    an = apply_normalization(find_function(tree, "_apply_normalization"))
    gi = get_group_index(find_function(tree, "_get_group_index"))
    sb = ShowBiasTr().showbias(find_function(tree, "showbias"))
    # the CI routine showbias calls is utils.bootstrap_ci
    imports = [n for n in tree.body if isinstance(n, ast.ImportFrom) and n.module == "utils" and n.level == 1]
    if [_u(n) for n in imports] != ["from .utils import bootstrap_ci as get_bootstrap_ci"]:
        raise Reject(f"import of the CI routine: {[_u(n) for n in imports]}")
    return HEADER + (
        "Definition gen_apply_normalization (normalize : normalize) (overall : list rate) (reps : nat)\n"
        "    (group_metrics : list (list rate)) : res (list (list rate)) :=\n"
        f"    {an}.\n\n"
        "Definition gen_get_group_index (group_names : list key) (group_columns : gcols) : res (list key) :=\n"
        f"    {gi}.\n\n"
        "Definition gen_showbias (argsort : list Q -> list nat)\n"
        "    (get_bootstrap_ci : list nat -> list (list rate) -> option (list rate) -> Q -> method -> res (list nat * list rate))\n"
        "    (rows : list row) (group_columns : gcols) (metric : mname) (normalize : option normalize) (bootstrap_ci : bool)\n"
        "    (bootstrap_config : sb_config) (hist : nat -> res gscores) (alpha : Q) (pos_label : Z)\n"
        "    (score_class equal_class : label) (thr : thr_arg) : res biasframe :=\n"
        f"  {sb}.\n")


if __name__ == "__main__":
    import sys
    print(translate_showbias(sys.argv[1] if len(sys.argv) > 1 else "/repo"))
