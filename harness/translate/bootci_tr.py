"""Translator instance for score_analysis/utils.py:bootstrap_ci (tie T, property C13).

Fail-closed.  The scalar formulas of the function are regenerated as Gallina definitions and tied to Model/BootCI.v; the
array plumbing (reshapes, axis moves, masks, the per-component quantile loop, the error branches) must match the pinned
statement texts literally.
  gen_alpha_lower, gen_alpha_upper      the two nominal levels
  gen_bc                                z = 2*z0 + z_alpha
  gen_bca_s, gen_bca                    s = z0 + z_alpha ; z = z0 + s / (1 - a*s)
  gen_a_num_term, gen_a_den             (theta - theta_hat)**3 ; 6 * nansum((theta - theta_hat)**2) ** 1.5
Trusted tables: `x ** 3` = x*x*x, `x ** 2` = x*x, `x ** 1.5` = the pow15 parameter, x[fin] elementwise on the finite
components (the non-finite ones keep z0: pinned `np.copy(z0)`), np.nansum over the deviations of the defined replicates."""
import ast
import os
import warnings

from .pyast import Reject, find_function, strip_doc

HEADER = ("(* generated from score_analysis/utils.py (bootstrap_ci) by harness/translate/bootci_tr.py — do not edit *)\n"
          "From SA Require Import Model.BootCI.\nOpen Scope Q_scope.\n")


def _u(n):
    return ast.unparse(n)


class Ex:
    def __init__(self, env):
        self.env = env

    def tr(self, e):
        s = _u(e)
        if s in self.env:
            return self.env[s]
        if isinstance(e, ast.Constant) and isinstance(e.value, (int, float)) and not isinstance(e.value, bool):
            from fractions import Fraction
            f = Fraction(e.value)
            return f"(Qmake ({f.numerator}) {f.denominator})"
        if isinstance(e, ast.BinOp) and isinstance(e.op, ast.Pow) and isinstance(e.right, ast.Constant):
            b = self.tr(e.left)
            if e.right.value == 3:
                return f"(cube {b})"
            if e.right.value == 2:
                return f"(sq {b})"
            if e.right.value == 1.5:
                return f"(pow15 {b})"
            raise Reject(f"power {e.right.value!r}")
        if isinstance(e, ast.BinOp) and type(e.op) in (ast.Add, ast.Sub, ast.Mult, ast.Div):
            op = {ast.Add: "+", ast.Sub: "-", ast.Mult: "*", ast.Div: "/"}[type(e.op)]
            return f"({self.tr(e.left)} {op} {self.tr(e.right)})"
        raise Reject(f"expression {s[:70]}")


def _assign(st, name):
    if not (isinstance(st, ast.Assign) and len(st.targets) == 1 and _u(st.targets[0]) == name):
        raise Reject(f"expected assignment to {name}, found {_u(st)[:70]}")
    return st.value


def _pin(st, text, where):
    if _u(st) != text:
        raise Reject(f"{where}: {_u(st)[:90]!r}, expected {text!r}")


def translate_bootstrap_ci(repo):
    src = os.path.join(repo, "score_analysis", "utils.py")
    with warnings.catch_warnings():
        warnings.simplefilter("ignore", SyntaxWarning)
        tree = ast.parse(open(src).read())
    fn = find_function(tree, "bootstrap_ci")
    if _u(fn.args) != ("theta: np.ndarray, theta_hat: Optional[Union[float, np.ndarray]]=None, "
                       "alpha: Optional[Union[float, np.ndarray]]=0.05, *, method: str='quantile'"):
        raise Reject(f"bootstrap_ci signature: {_u(fn.args)}")
    body = strip_doc(fn.body)
    if len(body) != 7:
        raise Reject(f"bootstrap_ci has {len(body)} top-level statements, expected 7")
    _pin(body[0], "alpha = np.asarray(alpha)", "statement 0")
    _pin(body[1], "alpha_shape = alpha.shape", "statement 1")
    _pin(body[2], "alpha = np.reshape(alpha, -1)", "statement 2")
    out = [HEADER]
    ex = Ex({"alpha": "alpha"})
    out.append(f"Definition gen_alpha_lower (alpha : Q) : Q := {ex.tr(_assign(body[3], 'alpha_lower'))}.\n")
    out.append(f"Definition gen_alpha_upper (alpha : Q) : Q := {ex.tr(_assign(body[4], 'alpha_upper'))}.\n")
    _pin(body[6], "return ci", "statement 6")
    top = body[5]
    if not (isinstance(top, ast.If) and _u(top.test) == "method == 'quantile'"):
        raise Reject("method dispatch: first branch")
    qb = [_u(s) for s in top.body]
    if qb != ["alpha_joint = np.stack([alpha_lower, alpha_upper], axis=0)",
              "ci = np.nanquantile(theta, q=alpha_joint, axis=0)",
              "ci = np.moveaxis(ci, source=[0, 1], destination=[-1, -2])",
              "ci = np.reshape(ci, theta.shape[1:] + alpha_shape + (2,))"]:
        raise Reject(f"quantile branch: {qb}")
    if not (len(top.orelse) == 1 and isinstance(top.orelse[0], ast.If) and _u(top.orelse[0].test) == "method in {'bc', 'bca'}"):
        raise Reject("method dispatch: second branch")
    bc = top.orelse[0]
    if not (len(bc.orelse) == 1 and isinstance(bc.orelse[0], ast.Raise) and _u(bc.orelse[0].exc).startswith("ValueError(")):
        raise Reject("method dispatch: else branch must raise ValueError")
    b = bc.body
    if len(b) != 19:
        raise Reject(f"bc/bca branch has {len(b)} statements, expected 19")
    pins = {0: "if theta_hat is None:\n    raise ValueError(f'Must provide theta_hat when using method {method}.')",
            1: "theta_hat = np.asarray(theta_hat, dtype=float)", 2: "theta_hat = theta_hat[np.newaxis]", 3: "nb_samples = theta.shape[0]",
            4: "metric_shape = theta.shape[1:]", 5: "theta = np.reshape(theta, (nb_samples, -1))",
            6: "theta_hat = np.reshape(theta_hat, (1, -1))", 7: "metric_size = theta.shape[-1]",
            8: "nb_not_nan = np.sum(~np.isnan(theta), axis=0)", 9: "p0 = np.sum(theta <= theta_hat, axis=0) / nb_not_nan",
            10: "z0 = scipy.stats.norm.ppf(p0)", 11: "z_alpha_lower = scipy.stats.norm.ppf(alpha_lower)",
            12: "z_alpha_upper = scipy.stats.norm.ppf(alpha_upper)"}
    for k, v in pins.items():
        _pin(b[k], v, f"bc/bca statement {k}")
    tail = [_u(s) for s in b[14:]]
    want_tail = ["alpha_hat_lower = scipy.stats.norm.cdf(z_lower)", "alpha_hat_upper = scipy.stats.norm.cdf(z_upper)",
                 "ci = np.empty((metric_size, 2))",
                 "for j in range(metric_size):\n    if np.isnan(alpha_hat_lower[j]) or np.isnan(alpha_hat_upper[j]):\n"
                 "        ci[j] = np.nan\n        continue\n"
                 "    ci[j] = np.nanquantile(theta[:, j], q=[alpha_hat_lower[j], alpha_hat_upper[j]], axis=0)",
                 "ci = np.reshape(ci, (*metric_shape, 2))"]
    if tail != want_tail:
        raise Reject(f"bc/bca tail: {tail}")
    disp = b[13]
    if not (isinstance(disp, ast.If) and _u(disp.test) == "method == 'bc'" and len(disp.body) == 2):
        raise Reject("bc/bca: inner dispatch")
    exz = Ex({"z0": "z0", "z_alpha_lower": "za", "z_alpha_upper": "za"})
    zl = exz.tr(_assign(disp.body[0], "z_lower"))
    zu = exz.tr(_assign(disp.body[1], "z_upper"))
    if zl != zu:
        raise Reject("bc: lower and upper formulas differ beyond the level")
    out.append(f"Definition gen_bc (z0 za : Q) : Q := {zl}.\n")
    ca = disp.orelse
    if len(ca) != 10:
        raise Reject(f"bca branch has {len(ca)} statements, expected 10")
    exd = Ex({"theta - theta_hat": "d"})
    num = _assign(ca[0], "a_num")
    if not (isinstance(num, ast.Call) and _u(num.func) == "np.nansum" and len(num.args) == 1 and _u(num.keywords[0].value) == "0"):
        raise Reject(f"a_num: {_u(num)[:70]}")
    out.append(f"Definition gen_a_num_term (d : Q) : Q := {exd.tr(num.args[0])}.\n")
    den = _assign(ca[1], "a_den")
    # 6 * np.nansum((theta - theta_hat) ** 2, axis=0) ** 1.5
    if not (isinstance(den, ast.BinOp) and isinstance(den.op, ast.Mult) and isinstance(den.right, ast.BinOp)
            and isinstance(den.right.op, ast.Pow) and isinstance(den.right.left, ast.Call)
            and _u(den.right.left.func) == "np.nansum" and _u(den.right.left.keywords[0].value) == "0"):
        raise Reject(f"a_den: {_u(den)[:80]}")
    inner = exd.tr(den.right.left.args[0])
    if inner != "(sq d)":
        raise Reject(f"a_den: summand {inner}")
    exs = Ex({"S": "ssq"})
    fake = ast.BinOp(left=den.left, op=ast.Mult(), right=ast.BinOp(left=ast.Name(id="S"), op=ast.Pow(), right=den.right.right))
    out.append(f"Definition gen_a_den (pow15 : Q -> Q) (ssq : Q) : Q := {exs.tr(fake)}.\n")
    _pin(ca[2], "a = np.divide(a_num, a_den, out=np.zeros_like(a_num, dtype=float), where=a_den != 0)", "bca statement 2")
    _pin(ca[3], "fin = np.isfinite(z0)", "bca statement 3")
    _pin(ca[4], "z_lower = np.copy(z0)", "bca statement 4")
    _pin(ca[7], "z_upper = np.copy(z0)", "bca statement 7")
    exb = Ex({"z0[fin]": "z0", "z_alpha_lower": "za", "z_alpha_upper": "za", "a[fin]": "a", "s_lower": "s", "s_upper": "s"})
    s1, s2 = exb.tr(_assign(ca[5], "s_lower")), exb.tr(_assign(ca[8], "s_upper"))
    z1, z2 = exb.tr(_assign(ca[6], "z_lower[fin]")), exb.tr(_assign(ca[9], "z_upper[fin]"))
    if s1 != s2 or z1 != z2:
        raise Reject("bca: lower and upper formulas differ beyond the level")
    out.append(f"Definition gen_bca_s (z0 za : Q) : Q := {s1}.\n")
    out.append(f"Definition gen_bca (a z0 s : Q) : Q := {z1}.\n")
    return "\n".join(out)
