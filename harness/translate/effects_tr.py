"""Effect summaries of the public query functions (DESIGN 3.7): for every function of the listed
source files, which statements may write in place into a parameter or a field of self, and which
store into a field of self.  Conservative alias analysis over numpy copy/view semantics; emits
Gallina data (Gen_effects.v) that coq/ties/Tie_effects.v checks with Base.Effects.safe."""
import ast
import os

from .pyast import Reject

FILES = ["scores.py", "cm.py", "metrics.py", "group_scores.py", "utils.py", "roc_curve.py"]
# calls that may return a view of / the same object as one of their arguments
ALIAS_CALLS = {"np.asarray", "np.reshape", "np.squeeze", "np.moveaxis", "np.expand_dims", "np.atleast_1d",
               "np.diagonal", "np.ravel", "np.transpose", "np.asanyarray", "np.broadcast_to", "np.swapaxes"}
# calls that always allocate their result (or return scalars / immutable objects)
FRESH_CALLS = {"np.sort", "np.concatenate", "np.searchsorted", "np.empty", "np.zeros", "np.full_like", "np.zeros_like",
               "np.ones_like", "np.stack", "np.nextafter", "np.floor", "np.ceil", "np.maximum", "np.minimum", "np.divide",
               "np.sum", "np.nansum", "np.abs", "np.where", "np.linspace", "np.arange", "np.repeat", "np.copy", "np.array",
               "np.unique", "np.argsort", "np.argmin", "np.nanquantile", "np.quantile", "np.nonzero", "np.isnan",
               "np.isfinite", "np.isclose", "np.isscalar", "np.sqrt", "np.any", "np.all", "np.min", "np.max", "np.median",
               "np.take", "np.trapezoid", "np.trapz", "np.array_equal", "np.full", "np.ones", "np.mean", "np.std",
               "len", "int", "float", "max", "min", "abs", "sorted", "set", "list", "zip", "range", "enumerate",
               "isinstance", "callable", "getattr", "math.pow", "BinaryLabel", "ConfusionMatrix", "Scores", "GroupScores",
               "BootstrapConfig", "ROCCurve", "ValueError", "TypeError", "np.random.binomial", "np.random.poisson",
               "np.random.choice", "np.random.normal", "scipy.stats.norm.ppf", "scipy.stats.norm.cdf",
               "scipy.stats.norm.isf", "scipy.stats.norm.sf", "wraps", "dict", "tuple", "str", "bool", "type", "hasattr",
               "pd.DataFrame", "super", "groupwise", "roc", "binomial_ci", "bootstrap_ci", "invert_pl_function",
               "_find_support_thresholds", "_add_extra_points", "_apply_rule_of_three", "_aggregate_rectangles",
               "tp", "tn", "fp", "fn", "p", "n", "top", "ton", "pop", "accuracy", "error_rate", "tpr", "tnr", "fpr", "fnr",
               "topr", "tonr", "ppv", "npv", "fdr", "for_", "tpr_ci", "tnr_ci", "fpr_ci", "fnr_ci", "decorator", "_metric",
               "metrics.tp", "metrics.tn", "metrics.fp", "metrics.fn", "metrics.p", "metrics.n", "metrics.top",
               "metrics.ton", "metrics.pop", "metrics.accuracy", "metrics.error_rate", "metrics.tpr", "metrics.tnr",
               "metrics.fpr", "metrics.fnr", "metrics.topr", "metrics.tonr", "metrics.ppv", "metrics.npv", "metrics.fdr",
               "metrics.for_", "metrics.tpr_ci", "metrics.tnr_ci", "metrics.fpr_ci", "metrics.fnr_ci",
               "metrics.acceptance_rate", "metrics.rejection_rate", "utils.bootstrap_ci", "utils.invert_pl_function",
               "_single_pass_sampling", "_estimate_bandwidth", "np.logical_and", "np.logical_or"}
FRESH_METHODS = {"astype", "copy", "item", "sum", "std", "tolist", "keys", "values", "items", "flatten", "cumsum", "mean",
                 "min", "max", "get", "format", "join", "split", "equals"}
VIEW_METHODS = {"reshape", "ravel", "squeeze", "transpose", "view", "swapaxes"}
INPLACE_METHODS = {"sort", "fill", "resize", "put", "itemset", "partition", "setflags", "append", "extend", "update",
                   "pop", "clear", "insert", "remove", "reverse", "setdefault"}
ADVANCED_INDEX_NAMES = ("_idx", "idx", "ind", "mask", "inside", "fin")


def dotted(f):
    if isinstance(f, ast.Name):
        return f.id
    if isinstance(f, ast.Attribute):
        b = dotted(f.value)
        return None if b is None else b + "." + f.attr
    return None


class Ana:
    def __init__(self, fn, known):
        self.env = {}
        self.writes = []      # (source text, set of roots)
        self.stores = []      # field names
        self.known = known
        self.params = [a.arg for a in fn.args.args + fn.args.kwonlyargs if a.arg != "self"]
        if fn.args.vararg:
            self.params.append(fn.args.vararg.arg)
        if fn.args.kwarg:
            self.params.append(fn.args.kwarg.arg)
        for a in self.params:
            self.env[a] = {"IN:" + a}

    def val(self, e):
        if e is None:
            return set()
        if isinstance(e, ast.Name):
            return set(self.env.get(e.id, {"FRESH"}))
        if isinstance(e, (ast.Constant, ast.BinOp, ast.UnaryOp, ast.Compare, ast.BoolOp, ast.JoinedStr, ast.ListComp,
                          ast.Dict, ast.DictComp, ast.Lambda, ast.SetComp, ast.Set, ast.GeneratorExp)):
            return {"FRESH"}
        if isinstance(e, ast.Attribute):
            if isinstance(e.value, ast.Name) and e.value.id == "self":
                return {"SELF:" + e.attr}
            if e.attr in ("shape", "size", "ndim", "dtype", "value", "name"):
                return {"FRESH"}
            return self.val(e.value)
        if isinstance(e, ast.IfExp):
            return self.val(e.body) | self.val(e.orelse)
        if isinstance(e, (ast.Tuple, ast.List)):
            r = set()
            for x in e.elts:
                r |= self.val(x)
            return r or {"FRESH"}
        if isinstance(e, ast.Starred):
            return self.val(e.value)
        if isinstance(e, ast.Subscript):
            idx = e.slice

            def adv(i):
                return isinstance(i, (ast.Compare, ast.List, ast.BoolOp)) or (
                    isinstance(i, ast.Name) and i.id.endswith(ADVANCED_INDEX_NAMES))

            if adv(idx) or (isinstance(idx, ast.Tuple) and any(adv(i) for i in idx.elts)):
                return {"FRESH"}   # boolean / integer-array indexing copies
            return self.val(e.value)   # basic slicing is a view
        if isinstance(e, ast.Call):
            name = dotted(e.func)
            for k in e.keywords:
                if k.arg == "out":      # ufunc(..., out=X) writes into X
                    self.writes.append((ast.unparse(e)[:80], self.val(k.value)))
            args = set()
            for a in list(e.args) + [k.value for k in e.keywords]:
                args |= self.val(a)
            if name in ALIAS_CALLS:
                return args or {"FRESH"}
            if name in FRESH_CALLS:
                return {"FRESH"}
            if isinstance(e.func, ast.Attribute):
                m = e.func.attr
                if isinstance(e.func.value, ast.Name) and e.func.value.id == "self" and m in self.known:
                    return {"FRESH"}
                if m in FRESH_METHODS:
                    return {"FRESH"}
                if m in VIEW_METHODS:
                    return self.val(e.func.value)
                if m in self.known:
                    return {"FRESH"}     # a public method of a Scores-like object: analysed on its own
                return args | self.val(e.func.value)   # unknown method: may return a view of anything it saw
            return args or {"FRESH"}      # unknown function (e.g. a callable parameter): may return its argument
        raise Reject("effects: expression " + type(e).__name__)

    def assign(self, t, v):
        if isinstance(t, ast.Name):
            self.env[t.id] = set(v)
        elif isinstance(t, (ast.Tuple, ast.List)):
            for x in t.elts:
                self.assign(x, v)
        elif isinstance(t, ast.Attribute) and isinstance(t.value, ast.Name) and t.value.id == "self":
            self.stores.append(t.attr)
        elif isinstance(t, ast.Attribute):
            self.writes.append((ast.unparse(t), self.val(t.value)))
        elif isinstance(t, ast.Subscript):
            self.writes.append((ast.unparse(t), self.val(t.value)))
        elif isinstance(t, ast.Starred):
            self.assign(t.value, v)
        else:
            raise Reject("effects: assignment target " + type(t).__name__)

    def stmts(self, body):
        for st in body:
            if isinstance(st, ast.Assign):
                v = self.val(st.value)
                for t in st.targets:
                    if isinstance(t, ast.Tuple) and isinstance(st.value, ast.Tuple) and len(t.elts) == len(st.value.elts):
                        vs = [self.val(x) for x in st.value.elts]
                        for a, b in zip(t.elts, vs):
                            self.assign(a, b)
                    else:
                        self.assign(t, v)
            elif isinstance(st, ast.AnnAssign):
                if st.value is not None:
                    self.assign(st.target, self.val(st.value))
            elif isinstance(st, ast.AugAssign):
                if isinstance(st.target, ast.Name):
                    self.writes.append((ast.unparse(st), set(self.env.get(st.target.id, {"FRESH"}))))
                elif isinstance(st.target, ast.Subscript):
                    self.writes.append((ast.unparse(st), self.val(st.target.value)))
                elif isinstance(st.target, ast.Attribute) and isinstance(st.target.value, ast.Name) and st.target.value.id == "self":
                    self.stores.append(st.target.attr)
                else:
                    raise Reject("effects: augmented assignment target")
            elif isinstance(st, ast.If):
                self.val(st.test)
                e0 = dict(self.env)
                self.stmts(st.body)
                e1 = self.env
                self.env = dict(e0)
                self.stmts(st.orelse)
                for k in set(e1) | set(self.env):
                    self.env[k] = set(e1.get(k, set())) | set(self.env.get(k, set()))
            elif isinstance(st, (ast.For, ast.While)):
                if isinstance(st, ast.For):
                    self.assign(st.target, self.val(st.iter))
                self.stmts(st.body)
                self.stmts(st.body)
                self.stmts(st.orelse)
            elif isinstance(st, ast.Try):
                self.stmts(st.body)
                for h in st.handlers:
                    self.stmts(h.body)
                self.stmts(st.orelse)
                self.stmts(st.finalbody)
            elif isinstance(st, ast.With):
                self.stmts(st.body)
            elif isinstance(st, ast.Return):
                self.val(st.value)
            elif isinstance(st, ast.Expr):
                e = st.value
                # x.sort(), x.fill(v), np.random.shuffle(x): in-place methods
                if isinstance(e, ast.Call) and isinstance(e.func, ast.Attribute) and e.func.attr in INPLACE_METHODS:
                    self.writes.append((ast.unparse(st), self.val(e.func.value)))
                elif isinstance(e, ast.Call) and dotted(e.func) in ("np.random.shuffle", "np.put", "np.copyto", "np.place", "np.putmask"):
                    self.writes.append((ast.unparse(st), self.val(e.args[0]) if e.args else set()))
                else:
                    self.val(e)
            elif isinstance(st, ast.FunctionDef):
                sub = Ana(st, self.known)
                sub.env.update({k: v for k, v in self.env.items() if k not in sub.env})
                # parameters of a nested helper are fresh names bound by the helper's callers inside this function
                for a in sub.params:
                    sub.env[a] = {"FRESH"}
                sub.stmts(st.body)
                self.writes += sub.writes
                self.stores += sub.stores
            elif isinstance(st, (ast.Raise, ast.Pass, ast.Assert, ast.Import, ast.ImportFrom, ast.Global, ast.Delete,
                                 ast.Break, ast.Continue)):
                pass
            else:
                raise Reject("effects: statement " + type(st).__name__)


def summarise(repo):
    """returns (fields, functions) with functions = [(qualified name, params, writes, stores)]"""
    funcs = []
    for fname in FILES:
        tree = ast.parse(open(os.path.join(repo, "score_analysis", fname)).read())
        for n in tree.body:
            if isinstance(n, ast.FunctionDef):
                funcs.append((fname, None, n))
            if isinstance(n, ast.ClassDef):
                for m in n.body:
                    if isinstance(m, ast.FunctionDef):
                        funcs.append((fname, n.name, m))
    known = {f.name for _, _, f in funcs}
    fields = []
    out = []
    for fname, cls, f in funcs:
        if f.name == "__init__":
            continue   # constructors initialise the fields of self; they are not queries
        a = Ana(f, known)
        a.stmts(f.body)
        for _, roots in a.writes:
            for r in roots:
                if r.startswith("SELF:") and r[5:] not in fields:
                    fields.append(r[5:])
        for s in a.stores:
            if s not in fields:
                fields.append(s)
        out.append((f"{fname}:{cls + '.' if cls else ''}{f.name}", a.params, a.writes, a.stores))
    return fields, out


def translate_effects(repo):
    fields, funcs = summarise(repo)
    fields = sorted(fields)
    lines = ["(* generated from the current source by harness/translate/effects_tr.py — do not edit *)",
             "From Coq Require Import List String. Import ListNotations. Open Scope string_scope.",
             "From SA Require Import Base.Effects."]
    for i, f in enumerate(fields):
        lines.append(f"Definition F_{f} : nat := {i}.")
    if "_grouped_scores" not in fields:
        lines.append("Definition F__grouped_scores : nat := 999.")
    items = []
    for name, params, writes, stores in funcs:
        sts = []
        for src, roots in writes:
            rs = []
            for r in sorted(roots):
                if r == "FRESH":
                    rs.append("RFresh")
                elif r.startswith("IN:"):
                    rs.append(f"RIn {params.index(r[3:]) if r[3:] in params else 99}")
                else:
                    rs.append(f"RSelf F_{r[5:]}")
            sts.append("SWrite [" + "; ".join(rs) + "]")
        for s in stores:
            sts.append(f"SStore F_{s}")
        items.append(f'  ("{name}", [{"; ".join(sts)}])')
    lines.append("Definition summaries : list (string * list stmt) := [\n" + ";\n".join(items) + "\n].")
    return "\n".join(lines) + "\n"


if __name__ == "__main__":
    import sys
    print(translate_effects(sys.argv[1] if len(sys.argv) > 1 else "/repo"))
