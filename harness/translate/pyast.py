"""Fail-closed Python-ast -> Gallina translator for the straight-line / flag-dispatch fragment of
score_analysis (DESIGN.md 4.1).  Anything outside the whitelist raises Reject.

Types: 'Z' int, 'Q' float, 'B' bool, 'L' BinaryLabel, 'SIDE' searchsorted side, 'M' interpolation method,
'LQ' sorted float array, 'EXT' threshold (extended), 'S' the Scores object, 'CM' 2x2 int matrix under
construction, ('T', [types]) tuple.  The emitted text uses only primitives defined in coq/theories."""
import ast


class Reject(Exception):
    pass


# (class name, {helper name: (FunctionDef, "class" | "module")}) of the file being translated; set by set_helpers
HELPERS = None


def set_helpers(tree, cls=None):
    """register the private functions of the class (and of the module) as candidates for inlining"""
    global HELPERS
    table = {}
    for n in tree.body:
        if isinstance(n, ast.FunctionDef) and n.name.startswith("_") and not n.name.startswith("__"):
            table[n.name] = (n, "module")
        if cls is not None and isinstance(n, ast.ClassDef) and n.name == cls:
            for m in n.body:
                if isinstance(m, ast.FunctionDef) and m.name.startswith("_") and not m.name.startswith("__"):
                    table[m.name] = (m, "class")
    HELPERS = (cls, table)


def find_function(tree, name, cls=None):
    body = tree.body
    if cls is not None:
        for n in body:
            if isinstance(n, ast.ClassDef) and n.name == cls:
                body = n.body
                break
        else:
            raise Reject(f"class {cls} not found")
    for n in body:
        if isinstance(n, ast.FunctionDef) and n.name == name:
            return n
    raise Reject(f"function {name} not found")


def strip_doc(body):
    if body and isinstance(body[0], ast.Expr) and isinstance(body[0].value, ast.Constant) and isinstance(body[0].value.value, str):
        return body[1:]
    return body


STR_ENUMS = {
    "left": ("SLeft", "SIDE"), "right": ("SRight", "SIDE"),
    "lower": ("Lower", "M"), "higher": ("Higher", "M"), "linear": ("Linear", "M"),
    "pos": ("Pos", "L"), "neg": ("Neg", "L"),
}


class Tr:
    """Translate one function body. env maps python names -> (coq text, type)."""

    def __init__(self, env, self_fields=None, self_props=None, calls=None, ret_wrap=None):
        self.env = dict(env)
        self.self_fields = self_fields or {}
        self.self_props = self_props or {}
        self.calls = calls or {}
        self.ret_wrap = ret_wrap
        self.cells = {}  # matrix cells assigned so far

    # ---------------------------------------------------------- expressions
    def coerce(self, e, want):
        txt, ty = e
        if ty == want:
            return txt
        if ty in ("Z", "QZ") and want == "Q":
            return f"(inject_Z {txt})"
        if ty == "B" and want == "Q":
            return f"(b2q {txt})"
        if ty == "Q" and want == "EXT":
            return f"(Fin {txt})"
        raise Reject(f"type mismatch: have {ty}, want {want} in {txt}")

    def expr(self, e):
        if isinstance(e, ast.Name):
            if e.id in self.env:
                return self.env[e.id]
            raise Reject(f"unbound name {e.id}")
        if isinstance(e, ast.Constant):
            v = e.value
            if isinstance(v, bool):
                return ("true" if v else "false", "B")
            if isinstance(v, int):
                return (f"({v})%Z", "Z")
            if isinstance(v, float):
                from fractions import Fraction
                f = Fraction(v)
                if f.denominator > 1 << 20:
                    raise Reject(f"non-dyadic-small float constant {v}")
                return (f"(Qmake ({f.numerator}) {f.denominator})", "Q")
            if isinstance(v, str) and v in STR_ENUMS:
                return STR_ENUMS[v]
            raise Reject(f"constant {v!r}")
        if isinstance(e, ast.Attribute):
            # self.x, BinaryLabel.pos
            if isinstance(e.value, ast.Name) and e.value.id == "self":
                if e.attr in self.self_fields:
                    return self.self_fields[e.attr]
                if e.attr in self.self_props:
                    return self.self_props[e.attr]
                raise Reject(f"self.{e.attr} not whitelisted")
            if isinstance(e.value, ast.Name) and e.value.id == "BinaryLabel" and e.attr in ("pos", "neg"):
                return STR_ENUMS[e.attr]
            raise Reject("attribute " + ast.dump(e)[:80])
        if isinstance(e, ast.UnaryOp):
            if isinstance(e.op, ast.Not):
                return (f"(negb {self.coerce(self.expr(e.operand), 'B')})", "B")
            if isinstance(e.op, ast.USub):
                t, ty = self.expr(e.operand)
                if ty == "Z":
                    return (f"(- {t})%Z", "Z")
                if ty == "Q":
                    return (f"(- {t})", "Q")
            raise Reject("unary " + ast.dump(e)[:80])
        if isinstance(e, ast.BinOp):
            a, b = self.expr(e.left), self.expr(e.right)
            op = type(e.op)
            if op in (ast.Add, ast.Sub, ast.Mult):
                sym = {ast.Add: "+", ast.Sub: "-", ast.Mult: "*"}[op]
                if a[1] == "Z" and b[1] == "Z":
                    return (f"({a[0]} {sym} {b[0]})%Z", "Z")
                if {a[1], b[1]} <= {"Z", "Q", "QZ"}:
                    return (f"({self.coerce(a, 'Q')} {sym} {self.coerce(b, 'Q')})", "Q")
            if op is ast.Div and {a[1], b[1]} <= {"Z", "Q", "QZ"}:
                return (f"({self.coerce(a, 'Q')} / {self.coerce(b, 'Q')})", "Q")
            raise Reject(f"binop {op.__name__} on {a[1]},{b[1]}")
        if isinstance(e, ast.Compare) and len(e.ops) == 1:
            a, b = self.expr(e.left), self.expr(e.comparators[0])
            op = type(e.ops[0])
            if a[1] == b[1] and a[1] in ("L", "SIDE", "M") and op in (ast.Eq, ast.NotEq):
                fn = {"L": "label_eqb", "SIDE": "side_eqb", "M": "method_eqb"}[a[1]]
                t = f"({fn} {a[0]} {b[0]})"
                return (t if op is ast.Eq else f"(negb {t})", "B")
            if a[1] == "B" and b[1] == "B" and op in (ast.Eq, ast.NotEq):
                t = f"(Bool.eqb {a[0]} {b[0]})"
                return (t if op is ast.Eq else f"(negb {t})", "B")
            if a[1] == "Z" and b[1] == "Z":
                fn = {ast.Eq: "Z.eqb", ast.NotEq: None, ast.Lt: "Z.ltb", ast.LtE: "Z.leb", ast.Gt: "Z.gtb", ast.GtE: "Z.geb"}[op]
                if fn is None:
                    return (f"(negb (Z.eqb {a[0]} {b[0]}))", "B")
                return (f"({fn} {a[0]} {b[0]})", "B")
            if {a[1], b[1]} <= {"Z", "Q", "QZ"}:
                x, y = self.coerce(a, "Q"), self.coerce(b, "Q")
                m = {ast.Lt: f"(Qltb {x} {y})", ast.LtE: f"(Qleb {x} {y})", ast.Gt: f"(Qltb {y} {x})",
                     ast.GtE: f"(Qleb {y} {x})", ast.Eq: f"(Qeqb {x} {y})", ast.NotEq: f"(negb (Qeqb {x} {y}))"}
                return (m[op], "B")
            raise Reject(f"compare {op.__name__} on {a[1]},{b[1]}")
        if isinstance(e, ast.BoolOp):
            parts = [self.coerce(self.expr(v), "B") for v in e.values]
            sym = "&&" if isinstance(e.op, ast.And) else "||"
            return ("(" + f" {sym} ".join(parts) + ")", "B")
        if isinstance(e, ast.IfExp):
            c = self.coerce(self.expr(e.test), "B")
            a, b = self.expr(e.body), self.expr(e.orelse)
            ty = a[1] if a[1] == b[1] else ("Q" if {a[1], b[1]} <= {"Z", "Q", "QZ"} else None)
            if ty is None:
                raise Reject("ifexp branches of different types")
            return (f"(if {c} then {self.coerce(a, ty)} else {self.coerce(b, ty)})", ty)
        if isinstance(e, ast.Tuple):
            parts = [self.expr(x) for x in e.elts]
            return ("(" + ", ".join(p[0] for p in parts) + ")", ("T", [p[1] for p in parts]))
        if isinstance(e, ast.Call):
            return self.call(e)
        raise Reject("expression " + ast.dump(e)[:100])

    def call(self, e):
        f = e.func
        key = None
        if isinstance(f, ast.Name):
            key = f.id
        elif isinstance(f, ast.Attribute) and isinstance(f.value, ast.Name):
            key = f"{f.value.id}.{f.attr}"
        elif isinstance(f, ast.Attribute):
            key = f".{f.attr}"
        if key in self.calls:
            return self.calls[key](self, e)
        inl = self.inline_helper(key, e)
        if inl is not None:
            return inl
        raise Reject(f"call {key} not whitelisted")

    def inline_helper(self, key, e):
        """A call of a private helper of the same class / module that is not itself one of the translated functions
        (`self._h(..)`, `Cls._h(..)`, `_h(..)`) is translated by inlining the helper's body with its parameters bound
        to the (already translated) arguments, all at once, so that extracting or merging helpers does not change the
        generated term up to let-reduction.  The helper must be straight-line code of the same whitelisted fragment."""
        if key is None or not HELPERS:
            return None
        cls_name, table = HELPERS
        parts = key.split(".")
        name = parts[-1]
        if not name.startswith("_") or name.startswith("__") or name not in table:
            return None
        if len(parts) == 2 and parts[0] not in ("self", cls_name):
            return None
        if len(parts) == 1 and table[name][1] != "module":
            return None
        fn, where = table[name]
        depth = getattr(self, "inline_depth", 0)
        if depth >= 3:
            raise Reject(f"helper {name}: inlining too deep (recursion?)")
        a = fn.args
        if a.vararg or a.kwarg or a.kwonlyargs or a.posonlyargs or a.defaults:
            raise Reject(f"helper {name}: only plain positional parameters without defaults are inlined")
        static = any(ast.unparse(d) == "staticmethod" for d in fn.decorator_list)
        if any(ast.unparse(d) not in ("staticmethod",) for d in fn.decorator_list):
            raise Reject(f"helper {name}: decorator")
        params = [x.arg for x in a.args]
        if where == "class" and not static:
            if not params or params[0] != "self" or len(parts) != 2 or parts[0] != "self":
                raise Reject(f"helper {name}: method call shape")
            params = params[1:]
        vals = {}
        if len(e.args) > len(params):
            raise Reject(f"helper {name}: too many arguments")
        for p_, arg in zip(params, e.args):
            vals[p_] = self.expr(arg)
        for kw in e.keywords:
            if kw.arg is None or kw.arg not in params or kw.arg in vals:
                raise Reject(f"helper {name}: keyword {kw.arg}")
            vals[kw.arg] = self.expr(kw.value)
        if set(vals) != set(params):
            raise Reject(f"helper {name}: missing arguments")
        import copy
        sub = copy.copy(self)
        sub.inline_depth = depth + 1
        sub.cells = {}
        sub.env = {p_: (f"{p_}", vals[p_][1]) for p_ in params}
        got = {}

        def capture(tr_, v):
            got.setdefault("ty", v[1])
            if got["ty"] != v[1]:
                raise Reject(f"helper {name}: return types differ")
            return v[0]

        sub.ret_wrap = capture
        body = sub.block(strip_doc(fn.body))
        if "ty" not in got:
            raise Reject(f"helper {name}: no return value")
        if not params:
            return (f"({body})", got["ty"])
        if len(params) == 1:
            return (f"(let {params[0]} := {vals[params[0]][0]} in {body})", got["ty"])
        pat = "'(" + ", ".join(params) + ")"
        tup = "(" + ", ".join(vals[p_][0] for p_ in params) + ")"
        return (f"(let {pat} := {tup} in {body})", got["ty"])

    # ---------------------------------------------------------- statements -> continuation text
    def assigned_names(self, stmts):
        names = []
        for s in stmts:
            if isinstance(s, ast.Assign):
                for t in s.targets:
                    if isinstance(t, ast.Name):
                        names.append(t.id)
                    elif isinstance(t, ast.Tuple) and all(isinstance(x, ast.Name) for x in t.elts):
                        names += [x.id for x in t.elts]
                    elif isinstance(t, ast.Subscript) and isinstance(t.value, ast.Name):
                        names.append(t.value.id)
                    else:
                        raise Reject("assignment target in branch")
            elif isinstance(s, ast.AugAssign) and isinstance(s.target, ast.Name):
                names.append(s.target.id)
            elif isinstance(s, ast.If):
                names += self.assigned_names(s.body) + self.assigned_names(s.orelse)
            else:
                raise Reject("statement in branch: " + type(s).__name__)
        out = []
        for n in names:
            if n not in out:
                out.append(n)
        return out

    def let_chain(self, stmts):
        """translate assignment-only statements (nested ifs allowed) to 'let … in ' text; updates env"""
        txt = ""
        for s in stmts:
            special = self.special_stmt(s)
            if special is not None:
                txt += special + (" " if special else "")
                continue
            if isinstance(s, ast.If):
                txt += self.if_let(s)
                continue
            for n, v in self.simple_stmt(s):
                txt += f"let {n} := {v} in "
        return txt

    def if_let(self, s):
        c = self.coerce(self.expr(s.test), "B")
        names = self.assigned_names(s.body)
        for n in self.assigned_names(s.orelse):
            if n not in names:
                names.append(n)
        nb, no = self.assigned_names(s.body), self.assigned_names(s.orelse)
        # names assigned on one path only and unknown before are branch-local: not exported
        names = [n for n in names if n in self.env or (n in nb and n in no)]
        a, tys = self.branch_value(s.body, names)
        b, tys2 = self.branch_value(s.orelse, names)
        if tys != tys2:
            raise Reject(f"branches give different types {tys} vs {tys2}")
        for n, ty in zip(names, tys):
            self.env[n] = (n, ty)
        pat = names[0] if len(names) == 1 else "'(" + ", ".join(names) + ")"
        return f"let {pat} := if {c} then {a} else {b} in\n  "

    def branch_value(self, stmts, names):
        """translate a branch that only assigns; returns tuple text of the final values of names"""
        saved = dict(self.env)
        txt = self.let_chain(stmts)
        vals = []
        tys = []
        for n in names:
            if n not in self.env:
                raise Reject(f"{n} not defined on every path")
            vals.append(self.env[n][0])
            tys.append(self.env[n][1])
        self.env = saved
        tup = vals[0] if len(vals) == 1 else "(" + ", ".join(vals) + ")"
        return f"({txt}{tup})", tys

    def simple_stmt(self, s):
        """Assign/AugAssign to plain names: returns list of (name, coq text) lets and updates env"""
        if isinstance(s, ast.Assign) and len(s.targets) == 1:
            t = s.targets[0]
            if isinstance(t, ast.Name):
                v = self.expr(s.value)
                self.env[t.id] = (t.id, v[1])
                return [(t.id, v[0])]
            if isinstance(t, ast.Tuple) and isinstance(s.value, ast.Tuple) and len(t.elts) == len(s.value.elts):
                vals = [self.expr(x) for x in s.value.elts]  # evaluated before binding (Python semantics)
                tmp = [(f"{x.id}__t", v[0]) for x, v in zip(t.elts, vals)]
                outs = tmp + [(x.id, f"{x.id}__t") for x in t.elts]
                for x, v in zip(t.elts, vals):
                    self.env[x.id] = (x.id, v[1])
                return outs
            if isinstance(t, ast.Tuple) and all(isinstance(x, ast.Name) for x in t.elts) and isinstance(s.value, ast.Call):
                v = self.expr(s.value)     # a call returning a tuple (an inlined helper): destructuring let
                if isinstance(v[1], tuple) and v[1][0] == "T" and len(v[1][1]) == len(t.elts):
                    for x, ty in zip(t.elts, v[1][1]):
                        self.env[x.id] = (x.id, ty)
                    return [("'(" + ", ".join(x.id for x in t.elts) + ")", v[0])]
                raise Reject("tuple assignment from a call that does not return a tuple of that length")
        if isinstance(s, ast.AugAssign) and isinstance(s.target, ast.Name) and isinstance(s.op, (ast.Add, ast.Sub)):
            cur = self.expr(s.target)
            v = self.expr(ast.BinOp(left=s.target, op=s.op, right=s.value))
            self.env[s.target.id] = (s.target.id, v[1])
            return [(s.target.id, v[0])]
        raise Reject("statement " + ast.dump(s)[:100])

    def block(self, stmts):
        """translate a statement list ending in Return (or Raise); returns coq text"""
        if not stmts:
            raise Reject("fell off the end of the function")
        s, rest = stmts[0], stmts[1:]
        if isinstance(s, ast.Return):
            v = self.expr(s.value)
            return self.ret_wrap(self, v) if self.ret_wrap else v[0]
        if isinstance(s, ast.Raise):
            return "Raise"
        special = self.special_stmt(s)
        if special is not None:
            if special == "":
                return self.block(rest)
            return f"({special}\n  {self.block(rest)})"
        if isinstance(s, ast.If):
            c = self.coerce(self.expr(s.test), "B")
            # guard: if cond: raise
            if len(s.body) == 1 and isinstance(s.body[0], ast.Raise) and not s.orelse:
                return f"(if {c} then Raise else {self.block(rest)})"
            if self.contains_return(s.body) or self.contains_return(s.orelse):
                saved = dict(self.env)
                a = self.block(s.body + ([] if self.always_returns(s.body) else rest))
                self.env = dict(saved)
                orelse = s.orelse if s.orelse else []
                b = self.block(orelse + ([] if self.always_returns(orelse) else rest))
                self.env = saved
                return f"(if {c} then {a} else {b})"
            return f"({self.if_let(s)}{self.block(rest)})"
        lets = self.simple_stmt(s)
        txt = "".join(f"let {n} := {v} in\n  " for n, v in lets)
        return f"({txt}{self.block(rest)})"

    def contains_return(self, stmts):
        for st in stmts:
            if isinstance(st, (ast.Return, ast.Raise)):
                return True
            if isinstance(st, ast.If) and (self.contains_return(st.body) or self.contains_return(st.orelse)):
                return True
        return False

    def always_returns(self, stmts):
        if not stmts:
            return False
        last = stmts[-1]
        if isinstance(last, (ast.Return, ast.Raise)):
            return True
        if isinstance(last, ast.If):
            return self.always_returns(last.body) and self.always_returns(last.orelse)
        return False

    def special_stmt(self, s):
        """hook for per-function statement shapes; return None if not special, '' to skip, or let-text"""
        return None
