"""Translator instances for score_analysis/scores.py (tie T)."""
import ast
import os

from . import pyast
from .pyast import Reject, Tr, find_function, strip_doc

SELF_FIELDS = {
    "pos": ("(pos s)", "LQ"), "neg": ("(neg s)", "LQ"),
    "nb_easy_pos": ("(easy_pos s)", "Z"), "nb_easy_neg": ("(easy_neg s)", "Z"),
    "score_class": ("(score_class s)", "L"), "equal_class": ("(equal_class s)", "L"),
}


def _kw(e, name):
    for k in e.keywords:
        if k.arg == name:
            return k.value
    raise Reject(f"keyword {name} missing")


def c_asarray(tr, e):
    if len(e.args) != 1 or e.keywords:
        raise Reject("np.asarray with extra arguments")
    return tr.expr(e.args[0])


def c_searchsorted(tr, e):
    if len(e.args) != 2:
        raise Reject("searchsorted arity")
    a = tr.coerce(tr.expr(e.args[0]), "LQ")
    v = tr.coerce(tr.expr(e.args[1]), "EXT")
    sd = tr.coerce(tr.expr(_kw(e, "side")), "SIDE")
    return (f"(searchsorted {sd} {a} {v})", "Z")


def c_len(tr, e):
    return (f"(len {tr.coerce(tr.expr(e.args[0]), 'LQ')})", "Z")


def c_confusion_matrix(tr, e):
    kws = {k.arg: k.value for k in e.keywords}
    if set(kws) != {"matrix", "binary"} or e.args:
        raise Reject("ConfusionMatrix call shape")
    if not (isinstance(kws["binary"], ast.Constant) and kws["binary"].value is True):
        raise Reject("ConfusionMatrix(binary=...) is not True")
    if tr.expr(kws["matrix"])[1] != "CM":
        raise Reject("matrix argument is not the assembled matrix")
    if set(tr.cells) != {(0, 0), (0, 1), (1, 0), (1, 1)}:
        raise Reject(f"cells assigned: {sorted(tr.cells)}")
    return (f"(mkCmz {tr.cells[(0, 0)]} {tr.cells[(0, 1)]} {tr.cells[(1, 0)]} {tr.cells[(1, 1)]})", "CMZ")


class CmTr(Tr):
    def special_stmt(self, s):
        # matrix = np.empty((*threshold.shape, 2, 2), dtype=int)
        if (isinstance(s, ast.Assign) and isinstance(s.targets[0], ast.Name) and s.targets[0].id == "matrix"
                and isinstance(s.value, ast.Call) and ast.unparse(s.value.func) == "np.empty"):
            if ast.unparse(s.value) != "np.empty((*threshold.shape, 2, 2), dtype=int)":
                raise Reject("matrix allocation: " + ast.unparse(s.value))
            self.env["matrix"] = ("matrix", "CM")
            self.cells = {}
            return ""
        # the same matrix assembled with np.stack: row = np.stack([a, b], axis=-1); matrix = np.stack([row0, row1], axis=-2)
        # (optionally followed by .astype(int, copy=False): the counts are integers already)
        if isinstance(s, ast.Assign) and len(s.targets) == 1 and isinstance(s.targets[0], ast.Name) and isinstance(s.value, ast.Call):
            v = s.value
            if (isinstance(v.func, ast.Attribute) and v.func.attr == "astype" and ast.unparse(v.func.value).startswith("np.stack(")
                    and [ast.unparse(a) for a in v.args] == ["int"] and [(k.arg, ast.unparse(k.value)) for k in v.keywords] in ([], [("copy", "False")])):
                v = v.func.value
            if ast.unparse(v.func) == "np.stack" and len(v.args) == 1 and isinstance(v.args[0], ast.List) and len(v.args[0].elts) == 2:
                axis = [ast.unparse(k.value) for k in v.keywords if k.arg == "axis"]
                if len(v.keywords) != 1 or len(axis) != 1:
                    raise Reject("np.stack call shape: " + ast.unparse(v))
                a, b = v.args[0].elts
                if axis[0] == "-1":
                    self.rows = getattr(self, "rows", {})
                    self.rows[s.targets[0].id] = (self.coerce(self.expr(a), "Z"), self.coerce(self.expr(b), "Z"))
                    return ""
                if axis[0] == "-2" and s.targets[0].id == "matrix":
                    rows = getattr(self, "rows", {})
                    if not (isinstance(a, ast.Name) and isinstance(b, ast.Name) and a.id in rows and b.id in rows):
                        raise Reject("np.stack of rows: " + ast.unparse(v))
                    self.cells = {(0, 0): rows[a.id][0], (0, 1): rows[a.id][1], (1, 0): rows[b.id][0], (1, 1): rows[b.id][1]}
                    self.env["matrix"] = ("matrix", "CM")
                    return ""
                raise Reject("np.stack axis: " + ast.unparse(v))
        # matrix[..., i, j] = v
        if isinstance(s, ast.Assign) and isinstance(s.targets[0], ast.Subscript):
            t = s.targets[0]
            if not (isinstance(t.value, ast.Name) and t.value.id == "matrix" and isinstance(t.slice, ast.Tuple)
                    and len(t.slice.elts) == 3 and isinstance(t.slice.elts[0], ast.Constant) and t.slice.elts[0].value is Ellipsis):
                raise Reject("subscript store " + ast.unparse(t))
            i, j = (x.value for x in t.slice.elts[1:])
            if (i, j) in self.cells:
                raise Reject("cell assigned twice")
            self.cells[(i, j)] = self.coerce(self.expr(s.value), "Z")
            return ""
        return None


HEADER = "(* generated from {src} by harness/translate — do not edit *)\nFrom SA Require Import Model.Scores.\nOpen Scope Q_scope.\n"


def translate_cm(repo):
    path = os.path.join(repo, "score_analysis", "scores.py")
    tree = ast.parse(open(path).read())
    pyast.set_helpers(tree, "Scores")
    fn = find_function(tree, "cm", cls="Scores")
    args = [a.arg for a in fn.args.args]
    if args != ["self", "threshold"]:
        raise Reject(f"cm signature {args}")
    tr = CmTr(env={"threshold": ("threshold", "EXT")}, self_fields=SELF_FIELDS,
              calls={"np.asarray": c_asarray, "np.searchsorted": c_searchsorted, "len": c_len,
                     "ConfusionMatrix": c_confusion_matrix})
    body = tr.block(strip_doc(fn.body))
    return HEADER.format(src="Scores.cm") + (
        "Definition side_eqb (a b : side) : bool := match a, b with SLeft, SLeft | SRight, SRight => true | _, _ => false end.\n"
        f"Definition gen_cm (s : scores) (threshold : ext) : cmz :=\n  {body}.\n")


if __name__ == "__main__":
    import sys
    print(translate_cm(sys.argv[1] if len(sys.argv) > 1 else "/repo"))


# ------------------------------------------------------------------ threshold setting
def c_maximum(tr, e):
    a, b = (tr.expr(x) for x in e.args)
    if a[1] == "Z" and b[1] == "Z":
        return (f"(Z.max {a[0]} {b[0]})", "Z")
    return (f"(Qmaximum {tr.coerce(a, 'Q')} {tr.coerce(b, 'Q')})", "Q")


def c_minimum(tr, e):
    a, b = (tr.expr(x) for x in e.args)
    if a[1] == "Z" and b[1] == "Z":
        return (f"(Z.min {a[0]} {b[0]})", "Z")
    return (f"(Qminimum {tr.coerce(a, 'Q')} {tr.coerce(b, 'Q')})", "Q")


def c_clip(tr, e):
    """np.clip(a, lo, hi) = np.minimum(np.maximum(a, lo), hi) (NumPy's definition), integer arguments only"""
    if len(e.args) != 3 or e.keywords:
        raise Reject("np.clip call shape")
    a, lo, hi = (tr.expr(x) for x in e.args)
    if not (a[1] == "Z" and lo[1] == "Z" and hi[1] == "Z"):
        raise Reject("np.clip on non-integer arguments")
    return (f"(Z.min (Z.max {a[0]} {lo[0]}) {hi[0]})", "Z")


def c_floor(tr, e):
    return (f"(Qfloor {tr.coerce(tr.expr(e.args[0]), 'Q')})", "QZ")


def c_ceil(tr, e):
    return (f"(Qceiling {tr.coerce(tr.expr(e.args[0]), 'Q')})", "QZ")


def c_astype(tr, e):
    v = tr.expr(e.func.value)
    arg = ast.unparse(e.args[0]) if len(e.args) == 1 else None
    if arg == "float" and v[1] == "LQ":
        return v
    if arg == "int" and v[1] == "QZ":
        return (v[0], "Z")
    raise Reject(f"astype({arg}) on {v[1]}")


def c_item(tr, e):
    return tr.expr(e.func.value)


def c_nextafter(tr, e):
    x = tr.coerce(tr.expr(e.args[0]), "Q")
    d = ast.unparse(e.args[1])
    if d == "-np.inf":
        return (f"(pred {x})", "Q")
    if d == "np.inf":
        return (f"(succ {x})", "Q")
    raise Reject("nextafter direction " + d)


def c_sort(tr, e):
    return (f"(isort {tr.coerce(tr.expr(e.args[0]), 'LQ')})", "LQ")


def c_concatenate(tr, e):
    if len(e.args) != 1 or not isinstance(e.args[0], ast.List) or len(e.args[0].elts) != 2:
        raise Reject("concatenate shape")
    a, b = (tr.coerce(tr.expr(x), "LQ") for x in e.args[0].elts)
    return (f"({a} ++ {b})", "LQ")


def c_threshold_at_ratio(tr, e):
    if len(e.args) != 5 or e.keywords:
        raise Reject("_threshold_at_ratio call shape")
    want = ["LQ", "Q", "B", "L", "M"]
    args = [tr.coerce(tr.expr(a), w) for a, w in zip(e.args, want)]
    return (f"(gen_threshold_at_ratio s {' '.join(args)})", "Q")


def c_invert(tr, e):
    if len(e.args) != 4 or e.keywords:
        raise Reject("_invert_increasing_function call shape")
    want = ["LQ", "Q", "B", "M"]
    args = [tr.coerce(tr.expr(a), w) for a, w in zip(e.args, want)]
    return (f"(gen_inv_incr {' '.join(args)})", "Q")


THR_CALLS = {"np.asarray": c_asarray, "len": c_len, "np.maximum": c_maximum, "np.minimum": c_minimum, "np.clip": c_clip,
             "np.floor": c_floor, "np.ceil": c_ceil, ".astype": c_astype, "np.nextafter": c_nextafter,
             "np.sort": c_sort, "np.concatenate": c_concatenate, "self._threshold_at_ratio": c_threshold_at_ratio,
             "self._invert_increasing_function": c_invert, "left_idx.astype": c_astype, "right_idx.astype": c_astype,
             "scores.astype": c_astype, "threshold.item": c_item}

PROPS = ["hard_pos_ratio", "hard_neg_ratio", "easy_pos_ratio", "easy_neg_ratio", "nb_easy_samples", "nb_hard_pos",
         "nb_hard_neg", "nb_hard_samples", "nb_all_pos", "nb_all_neg", "nb_all_samples", "easy_ratio", "hard_ratio"]
PROP_TYPES = {"hard_pos_ratio": "Q", "hard_neg_ratio": "Q", "easy_pos_ratio": "Q", "easy_neg_ratio": "Q",
              "nb_easy_samples": "Z", "nb_hard_pos": "Z", "nb_hard_neg": "Z", "nb_hard_samples": "Z",
              "nb_all_pos": "Z", "nb_all_neg": "Z", "nb_all_samples": "Z", "easy_ratio": "Q", "hard_ratio": "Q"}


class ThrTr(Tr):
    def expr(self, e):
        # scores[idx], scores[0], scores[-1]
        if isinstance(e, ast.Subscript) and isinstance(e.value, ast.Name) and e.value.id in self.env:
            base = self.env[e.value.id]
            if base[1] == "LQ":
                if isinstance(e.slice, ast.UnaryOp) and isinstance(e.slice.op, ast.USub) and ast.unparse(e.slice) == "-1":
                    return (f"(nthZ {base[0]} (len {base[0]} - 1))", "Q")
                idx = self.coerce(self.expr(e.slice), "Z")
                return (f"(nthZ {base[0]} {idx})", "Q")
            if base[1] == "REVDICT":
                return (f"(reverse_method {self.coerce(self.expr(e.slice), 'M')})", "M")
        return super().expr(e)

    def coerce(self, e, want):
        if e[1] == "QZ" and want == "Q":
            return f"(inject_Z {e[0]})"
        return super().coerce(e, want)

    def special_stmt(self, s):
        src = ast.unparse(s)
        if src == "if method not in {'lower', 'higher', 'linear'}:\n    raise ValueError(f'Unknown interpolation method: {method}.')":
            return ""   # the method is an enumeration in the model; unknown names are a separate malformed stream
        if src == "reverse_method = {'lower': 'higher', 'higher': 'lower', 'linear': 'linear'}":
            self.env["reverse_method"] = ("reverse_method", "REVDICT")
            return ""
        if src == "isscalar = np.isscalar(target_ratio)":
            self.env["isscalar"] = ("isscalar", "SCALARFLAG")
            return ""
        if src == "if isscalar:\n    threshold = threshold.item()":
            return ""   # scalar in, scalar out: shape bookkeeping (C10), not the value
        # threshold[mask] = value
        if (isinstance(s, ast.Assign) and isinstance(s.targets[0], ast.Subscript) and isinstance(s.targets[0].value, ast.Name)
                and s.targets[0].value.id == "threshold"):
            mask = self.coerce(self.expr(s.targets[0].slice), "B")
            val = self.coerce(self.expr(s.value), "Q")
            return f"let threshold := if {mask} then {val} else threshold in"
        return None


def _ret(tr, v):
    return f"(Ret {tr.coerce(v, 'Q')})"


def translate_thresholds(repo):
    path = os.path.join(repo, "score_analysis", "scores.py")
    tree = ast.parse(open(path).read())
    pyast.set_helpers(tree, "Scores")
    out = [HEADER.format(src="Scores threshold setting").replace("Model.Scores", "Model.Threshold")]
    props = {}
    for name in PROPS:
        fn = find_function(tree, name, cls="Scores")
        if not any(ast.unparse(d) == "property" for d in fn.decorator_list):
            raise Reject(f"{name} is not a property")
        tr = ThrTr(env={}, self_fields=SELF_FIELDS, self_props=dict(props), calls={"len": c_len})
        body = tr.block(strip_doc(fn.body))
        ty = {"Q": "Q", "Z": "Z"}[PROP_TYPES[name]]
        if PROP_TYPES[name] == "Q":
            body = f"({body} : Q)"
        out.append(f"Definition gen_{name} (s : scores) : {ty} :=\n  {body}.\n")
        props[name] = (f"(gen_{name} s)", PROP_TYPES[name])
    out.append("Section Gen.\nVariable succ pred : Q -> Q.\n")
    # _invert_increasing_function
    fn = find_function(tree, "_invert_increasing_function", cls="Scores")
    if [a.arg for a in fn.args.args] != ["scores", "target_ratio", "left_continuous", "method"]:
        raise Reject("_invert_increasing_function signature")
    tr = ThrTr(env={"scores": ("scores", "LQ"), "target_ratio": ("target_ratio", "Q"),
                    "left_continuous": ("left_continuous", "B"), "method": ("method", "M")}, calls=THR_CALLS)
    body = tr.block(strip_doc(fn.body))
    out.append("Definition gen_inv_incr (scores : list Q) (target_ratio : Q) (left_continuous : bool) (method : method) : Q :=\n  "
               + body + ".\n")
    # _threshold_at_ratio
    fn = find_function(tree, "_threshold_at_ratio", cls="Scores")
    if [a.arg for a in fn.args.args] != ["self", "scores", "target_ratio", "increasing", "ratio_class", "method"]:
        raise Reject("_threshold_at_ratio signature")
    tr = ThrTr(env={"scores": ("scores", "LQ"), "target_ratio": ("target_ratio", "Q"), "increasing": ("increasing", "B"),
                    "ratio_class": ("ratio_class", "L"), "method": ("method", "M")},
               self_fields=SELF_FIELDS, calls=THR_CALLS)
    body = tr.block(strip_doc(fn.body))
    out.append("Definition gen_threshold_at_ratio (s : scores) (scores : list Q) (target_ratio : Q) (increasing : bool) "
               "(ratio_class : label) (method : method) : Q :=\n  " + body + ".\n")
    for metric in ("tpr", "fnr", "tnr", "fpr", "topr", "tonr"):
        fn = find_function(tree, "threshold_at_" + metric, cls="Scores")
        if [a.arg for a in fn.args.args] != ["self", metric] or [a.arg for a in fn.args.kwonlyargs] != ["method"]:
            raise Reject(f"threshold_at_{metric} signature")
        if ast.unparse(fn.args.kw_defaults[0]) != "'linear'":
            raise Reject(f"threshold_at_{metric} default method")
        tr = ThrTr(env={metric: (metric, "Q"), "method": ("method", "M")}, self_fields=SELF_FIELDS, self_props=props,
                   calls=THR_CALLS, ret_wrap=_ret)
        body = tr.block(strip_doc(fn.body))
        out.append(f"Definition gen_threshold_at_{metric} (s : scores) ({metric} : Q) (method : method) : res Q :=\n  {body}.\n")
    out.append("End Gen.\n")
    # aliases: name -> (target function, keyword)
    al = []
    for alias, target in (("tar", "tpr"), ("frr", "fnr"), ("trr", "tnr"), ("far", "fpr"),
                          ("acceptance_rate", "topr"), ("rejection_rate", "tonr")):
        fn = find_function(tree, "threshold_at_" + alias, cls="Scores")
        body = strip_doc(fn.body)
        want = f"return self.threshold_at_{target}({target}={alias}, method=method)"
        if len(body) != 1 or ast.unparse(body[0]) != want:
            raise Reject(f"alias threshold_at_{alias}: {ast.unparse(body[0]) if body else ''}")
        fn2 = find_function(tree, alias, cls="Scores")
        b2 = strip_doc(fn2.body)
        if len(b2) != 1 or ast.unparse(b2[0]) != f"return self.{target}(threshold)":
            raise Reject(f"alias {alias}")
        al.append(alias)
    for rate_name in ("tpr", "fnr", "tnr", "fpr", "topr", "tonr"):
        fn = find_function(tree, rate_name, cls="Scores")
        b = strip_doc(fn.body)
        if len(b) != 1 or ast.unparse(b[0]) != f"return self.cm(threshold).{rate_name}()":
            raise Reject(f"rate method {rate_name}")
    out.append(f"Definition gen_aliases_checked : nat := {len(al)}.\n")
    return "".join(out)


if __name__ == "__main__" and len(__import__('sys').argv) > 2:
    print(translate_thresholds(__import__('sys').argv[1]))


# ------------------------------------------------------------------ swap
def translate_swap(repo):
    path = os.path.join(repo, "score_analysis", "scores.py")
    tree = ast.parse(open(path).read())
    pyast.set_helpers(tree, "Scores")
    fn = find_function(tree, "swap", cls="Scores")
    body = strip_doc(fn.body)
    if len(body) != 1 or not isinstance(body[0], ast.Return) or not isinstance(body[0].value, ast.Call):
        raise Reject("swap body shape")
    call = body[0].value
    if ast.unparse(call.func) != "Scores" or call.args:
        raise Reject("swap does not construct a Scores object by keywords")
    kws = {k.arg: k.value for k in call.keywords}
    if set(kws) != {"pos", "neg", "nb_easy_pos", "nb_easy_neg", "score_class", "equal_class", "is_sorted"}:
        raise Reject(f"swap keywords {sorted(kws)}")
    tr = Tr(env={}, self_fields=SELF_FIELDS)
    args = [tr.coerce(tr.expr(kws["pos"]), "LQ"), tr.coerce(tr.expr(kws["neg"]), "LQ"),
            tr.coerce(tr.expr(kws["nb_easy_pos"]), "Z"), tr.coerce(tr.expr(kws["nb_easy_neg"]), "Z"),
            tr.coerce(tr.expr(kws["score_class"]), "L"), tr.coerce(tr.expr(kws["equal_class"]), "L"),
            tr.coerce(tr.expr(kws["is_sorted"]), "B")]
    return HEADER.format(src="Scores.swap") + f"Definition gen_swap (s : scores) : scores :=\n  mk_scores {' '.join(args)}.\n"


# ------------------------------------------------------------------ auc
AUC_POINTS = "np.nextafter(np.concatenate([self.pos, self.neg]), [[-np.inf], [np.inf]])"
AUC_TRY = ("try:\n    trapezoid = np.trapezoid\nexcept AttributeError:\n    trapezoid = np.trapz")


def c_concat_n(tr, e):
    if len(e.args) != 1 or not isinstance(e.args[0], ast.List) or e.keywords:
        raise Reject("concatenate shape")
    parts = []
    for x in e.args[0].elts:
        if isinstance(x, ast.List):     # a literal one-element list such as [lower]
            if len(x.elts) != 1:
                raise Reject("list literal in concatenate")
            parts.append(f"[{tr.coerce(tr.expr(x.elts[0]), 'Q')}]")
        else:
            parts.append(tr.coerce(tr.expr(x), "LQ"))
    return ("(" + " ++ ".join(parts) + ")", "LQ")


def c_searchsorted_q(tr, e):
    if len(e.args) != 2:
        raise Reject("searchsorted arity")
    a = tr.coerce(tr.expr(e.args[0]), "LQ")
    v = tr.coerce(tr.expr(e.args[1]), "Q")
    sd = tr.coerce(tr.expr(_kw(e, "side")), "SIDE")
    return (f"(searchsorted {sd} {a} (Fin {v}))", "Z")


def c_flatten(tr, e):
    return tr.expr(e.func.value)


def c_flip(tr, e):
    """np.flip(a) of a 1-d array = a[::-1]"""
    if len(e.args) != 1 or e.keywords:
        raise Reject("np.flip call shape")
    return (f"(rev {tr.coerce(tr.expr(e.args[0]), 'LQ')})", "LQ")


def c_abs(tr, e):
    return (f"(Qabs {tr.coerce(tr.expr(e.args[0]), 'Q')})", "Q")


def c_trapezoid(tr, e):
    if tr.env.get("trapezoid", (None, None))[1] != "TRAPZ" or len(e.args) != 2:
        raise Reject("trapezoid call")
    y, x = (tr.coerce(tr.expr(a), "LQ") for a in e.args)
    return (f"(trapz {y} {x})", "Q")


class AucTr(ThrTr):
    def expr(self, e):
        if isinstance(e, ast.Subscript) and isinstance(e.value, ast.Name) and self.env.get(e.value.id, (None, None))[1] == "LQ":
            base = self.env[e.value.id][0]
            sl = e.slice
            if isinstance(sl, ast.Slice):
                if sl.lower is None and sl.upper is None and sl.step is not None and ast.unparse(sl.step) == "-1":
                    return (f"(rev {base})", "LQ")
                if sl.step is None and sl.lower is not None and sl.upper is not None:
                    lo = self.coerce(self.expr(sl.lower), "Z")
                    hi = self.coerce(self.expr(sl.upper), "Z")
                    return (f"(slice {base} {lo} {hi})", "LQ")
                raise Reject("slice shape " + ast.unparse(e))
        if isinstance(e, ast.Call) and isinstance(e.func, ast.Call) and ast.unparse(e.func.func) == "getattr":
            # getattr(self, x_axis)(points)
            g = e.func
            if len(g.args) != 2 or ast.unparse(g.args[0]) != "self" or len(e.args) != 1 or e.keywords:
                raise Reject("getattr call shape")
            ax = self.coerce(self.expr(g.args[1]), "AX")
            pts = self.coerce(self.expr(e.args[0]), "LQ")
            return (f"(map (axis_at {ax} s) {pts})", "LQ")
        return super().expr(e)

    def special_stmt(self, s):
        src = ast.unparse(s)
        if src == "points = " + AUC_POINTS:
            self.env["points"] = ("points", "LQ")
            return "let points := (let all := (pos s) ++ (neg s) in map pred all ++ map succ all) in"
        if src == AUC_TRY:
            self.env["trapezoid"] = ("trapezoid", "TRAPZ")
            return ""
        return super().special_stmt(s)


def translate_auc(repo):
    path = os.path.join(repo, "score_analysis", "scores.py")
    tree = ast.parse(open(path).read())
    pyast.set_helpers(tree, "Scores")
    fn = find_function(tree, "auc", cls="Scores")
    if [a.arg for a in fn.args.args] != ["self", "lower", "upper"] or [ast.unparse(d) for d in fn.args.defaults] != ["0.0", "1.0"]:
        raise Reject("auc positional signature/defaults")
    if [a.arg for a in fn.args.kwonlyargs] != ["x_axis", "y_axis"] or [ast.unparse(d) for d in fn.args.kw_defaults] != ["'fpr'", "'tpr'"]:
        raise Reject("auc keyword signature/defaults")
    calls = dict(THR_CALLS)
    # np.hstack of 1-d pieces = np.concatenate, np.flip of a 1-d array = [::-1]: exact library equivalences
    calls.update({"np.hstack": c_concat_n, "np.flip": c_flip})
    calls.update({"np.sort": c_sort, "np.concatenate": c_concat_n, "np.searchsorted": c_searchsorted_q, "points.flatten": c_flatten,
                  "np.abs": c_abs, "trapezoid": c_trapezoid, "len": c_len})
    tr = AucTr(env={"lower": ("lower", "Q"), "upper": ("upper", "Q"), "x_axis": ("x_axis", "AX"), "y_axis": ("y_axis", "AX")},
               self_fields=SELF_FIELDS, calls=calls)
    body = tr.block(strip_doc(fn.body))
    return (HEADER.format(src="Scores.auc").replace("Model.Scores", "Model.Auc") +
            "Definition side_eqb (a b : side) : bool := match a, b with SLeft, SLeft | SRight, SRight => true | _, _ => false end.\n"
            "Section Gen.\nVariable succ pred : Q -> Q.\n"
            f"Definition gen_auc (s : scores) (lower upper : Q) (x_axis y_axis : axis) : Q :=\n  {body}.\nEnd Gen.\n")


# ------------------------------------------------------------------ eer / _find_root
FIND_ROOT_BODY = """if not f(xa) <= 0 <= f(xe):
    raise ValueError(f'f({xa}) <= 0 <= f({xe}) not satisfied.')
while not np.abs(xa - xe) < xtol:
    xm = (xa + xe) / 2
    if f(xm) < 0:
        xa = xm
    elif f(xm) > 0:
        xe = xm
    elif find_first:
        xe = xm
    else:
        xa = xm
return (xa + xe) / 2"""


def c_tfpr(tr, e):
    if len(e.args) != 1 or e.keywords:
        raise Reject("threshold_at_fpr call shape inside eer")
    return (f"(t_fpr succ pred s {tr.coerce(tr.expr(e.args[0]), 'Q')})", "Q")


def c_tfnr(tr, e):
    if len(e.args) != 1 or e.keywords:
        raise Reject("threshold_at_fnr call shape inside eer")
    return (f"(t_fnr succ pred s {tr.coerce(tr.expr(e.args[0]), 'Q')})", "Q")


def c_sign(tr, e):
    return (f"(Qsgn {tr.coerce(tr.expr(e.args[0]), 'Q')})", "Q")


def c_min2(tr, e):
    if len(e.args) != 2:
        raise Reject("min arity")
    a, b = (tr.coerce(tr.expr(x), "Q") for x in e.args)
    return (f"(Qmin2 {a} {b})", "Q")


def c_isclose(tr, e):
    if len(e.args) != 2 or e.keywords:
        raise Reject("np.isclose with tolerances")
    a, b = (tr.coerce(tr.expr(x), "Q") for x in e.args)
    return (f"(isclose {a} {b})", "B")


def c_local_f(tr, e):
    if tr.env.get("f", (None, None))[1] != "FUN" or len(e.args) != 1:
        raise Reject("call of f")
    return (f"(f {tr.coerce(tr.expr(e.args[0]), 'Q')})", "Q")


class EerTr(AucTr):
    def expr(self, e):
        # self.pos[0], self.neg[-1]
        if isinstance(e, ast.Subscript) and isinstance(e.value, ast.Attribute) and ast.unparse(e.value) in ("self.pos", "self.neg"):
            base = self.self_fields[e.value.attr][0]
            idx = ast.unparse(e.slice)
            if idx == "0":
                return (f"(nthZ {base} 0)", "Q")
            if idx == "-1":
                return (f"(nthZ {base} (len {base} - 1))", "Q")
            raise Reject("index " + idx)
        # (a + b) / 2  ->  norm ((a + b) / 2)   (midpoints are kept in lowest terms; norm x == x)
        if (isinstance(e, ast.BinOp) and isinstance(e.op, ast.Div) and isinstance(e.right, ast.Constant) and e.right.value == 2
                and isinstance(e.left, ast.BinOp) and isinstance(e.left.op, ast.Add)):
            a, b = self.coerce(self.expr(e.left.left), "Q"), self.coerce(self.expr(e.left.right), "Q")
            return (f"(norm (({a} + {b}) / 2))", "Q")
        return super().expr(e)

    def special_stmt(self, s):
        # nested helper: def f(x): y = A; y = sign * y; return y
        if isinstance(s, ast.FunctionDef) and s.name == "f":
            if [a.arg for a in s.args.args] != ["x"]:
                raise Reject("signature of nested f")
            sub = EerTr(env=dict(self.env, x=("x", "Q")), self_fields=self.self_fields, self_props=self.self_props, calls=self.calls)
            body = sub.block(strip_doc(s.body))
            self.env["f"] = ("f", "FUN")
            return f"let f := (fun x : Q => {body}) in"
        return super().special_stmt(s)

    def block(self, stmts):
        # left = self._find_root(f, 0.0, max_eer, find_first=True)  -> bind on the result
        if stmts and isinstance(stmts[0], ast.Assign) and isinstance(stmts[0].value, ast.Call) and \
                ast.unparse(stmts[0].value.func) == "self._find_root":
            s = stmts[0]
            c = s.value
            if len(c.args) != 3 or ast.unparse(c.args[0]) != "f" or [k.arg for k in c.keywords] != ["find_first"]:
                raise Reject("_find_root call shape")
            xa, xe = (self.coerce(self.expr(a), "Q") for a in c.args[1:])
            ff = self.coerce(self.expr(c.keywords[0].value), "B")
            name = s.targets[0].id
            var = name + "_root"      # `left`/`right` are constructors in Coq
            self.env[name] = (var, "Q")
            return (f"(match find_root fuel f {xa} {xe} {ff} xtol_default with\n  | Ret {var} => {self.block(stmts[1:])}\n  | Raise => Raise end)")
        return super().block(stmts)


def _ret_pair(tr, v):
    if not (isinstance(v[1], tuple) and v[1][0] == "T" and len(v[1][1]) == 2):
        raise Reject("eer must return a pair")
    return f"(Ret {v[0]})"


def translate_eer(repo):
    path = os.path.join(repo, "score_analysis", "scores.py")
    tree = ast.parse(open(path).read())
    pyast.set_helpers(tree, "Scores")
    fr = find_function(tree, "_find_root", cls="Scores")
    if [a.arg for a in fr.args.args] != ["f", "xa", "xe", "find_first", "xtol"] or [ast.unparse(d) for d in fr.args.defaults] != ["1e-10"]:
        raise Reject("_find_root signature")
    got = "\n".join(ast.unparse(st) for st in strip_doc(fr.body))
    if got != FIND_ROOT_BODY:
        raise Reject("_find_root body differs from the modelled loop:\n" + got)
    fn = find_function(tree, "eer", cls="Scores")
    if [a.arg for a in fn.args.args] != ["self"]:
        raise Reject("eer signature")
    calls = dict(THR_CALLS)
    def c_float64(tr_, e):
        # np.float64(x): conversion of a score to double precision; the identity on the exact values of the model
        if len(e.args) != 1 or e.keywords:
            raise Reject("np.float64 takes one positional argument here")
        return tr_.expr(e.args[0])
    calls.update({"self.threshold_at_fpr": c_tfpr, "self.threshold_at_fnr": c_tfnr, "np.sign": c_sign, "min": c_min2,
                  "np.isclose": c_isclose, "f": c_local_f, "np.float64": c_float64})
    props = {"hard_pos_ratio": ("(hard_pos_ratio s)", "Q"), "hard_neg_ratio": ("(hard_neg_ratio s)", "Q")}
    tr = EerTr(env={}, self_fields=SELF_FIELDS, self_props=props, calls=calls, ret_wrap=_ret_pair)
    body = tr.block(strip_doc(fn.body))
    return (HEADER.format(src="Scores.eer / Scores._find_root").replace("Model.Scores", "Model.Eer") +
            "Section Gen.\nVariable succ pred : Q -> Q.\nVariable fuel : nat.\n"
            f"Definition gen_eer (s : scores) : res (Q * Q) :=\n  {body}.\nEnd Gen.\n"
            "Definition gen_find_root_loop_is_the_modelled_one : bool := true.\n")


# ------------------------------------------------------------------ pointwise_cm (decision table)
PW_PRELUDE = [
    "labels = np.asarray(labels)", "scores = np.asarray(scores)", "threshold = np.asarray(threshold)",
    "score_class = BinaryLabel(score_class)", "equal_class = BinaryLabel(equal_class)",
    "scores_shape = scores.shape", "labels = np.reshape(labels, -1)", "labels = labels[:, np.newaxis]",
    "scores = np.reshape(scores, -1)", "scores = scores[:, np.newaxis]", "threshold_shape = threshold.shape",
    "threshold = np.reshape(threshold, -1)", "threshold = threshold[np.newaxis, :]",
    "pos = labels == pos_label", "neg = labels != pos_label",
]
PW_EPILOGUE = [
    "cm = np.reshape(cm, (scores.size, *threshold_shape, 2, 2))",
    "cm = np.reshape(cm, (*scores_shape, *threshold_shape, 2, 2))",
    "return cm",
]
CMP = {ast.GtE: "ge_ext", ast.Gt: "gt_ext", ast.LtE: "le_ext", ast.Lt: "lt_ext"}


def translate_pointwise(repo):
    """The per-sample, per-threshold part of pointwise_cm: the comparison table and the four cells.
    The flatten / broadcast / reshape bookkeeping around it is pinned textually (shape theorems: C10)."""
    path = os.path.join(repo, "score_analysis", "scores.py")
    tree = ast.parse(open(path).read())
    pyast.set_helpers(tree, "Scores")
    fn = find_function(tree, "pointwise_cm")
    body = strip_doc(fn.body)
    src = [ast.unparse(s) for s in body]
    if src[: len(PW_PRELUDE)] != PW_PRELUDE:
        raise Reject("pointwise_cm prelude changed: " + "; ".join(src[: len(PW_PRELUDE)]))
    if src[-len(PW_EPILOGUE):] != PW_EPILOGUE:
        raise Reject("pointwise_cm epilogue changed: " + "; ".join(src[-len(PW_EPILOGUE):]))
    mid = body[len(PW_PRELUDE): len(body) - len(PW_EPILOGUE)]
    if len(mid) != 6 or not isinstance(mid[0], ast.If):
        raise Reject("pointwise_cm middle part shape")

    def cond(test):
        # score_class == BinaryLabel.X and equal_class == BinaryLabel.Y
        if not (isinstance(test, ast.BoolOp) and isinstance(test.op, ast.And) and len(test.values) == 2):
            raise Reject("branch condition " + ast.unparse(test))
        out = []
        for v, name in zip(test.values, ("score_class", "equal_class")):
            if ast.unparse(v) not in (f"{name} == BinaryLabel.pos", f"{name} == BinaryLabel.neg"):
                raise Reject("branch condition " + ast.unparse(v))
            out.append("Pos" if ast.unparse(v).endswith("pos") else "Neg")
        return tuple(out)

    def pair(stmts):
        if len(stmts) != 2:
            raise Reject("branch body")
        res = {}
        for st, name in zip(stmts, ("top", "ton")):
            if not (isinstance(st, ast.Assign) and ast.unparse(st.targets[0]) == name and isinstance(st.value, ast.Compare)
                    and ast.unparse(st.value.left) == "scores" and ast.unparse(st.value.comparators[0]) == "threshold"):
                raise Reject("branch assignment " + ast.unparse(st))
            res[name] = CMP[type(st.value.ops[0])]
        return res["top"], res["ton"]

    table = {}
    node = mid[0]
    while True:
        table[cond(node.test)] = pair(node.body)
        if len(node.orelse) == 1 and isinstance(node.orelse[0], ast.If):
            node = node.orelse[0]
        else:
            rest = [k for k in (("Pos", "Pos"), ("Pos", "Neg"), ("Neg", "Pos"), ("Neg", "Neg")) if k not in table]
            if len(rest) != 1:
                raise Reject("decision table does not cover exactly the four configurations")
            table[rest[0]] = pair(node.orelse)
            break
    if ast.unparse(mid[1]) != "cm = np.empty((scores.size, threshold.size, 2, 2), dtype=bool)":
        raise Reject("cm allocation: " + ast.unparse(mid[1]))
    cells = {}
    for st in mid[2:]:
        t = ast.unparse(st.targets[0])
        v = ast.unparse(st.value)
        if not (t.startswith("cm[..., ") and v in ("pos & top", "pos & ton", "neg & top", "neg & ton")):
            raise Reject("cell assignment " + ast.unparse(st))
        cells[t[len("cm[..., "):-1]] = v
    if set(cells) != {"0, 0", "0, 1", "1, 0", "1, 1"}:
        raise Reject("cells assigned: " + str(sorted(cells)))
    tr = {"pos & top": "(is_pos && top_)", "pos & ton": "(is_pos && ton_)", "neg & top": "(negb is_pos && top_)", "neg & ton": "(negb is_pos && ton_)"}
    rows = "\n".join(f"    | {a}, {b} => ({table[(a, b)][0]} x t, {table[(a, b)][1]} x t)" for a, b in
                     (("Pos", "Pos"), ("Pos", "Neg"), ("Neg", "Pos"), ("Neg", "Neg")))
    return (HEADER.format(src="pointwise_cm") +
            "Definition gen_pointwise_cm1 (sc ec : label) (is_pos : bool) (x : Q) (t : ext) : cmz :=\n"
            f"  let '(top_, ton_) :=\n    match sc, ec with\n{rows}\n    end in\n"
            f"  mkCmz (b2z {tr[cells['0, 0']]}) (b2z {tr[cells['0, 1']]}) (b2z {tr[cells['1, 0']]}) (b2z {tr[cells['1, 1']]}).\n")
