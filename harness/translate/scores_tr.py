"""Translator instances for score_analysis/scores.py (tie T)."""
import ast
import os

from .pyast import Reject, Tr, find_function, strip_doc

SELF_FIELDS = {
    "pos": ("(pos s)", "LQ"), "neg": ("(neg s)", "LQ"),
    "nb_easy_pos": ("(easy_pos s)", "Z"), "nb_easy_neg": ("(easy_neg s)", "Z"),
    "score_class": ("(score_class s)", "L"), "equal_class": ("(equal_class s)", "L"),
}


def _kw(e, name):
    for k in e.keywords:
        if k.arg == name:
            return k.value
    raise Reject(f"keyword {name} missing")


def c_asarray(tr, e):
    if len(e.args) != 1 or e.keywords:
        raise Reject("np.asarray with extra arguments")
    return tr.expr(e.args[0])


def c_searchsorted(tr, e):
    if len(e.args) != 2:
        raise Reject("searchsorted arity")
    a = tr.coerce(tr.expr(e.args[0]), "LQ")
    v = tr.coerce(tr.expr(e.args[1]), "EXT")
    sd = tr.coerce(tr.expr(_kw(e, "side")), "SIDE")
    return (f"(searchsorted {sd} {a} {v})", "Z")


def c_len(tr, e):
    return (f"(len {tr.coerce(tr.expr(e.args[0]), 'LQ')})", "Z")


def c_confusion_matrix(tr, e):
    kws = {k.arg: k.value for k in e.keywords}
    if set(kws) != {"matrix", "binary"} or e.args:
        raise Reject("ConfusionMatrix call shape")
    if not (isinstance(kws["binary"], ast.Constant) and kws["binary"].value is True):
        raise Reject("ConfusionMatrix(binary=...) is not True")
    if tr.expr(kws["matrix"])[1] != "CM":
        raise Reject("matrix argument is not the assembled matrix")
    if set(tr.cells) != {(0, 0), (0, 1), (1, 0), (1, 1)}:
        raise Reject(f"cells assigned: {sorted(tr.cells)}")
    return (f"(mkCmz {tr.cells[(0, 0)]} {tr.cells[(0, 1)]} {tr.cells[(1, 0)]} {tr.cells[(1, 1)]})", "CMZ")


class CmTr(Tr):
    def special_stmt(self, s):
        # matrix = np.empty((*threshold.shape, 2, 2), dtype=int)
        if (isinstance(s, ast.Assign) and isinstance(s.targets[0], ast.Name) and s.targets[0].id == "matrix"
                and isinstance(s.value, ast.Call) and ast.unparse(s.value.func) == "np.empty"):
            if ast.unparse(s.value) != "np.empty((*threshold.shape, 2, 2), dtype=int)":
                raise Reject("matrix allocation: " + ast.unparse(s.value))
            self.env["matrix"] = ("matrix", "CM")
            self.cells = {}
            return ""
        # matrix[..., i, j] = v
        if isinstance(s, ast.Assign) and isinstance(s.targets[0], ast.Subscript):
            t = s.targets[0]
            if not (isinstance(t.value, ast.Name) and t.value.id == "matrix" and isinstance(t.slice, ast.Tuple)
                    and len(t.slice.elts) == 3 and isinstance(t.slice.elts[0], ast.Constant) and t.slice.elts[0].value is Ellipsis):
                raise Reject("subscript store " + ast.unparse(t))
            i, j = (x.value for x in t.slice.elts[1:])
            if (i, j) in self.cells:
                raise Reject("cell assigned twice")
            self.cells[(i, j)] = self.coerce(self.expr(s.value), "Z")
            return ""
        return None


HEADER = "(* generated from {src} by harness/translate — do not edit *)\nFrom SA Require Import Model.Scores.\nOpen Scope Q_scope.\n"


def translate_cm(repo):
    path = os.path.join(repo, "score_analysis", "scores.py")
    tree = ast.parse(open(path).read())
    fn = find_function(tree, "cm", cls="Scores")
    args = [a.arg for a in fn.args.args]
    if args != ["self", "threshold"]:
        raise Reject(f"cm signature {args}")
    tr = CmTr(env={"threshold": ("threshold", "EXT")}, self_fields=SELF_FIELDS,
              calls={"np.asarray": c_asarray, "np.searchsorted": c_searchsorted, "len": c_len,
                     "ConfusionMatrix": c_confusion_matrix})
    body = tr.block(strip_doc(fn.body))
    return HEADER.format(src="Scores.cm") + (
        "Definition side_eqb (a b : side) : bool := match a, b with SLeft, SLeft | SRight, SRight => true | _, _ => false end.\n"
        f"Definition gen_cm (s : scores) (threshold : ext) : cmz :=\n  {body}.\n")


if __name__ == "__main__":
    import sys
    print(translate_cm(sys.argv[1] if len(sys.argv) > 1 else "/repo"))
