"""Translator instance (tie T) for Scores.bootstrap_metric, Scores.bootstrap_ci and the custom-sampler arms of
Scores.bootstrap_sample (score_analysis/scores.py).  Fail-closed: only the statement/expression shapes listed here
are accepted, everything else raises Reject.  What is accepted is translated *as written* (which object getattr is
applied to, which arguments are forwarded, in which keyword slots), so a changed source yields a different Gallina
term and the tie lemmas of coq/ties/Tie_boot.v stop checking.

Emitted definitions take all parameters of Model/BootMetric.v explicitly (fixed arity):
  gen_bootstrap_metric, gen_bootstrap_ci, gen_sample_tail."""
import ast
import os

from .pyast import Reject, find_function, strip_doc

PARAMS = ("(S K V N H R : Type) (dynamic_choice : S -> config S -> sampling S) "
          "(builtin_sample : sampling S -> S -> config S -> H -> res S) "
          "(getattr_type getattr_self : S -> N -> metric_fn S K V) (no_kwargs : K) "
          "(utils_bootstrap_ci : list V -> option V -> Q -> method -> res R)")


def _u(e):
    return ast.unparse(e)


class BootTr:
    def __init__(self):
        self.objs = {"self"}          # names bound to Scores objects
        self.metric_bound = False     # `metric` re-bound by the isinstance/getattr statement

    # ---- expressions
    def obj(self, e):
        if isinstance(e, ast.Name) and e.id in self.objs:
            return e.id
        raise Reject(f"object expression {_u(e)}")

    def kwargs_of(self, call):
        """returns the Gallina kwargs term for a call: **kwargs forwarded, or nothing forwarded"""
        stars = [k for k in call.keywords if k.arg is None]
        if len(stars) > 1:
            raise Reject("several ** arguments")
        if stars:
            if not (isinstance(stars[0].value, ast.Name) and stars[0].value.id == "kwargs"):
                raise Reject(f"** argument {_u(stars[0].value)}")
            return "kwargs"
        return "no_kwargs"

    def metric_call(self, e):
        """metric(<obj>, **kwargs)"""
        if not (isinstance(e, ast.Call) and isinstance(e.func, ast.Name) and e.func.id == "metric"):
            raise Reject(f"expected a call of metric: {_u(e)}")
        if len(e.args) != 1 or any(k.arg is not None for k in e.keywords):
            raise Reject(f"metric call shape {_u(e)}")
        return f"(metric {self.obj(e.args[0])} {self.kwargs_of(e)})"

    def getattr_expr(self, e):
        """getattr(type(self), metric) | getattr(self, metric)"""
        if not (isinstance(e, ast.Call) and isinstance(e.func, ast.Name) and e.func.id == "getattr"
                and len(e.args) == 2 and not e.keywords):
            raise Reject(f"expected getattr(., metric): {_u(e)}")
        tgt, name = e.args
        if not (isinstance(name, ast.Name) and name.id == "metric"):
            raise Reject(f"getattr name argument {_u(name)}")
        if _u(tgt) == "type(self)":
            return "getattr_type self nm"
        if _u(tgt) == "self":
            return "getattr_self self nm"
        raise Reject(f"getattr target {_u(tgt)}")

    def nat_expr(self, e):
        if _u(e) == "config.nb_samples":
            return "(nb_samples config)"
        if isinstance(e, ast.Constant) and isinstance(e.value, int) and e.value >= 0:
            return f"{e.value}%nat"
        if isinstance(e, ast.BinOp) and isinstance(e.op, (ast.Add, ast.Sub)):
            sym = "+" if isinstance(e.op, ast.Add) else "-"
            return f"({self.nat_expr(e.left)} {sym} {self.nat_expr(e.right)})%nat"
        raise Reject(f"loop bound {_u(e)}")

    # ---- statements
    def resolve_stmt(self, s):
        """if isinstance(metric, str): metric = getattr(..., metric)"""
        if not (isinstance(s, ast.If) and not s.orelse and _u(s.test) == "isinstance(metric, str)"
                and len(s.body) == 1 and isinstance(s.body[0], ast.Assign) and len(s.body[0].targets) == 1
                and _u(s.body[0].targets[0]) == "metric"):
            raise Reject(f"expected the metric-name resolution statement, got: {_u(s)[:80]}")
        g = self.getattr_expr(s.body[0].value)
        return f"let metric := match metric with ByName nm => {g} | Callable f => f end in"

    def sample_call(self, e):
        """self.bootstrap_sample(config=config)"""
        if not (isinstance(e, ast.Call) and _u(e.func) == "self.bootstrap_sample" and not e.args
                and len(e.keywords) == 1 and e.keywords[0].arg == "config" and _u(e.keywords[0].value) == "config"):
            raise Reject(f"expected self.bootstrap_sample(config=config): {_u(e)}")
        return "(bootstrap_sample S H dynamic_choice builtin_sample self config (hist j) j)"

    def bootstrap_metric(self, fn):
        args = [a.arg for a in fn.args.args]
        if args != ["self", "metric", "config"] or fn.args.kwarg is None or fn.args.kwarg.arg != "kwargs" or fn.args.vararg:
            raise Reject(f"bootstrap_metric signature {args}")
        body = strip_doc(fn.body)
        if len(body) != 5:
            raise Reject(f"bootstrap_metric has {len(body)} statements, expected 5")
        out = [self.resolve_stmt(body[0])]
        s = body[1]
        if not (isinstance(s, ast.Assign) and _u(s.targets[0]) == "m" and isinstance(s.value, ast.Call)
                and _u(s.value.func) == "np.asarray" and len(s.value.args) == 1 and not s.value.keywords):
            raise Reject(f"expected m = np.asarray(metric(self, **kwargs)): {_u(s)}")
        out.append(f"let m := {self.metric_call(s.value.args[0])} in")
        s = body[2]
        if not (isinstance(s, ast.Assign) and _u(s.targets[0]) == "res"
                and _u(s.value) == "np.empty(shape=(config.nb_samples, *m.shape), dtype=m.dtype)"):
            raise Reject(f"allocation of res: {_u(s)}")
        s = body[3]
        if not (isinstance(s, ast.For) and not s.orelse and isinstance(s.target, ast.Name) and s.target.id == "j"
                and isinstance(s.iter, ast.Call) and _u(s.iter.func) == "range" and len(s.iter.args) == 1 and not s.iter.keywords):
            raise Reject(f"expected for j in range(...): {_u(s)[:80]}")
        bound = self.nat_expr(s.iter.args[0])
        if len(s.body) != 2:
            raise Reject("loop body must be two statements")
        a, b = s.body
        if not (isinstance(a, ast.Assign) and len(a.targets) == 1 and isinstance(a.targets[0], ast.Name)):
            raise Reject(f"loop statement 1: {_u(a)}")
        sname = a.targets[0].id
        samp = self.sample_call(a.value)
        self.objs.add(sname)
        if not (isinstance(b, ast.Assign) and len(b.targets) == 1 and _u(b.targets[0]) == "res[j]"):
            raise Reject(f"loop statement 2 must assign res[j]: {_u(b)}")
        row = self.metric_call(b.value)
        self.objs.discard(sname)
        out.append(f"for_rows {bound} (fun j => res_bind {samp} (fun {sname} => Ok {row}))")
        if not (isinstance(body[4], ast.Return) and _u(body[4].value) == "res"):
            raise Reject("bootstrap_metric must return res")
        return "\n    ".join(out)

    def bootstrap_ci(self, fn):
        args = [a.arg for a in fn.args.args]
        if args != ["self", "metric", "alpha", "config"] or fn.args.kwarg is None or fn.args.kwarg.arg != "kwargs":
            raise Reject(f"bootstrap_ci signature {args}")
        body = strip_doc(fn.body)
        if len(body) != 4:
            raise Reject(f"bootstrap_ci has {len(body)} statements, expected 4")
        out = [self.resolve_stmt(body[0])]
        s = body[1]
        if not (isinstance(s, ast.Assign) and _u(s.targets[0]) == "samples" and isinstance(s.value, ast.Call)
                and _u(s.value.func) == "self.bootstrap_metric"):
            raise Reject(f"expected samples = self.bootstrap_metric(...): {_u(s)}")
        c = s.value
        named = {k.arg: k.value for k in c.keywords if k.arg is not None}
        if len(c.args) != 1 or _u(c.args[0]) != "metric" or set(named) != {"config"} or _u(named["config"]) != "config":
            raise Reject(f"bootstrap_metric call shape {_u(c)}")
        kw = self.kwargs_of(c)
        out.append("res_bind (gen_bootstrap_metric S K V N H R dynamic_choice builtin_sample getattr_type getattr_self "
                   f"no_kwargs utils_bootstrap_ci self (Callable metric) config hist {kw}) (fun samples =>")
        s = body[2]
        if not (isinstance(s, ast.Assign) and _u(s.targets[0]) == "ci" and isinstance(s.value, ast.Call)
                and _u(s.value.func) == "utils.bootstrap_ci" and not s.value.args):
            raise Reject(f"expected ci = utils.bootstrap_ci(keywords...): {_u(s)}")
        kws = {}
        for k in s.value.keywords:
            if k.arg is None or k.arg in kws or k.arg not in ("theta", "theta_hat", "alpha", "method"):
                raise Reject(f"utils.bootstrap_ci keyword {k.arg}")
            kws[k.arg] = k.value
        if "theta" not in kws:
            raise Reject("utils.bootstrap_ci without theta")
        if not (isinstance(kws["theta"], ast.Name) and kws["theta"].id == "samples"):
            raise Reject(f"theta argument {_u(kws['theta'])}")
        theta = "samples"
        th = f"(Some {self.metric_call(kws['theta_hat'])})" if "theta_hat" in kws else "None"
        if "alpha" in kws:
            if _u(kws["alpha"]) != "alpha":
                raise Reject(f"alpha argument {_u(kws['alpha'])}")
            al = "alpha"
        else:
            al = "(5 # 100)"       # default of utils.bootstrap_ci
        if "method" in kws:
            if _u(kws["method"]) != "config.bootstrap_method":
                raise Reject(f"method argument {_u(kws['method'])}")
            me = "(bootstrap_method config)"
        else:
            me = "MQuantile"       # default of utils.bootstrap_ci
        out.append(f"utils_bootstrap_ci {theta} {th} {al} {me})")
        if not (isinstance(body[3], ast.Return) and _u(body[3].value) == "ci"):
            raise Reject("bootstrap_ci must return ci")
        return "\n    ".join(out)


def sample_tail(fn):
    """the if/elif chain of Scores.bootstrap_sample: three built-in tests, then
       elif isinstance(sampling_method, str): raise / elif callable(sampling_method): scores = sampling_method(self) / else: raise"""
    body = strip_doc(fn.body)
    if len(body) != 3:
        raise Reject(f"bootstrap_sample has {len(body)} top-level statements, expected 3")
    if _u(body[0]) != "sampling_method = self._sampling_method(config)":
        raise Reject(f"first statement {_u(body[0])[:80]}")
    if not (isinstance(body[2], ast.Return) and _u(body[2].value) == "scores"):
        raise Reject("bootstrap_sample must return scores")
    node = body[1]
    for const in ("SAMPLING_METHOD_REPLACEMENT", "SAMPLING_METHOD_SINGLE_PASS", "SAMPLING_METHOD_PROPORTION"):
        if not (isinstance(node, ast.If) and _u(node.test) == f"sampling_method == {const}" and len(node.orelse) == 1):
            raise Reject(f"expected the {const} arm")
        node = node.orelse[0]
    arms = []
    while True:
        if not isinstance(node, ast.If):
            raise Reject("tail arm is not an if")
        t = _u(node.test)
        if t == "isinstance(sampling_method, str)":
            cond = "is_str sampling_method"
        elif t == "callable(sampling_method)":
            cond = "is_callable sampling_method"
        else:
            raise Reject(f"tail test {t}")
        arms.append((cond, tail_action(node.body)))
        if len(node.orelse) == 1 and isinstance(node.orelse[0], ast.If):
            node = node.orelse[0]
            continue
        final = tail_action(node.orelse)
        break
    txt = final
    for cond, act in reversed(arms):
        txt = f"(if {cond} then {act} else {txt})"
    return txt


def tail_action(stmts):
    if len(stmts) != 1:
        raise Reject("tail arm must be one statement")
    s = stmts[0]
    if isinstance(s, ast.Raise):
        if not (isinstance(s.exc, ast.Call) and _u(s.exc.func) == "ValueError"):
            raise Reject(f"raise of {_u(s)[:60]}")
        return "Err"
    if isinstance(s, ast.Assign) and _u(s.targets[0]) == "scores" and _u(s.value) == "sampling_method(self)":
        return "Ok (call_sampler sampling_method j self)"
    raise Reject(f"tail arm statement {_u(s)[:80]}")


HEADER = ("(* generated from score_analysis/scores.py (Scores.bootstrap_metric, bootstrap_ci, bootstrap_sample) by "
          "harness/translate/boot_tr.py — do not edit *)\nFrom SA Require Import Model.BootMetric.\nOpen Scope Q_scope.\n")


def translate_boot(repo):
    path = os.path.join(repo, "score_analysis", "scores.py")
    tree = ast.parse(open(path).read())
    bm = BootTr().bootstrap_metric(find_function(tree, "bootstrap_metric", cls="Scores"))
    bc = BootTr().bootstrap_ci(find_function(tree, "bootstrap_ci", cls="Scores"))
    tail = sample_tail(find_function(tree, "bootstrap_sample", cls="Scores"))
    # GroupScores must inherit both functions (it overrides bootstrap_sample only)
    gpath = os.path.join(repo, "score_analysis", "group_scores.py")
    gtree = ast.parse(open(gpath).read())
    for n in gtree.body:
        if isinstance(n, ast.ClassDef) and n.name == "GroupScores":
            if [_u(b) for b in n.bases] != ["Scores"]:
                raise Reject(f"GroupScores bases {[_u(b) for b in n.bases]}")
            for m in n.body:
                if isinstance(m, ast.FunctionDef) and m.name in ("bootstrap_metric", "bootstrap_ci"):
                    raise Reject(f"GroupScores overrides {m.name}")
            break
    else:
        raise Reject("class GroupScores not found")
    return HEADER + (
        f"Definition gen_bootstrap_metric {PARAMS}\n"
        "    (self : S) (metric : metric_arg S K V N) (config : config S) (hist : nat -> H) (kwargs : K) : res (list V) :=\n"
        f"    {bm}.\n\n"
        f"Definition gen_bootstrap_ci {PARAMS}\n"
        "    (self : S) (metric : metric_arg S K V N) (alpha : Q) (config : config S) (hist : nat -> H) (kwargs : K) : res R :=\n"
        f"    {bc}.\n\n"
        "Definition gen_sample_tail (S : Type) (sampling_method : sampling S) (self : S) (j : nat) : res S :=\n"
        f"    {tail}.\n")


if __name__ == "__main__":
    import sys
    print(translate_boot(sys.argv[1] if len(sys.argv) > 1 else "/repo"))
