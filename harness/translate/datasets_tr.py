"""Translator instance for score_analysis/experimental/datasets.py (tie T, property C20).

Fail-closed: the statements of the translated functions must have exactly the shapes recognised below; anything
else raises Reject (a broken obligation).  Emits Gen_datasets.v with shallow Gallina definitions over the primitives
of Model/Datasets.v:
  gen_nd_fnr, gen_nd_fpr, gen_nd_threshold_at_fnr, gen_nd_threshold_at_fpr   (NormalDataset, one scalar argument;
      the `if np.isscalar(x): y = y.item()` tail only changes the container, checked by the correspondence run)
  gen_nd_roc                    the two argument guards, the branch on which rates were given, the four norm calls
  gen_nd_from_metrics           straight-line assignments + the keyword arguments of the NormalDataset(...) call
  gen_nd_post_init              mu_neg defaults to -mu_pos
  gen_normal_defaults           dataclass field defaults (sigma_pos, sigma_neg, p_pos)
  gen_corr_probs                the four joint probabilities of CorrelatedBernoullilDataset.sample
Trusted tables: scipy.stats.norm.F(x, loc=, scale=) = the loc/scale convention of Model/Datasets.v (norm_cdf etc.),
F(x) with no loc/scale = the standard function, int(x) = truncation (Qtrunc), np.sqrt = the sqrtQ parameter,
array arguments = elementwise map."""
import ast
import os
from fractions import Fraction

from .pyast import Reject, find_function, strip_doc

HEADER = ("(* generated from score_analysis/experimental/datasets.py by harness/translate/datasets_tr.py — do not edit *)\n"
          "From SA Require Import Model.Datasets.\nOpen Scope Q_scope.\n")

NORM = {"cdf": ("norm_cdf Cdf", "Cdf"), "sf": ("norm_sf Sf", "Sf"), "ppf": ("norm_ppf Ppf", "Ppf"), "isf": ("norm_isf Isf", "Isf")}
FIELDS = {"mu_pos": "mu_pos", "mu_neg": "mu_neg", "sigma_pos": "sigma_pos", "sigma_neg": "sigma_neg", "p_pos": "p_pos"}


def _u(n):
    return ast.unparse(n)


def _q(v):
    f = Fraction(v)
    return f"(Qmake ({f.numerator}) {f.denominator})"


class Ex:
    """expressions over Q: names from env, self.<field>, numeric constants, + - * /, unary minus,
    scipy.stats.norm.{cdf,sf,ppf,isf}, int(), np.sqrt"""

    def __init__(self, env, obj="d", int_names=(), self_attrs=None):
        self.env = dict(env)          # python name -> coq text (type Q)
        self.obj = obj
        self.self_attrs = self_attrs  # self.<attr> -> coq text (classes whose fields are plain parameters of the model)
        self.int_names = set(int_names)   # python names holding Z values (coq text in env is of type Z)

    def tr(self, e):
        if isinstance(e, ast.Name):
            if e.id not in self.env:
                raise Reject(f"unknown name {e.id}")
            t = self.env[e.id]
            return f"(inject_Z {t})" if e.id in self.int_names else t
        if isinstance(e, ast.Attribute) and isinstance(e.value, ast.Name) and e.value.id == "self":
            if self.self_attrs is not None:
                if e.attr not in self.self_attrs:
                    raise Reject(f"attribute self.{e.attr}")
                return self.self_attrs[e.attr]
            if e.attr not in FIELDS or self.obj is None:
                raise Reject(f"attribute self.{e.attr}")
            return f"({FIELDS[e.attr]} {self.obj})"
        if isinstance(e, ast.Constant) and isinstance(e.value, (int, float)) and not isinstance(e.value, bool):
            return _q(e.value)
        if isinstance(e, ast.UnaryOp) and isinstance(e.op, ast.USub):
            return f"(- {self.tr(e.operand)})"
        if isinstance(e, ast.BinOp) and type(e.op) in (ast.Add, ast.Sub, ast.Mult, ast.Div):
            op = {ast.Add: "+", ast.Sub: "-", ast.Mult: "*", ast.Div: "/"}[type(e.op)]
            return f"({self.tr(e.left)} {op} {self.tr(e.right)})"
        if isinstance(e, ast.Call):
            f = _u(e.func)
            if f.startswith("scipy.stats.norm.") and f.rsplit(".", 1)[1] in NORM:
                full, std = NORM[f.rsplit(".", 1)[1]]
                if len(e.args) != 1:
                    raise Reject(f"{f}: {len(e.args)} positional arguments")
                kw = {k.arg: k.value for k in e.keywords}
                if not kw:
                    return f"({std} {self.tr(e.args[0])})"
                if sorted(kw) != ["loc", "scale"]:
                    raise Reject(f"{f}: keywords {sorted(kw)}")
                return f"({full} {self.tr(e.args[0])} {self.tr(kw['loc'])} {self.tr(kw['scale'])})"
            if f == "np.sqrt" and len(e.args) == 1 and not e.keywords:
                return f"(sqrtQ {self.tr(e.args[0])})"
        raise Reject(f"expression {_u(e)[:80]}")

    def tr_int(self, e):
        """int-valued expressions: int(<Q expr>), names of ints, +"""
        if isinstance(e, ast.Call) and _u(e.func) == "int" and len(e.args) == 1 and not e.keywords:
            return f"(Qtrunc {self.tr(e.args[0])})"
        if isinstance(e, ast.Name) and e.id in self.int_names:
            return self.env[e.id]
        if isinstance(e, ast.BinOp) and isinstance(e.op, ast.Add):
            return f"({self.tr_int(e.left)} + {self.tr_int(e.right)})%Z"
        raise Reject(f"integer expression {_u(e)[:80]}")


def _simple_method(cls_tree, name, param):
    """[y = <expr>; if np.isscalar(<param>): y = y.item(); return y] -> coq text of <expr> with param -> x"""
    fn = find_function(cls_tree, name, cls="NormalDataset")
    if [a.arg for a in fn.args.args] != ["self", param] or fn.args.kwonlyargs or fn.args.vararg or fn.args.kwarg:
        raise Reject(f"{name}: parameters {[a.arg for a in fn.args.args]}")
    body = strip_doc(fn.body)
    if len(body) != 3:
        raise Reject(f"{name}: {len(body)} statements, expected 3")
    a, i, r = body
    if not (isinstance(a, ast.Assign) and len(a.targets) == 1 and isinstance(a.targets[0], ast.Name)):
        raise Reject(f"{name}: first statement {_u(a)[:60]}")
    y = a.targets[0].id
    if not (isinstance(i, ast.If) and _u(i.test) == f"np.isscalar({param})" and not i.orelse and len(i.body) == 1
            and _u(i.body[0]) == f"{y} = {y}.item()"):
        raise Reject(f"{name}: scalar tail {_u(i)[:80]}")
    if not (isinstance(r, ast.Return) and _u(r.value) == y):
        raise Reject(f"{name}: return {_u(r)[:60]}")
    return Ex({param: "x"}).tr(a.value)


def _roc(tree):
    fn = find_function(tree, "roc", cls="NormalDataset")
    if [a.arg for a in fn.args.args] != ["self"] or [a.arg for a in fn.args.kwonlyargs] != ["fnr", "fpr"]:
        raise Reject("roc: signature")
    if [_u(d) for d in fn.args.kw_defaults] != ["None", "None"]:
        raise Reject("roc: defaults")
    body = strip_doc(fn.body)
    if len(body) != 6:
        raise Reject(f"roc: {len(body)} statements, expected 6")
    g1, g2, br, a1, a2, ret = body

    def guard(st, test):
        return (isinstance(st, ast.If) and _u(st.test) == test and not st.orelse and len(st.body) == 1
                and isinstance(st.body[0], ast.Raise) and _u(st.body[0].exc).startswith("ValueError("))
    if not guard(g1, "fnr is None and fpr is None"):
        raise Reject(f"roc: first guard {_u(g1)[:80]}")
    if not guard(g2, "fnr is not None and fpr is not None"):
        raise Reject(f"roc: second guard {_u(g2)[:80]}")
    if not (isinstance(br, ast.If) and _u(br.test) == "fnr is not None" and len(br.body) == 1 and len(br.orelse) == 1):
        raise Reject(f"roc: branch {_u(br)[:80]}")
    thr = []
    for st, var in ((br.body[0], "fnr"), (br.orelse[0], "fpr")):
        if not (isinstance(st, ast.Assign) and _u(st.targets[0]) == "thresholds" and len(st.targets) == 1):
            raise Reject(f"roc: branch assignment {_u(st)[:80]}")
        thr.append(Ex({var: "q"}).tr(st.value))
    rates = []
    for st, var in ((a1, "fnr"), (a2, "fpr")):
        if not (isinstance(st, ast.Assign) and len(st.targets) == 1 and _u(st.targets[0]) == var):
            raise Reject(f"roc: rate assignment {_u(st)[:80]}")
        rates.append(Ex({"thresholds": "t"}).tr(st.value))
    if _u(ret) != "return ROCCurve(fnr=fnr, fpr=fpr, thresholds=thresholds)":
        raise Reject(f"roc: return {_u(ret)[:80]}")

    def branch(t):
        return (f"let thresholds := map (fun q => {t}) f in\n"
                f"        Ok (map (fun t => {rates[0]}) thresholds, map (fun t => {rates[1]}) thresholds, thresholds)")
    return ("Definition gen_nd_roc (d : normal_ds) (fnr fpr : option (list Q)) : res (list Q * list Q * list Q) :=\n"
            "  match fnr, fpr with\n  | None, None => ErrValue\n  | Some _, Some _ => ErrValue\n"
            f"  | Some f, None =>\n        {branch(thr[0])}\n  | None, Some f =>\n        {branch(thr[1])}\n  end.\n")


def _from_metrics(tree):
    fn = find_function(tree, "from_metrics", cls="NormalDataset")
    params = [a.arg for a in fn.args.args]
    if params != ["fnr", "fpr", "fnr_support", "fpr_support", "sigma_pos", "sigma_neg"]:
        raise Reject(f"from_metrics: parameters {params}")
    if [_u(d) for d in fn.args.defaults] != ["1.0", "1.0"]:
        raise Reject(f"from_metrics: defaults {[_u(d) for d in fn.args.defaults]}")
    if [_u(d) for d in fn.decorator_list] != ["staticmethod"]:
        raise Reject("from_metrics: decorators")
    env = {"fnr": "fnr", "fpr": "fpr", "fnr_support": "fnr_support", "fpr_support": "fpr_support",
           "sigma_pos": "sigma_pos_", "sigma_neg": "sigma_neg_"}
    ex = Ex(env, obj=None, int_names=["fnr_support", "fpr_support"])
    body = strip_doc(fn.body)
    lets = []
    for st in body[:-1]:
        if not (isinstance(st, ast.Assign) and len(st.targets) == 1 and isinstance(st.targets[0], ast.Name)):
            raise Reject(f"from_metrics: statement {_u(st)[:80]}")
        name = st.targets[0].id
        if name in ex.env:
            raise Reject(f"from_metrics: {name} assigned twice")
        try:
            text, is_int = ex.tr_int(st.value), True
        except Reject:
            text, is_int = ex.tr(st.value), False
        lets.append(f"  let {name}_v := {text} in")
        ex.env[name] = f"{name}_v"
        if is_int:
            ex.int_names.add(name)
    ret = body[-1]
    if not (isinstance(ret, ast.Return) and isinstance(ret.value, ast.Call) and _u(ret.value.func) == "NormalDataset"
            and not ret.value.args):
        raise Reject(f"from_metrics: return {_u(ret)[:80]}")
    kw = {k.arg: k.value for k in ret.value.keywords}
    if sorted(kw) != sorted(["mu_pos", "mu_neg", "sigma_pos", "sigma_neg", "p_pos", "n", "score_class"]):
        raise Reject(f"from_metrics: NormalDataset keywords {sorted(kw)}")
    if _u(kw["score_class"]) != "'pos'":
        raise Reject("from_metrics: score_class")
    return ("Definition gen_nd_from_metrics (fnr fpr : Q) (fnr_support fpr_support : Z) (sigma_pos_ sigma_neg_ : Q) : normal_ds :=\n"
            + "\n".join(lets) + "\n"
            f"  normal_dataset {ex.tr(kw['mu_pos'])} (Some {ex.tr(kw['mu_neg'])}) {ex.tr(kw['sigma_pos'])} {ex.tr(kw['sigma_neg'])} "
            f"{ex.tr(kw['p_pos'])} (Some {ex.tr_int(kw['n'])}) Pos.\n")


def _class_fields(tree):
    for n in tree.body:
        if isinstance(n, ast.ClassDef) and n.name == "NormalDataset":
            cls = n
            break
    else:
        raise Reject("class NormalDataset not found")
    if [_u(d) for d in cls.decorator_list] != ["dataclass"]:
        raise Reject("NormalDataset: decorators")
    fields = {}
    order = []
    for st in strip_doc(cls.body):
        if isinstance(st, ast.AnnAssign) and isinstance(st.target, ast.Name):
            fields[st.target.id] = st.value
            order.append(st.target.id)
    if order != ["mu_pos", "mu_neg", "sigma_pos", "sigma_neg", "p_pos", "n", "score_class"]:
        raise Reject(f"NormalDataset: fields {order}")
    if fields["mu_pos"] is not None or _u(fields["mu_neg"]) != "None" or _u(fields["n"]) != "None" or _u(fields["score_class"]) != "'pos'":
        raise Reject("NormalDataset: field defaults")
    vals = []
    for f in ("sigma_pos", "sigma_neg", "p_pos"):
        v = fields[f]
        if not (isinstance(v, ast.Constant) and isinstance(v.value, (int, float)) and not isinstance(v.value, bool)):
            raise Reject(f"NormalDataset: default of {f}")
        vals.append(_q(v.value))
    post = find_function(tree, "__post_init__", cls="NormalDataset")
    pb = strip_doc(post.body)
    if not (len(pb) == 1 and isinstance(pb[0], ast.If) and _u(pb[0].test) == "self.mu_neg is None" and not pb[0].orelse
            and len(pb[0].body) == 1 and isinstance(pb[0].body[0], ast.Assign) and _u(pb[0].body[0].targets[0]) == "self.mu_neg"):
        raise Reject("__post_init__: shape")
    dflt = Ex({}, obj=None)
    e = pb[0].body[0].value
    if _u(e) != "-self.mu_pos":
        raise Reject(f"__post_init__: default {_u(e)}")
    return (f"Definition gen_normal_defaults : Q * Q * Q := ({vals[0]}, {vals[1]}, {vals[2]}).\n"
            "Definition gen_nd_post_init (mu_pos_ : Q) (mu_neg_ : option Q) : Q :=\n"
            "  match mu_neg_ with None => (- mu_pos_) | Some m => m end.\n")


def _corr_probs(tree):
    fn = find_function(tree, "sample", cls="CorrelatedBernoullilDataset")
    body = strip_doc(fn.body)
    # the statements from `c = ...` up to `p = np.array([...])`
    names = {}
    ex = Ex({"p1": "p1", "p2": "p2"}, obj=None, self_attrs={"p1": "p1", "p2": "p2", "rho": "rho"})
    pre = []
    arr = None
    guard = None
    for i_, st in enumerate(body):
        if isinstance(st, ast.Assign) and _u(st.targets[0]) == "p" and i_ + 1 < len(body):
            guard = body[i_ + 1]
        if isinstance(st, ast.Assign) and len(st.targets) == 1 and isinstance(st.targets[0], ast.Name):
            name = st.targets[0].id
            if name == "p" and isinstance(st.value, ast.Call) and _u(st.value.func) == "np.array":
                arr = st.value
                break
            pre.append((name, st.value))
    if arr is None or len(arr.args) != 1 or not isinstance(arr.args[0], ast.List) or len(arr.args[0].elts) != 4:
        raise Reject("CorrelatedBernoullilDataset.sample: p = np.array([...4 entries...]) not found")
    lets = []
    for name, val in pre:
        if name in ("n", "rng"):
            continue
        if name in ("p1", "p2", "rho"):
            if _u(val) != f"self.{name}":
                raise Reject(f"sample: {name} = {_u(val)}")
            continue
        lets.append(f"  let {name}_v := {ex.tr(val)} in")
        ex.env[name] = f"{name}_v"
    elts = "; ".join(ex.tr(e) for e in arr.args[0].elts)
    # the validity test that follows: any probability negative -> ValueError
    if not (isinstance(guard, ast.If) and _u(guard.test) == "np.any(p < 0)" and not guard.orelse and len(guard.body) == 1
            and isinstance(guard.body[0], ast.Raise) and _u(guard.body[0].exc).startswith("ValueError(")):
        raise Reject(f"CorrelatedBernoullilDataset.sample: validity test after p = ...: {_u(guard)[:80] if guard is not None else None}")
    return ("Definition gen_corr_probs (sqrtQ : Q -> Q) (p1 p2 rho : Q) : list Q :=\n" + "\n".join(lets) + f"\n  [{elts}].\n"
            "Definition gen_corr_invalid (p : list Q) : bool := existsb (fun q => Qltb q 0) p.\n")


def translate_datasets(repo):
    src = os.path.join(repo, "score_analysis", "experimental", "datasets.py")
    tree = ast.parse(open(src).read())
    out = [HEADER, "Section Gen.\n  Variables Cdf Ppf Sf Isf : Q -> Q.\n"]
    for name, param, gen in (("fnr", "threshold", "gen_nd_fnr"), ("fpr", "threshold", "gen_nd_fpr"),
                             ("threshold_at_fnr", "fnr", "gen_nd_threshold_at_fnr"),
                             ("threshold_at_fpr", "fpr", "gen_nd_threshold_at_fpr")):
        out.append(f"Definition {gen} (d : normal_ds) (x : Q) : Q := {_simple_method(tree, name, param)}.\n")
    out.append(_roc(tree))
    out.append(_from_metrics(tree))
    out.append("End Gen.\n")
    out.append(_class_fields(tree))
    out.append(_corr_probs(tree))
    return "\n".join(out)
