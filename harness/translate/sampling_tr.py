"""Translator for the sampling-method resolution (`_sampling_method` of Scores and GroupScores) and the
module constants it uses (tie T for C11 / C12)."""
import ast
import os

from .pyast import Reject, Tr, find_function, strip_doc

CONSTS = {"SAMPLING_METHOD_REPLACEMENT": ("MReplacement", "replacement"), "SAMPLING_METHOD_SINGLE_PASS": ("MSinglePass", "single_pass"),
          "SAMPLING_METHOD_DYNAMIC": ("MDynamic", "dynamic"), "SAMPLING_METHOD_PROPORTION": ("MProportion", "proportion")}


class SmTr(Tr):
    def __init__(self, base):
        super().__init__(env={"SINGLE_PASS_SAMPLE_THRESHOLD": ("SINGLE_PASS_SAMPLE_THRESHOLD", "Z")},
                         self_props={"nb_hard_pos": (f"(nb_hard_pos {base})", "Z"), "nb_hard_neg": (f"(nb_hard_neg {base})", "Z")})

    def expr(self, e):
        src = ast.unparse(e)
        if src == "config.smoothing":
            return ("(smoothing c)", "B")
        if src == "config.stratified_sampling == 'by_group'":
            return ("(match stratified_sampling c with SByGroup => true | _ => false end)", "B")
        if isinstance(e, ast.Name) and e.id in CONSTS:
            return (CONSTS[e.id][0], "SM")
        return super().expr(e)


def _resolve(fn, base):
    body = strip_doc(fn.body)
    if [a.arg for a in fn.args.args] != ["self", "config"]:
        raise Reject("_sampling_method signature")
    first = "if config.sampling_method != SAMPLING_METHOD_DYNAMIC:\n    return config.sampling_method"
    if not body or ast.unparse(body[0]) != first:
        raise Reject("_sampling_method: first statement is not the 'nothing to choose' return")
    tr = SmTr(base)
    rest = tr.block(body[1:])
    return f"match sampling_method c with\n  | MDynamic => {rest}\n  | m => m\n  end"


def translate_sampling_method(repo):
    st = ast.parse(open(os.path.join(repo, "score_analysis", "scores.py")).read())
    gt = ast.parse(open(os.path.join(repo, "score_analysis", "group_scores.py")).read())
    consts = {}
    for n in st.body:
        if isinstance(n, ast.Assign) and len(n.targets) == 1 and isinstance(n.targets[0], ast.Name):
            name = n.targets[0].id
            if name in CONSTS or name == "SINGLE_PASS_SAMPLE_THRESHOLD":
                consts[name] = ast.literal_eval(n.value)
    for name, (_, val) in CONSTS.items():
        if consts.get(name) != val:
            raise Reject(f"{name} = {consts.get(name)!r}, expected {val!r}")
    if not isinstance(consts.get("SINGLE_PASS_SAMPLE_THRESHOLD"), int):
        raise Reject("SINGLE_PASS_SAMPLE_THRESHOLD is not an integer literal")
    s_fn = find_function(st, "_sampling_method", cls="Scores")
    g_fn = find_function(gt, "_sampling_method", cls="GroupScores")
    # BootstrapConfig defaults
    cfg = None
    for n in st.body:
        if isinstance(n, ast.ClassDef) and n.name == "BootstrapConfig":
            cfg = {a.target.id: ast.unparse(a.value) for a in n.body if isinstance(a, ast.AnnAssign)}
    want = {"nb_samples": "1000", "bootstrap_method": "'bca'", "sampling_method": "SAMPLING_METHOD_DYNAMIC",
            "stratified_sampling": "None", "smoothing": "False", "ratio": "None"}
    if cfg != want:
        raise Reject(f"BootstrapConfig defaults {cfg}")
    return ("(* generated from Scores._sampling_method / GroupScores._sampling_method — do not edit *)\n"
            "From SA Require Import Model.Sampling Model.Group.\nOpen Scope Q_scope.\n"
            f"Definition gen_threshold : Z := ({consts['SINGLE_PASS_SAMPLE_THRESHOLD']})%Z.\n"
            f"Definition gen_resolve_method (s : scores) (c : config) : method :=\n  {_resolve(s_fn, 's')}.\n"
            f"Definition gen_g_resolve_method (gs : gscores) (c : config) : method :=\n  {_resolve(g_fn, '(base gs)')}.\n")
