"""Translator instance for score_analysis/utils.py:invert_pl_function (tie T, property C17).

Fail-closed.  The arithmetic and the comparisons of the function are regenerated as Gallina definitions over the
vocabulary of Model/InvertPL.v; the array plumbing around them (broadcasting axes, np.nonzero of the transposed mask,
the two fill loops, the scalar/array return) must match the statement list below literally.
  gen_crossing_up, gen_crossing_down, gen_crossing   the two masks on one segment (y0 = y[:-1], y1 = y[1:]) and one target
  gen_interp                                          la and z of the crossing loop
  gen_absdiff                                         the quantity np.argmin minimises
Trusted tables: `a[:-1] OP t` / `a[1:] OP t` elementwise on the segment pairs, `&`/`|` of boolean arrays = andb/orb,
np.abs = Qabs, x[j] = nth j x 0."""
import ast
import os

from .pyast import Reject, find_function, strip_doc

HEADER = ("(* generated from score_analysis/utils.py (invert_pl_function) by harness/translate/invertpl_tr.py — do not edit *)\n"
          "From SA Require Import Model.InvertPL.\nOpen Scope Q_scope.\n")

PINNED = {
    0: "x = np.asarray(x)", 1: "y = np.asarray(y)", 2: "t = np.asarray(t)", 3: "t_scalar = t.ndim == 0",
    4: "x = x[:, np.newaxis]", 5: "y = y[:, np.newaxis]",
    6: "t = t[np.newaxis, np.newaxis] if t_scalar else t[np.newaxis, :]",
    10: "t_indices, s_indices = np.nonzero(crossing.T)",
    12: "s_min = x[min_ind]", 13: "t = t[0]", 14: "x = x[:, 0]", 15: "y = y[:, 0]", 16: "s = [[] for _ in t]",
    18: "for j in range(len(s)):\n    if len(s[j]) == 0:\n        s[j].append(s_min[j])",
    19: "s = [np.asarray(z) for z in s]", 20: "if t_scalar:\n    s = s[0]", 21: "return s",
}


def _u(n):
    return ast.unparse(n)


def _cmp(e):
    """(y[:-1] OP t) or (y[1:] OP t) -> coq bool over y0, y1, t"""
    if not (isinstance(e, ast.Compare) and len(e.ops) == 1 and len(e.comparators) == 1 and _u(e.comparators[0]) == "t"):
        raise Reject(f"mask comparison {_u(e)[:60]}")
    left = _u(e.left)
    if left == "y[:-1]":
        v = "y0"
    elif left == "y[1:]":
        v = "y1"
    else:
        raise Reject(f"mask operand {left}")
    op = type(e.ops[0])
    table = {ast.LtE: f"Qleb {v} t", ast.Lt: f"Qltb {v} t", ast.GtE: f"Qleb t {v}", ast.Gt: f"Qltb t {v}"}
    if op not in table:
        raise Reject(f"mask operator {op.__name__}")
    return f"({table[op]})"


def _mask(e, names):
    if isinstance(e, ast.BinOp) and isinstance(e.op, (ast.BitAnd, ast.BitOr)):
        op = "&&" if isinstance(e.op, ast.BitAnd) else "||"
        return f"({_mask(e.left, names)} {op} {_mask(e.right, names)})"
    if isinstance(e, ast.Name) and e.id in names:
        return f"({names[e.id]} y0 y1 t)"
    return _cmp(e)


class Ar:
    """scalar arithmetic of the crossing loop: names la, t[t_ind] -> t, x[j], x[j + 1], y[j], y[j + 1], constants, + - * /"""

    def __init__(self):
        self.env = {}

    def tr(self, e):
        s = _u(e)
        if s == "t[t_ind]":
            return "t"
        for arr in ("x", "y"):
            if s == f"{arr}[j]":
                return f"(nth j {arr} 0)"
            if s == f"{arr}[j + 1]":
                return f"(nth (S j) {arr} 0)"
        if isinstance(e, ast.Name) and e.id in self.env:
            return self.env[e.id]
        if isinstance(e, ast.Constant) and isinstance(e.value, int) and not isinstance(e.value, bool):
            return f"(Qmake ({e.value}) 1)"
        if isinstance(e, ast.BinOp) and type(e.op) in (ast.Add, ast.Sub, ast.Mult, ast.Div):
            op = {ast.Add: "+", ast.Sub: "-", ast.Mult: "*", ast.Div: "/"}[type(e.op)]
            return f"({self.tr(e.left)} {op} {self.tr(e.right)})"
        raise Reject(f"loop expression {s[:60]}")


def translate_invert_pl(repo):
    src = os.path.join(repo, "score_analysis", "utils.py")
    import warnings
    with warnings.catch_warnings():
        warnings.simplefilter("ignore", SyntaxWarning)     # the docstring contains LaTeX backslashes
        tree = ast.parse(open(src).read())
    fn = find_function(tree, "invert_pl_function")
    if [a.arg for a in fn.args.args] != ["x", "y", "t"] or fn.args.kwonlyargs or fn.args.defaults:
        raise Reject("invert_pl_function: signature")
    body = strip_doc(fn.body)
    if len(body) != 22:
        raise Reject(f"invert_pl_function has {len(body)} statements, expected 22")
    for i, text in PINNED.items():
        if _u(body[i]) != text:
            raise Reject(f"invert_pl_function statement {i}: {_u(body[i])[:80]!r}, expected {text!r}")
    out = [HEADER]
    names = {}
    for i, nm, gen in ((7, "crossing_up", "gen_crossing_up"), (8, "crossing_down", "gen_crossing_down"), (9, "crossing", "gen_crossing")):
        st = body[i]
        if not (isinstance(st, ast.Assign) and len(st.targets) == 1 and _u(st.targets[0]) == nm):
            raise Reject(f"statement {i}: {_u(st)[:60]}")
        out.append(f"Definition {gen} (y0 y1 t : Q) : bool := {_mask(st.value, names)}.\n")
        names[nm] = gen
    st = body[11]
    if _u(st) != "min_ind = np.argmin(np.abs(y - t), axis=0)":
        raise Reject(f"statement 11: {_u(st)[:80]}")
    out.append("Definition gen_absdiff (v t : Q) : Q := Qabs (v - t).\n")
    loop = body[17]
    if not (isinstance(loop, ast.For) and _u(loop.target) == "(t_ind, j)" and _u(loop.iter) == "zip(t_indices, s_indices)"
            and not loop.orelse and len(loop.body) == 3):
        raise Reject(f"crossing loop header: {_u(loop)[:80]}")
    a1, a2, app = loop.body
    ar = Ar()
    if not (isinstance(a1, ast.Assign) and _u(a1.targets[0]) == "la"):
        raise Reject(f"crossing loop: {_u(a1)[:60]}")
    la = ar.tr(a1.value)
    ar.env["la"] = "la"
    if not (isinstance(a2, ast.Assign) and _u(a2.targets[0]) == "z"):
        raise Reject(f"crossing loop: {_u(a2)[:60]}")
    z = ar.tr(a2.value)
    if _u(app) != "s[t_ind].append(z)":
        raise Reject(f"crossing loop: {_u(app)[:60]}")
    out.append(f"Definition gen_interp (x y : list Q) (t : Q) (j : nat) : Q :=\n  let la := {la} in\n  {z}.\n")
    out.append(_threshold_at_metric(repo))
    return "\n".join(out)


TAM_PINNED = [
    "if isinstance(metric, str):\n    metric = getattr(type(self), metric)",
    "if points is None:\n    points = np.sort(np.concatenate([self.pos, self.neg]))\n    if len(points) < 2:\n"
    "        raise ValueError('At least two values are required to set thresholds.')\n"
    "elif isinstance(points, int):\n"
    "    min_score = min(self.pos[0] if len(self.pos) > 0 else np.inf, self.neg[0] if len(self.neg) > 0 else np.inf)\n"
    "    max_score = max(self.pos[-1] if len(self.pos) > 0 else -np.inf, self.neg[-1] if len(self.neg) > 0 else -np.inf)\n"
    "    if min_score >= max_score:\n        raise ValueError('At least two values are required to set thresholds.')\n"
    "    points = np.linspace(min_score, max_score, points, endpoint=True)",
    "threshold = utils.invert_pl_function(x=points, y=metric(self, points), t=target)",
    "return threshold",
]


def _threshold_at_metric(repo):
    """Scores.threshold_at_metric: point selection and the call of the inversion, pinned statement by statement (the
    model's select_points / threshold_at_metric transcribe exactly these statements); emits a marker definition only"""
    import warnings
    src = os.path.join(repo, "score_analysis", "scores.py")
    with warnings.catch_warnings():
        warnings.simplefilter("ignore", SyntaxWarning)
        tree = ast.parse(open(src).read())
    fn = find_function(tree, "threshold_at_metric", cls="Scores")
    if _u(fn.args) != "self, target, metric: Union[str, Callable], points: Optional[Union[int, np.ndarray]]=None":
        raise Reject(f"threshold_at_metric signature: {_u(fn.args)}")
    body = [_u(st) for st in strip_doc(fn.body)]
    if body != TAM_PINNED:
        for i, (a, b) in enumerate(zip(body, TAM_PINNED)):
            if a != b:
                raise Reject(f"threshold_at_metric statement {i}: {a[:100]!r}")
        raise Reject(f"threshold_at_metric has {len(body)} statements, expected {len(TAM_PINNED)}")
    return "Definition gen_threshold_at_metric_pinned : bool := true.\n"
