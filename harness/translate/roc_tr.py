"""Translator instances (tie T) for score_analysis/roc_curve.py and score_analysis/experimental/roc_ci.py.
Fail-closed: only the statement / expression shapes listed here are accepted, everything else raises Reject.
What is accepted is translated *as written* (which set literal, which comparison, which argument in which slot), so a
changed source yields a different Gallina term and the tie lemmas of coq/ties/Tie_roc.v / Tie_rocci.v stop checking.

C15 (translate_roc -> Gen_roc.v):
  gen_extra_split, gen_points_split     the integer splits of nb_extra_points / nb_points (lines 247-254, 269-270)
  gen_support_tail                      final sort, x_axis validity set, the two reversal conditions (303-311)
  gen_default_nb_extra_points/_x_axis   defaults of _find_support_thresholds
  gen_roc                               body of roc(): which arguments go to _find_support_thresholds, that fnr/fpr are
                                        scores.fnr/fpr evaluated on the RETURNED array, and the ROCCurve slots
  gen_v_*                               the derived views of ROCCurve
  The top-level shape of _find_support_thresholds (11 statements, their tests) is checked; statements 2-6 (array
  assembly) are tied by correspondence only.
C16 (translate_rocci -> Gen_rocci.v): see below."""
import ast
import os

from .pyast import Reject, Tr, find_function, strip_doc

AXES = {"fnr": "XFnr", "fpr": "XFpr", "tnr": "XTnr", "tpr": "XTpr", "far": "XFar", "frr": "XFrr", "tar": "XTar", "trr": "XTrr"}
FST_PARAMS = ["scores", "fnr", "fpr", "thresholds", "nb_points", "nb_extra_points", "x_axis"]
FST_TYPES = {"scores": "S", "fnr": "OLQ", "fpr": "OLQ", "thresholds": "OLQ", "nb_points": "OZ", "nb_extra_points": "OZ",
             "x_axis": "X"}


def _u(e):
    return ast.unparse(e)


def roc_tree(repo):
    return ast.parse(open(os.path.join(repo, "score_analysis", "roc_curve.py")).read())


class ZTr(Tr):
    """integer arithmetic with Python floor division"""

    def expr(self, e):
        if isinstance(e, ast.BinOp) and isinstance(e.op, ast.FloorDiv):
            a, b = self.expr(e.left), self.expr(e.right)
            if a[1] == "Z" and b[1] == "Z":
                if not (isinstance(e.right, ast.Constant) and isinstance(e.right.value, int) and e.right.value > 0):
                    raise Reject("floor division by a non-literal or non-positive divisor")
                return (f"({a[0]} / {b[0]})%Z", "Z")
            raise Reject("floor division on non-integers")
        return super().expr(e)


def axis_set(e):
    if not isinstance(e, ast.Set):
        raise Reject(f"expected a set literal of axis names: {_u(e)}")
    out = []
    for x in e.elts:
        if not (isinstance(x, ast.Constant) and isinstance(x.value, str) and x.value in AXES):
            raise Reject(f"axis name {_u(x)}")
        out.append(AXES[x.value])
    return "[" + "; ".join(out) + "]"


def axis_test(e):
    """x_axis in {...} / x_axis not in {...}  -> Coq bool"""
    if not (isinstance(e, ast.Compare) and len(e.ops) == 1 and isinstance(e.left, ast.Name) and e.left.id == "x_axis"):
        raise Reject(f"axis test {_u(e)}")
    t = f"(xaxis_in x_axis {axis_set(e.comparators[0])})"
    if isinstance(e.ops[0], ast.In):
        return t
    if isinstance(e.ops[0], ast.NotIn):
        return f"(negb {t})"
    raise Reject(f"axis test operator {_u(e)}")


def class_test(e):
    """scores.score_class == BinaryLabel.neg  (or !=, or .pos)"""
    if not (isinstance(e, ast.Compare) and len(e.ops) == 1 and _u(e.left) == "scores.score_class"
            and isinstance(e.ops[0], (ast.Eq, ast.NotEq))):
        raise Reject(f"class test {_u(e)}")
    c = _u(e.comparators[0])
    lab = {"BinaryLabel.neg": "Neg", "BinaryLabel.pos": "Pos", "'neg'": "Neg", "'pos'": "Pos"}.get(c)
    if lab is None:
        raise Reject(f"class test {_u(e)}")
    t = f"(label_eqb (score_class scores) {lab})"
    return t if isinstance(e.ops[0], ast.Eq) else f"(negb {t})"


def reversal(stmts):
    """body `thresholds = thresholds[::-1]`"""
    if len(stmts) != 1 or _u(stmts[0]) != "thresholds = thresholds[::-1]":
        raise Reject("expected thresholds = thresholds[::-1]: " + "; ".join(_u(s) for s in stmts))
    return "rev thresholds"


def translate_tail(stmts):
    """the statements from the last np.sort to the return"""
    out = []
    for s in stmts[:-1]:
        if isinstance(s, ast.Assign):
            if _u(s) != "thresholds = np.sort(thresholds)":
                raise Reject(f"tail statement {_u(s)}")
            out.append("let thresholds := isort thresholds in")
        elif isinstance(s, ast.If) and not s.orelse and len(s.body) == 1 and isinstance(s.body[0], ast.Raise):
            exc = s.body[0].exc
            if not (isinstance(exc, ast.Call) and _u(exc.func) == "ValueError"):
                raise Reject(f"raise {_u(s.body[0])}")
            out.append(f"if {axis_test(s.test)} then Raise else")
        elif isinstance(s, ast.If) and not s.orelse:
            test = axis_test(s.test) if "x_axis" in _u(s.test) else class_test(s.test)
            out.append(f"let thresholds := if {test} then {reversal(s.body)} else thresholds in")
        else:
            raise Reject(f"tail statement {_u(s)[:80]}")
    if _u(stmts[-1]) != "return thresholds":
        raise Reject(f"tail return {_u(stmts[-1])}")
    out.append("Ret thresholds")
    return "\n  ".join(out)


def split_pair(stmts, names, env):
    """two integer assignments -> Coq pair text"""
    if len(stmts) != 2:
        raise Reject("expected two assignments")
    tr = ZTr(env=env)
    txt = ""
    for s, n in zip(stmts, names):
        if not (isinstance(s, ast.Assign) and len(s.targets) == 1 and isinstance(s.targets[0], ast.Name) and s.targets[0].id == n):
            raise Reject(f"expected assignment to {n}: {_u(s)}")
        for nm, v in tr.simple_stmt(s):
            txt += f"let {nm} := {v} in "
    for n in names:
        if tr.env[n][1] != "Z":
            raise Reject(f"{n} is not an integer")
    return f"({txt}({names[0]}, {names[1]}))"


def fst_function(tree):
    fn = find_function(tree, "_find_support_thresholds")
    args = [a.arg for a in fn.args.args]
    if args != FST_PARAMS or fn.args.kwonlyargs or fn.args.vararg or fn.args.kwarg:
        raise Reject(f"_find_support_thresholds signature {args}")
    return fn


def const_arg(e, ty, consts):
    """a literal / module constant used as an argument or default, at the type of the parameter"""
    if isinstance(e, ast.Name) and e.id in consts:
        e = consts[e.id]
    if ty in ("OZ", "OLQ"):
        if isinstance(e, ast.Constant) and e.value is None:
            return "None"
        if ty == "OZ" and isinstance(e, ast.Constant) and isinstance(e.value, int) and not isinstance(e.value, bool):
            return f"(Some ({e.value})%Z)"
    if ty == "X" and isinstance(e, ast.Constant) and isinstance(e.value, str):
        return f"(XName {AXES[e.value]})" if e.value in AXES else "XOther"
    raise Reject(f"constant {_u(e)} at type {ty}")


def module_consts(tree):
    out = {}
    for n in tree.body:
        if isinstance(n, ast.Assign) and len(n.targets) == 1 and isinstance(n.targets[0], ast.Name) and isinstance(n.value, ast.Constant):
            out[n.targets[0].id] = n.value
    return out


def fst_defaults(fn, consts):
    """parameter -> Coq text of its default (only trailing parameters have one)"""
    d = fn.args.defaults
    names = FST_PARAMS[len(FST_PARAMS) - len(d):]
    return {n: const_arg(e, FST_TYPES[n], consts) for n, e in zip(names, d)}


def fst_call(call, fn, env, consts):
    """a call of _find_support_thresholds -> 'find_support_thresholds succ pred a1 ... a7' with the arguments bound to
    the callee's parameters the way Python binds them (positional, keyword, defaults)"""
    if not (isinstance(call, ast.Call) and _u(call.func) == "_find_support_thresholds"):
        raise Reject(f"expected a call of _find_support_thresholds: {_u(call)[:80]}")
    bound = {}
    if len(call.args) > len(FST_PARAMS):
        raise Reject("too many positional arguments")
    for p, a in zip(FST_PARAMS, call.args):
        bound[p] = a
    for k in call.keywords:
        if k.arg is None or k.arg not in FST_PARAMS or k.arg in bound:
            raise Reject(f"keyword {k.arg}")
        bound[k.arg] = k.value
    defaults = fst_defaults(fn, consts)
    out = []
    for p in FST_PARAMS:
        ty = FST_TYPES[p]
        if p in bound:
            a = bound[p]
            if isinstance(a, ast.Name) and a.id in env:
                txt, have = env[a.id]
                if have != ty:
                    raise Reject(f"argument {a.id} for {p}: have {have}, want {ty}")
                out.append(txt)
            else:
                out.append(const_arg(a, ty, consts))
        elif p in defaults:
            out.append(defaults[p])
        else:
            # Python raises TypeError: missing required argument
            raise Reject(f"call of _find_support_thresholds leaves parameter {p} unbound (TypeError at run time)")
    return "(find_support_thresholds succ pred " + " ".join(out) + ")"


def rate_call(e, env):
    """scores.fnr(thresholds) / scores.fpr(thresholds) on the list-valued name"""
    if not (isinstance(e, ast.Call) and isinstance(e.func, ast.Attribute) and isinstance(e.func.value, ast.Name)
            and e.func.value.id == "scores" and e.func.attr in ("fnr", "fpr", "tpr", "tnr") and len(e.args) == 1 and not e.keywords
            and isinstance(e.args[0], ast.Name)):
        raise Reject(f"expected scores.<rate>(<array>): {_u(e)}")
    a = e.args[0].id
    if a not in env or env[a][1] != "LQ":
        raise Reject(f"rate evaluated on {a}, which is not the threshold array")
    return f"(rates_at s_{e.func.attr} scores {env[a][0]})"


ROC_FIELDS = ["fnr", "fpr", "thresholds", "fnr_ci", "fpr_ci"]
ROC_FIELD_TYPES = {"fnr": "LR", "fpr": "LR", "thresholds": "LQ", "fnr_ci": "OCI", "fpr_ci": "OCI"}


def roccurve_fields(tree):
    """field order and defaults of the ROCCurve dataclass"""
    for n in tree.body:
        if isinstance(n, ast.ClassDef) and n.name == "ROCCurve":
            fields = [(s.target.id, s.value) for s in n.body if isinstance(s, ast.AnnAssign) and isinstance(s.target, ast.Name)]
            if [f for f, _ in fields] != ROC_FIELDS:
                raise Reject(f"ROCCurve fields {[f for f, _ in fields]}")
            for f, v in fields[:3]:
                if v is not None:
                    raise Reject(f"ROCCurve.{f} has a default")
            for f, v in fields[3:]:
                if not (isinstance(v, ast.Constant) and v.value is None):
                    raise Reject(f"ROCCurve.{f} default is not None")
            return n
    raise Reject("class ROCCurve not found")


def roccurve_call(e, env):
    if not (isinstance(e, ast.Call) and _u(e.func) == "ROCCurve"):
        raise Reject(f"expected ROCCurve(...): {_u(e)[:80]}")
    bound = {}
    for p, a in zip(ROC_FIELDS, e.args):
        bound[p] = a
    for k in e.keywords:
        if k.arg not in ROC_FIELDS or k.arg in bound:
            raise Reject(f"ROCCurve keyword {k.arg}")
        bound[k.arg] = k.value
    out = []
    for f in ROC_FIELDS:
        ty = ROC_FIELD_TYPES[f]
        if f not in bound:
            if ty != "OCI":
                raise Reject(f"ROCCurve field {f} missing")
            out.append("None")
            continue
        a = bound[f]
        if not (isinstance(a, ast.Name) and a.id in env):
            raise Reject(f"ROCCurve argument {_u(a)}")
        txt, have = env[a.id]
        if ty == "OCI" and have == "CI":
            txt = f"(Some {txt})"
        elif have != ty:
            raise Reject(f"ROCCurve.{f}: have {have}, want {ty}")
        out.append(txt)
    return "(mkROC " + " ".join(out) + ")"


def translate_roc_body(tree, fn_fst, consts):
    fn = find_function(tree, "roc")
    if [a.arg for a in fn.args.args] != ["scores"] or [a.arg for a in fn.args.kwonlyargs] != ["fnr", "fpr", "thresholds", "nb_points", "x_axis"]:
        raise Reject("roc signature")
    body = strip_doc(fn.body)
    if len(body) != 4:
        raise Reject(f"roc has {len(body)} statements, expected 4")
    env = {p: (p, FST_TYPES[p]) for p in ["scores", "fnr", "fpr", "thresholds", "nb_points", "x_axis"]}
    s = body[0]
    if not (isinstance(s, ast.Assign) and _u(s.targets[0]) == "thresholds"):
        raise Reject(f"roc statement 1: {_u(s)[:80]}")
    call = fst_call(s.value, fn_fst, env, consts)
    env["thresholds"] = ("thresholds", "LQ")
    lets = []
    for s, name in zip(body[1:3], ("fnr", "fpr")):
        if not (isinstance(s, ast.Assign) and len(s.targets) == 1 and isinstance(s.targets[0], ast.Name)):
            raise Reject(f"roc statement: {_u(s)}")
        tgt = s.targets[0].id
        lets.append(f"let {tgt} := {rate_call(s.value, env)} in")
        env[tgt] = (tgt, "LR")
    if not isinstance(body[3], ast.Return):
        raise Reject("roc does not end in return")
    ret = roccurve_call(body[3].value, env)
    defaults = {a.arg: d for a, d in zip(fn.args.kwonlyargs, fn.args.kw_defaults)}
    d_nb = const_arg(defaults["nb_points"], "OZ", consts)
    d_x = const_arg(defaults["x_axis"], "X", consts)
    txt = ("Definition gen_roc (succ pred : Q -> Q) (scores : scores) (fnr fpr thresholds : option (list Q)) "
           "(nb_points : option Z) (x_axis : xaxis) : res roc_curve :=\n"
           f"  rbind {call} (fun thresholds =>\n  " + "\n  ".join(lets) + f"\n  Ret {ret}).\n")
    txt += f"Definition gen_roc_default_nb_points : option Z := {d_nb}.\nDefinition gen_roc_default_x_axis : xaxis := {d_x}.\n"
    return txt


def translate_views(cls):
    """the properties of ROCCurve"""
    out = []
    known = {"fnr": "(rc_fnr c)", "fpr": "(rc_fpr c)", "thresholds": "(rc_thresholds c)", "fnr_ci": "(rc_fnr_ci c)", "fpr_ci": "(rc_fpr_ci c)"}
    types = {"fnr": "LR", "fpr": "LR", "fnr_ci": "OCI", "fpr_ci": "OCI", "thresholds": "LQ"}
    want = ["tpr", "tnr", "frr", "far", "tar", "trr", "tpr_ci", "tnr_ci", "frr_ci", "far_ci", "tar_ci", "trr_ci"]
    props = [n for n in cls.body if isinstance(n, ast.FunctionDef)]
    if [p.name for p in props] != want:
        raise Reject(f"ROCCurve members {[p.name for p in props]}")
    for fn in props:
        if [_u(d) for d in fn.decorator_list] != ["property"] or [a.arg for a in fn.args.args] != ["self"]:
            raise Reject(f"ROCCurve.{fn.name} is not a plain property")
        body = strip_doc(fn.body)
        if len(body) != 1 or not isinstance(body[0], ast.Return):
            raise Reject(f"ROCCurve.{fn.name} body")
        e = body[0].value

        def attr(x):
            if isinstance(x, ast.Attribute) and isinstance(x.value, ast.Name) and x.value.id == "self" and x.attr in known:
                return known[x.attr], types[x.attr]
            raise Reject(f"ROCCurve.{fn.name}: {_u(x)}")

        if isinstance(e, ast.Attribute):
            txt, ty = attr(e)
        elif (isinstance(e, ast.BinOp) and isinstance(e.op, ast.Sub) and isinstance(e.left, ast.Constant)
              and e.left.value == 1.0):
            a, ty = attr(e.right)
            if ty != "LR":
                raise Reject(f"ROCCurve.{fn.name}: complement of {ty}")
            txt = f"(map rcompl {a})"
        elif isinstance(e, ast.IfExp):
            # None if self.X is None else np.copy(1.0 - self.X[..., ::-1])
            if not (isinstance(e.body, ast.Constant) and e.body.value is None and isinstance(e.test, ast.Compare)
                    and len(e.test.ops) == 1 and isinstance(e.test.ops[0], ast.Is)
                    and isinstance(e.test.comparators[0], ast.Constant) and e.test.comparators[0].value is None):
                raise Reject(f"ROCCurve.{fn.name}: {_u(e)}")
            a, ty = attr(e.test.left)
            if ty != "OCI":
                raise Reject(f"ROCCurve.{fn.name}: None test on {ty}")
            if _u(e.orelse) != f"np.copy(1.0 - {_u(e.test.left)}[..., ::-1])":
                raise Reject(f"ROCCurve.{fn.name}: {_u(e.orelse)}")
            txt = f"(option_map compl_ci {a})"
        else:
            raise Reject(f"ROCCurve.{fn.name}: {_u(e)}")
        cty = {"LR": "list rate", "OCI": "option (list (rate * rate))"}[ty]
        out.append(f"Definition gen_v_{fn.name} (c : roc_curve) : {cty} := {txt}.\n")
        known[fn.name] = f"(gen_v_{fn.name} c)"
        types[fn.name] = ty
    return "".join(out)


FST_SHAPE = [
    "nb_extra_points is not None", "thresholds is None", "fnr is not None", "fpr is not None", "len(thresholds) == 0",
    "nb_extra_points is not None",
]


def translate_fst_parts(tree, consts):
    fn = fst_function(tree)
    body = strip_doc(fn.body)
    if len(body) != 11:
        raise Reject(f"_find_support_thresholds has {len(body)} top-level statements, expected 11")
    for s, t in zip(body[:6], FST_SHAPE):
        if not (isinstance(s, ast.If) and _u(s.test) == t):
            raise Reject(f"_find_support_thresholds: expected `if {t}`, found {_u(s)[:60]}")
    # statement 1: the extra split
    s = body[0]
    z0 = {"nb_extra_points": ("e", "Z")}
    a = split_pair(s.body, ["nb_extra_fnr_points", "nb_extra_fpr_points"], z0)
    b = split_pair(s.orelse, ["nb_extra_fnr_points", "nb_extra_fpr_points"], {})
    out = [f"Definition gen_extra_split (nb_extra_points : option Z) : Z * Z :=\n"
           f"  match nb_extra_points with Some e => {a} | None => {b} end.\n"]
    # the nb_points split inside statement 5
    s = body[4]
    if not (len(s.body) == 1 and isinstance(s.body[0], ast.If) and _u(s.body[0].test) == "nb_points is None" and not s.orelse):
        raise Reject("default-support branch shape")
    dflt = s.body[0].orelse
    if len(dflt) < 2:
        raise Reject("default-support branch too short")
    p = split_pair(dflt[:2], ["nb_fnr_points", "nb_fpr_points"], {"nb_points": ("nb_points", "Z")})
    out.append(f"Definition gen_points_split (nb_points : Z) : Z * Z :=\n  {p}.\n")
    used = " ".join(_u(x) for x in dflt[2:])
    for need in ("np.linspace(0.0, 1.0, nb_fnr_points, endpoint=True)", "np.linspace(0.0, 1.0, nb_fpr_points, endpoint=True)"):
        if need not in used:
            raise Reject(f"default support does not use {need}")
    # the tail
    out.append("Definition gen_support_tail (scores : scores) (x_axis : xaxis) (thresholds : list Q) : res (list Q) :=\n  "
               + translate_tail(body[6:]) + ".\n")
    d = fst_defaults(fn, consts)
    for p_, nm, ty in (("nb_extra_points", "gen_default_nb_extra_points", "option Z"), ("x_axis", "gen_default_x_axis", "xaxis")):
        if p_ in d:
            out.append(f"Definition {nm} : option ({ty}) := Some {d[p_]}.\n")
        else:
            out.append(f"Definition {nm} : option ({ty}) := None.\n")
    return fn, "".join(out)


HEADER = ("(* generated from {src} by harness/translate/roc_tr.py — do not edit *)\n"
          "From SA Require Import {mod}.\nOpen Scope Q_scope.\n")


def translate_roc(repo):
    tree = roc_tree(repo)
    consts = module_consts(tree)
    fn_fst, parts = translate_fst_parts(tree, consts)
    cls = roccurve_fields(tree)
    return (HEADER.format(src="score_analysis/roc_curve.py (roc, _find_support_thresholds, ROCCurve)", mod="Model.Roc")
            + parts + translate_roc_body(tree, fn_fst, consts) + translate_views(cls))


if __name__ == "__main__":
    import sys
    print(translate_roc(sys.argv[1] if len(sys.argv) > 1 else "/repo"))
