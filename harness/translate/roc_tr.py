"""Translator instances (tie T) for score_analysis/roc_curve.py and score_analysis/experimental/roc_ci.py.
Fail-closed: only the statement / expression shapes listed here are accepted, everything else raises Reject.
What is accepted is translated *as written* (which set literal, which comparison, which argument in which slot), so a
changed source yields a different Gallina term and the tie lemmas of coq/ties/Tie_roc.v / Tie_rocci.v stop checking.

C15 (translate_roc -> Gen_roc.v):
  gen_extra_split, gen_points_split     the integer splits of nb_extra_points / nb_points (lines 247-254, 269-270)
  gen_support_tail                      final sort, x_axis validity set, the two reversal conditions (303-311)
  gen_default_nb_extra_points/_x_axis   defaults of _find_support_thresholds
  gen_roc                               body of roc(): which arguments go to _find_support_thresholds, that fnr/fpr are
                                        scores.fnr/fpr evaluated on the RETURNED array, and the ROCCurve slots
  gen_v_*                               the derived views of ROCCurve
  The top-level shape of _find_support_thresholds (11 statements, their tests) is checked; statements 2-6 (array
  assembly) are tied by correspondence only.
C16 (translate_rocci -> Gen_rocci.v): see below."""
import ast
import os

from .pyast import Reject, Tr, find_function, strip_doc

AXES = {"fnr": "XFnr", "fpr": "XFpr", "tnr": "XTnr", "tpr": "XTpr", "far": "XFar", "frr": "XFrr", "tar": "XTar", "trr": "XTrr"}
FST_PARAMS = ["scores", "fnr", "fpr", "thresholds", "nb_points", "nb_extra_points", "x_axis"]
FST_TYPES = {"scores": "S", "fnr": "OLQ", "fpr": "OLQ", "thresholds": "OLQ", "nb_points": "OZ", "nb_extra_points": "OZ",
             "x_axis": "X"}


def _u(e):
    return ast.unparse(e)


def roc_tree(repo):
    return ast.parse(open(os.path.join(repo, "score_analysis", "roc_curve.py")).read())


class ZTr(Tr):
    """integer arithmetic with Python floor division"""

    def expr(self, e):
        if isinstance(e, ast.BinOp) and isinstance(e.op, ast.FloorDiv):
            a, b = self.expr(e.left), self.expr(e.right)
            if a[1] == "Z" and b[1] == "Z":
                if not (isinstance(e.right, ast.Constant) and isinstance(e.right.value, int) and e.right.value > 0):
                    raise Reject("floor division by a non-literal or non-positive divisor")
                return (f"({a[0]} / {b[0]})%Z", "Z")
            raise Reject("floor division on non-integers")
        return super().expr(e)


def axis_set(e):
    if not isinstance(e, ast.Set):
        raise Reject(f"expected a set literal of axis names: {_u(e)}")
    out = []
    for x in e.elts:
        if not (isinstance(x, ast.Constant) and isinstance(x.value, str) and x.value in AXES):
            raise Reject(f"axis name {_u(x)}")
        out.append(AXES[x.value])
    return "[" + "; ".join(out) + "]"


def axis_test(e):
    """x_axis in {...} / x_axis not in {...}  -> Coq bool"""
    if not (isinstance(e, ast.Compare) and len(e.ops) == 1 and isinstance(e.left, ast.Name) and e.left.id == "x_axis"):
        raise Reject(f"axis test {_u(e)}")
    t = f"(xaxis_in x_axis {axis_set(e.comparators[0])})"
    if isinstance(e.ops[0], ast.In):
        return t
    if isinstance(e.ops[0], ast.NotIn):
        return f"(negb {t})"
    raise Reject(f"axis test operator {_u(e)}")


def class_test(e):
    """scores.score_class == BinaryLabel.neg  (or !=, or .pos)"""
    if not (isinstance(e, ast.Compare) and len(e.ops) == 1 and _u(e.left) == "scores.score_class"
            and isinstance(e.ops[0], (ast.Eq, ast.NotEq))):
        raise Reject(f"class test {_u(e)}")
    c = _u(e.comparators[0])
    lab = {"BinaryLabel.neg": "Neg", "BinaryLabel.pos": "Pos", "'neg'": "Neg", "'pos'": "Pos"}.get(c)
    if lab is None:
        raise Reject(f"class test {_u(e)}")
    t = f"(label_eqb (score_class scores) {lab})"
    return t if isinstance(e.ops[0], ast.Eq) else f"(negb {t})"


def reversal(stmts):
    """body `thresholds = thresholds[::-1]`"""
    if len(stmts) != 1 or _u(stmts[0]) != "thresholds = thresholds[::-1]":
        raise Reject("expected thresholds = thresholds[::-1]: " + "; ".join(_u(s) for s in stmts))
    return "rev thresholds"


def translate_tail(stmts):
    """the statements from the last np.sort to the return"""
    out = []
    for s in stmts[:-1]:
        if isinstance(s, ast.Assign):
            if _u(s) != "thresholds = np.sort(thresholds)":
                raise Reject(f"tail statement {_u(s)}")
            out.append("let thresholds := isort thresholds in")
        elif isinstance(s, ast.If) and not s.orelse and len(s.body) == 1 and isinstance(s.body[0], ast.Raise):
            exc = s.body[0].exc
            if not (isinstance(exc, ast.Call) and _u(exc.func) == "ValueError"):
                raise Reject(f"raise {_u(s.body[0])}")
            out.append(f"if {axis_test(s.test)} then Raise else")
        elif isinstance(s, ast.If) and not s.orelse:
            test = axis_test(s.test) if "x_axis" in _u(s.test) else class_test(s.test)
            out.append(f"let thresholds := if {test} then {reversal(s.body)} else thresholds in")
        else:
            raise Reject(f"tail statement {_u(s)[:80]}")
    if _u(stmts[-1]) != "return thresholds":
        raise Reject(f"tail return {_u(stmts[-1])}")
    out.append("Ret thresholds")
    return "\n  ".join(out)


def split_pair(stmts, names, env):
    """two integer assignments -> Coq pair text"""
    if len(stmts) != 2:
        raise Reject("expected two assignments")
    tr = ZTr(env=env)
    txt = ""
    for s, n in zip(stmts, names):
        if not (isinstance(s, ast.Assign) and len(s.targets) == 1 and isinstance(s.targets[0], ast.Name) and s.targets[0].id == n):
            raise Reject(f"expected assignment to {n}: {_u(s)}")
        for nm, v in tr.simple_stmt(s):
            txt += f"let {nm} := {v} in "
    for n in names:
        if tr.env[n][1] != "Z":
            raise Reject(f"{n} is not an integer")
    return f"({txt}({names[0]}, {names[1]}))"


def fst_function(tree):
    fn = find_function(tree, "_find_support_thresholds")
    args = [a.arg for a in fn.args.args]
    if args != FST_PARAMS or fn.args.kwonlyargs or fn.args.vararg or fn.args.kwarg:
        raise Reject(f"_find_support_thresholds signature {args}")
    return fn


def const_arg(e, ty, consts):
    """a literal / module constant used as an argument or default, at the type of the parameter"""
    if isinstance(e, ast.Name) and e.id in consts:
        e = consts[e.id]
    if ty in ("OZ", "OLQ"):
        if isinstance(e, ast.Constant) and e.value is None:
            return "None"
        if ty == "OZ" and isinstance(e, ast.Constant) and isinstance(e.value, int) and not isinstance(e.value, bool):
            return f"(Some ({e.value})%Z)"
    if ty == "X" and isinstance(e, ast.Constant) and isinstance(e.value, str):
        return f"(XName {AXES[e.value]})" if e.value in AXES else "XOther"
    raise Reject(f"constant {_u(e)} at type {ty}")


def module_consts(tree):
    out = {}
    for n in tree.body:
        if isinstance(n, ast.Assign) and len(n.targets) == 1 and isinstance(n.targets[0], ast.Name) and isinstance(n.value, ast.Constant):
            out[n.targets[0].id] = n.value
    return out


def fst_defaults(fn, consts):
    """parameter -> Coq text of its default (only trailing parameters have one)"""
    d = fn.args.defaults
    names = FST_PARAMS[len(FST_PARAMS) - len(d):]
    return {n: const_arg(e, FST_TYPES[n], consts) for n, e in zip(names, d)}


def fst_call(call, fn, env, consts):
    """a call of _find_support_thresholds -> 'find_support_thresholds succ pred a1 ... a7' with the arguments bound to
    the callee's parameters the way Python binds them (positional, keyword, defaults)"""
    if not (isinstance(call, ast.Call) and _u(call.func) == "_find_support_thresholds"):
        raise Reject(f"expected a call of _find_support_thresholds: {_u(call)[:80]}")
    bound = {}
    if len(call.args) > len(FST_PARAMS):
        raise Reject("too many positional arguments")
    for p, a in zip(FST_PARAMS, call.args):
        bound[p] = a
    for k in call.keywords:
        if k.arg is None or k.arg not in FST_PARAMS or k.arg in bound:
            raise Reject(f"keyword {k.arg}")
        bound[k.arg] = k.value
    defaults = fst_defaults(fn, consts)
    out = []
    for p in FST_PARAMS:
        ty = FST_TYPES[p]
        if p in bound:
            a = bound[p]
            if isinstance(a, ast.Name) and a.id in env:
                txt, have = env[a.id]
                if have != ty:
                    raise Reject(f"argument {a.id} for {p}: have {have}, want {ty}")
                out.append(txt)
            else:
                out.append(const_arg(a, ty, consts))
        elif p in defaults:
            out.append(defaults[p])
        else:
            # Python raises TypeError: missing required argument
            raise Reject(f"call of _find_support_thresholds leaves parameter {p} unbound (TypeError at run time)")
    return "(find_support_thresholds succ pred " + " ".join(out) + ")"


def rate_call(e, env):
    """scores.fnr(thresholds) / scores.fpr(thresholds) on the list-valued name"""
    if not (isinstance(e, ast.Call) and isinstance(e.func, ast.Attribute) and isinstance(e.func.value, ast.Name)
            and e.func.value.id == "scores" and e.func.attr in ("fnr", "fpr", "tpr", "tnr") and len(e.args) == 1 and not e.keywords
            and isinstance(e.args[0], ast.Name)):
        raise Reject(f"expected scores.<rate>(<array>): {_u(e)}")
    a = e.args[0].id
    if a not in env or env[a][1] != "LQ":
        raise Reject(f"rate evaluated on {a}, which is not the threshold array")
    return f"(rates_at s_{e.func.attr} scores {env[a][0]})"


ROC_FIELDS = ["fnr", "fpr", "thresholds", "fnr_ci", "fpr_ci"]
ROC_FIELD_TYPES = {"fnr": "LR", "fpr": "LR", "thresholds": "LQ", "fnr_ci": "OCI", "fpr_ci": "OCI"}


def roccurve_fields(tree):
    """field order and defaults of the ROCCurve dataclass"""
    for n in tree.body:
        if isinstance(n, ast.ClassDef) and n.name == "ROCCurve":
            fields = [(s.target.id, s.value) for s in n.body if isinstance(s, ast.AnnAssign) and isinstance(s.target, ast.Name)]
            if [f for f, _ in fields] != ROC_FIELDS:
                raise Reject(f"ROCCurve fields {[f for f, _ in fields]}")
            for f, v in fields[:3]:
                if v is not None:
                    raise Reject(f"ROCCurve.{f} has a default")
            for f, v in fields[3:]:
                if not (isinstance(v, ast.Constant) and v.value is None):
                    raise Reject(f"ROCCurve.{f} default is not None")
            return n
    raise Reject("class ROCCurve not found")


def roccurve_call(e, env):
    if not (isinstance(e, ast.Call) and _u(e.func) == "ROCCurve"):
        raise Reject(f"expected ROCCurve(...): {_u(e)[:80]}")
    bound = {}
    for p, a in zip(ROC_FIELDS, e.args):
        bound[p] = a
    for k in e.keywords:
        if k.arg not in ROC_FIELDS or k.arg in bound:
            raise Reject(f"ROCCurve keyword {k.arg}")
        bound[k.arg] = k.value
    out = []
    for f in ROC_FIELDS:
        ty = ROC_FIELD_TYPES[f]
        if f not in bound:
            if ty != "OCI":
                raise Reject(f"ROCCurve field {f} missing")
            out.append("None")
            continue
        a = bound[f]
        if not (isinstance(a, ast.Name) and a.id in env):
            raise Reject(f"ROCCurve argument {_u(a)}")
        txt, have = env[a.id]
        if ty == "OCI" and have == "CI":
            txt = f"(Some {txt})"
        elif have != ty:
            raise Reject(f"ROCCurve.{f}: have {have}, want {ty}")
        out.append(txt)
    return "(mkROC " + " ".join(out) + ")"


def translate_roc_body(tree, fn_fst, consts):
    fn = find_function(tree, "roc")
    if [a.arg for a in fn.args.args] != ["scores"] or [a.arg for a in fn.args.kwonlyargs] != ["fnr", "fpr", "thresholds", "nb_points", "x_axis"]:
        raise Reject("roc signature")
    body = strip_doc(fn.body)
    if len(body) != 4:
        raise Reject(f"roc has {len(body)} statements, expected 4")
    env = {p: (p, FST_TYPES[p]) for p in ["scores", "fnr", "fpr", "thresholds", "nb_points", "x_axis"]}
    s = body[0]
    if not (isinstance(s, ast.Assign) and _u(s.targets[0]) == "thresholds"):
        raise Reject(f"roc statement 1: {_u(s)[:80]}")
    call = fst_call(s.value, fn_fst, env, consts)
    env["thresholds"] = ("thresholds", "LQ")
    lets = []
    for s, name in zip(body[1:3], ("fnr", "fpr")):
        if not (isinstance(s, ast.Assign) and len(s.targets) == 1 and isinstance(s.targets[0], ast.Name)):
            raise Reject(f"roc statement: {_u(s)}")
        tgt = s.targets[0].id
        lets.append(f"let {tgt} := {rate_call(s.value, env)} in")
        env[tgt] = (tgt, "LR")
    if not isinstance(body[3], ast.Return):
        raise Reject("roc does not end in return")
    ret = roccurve_call(body[3].value, env)
    defaults = {a.arg: d for a, d in zip(fn.args.kwonlyargs, fn.args.kw_defaults)}
    d_nb = const_arg(defaults["nb_points"], "OZ", consts)
    d_x = const_arg(defaults["x_axis"], "X", consts)
    txt = ("Definition gen_roc (succ pred : Q -> Q) (scores : scores) (fnr fpr thresholds : option (list Q)) "
           "(nb_points : option Z) (x_axis : xaxis) : res roc_curve :=\n"
           f"  rbind {call} (fun thresholds =>\n  " + "\n  ".join(lets) + f"\n  Ret {ret}).\n")
    txt += f"Definition gen_roc_default_nb_points : option Z := {d_nb}.\nDefinition gen_roc_default_x_axis : xaxis := {d_x}.\n"
    return txt


def translate_views(cls):
    """the properties of ROCCurve"""
    out = []
    known = {"fnr": "(rc_fnr c)", "fpr": "(rc_fpr c)", "thresholds": "(rc_thresholds c)", "fnr_ci": "(rc_fnr_ci c)", "fpr_ci": "(rc_fpr_ci c)"}
    types = {"fnr": "LR", "fpr": "LR", "fnr_ci": "OCI", "fpr_ci": "OCI", "thresholds": "LQ"}
    want = ["tpr", "tnr", "frr", "far", "tar", "trr", "tpr_ci", "tnr_ci", "frr_ci", "far_ci", "tar_ci", "trr_ci"]
    props = [n for n in cls.body if isinstance(n, ast.FunctionDef)]
    if [p.name for p in props] != want:
        raise Reject(f"ROCCurve members {[p.name for p in props]}")
    for fn in props:
        if [_u(d) for d in fn.decorator_list] != ["property"] or [a.arg for a in fn.args.args] != ["self"]:
            raise Reject(f"ROCCurve.{fn.name} is not a plain property")
        body = strip_doc(fn.body)
        if len(body) != 1 or not isinstance(body[0], ast.Return):
            raise Reject(f"ROCCurve.{fn.name} body")
        e = body[0].value

        def attr(x):
            if isinstance(x, ast.Attribute) and isinstance(x.value, ast.Name) and x.value.id == "self" and x.attr in known:
                return known[x.attr], types[x.attr]
            raise Reject(f"ROCCurve.{fn.name}: {_u(x)}")

        if isinstance(e, ast.Attribute):
            txt, ty = attr(e)
        elif (isinstance(e, ast.BinOp) and isinstance(e.op, ast.Sub) and isinstance(e.left, ast.Constant)
              and e.left.value == 1.0):
            a, ty = attr(e.right)
            if ty != "LR":
                raise Reject(f"ROCCurve.{fn.name}: complement of {ty}")
            txt = f"(map rcompl {a})"
        elif isinstance(e, ast.IfExp):
            # None if self.X is None else np.copy(1.0 - self.X[..., ::-1])
            if not (isinstance(e.body, ast.Constant) and e.body.value is None and isinstance(e.test, ast.Compare)
                    and len(e.test.ops) == 1 and isinstance(e.test.ops[0], ast.Is)
                    and isinstance(e.test.comparators[0], ast.Constant) and e.test.comparators[0].value is None):
                raise Reject(f"ROCCurve.{fn.name}: {_u(e)}")
            a, ty = attr(e.test.left)
            if ty != "OCI":
                raise Reject(f"ROCCurve.{fn.name}: None test on {ty}")
            if _u(e.orelse) != f"np.copy(1.0 - {_u(e.test.left)}[..., ::-1])":
                raise Reject(f"ROCCurve.{fn.name}: {_u(e.orelse)}")
            txt = f"(option_map compl_ci {a})"
        else:
            raise Reject(f"ROCCurve.{fn.name}: {_u(e)}")
        cty = {"LR": "list rate", "OCI": "option (list (rate * rate))"}[ty]
        out.append(f"Definition gen_v_{fn.name} (c : roc_curve) : {cty} := {txt}.\n")
        known[fn.name] = f"(gen_v_{fn.name} c)"
        types[fn.name] = ty
    return "".join(out)


FST_SHAPE = [
    "nb_extra_points is not None", "thresholds is None", "fnr is not None", "fpr is not None", "len(thresholds) == 0",
    "nb_extra_points is not None",
]


def translate_fst_parts(tree, consts):
    fn = fst_function(tree)
    body = strip_doc(fn.body)
    if len(body) != 11:
        raise Reject(f"_find_support_thresholds has {len(body)} top-level statements, expected 11")
    for s, t in zip(body[:6], FST_SHAPE):
        if not (isinstance(s, ast.If) and _u(s.test) == t):
            raise Reject(f"_find_support_thresholds: expected `if {t}`, found {_u(s)[:60]}")
    # statement 1: the extra split
    s = body[0]
    z0 = {"nb_extra_points": ("e", "Z")}
    a = split_pair(s.body, ["nb_extra_fnr_points", "nb_extra_fpr_points"], z0)
    b = split_pair(s.orelse, ["nb_extra_fnr_points", "nb_extra_fpr_points"], {})
    out = [f"Definition gen_extra_split (nb_extra_points : option Z) : Z * Z :=\n"
           f"  match nb_extra_points with Some e => {a} | None => {b} end.\n"]
    # the nb_points split inside statement 5
    s = body[4]
    if not (len(s.body) == 1 and isinstance(s.body[0], ast.If) and _u(s.body[0].test) == "nb_points is None" and not s.orelse):
        raise Reject("default-support branch shape")
    dflt = s.body[0].orelse
    if len(dflt) < 2:
        raise Reject("default-support branch too short")
    p = split_pair(dflt[:2], ["nb_fnr_points", "nb_fpr_points"], {"nb_points": ("nb_points", "Z")})
    out.append(f"Definition gen_points_split (nb_points : Z) : Z * Z :=\n  {p}.\n")
    used = " ".join(_u(x) for x in dflt[2:])
    for need in ("np.linspace(0.0, 1.0, nb_fnr_points, endpoint=True)", "np.linspace(0.0, 1.0, nb_fpr_points, endpoint=True)"):
        if need not in used:
            raise Reject(f"default support does not use {need}")
    # the tail
    out.append("Definition gen_support_tail (scores : scores) (x_axis : xaxis) (thresholds : list Q) : res (list Q) :=\n  "
               + translate_tail(body[6:]) + ".\n")
    d = fst_defaults(fn, consts)
    for p_, nm, ty in (("nb_extra_points", "gen_default_nb_extra_points", "option Z"), ("x_axis", "gen_default_x_axis", "xaxis")):
        if p_ in d:
            out.append(f"Definition {nm} : option ({ty}) := Some {d[p_]}.\n")
        else:
            out.append(f"Definition {nm} : option ({ty}) := None.\n")
    return fn, "".join(out)


HEADER = ("(* generated from {src} by harness/translate/roc_tr.py — do not edit *)\n"
          "From SA Require Import {mod}.\nOpen Scope Q_scope.\n")


def translate_roc(repo):
    tree = roc_tree(repo)
    consts = module_consts(tree)
    fn_fst, parts = translate_fst_parts(tree, consts)
    cls = roccurve_fields(tree)
    return (HEADER.format(src="score_analysis/roc_curve.py (roc, _find_support_thresholds, ROCCurve)", mod="Model.Roc")
            + parts + translate_roc_body(tree, fn_fst, consts) + translate_views(cls))


if __name__ == "__main__":
    import sys
    print(translate_roc(sys.argv[1] if len(sys.argv) > 1 else "/repo"))


# ====================================================================================================== C16
"""C16 (translate_rocci -> Gen_rocci.v):
  gen_apply_rule_of_three      _apply_rule_of_three: the two corrections, comparison operators and thresholds
  gen_roc_with_ci              body of roc_with_ci: support call (ROC_CI_EXTRA_POINTS), rates, the joint metric, the
                               bootstrap call, joint_ci[0]/[1], both rule-of-three calls (n= arguments), both
                               _aggregate_rectangles calls (argument order), the ROCCurve slots
  gen_pointwise_band_ci, gen_simultaneous_joint_region_ci   the same for experimental/roc_ci.py
  gen_fixed_width_support      the support call of fixed_width_band_ci
  gen_roc_ci_extra_points      the module constant
The bodies of _aggregate_rectangles, _displace_curve, _find_tube_radius and the loop of fixed_width_band_ci are tied by
correspondence only."""

R3_PARAMS = ["p", "ci", "alpha", "n"]
AGG_PARAMS = ["x", "dxp", "dyp"]
BAND_SIG = ("(succ pred : Q -> Q) (pow : Q -> Q -> Q) (Phi PhiInv pow15 : Q -> Q) (ksone_ppf : Q -> Z -> Q) (H : Type) "
            "(dynamic_choice : Scores.scores -> config Scores.scores -> sampling Scores.scores) "
            "(builtin_sample : sampling Scores.scores -> Scores.scores -> config Scores.scores -> H -> BootCI.res Scores.scores)")


class R3Tr(Tr):
    def expr(self, e):
        if isinstance(e, ast.Call) and _u(e.func) == "math.pow" and len(e.args) == 2 and not e.keywords:
            a, b = (self.coerce(self.expr(x), "Q") for x in e.args)
            return (f"(pow {a} {b})", "Q")
        return super().expr(e)


def translate_rule_of_three(tree):
    fn = find_function(tree, "_apply_rule_of_three")
    if [a.arg for a in fn.args.args] != R3_PARAMS or fn.args.kwonlyargs or fn.args.defaults:
        raise Reject("_apply_rule_of_three signature")
    body = strip_doc(fn.body)
    tr = R3Tr(env={"alpha": ("alpha", "Q"), "n": ("n", "Z")})
    corrections = set()
    out = []
    for s in body[:-1]:
        if not (isinstance(s, ast.Assign) and len(s.targets) == 1 and isinstance(s.targets[0], ast.Name)):
            raise Reject(f"_apply_rule_of_three statement {_u(s)[:80]}")
        tgt, v = s.targets[0].id, s.value
        if isinstance(v, ast.Call) and _u(v.func) == "np.array":
            # np.array([[a, b]])
            if not (len(v.args) == 1 and not v.keywords and isinstance(v.args[0], ast.List) and len(v.args[0].elts) == 1
                    and isinstance(v.args[0].elts[0], ast.List) and len(v.args[0].elts[0].elts) == 2):
                raise Reject(f"correction shape {_u(v)}")
            a, b = (tr.coerce(tr.expr(x), "Q") for x in v.args[0].elts[0].elts)
            out.append(f"let {tgt} : rate * rate := (Some {a}, Some {b}) in")
            corrections.add(tgt)
        elif isinstance(v, ast.Call) and _u(v.func) == "np.where":
            if tgt != "ci" or len(v.args) != 3 or v.keywords:
                raise Reject(f"np.where statement {_u(s)}")
            cond, a, b = v.args
            if not (isinstance(cond, ast.Compare) and len(cond.ops) == 1 and _u(cond.left) == "p[:, np.newaxis]"):
                raise Reject(f"np.where condition {_u(cond)}")
            cmp_ = {ast.Lt: "rlt_q", ast.Gt: "rgt_q", ast.LtE: "rle_q", ast.GtE: "rge_q"}.get(type(cond.ops[0]))
            if cmp_ is None:
                raise Reject(f"comparison {_u(cond)}")
            c = tr.coerce(tr.expr(cond.comparators[0]), "Q")
            if not (isinstance(a, ast.Name) and a.id in corrections and isinstance(b, ast.Name) and b.id == "ci"):
                raise Reject(f"np.where branches {_u(a)}, {_u(b)}")
            out.append(f"let ci := map (fun pc => if {cmp_} (fst pc) {c} then {a.id} else snd pc) (combine p ci) in")
        else:
            raise Reject(f"_apply_rule_of_three statement {_u(s)[:80]}")
    if _u(body[-1]) != "return ci":
        raise Reject("_apply_rule_of_three return")
    return ("Definition gen_apply_rule_of_three (pow : Q -> Q -> Q) (p : list rate) (ci : list (rate * rate)) (alpha : Q) (n : Z) "
            ": list (rate * rate) :=\n  " + "\n  ".join(out) + "\n  ci.\n")


def bind_args(call, params, what):
    bound = {}
    if len(call.args) > len(params):
        raise Reject(f"{what}: too many arguments")
    for p, a in zip(params, call.args):
        bound[p] = a
    for k in call.keywords:
        if k.arg not in params or k.arg in bound:
            raise Reject(f"{what}: keyword {k.arg}")
        bound[k.arg] = k.value
    if set(bound) != set(params):
        raise Reject(f"{what}: arguments {sorted(bound)}")
    return bound


def name_of(e, env, ty, what):
    if isinstance(e, ast.Name) and e.id in env and env[e.id][1] == ty:
        return env[e.id][0]
    raise Reject(f"{what}: {_u(e)} is not a {ty}")


POPULATION = {"scores.nb_all_pos": "(nb_all_pos scores)", "scores.nb_all_neg": "(nb_all_neg scores)",
              "len(scores.pos)": "(len (pos scores))", "len(scores.neg)": "(len (neg scores))",
              "scores.nb_hard_pos": "(len (pos scores))", "scores.nb_hard_neg": "(len (neg scores))"}


class BandTr:
    """statement-by-statement translation of a band-producing function body into the res monad"""

    def __init__(self, fn_fst, consts, has_xaxis):
        self.fn_fst, self.consts = fn_fst, consts
        self.env = {p: (p, FST_TYPES[p]) for p in ["scores", "fnr", "fpr", "thresholds", "nb_points"]}
        if has_xaxis:
            self.env["x_axis"] = ("x_axis", "X")
        self.env["alpha"] = ("alpha", "Q")
        self.env["config"] = ("config", "CFG")
        self.closers = 0
        self.n_expr = None     # Coq text of the number of curve points (length of the first stacked array)

    def metric_def(self, fn):
        if [a.arg for a in fn.args.args] != ["_scores"] or fn.args.kwonlyargs or fn.args.defaults:
            raise Reject("_metric signature")
        body = strip_doc(fn.body)
        if len(body) != 3:
            raise Reject("_metric body length")
        parts, names = [], []
        for k, s in enumerate(body[:2]):
            if not (isinstance(s, ast.Assign) and isinstance(s.targets[0], ast.Name) and isinstance(s.value, ast.Call)):
                raise Reject(f"_metric statement {_u(s)}")
            outer = s.value
            if not (isinstance(outer.func, ast.Attribute) and _u(outer.func.value) == "_scores" and outer.func.attr in ("fnr", "fpr")
                    and len(outer.args) == 1 and not outer.keywords and isinstance(outer.args[0], ast.Call)):
                raise Reject(f"_metric statement {_u(s)}")
            inner = outer.args[0]
            if not (isinstance(inner.func, ast.Attribute) and _u(inner.func.value) == "_scores"
                    and inner.func.attr in ("threshold_at_fnr", "threshold_at_fpr") and len(inner.args) == 1 and not inner.keywords):
                raise Reject(f"_metric statement {_u(s)}")
            arr = name_of(inner.args[0], self.env, "LR", "_metric target array")
            tname = f"t{k}"
            parts.append((f"thresholds_at_{inner.func.attr[-3:]} succ pred _scores (map rval {arr})", tname,
                          s.targets[0].id, f"rates_at s_{outer.func.attr} _scores {tname}"))
            names.append(s.targets[0].id)
        ret = body[2]
        if not (isinstance(ret, ast.Return) and isinstance(ret.value, ast.Call) and _u(ret.value.func) == "np.stack"
                and len(ret.value.args) == 1 and isinstance(ret.value.args[0], ast.List)
                and [k.arg for k in ret.value.keywords] == ["axis"] and _u(ret.value.keywords[0].value) == "0"):
            raise Reject(f"_metric return {_u(ret)}")
        stacked = [x.id if isinstance(x, ast.Name) else None for x in ret.value.args[0].elts]
        if len(stacked) != 2 or any(x not in names for x in stacked):
            raise Reject(f"_metric return {_u(ret)}")
        (c0, t0, v0, r0), (c1, t1, v1, r1) = parts
        return (f"(fun (_scores : Scores.scores) (_ : unit) => rbind ({c0}) (fun {t0} => let {v0} := {r0} in "
                f"rbind ({c1}) (fun {t1} => let {v1} := {r1} in Ret ({stacked[0]} ++ {stacked[1]}))))")

    def stmt(self, s):
        """returns Coq text that ends with an open continuation"""
        env = self.env
        if isinstance(s, ast.FunctionDef):
            env[s.name] = (self.metric_def(s), "METRIC")
            return ""
        if not (isinstance(s, ast.Assign) and len(s.targets) == 1 and isinstance(s.targets[0], ast.Name)):
            raise Reject(f"statement {_u(s)[:80]}")
        tgt, v = s.targets[0].id, s.value
        src = _u(v)
        if isinstance(v, ast.Call) and _u(v.func) == "_find_support_thresholds":
            call = fst_call(v, self.fn_fst, env, self.consts)
            env[tgt] = (tgt, "LQ")
            self.closers += 1
            return f"rbind {call} (fun {tgt} =>\n  "
        if isinstance(v, ast.Call) and isinstance(v.func, ast.Attribute) and _u(v.func.value) == "scores" and v.func.attr in ("fnr", "fpr"):
            txt = rate_call(v, env)
            env[tgt] = (tgt, "LR")
            if self.n_expr is None:
                self.n_expr = f"(length {tgt})"
            return f"let {tgt} := {txt} in\n  "
        if isinstance(v, ast.Call) and _u(v.func) == "scores.bootstrap_ci":
            if v.args or sorted(k.arg for k in v.keywords) != ["alpha", "config", "metric"]:
                raise Reject(f"bootstrap_ci call {src}")
            kw = {k.arg: k.value for k in v.keywords}
            metric = name_of(kw["metric"], env, "METRIC", "metric=")
            a = name_of(kw["alpha"], env, "Q", "alpha=")
            cfg = name_of(kw["config"], env, "CFG", "config=")
            env[tgt] = ("data", "JOINT")
            self.closers += 1
            return (f"match bootstrap_ci_m Scores.scores unit (Threshold.res (list rate)) unit H (list nat * list rate) dynamic_choice "
                    f"builtin_sample (fun _ _ _ _ => Raise) (ci_routine Phi PhiInv pow15 {self.n_expr}) scores (Callable {metric}) "
                    f"{a} {cfg} hist tt with\n  | Err => Raise\n  | Ok (_, data) =>\n  let pairs := to_pairs data in\n  ")
        if isinstance(v, ast.Subscript) and isinstance(v.value, ast.Name) and env.get(v.value.id, (None, None))[1] == "JOINT":
            k = v.slice.value if isinstance(v.slice, ast.Constant) else None
            if k == 0:
                txt = f"firstn {self.n_expr} pairs"
            elif k == 1:
                txt = f"skipn {self.n_expr} pairs"
            else:
                raise Reject(f"row {_u(v.slice)} of the joint interval array")
            env[tgt] = (tgt, "CI")
            return f"let {tgt} := {txt} in\n  "
        if isinstance(v, ast.Call) and _u(v.func) == "_apply_rule_of_three":
            b = bind_args(v, R3_PARAMS, "_apply_rule_of_three")
            pop = POPULATION.get(_u(b["n"]))
            if pop is None:
                raise Reject(f"rule-of-three population {_u(b['n'])}")
            txt = (f"apply_rule_of_three pow {name_of(b['p'], env, 'LR', 'p=')} {name_of(b['ci'], env, 'CI', 'ci=')} "
                   f"{name_of(b['alpha'], env, 'Q', 'alpha=')} {pop}")
            env[tgt] = (tgt, "CI")
            return f"let {tgt} := {txt} in\n  "
        if isinstance(v, ast.Call) and _u(v.func) == "_aggregate_rectangles":
            b = bind_args(v, AGG_PARAMS, "_aggregate_rectangles")
            txt = (f"aggregate_rectangles {name_of(b['x'], env, 'LR', 'x')} {name_of(b['dxp'], env, 'CI', 'dxp')} "
                   f"{name_of(b['dyp'], env, 'CI', 'dyp')}")
            env[tgt] = (tgt, "CI")
            return f"let {tgt} := {txt} in\n  "
        if isinstance(v, ast.Call) and _u(v.func) == "scipy.stats.ksone.ppf":
            if len(v.args) != 2 or v.keywords:
                raise Reject(f"ksone.ppf call {src}")
            tr = Tr(env={"alpha": ("alpha", "Q")})
            q = tr.coerce(tr.expr(v.args[0]), "Q")
            pop = POPULATION.get(_u(v.args[1]))
            if pop is None:
                raise Reject(f"ksone.ppf population {_u(v.args[1])}")
            env[tgt] = (tgt, "Q")
            return f"let {tgt} := ksone_ppf {q} {pop} in\n  "
        if isinstance(v, ast.Call) and _u(v.func) == "np.stack":
            # np.stack([r - d, r + d], axis=-1)
            if not (len(v.args) == 1 and isinstance(v.args[0], ast.List) and len(v.args[0].elts) == 2
                    and [k.arg for k in v.keywords] == ["axis"] and _u(v.keywords[0].value) == "-1"):
                raise Reject(f"np.stack call {src}")
            lo, hi = v.args[0].elts
            if not (isinstance(lo, ast.BinOp) and isinstance(lo.op, ast.Sub) and isinstance(hi, ast.BinOp) and isinstance(hi.op, ast.Add)
                    and _u(lo.left) == _u(hi.left) and _u(lo.right) == _u(hi.right)):
                raise Reject(f"np.stack call {src}")
            r = name_of(lo.left, env, "LR", "band centre")
            d = name_of(lo.right, env, "Q", "band half-width")
            env[tgt] = (tgt, "CI")
            return f"let {tgt} := shift_ci {r} {d} in\n  "
        raise Reject(f"statement {_u(s)[:80]}")

    def body(self, stmts):
        txt = ""
        for s in stmts[:-1]:
            txt += self.stmt(s)
        if not isinstance(stmts[-1], ast.Return):
            raise Reject("function does not end in return")
        txt += f"Ret {roccurve_call(stmts[-1].value, self.env)}"
        opened = txt.count("with\n  | Err => Raise")
        return txt + "\n  end" * opened + ")" * (self.closers - opened)


BAND_KWONLY = ["fnr", "fpr", "thresholds", "nb_points", "alpha", "config"]


def exp_tree(repo):
    return ast.parse(open(os.path.join(repo, "score_analysis", "experimental", "roc_ci.py")).read())


def check_exp_imports(tree):
    """the experimental module must use roc_curve's own helpers (not local redefinitions)"""
    imported = set()
    for n in tree.body:
        if isinstance(n, ast.ImportFrom) and n.module == "score_analysis.roc_curve":
            imported |= {a.name for a in n.names if a.asname is None}
        if isinstance(n, ast.FunctionDef) and n.name in ("_aggregate_rectangles", "_apply_rule_of_three", "_find_support_thresholds"):
            raise Reject(f"experimental/roc_ci.py redefines {n.name}")
    need = {"ROCCurve", "_aggregate_rectangles", "_apply_rule_of_three", "_find_support_thresholds"}
    if not need <= imported:
        raise Reject(f"experimental/roc_ci.py does not import {sorted(need - imported)} from score_analysis.roc_curve")


def band_function(tree, name, fn_fst, consts, has_xaxis, head_only=False):
    fn = find_function(tree, name)
    want = ["fnr", "fpr", "thresholds", "nb_points"] + (["x_axis"] if has_xaxis else []) + ["alpha", "config"]
    if [a.arg for a in fn.args.args] != ["scores"] or [a.arg for a in fn.args.kwonlyargs] != want:
        raise Reject(f"{name} signature")
    bt = BandTr(fn_fst, consts, has_xaxis)
    body = strip_doc(fn.body)
    if head_only:
        s = body[0]
        if not (isinstance(s, ast.Assign) and _u(s.targets[0]) == "thresholds"):
            raise Reject(f"{name}: first statement {_u(s)[:60]}")
        return fst_call(s.value, fn_fst, bt.env, consts)
    return bt.body(body)


def translate_rocci(repo):
    tree = roc_tree(repo)
    consts = module_consts(tree)
    fn_fst = fst_function(tree)
    roccurve_fields(tree)
    etree = exp_tree(repo)
    check_exp_imports(etree)
    out = [HEADER.format(src="score_analysis/roc_curve.py + experimental/roc_ci.py (confidence bands)", mod="Model.RocCI")]
    out.append("Definition rle_q (p : rate) (c : Q) : bool := match p with Some x => Qleb x c | None => false end.\n"
               "Definition rge_q (p : rate) (c : Q) : bool := match p with Some x => Qleb c x | None => false end.\n")
    if "ROC_CI_EXTRA_POINTS" not in consts or not isinstance(consts["ROC_CI_EXTRA_POINTS"].value, int):
        raise Reject("ROC_CI_EXTRA_POINTS")
    out.append(f"Definition gen_roc_ci_extra_points : Z := ({consts['ROC_CI_EXTRA_POINTS'].value})%Z.\n")
    out.append(translate_rule_of_three(tree))
    sig_x = ("(scores : scores) (fnr fpr thresholds : option (list Q)) (nb_points : option Z) (x_axis : xaxis) (alpha : Q) "
             "(config : config Scores.scores) (hist : nat -> H)")
    sig = sig_x.replace(" (x_axis : xaxis)", "")
    out.append(f"Definition gen_roc_with_ci {BAND_SIG} {sig_x} : Threshold.res roc_curve :=\n  "
               + band_function(tree, "roc_with_ci", fn_fst, consts, True) + ".\n")
    out.append(f"Definition gen_pointwise_band_ci {BAND_SIG} {sig} : Threshold.res roc_curve :=\n  "
               + band_function(etree, "pointwise_band_ci", fn_fst, consts, False) + ".\n")
    out.append(f"Definition gen_simultaneous_joint_region_ci {BAND_SIG} {sig} : Threshold.res roc_curve :=\n  "
               + band_function(etree, "simultaneous_joint_region_ci", fn_fst, consts, False) + ".\n")
    out.append("Definition gen_fixed_width_support (succ pred : Q -> Q) (scores : scores) (fnr fpr thresholds : option (list Q)) "
               "(nb_points : option Z) : Threshold.res (list Q) :=\n  "
               + band_function(etree, "fixed_width_band_ci", fn_fst, consts, False, head_only=True) + ".\n")
    return "".join(out)
