"""Fail-closed translator for score_analysis/metrics.py, utils.binomial_ci and the ConfusionMatrix
metric wrappers of cm.py (tie T for C04, reused by C05).

Every top-level function of metrics.py is regenerated as a Gallina definition `gen_<name>` over the
primitives of Base/Rate.v (`rdiv`, `rdivr`, `rcompl`, `rmul`, `rsub`, `radd`, `rmap`, `rscale`) and the
cell projections of the record `cm2` (Model/Metrics.v).  Anything that is not on the whitelist below
raises `Reject`.

Value kinds ("types") tracked while translating:
  'Q'    an array of finite numbers of the leading shape (one entry per stacked matrix)  -> Coq Q
  'R'    a float array that may hold NaN                                                 -> Coq rate
  'DIAG' np.diagonal(matrix, axis1=-1, axis2=-2)
  'NAN'  a fresh np.full_like(<Q>, np.nan, dtype=float) buffer (may be used once, as out=)
  'CI'   np.stack([lo, hi], axis=-1)                                                     -> rate * rate
  'A'    the scalar alpha                                                                -> Q

Two emission modes:
  mode '2'  matrix is a 2x2 record `m : cm2` (all functions);
  mode 'N'  matrix is `M : mat` (list of rows), only for functions that never select a cell
            (pop, accuracy, error_rate): np.sum(matrix, axis=(-1,-2)) -> `total M`,
            np.sum(np.diagonal(matrix, axis1=-1, axis2=-2), axis=-1) -> `traceN M` (Model/Multiclass.v).
"""
import ast
import os
import warnings

from .pyast import Reject, find_function, strip_doc

CELL = {(0, 0): "m00", (0, 1): "m01", (1, 0): "m10", (1, 1): "m11"}

# the functions the tie file has a lemma for; a missing one is rejected here, an extra one is translated
# if possible and otherwise ignored with a note in the generated file
EXPECTED = ["tp", "tn", "fp", "fn", "p", "n", "top", "ton", "pop", "accuracy", "error_rate", "tpr", "tnr", "fpr",
            "fnr", "tar", "frr", "trr", "far", "tpr_ci", "tnr_ci", "fpr_ci", "fnr_ci", "tar_ci", "frr_ci", "trr_ci",
            "far_ci", "topr", "tonr", "acceptance_rate", "rejection_rate", "ppv", "npv", "fdr", "for_"]
N_MODE = ["pop", "accuracy", "error_rate"]

SCALAR_REDUCE = "res = res.item() if res.ndim == 0 else res"


def _is_np(e, attr):
    return (isinstance(e, ast.Attribute) and isinstance(e.value, ast.Name) and e.value.id == "np" and e.attr == attr)


def _const(e, v):
    return isinstance(e, ast.Constant) and type(e.value) is type(v) and e.value == v


def _neg_const(e, v):
    return isinstance(e, ast.UnaryOp) and isinstance(e.op, ast.USub) and _const(e.operand, v)


def _kwargs(e, allowed):
    kws = {}
    for k in e.keywords:
        if k.arg is None or k.arg not in allowed or k.arg in kws:
            raise Reject(f"keyword {k.arg!r} in {ast.unparse(e)[:80]}")
        kws[k.arg] = k.value
    return kws


def _axes_last_two(e):
    """axis=(-1, -2) or (-2, -1)"""
    if not (isinstance(e, ast.Tuple) and len(e.elts) == 2):
        return False
    a, b = e.elts
    return (_neg_const(a, 1) and _neg_const(b, 2)) or (_neg_const(a, 2) and _neg_const(b, 1))


def _parse(path):
    with warnings.catch_warnings():
        warnings.simplefilter("ignore")
        return ast.parse(open(path).read())


class FnTr:
    """translates the body of one function; `mod` gives access to sibling functions (lazy, memoised)"""

    def __init__(self, mod, name, mode):
        self.mod = mod
        self.name = name
        self.mode = mode  # '2' or 'N'
        self.env = {}
        self.reduced = False

    # ------------------------------------------------------------------ expressions
    def cell(self, e):
        if not (isinstance(e, ast.Subscript) and isinstance(e.value, ast.Name) and e.value.id == "matrix"):
            return None
        if "matrix" in self.env:
            raise Reject("matrix was re-bound")
        sl = e.slice
        if not (isinstance(sl, ast.Tuple) and len(sl.elts) == 3 and _const(sl.elts[0], Ellipsis)
                and all(isinstance(x, ast.Constant) and type(x.value) is int and x.value in (0, 1) for x in sl.elts[1:])):
            raise Reject("matrix subscript " + ast.unparse(e))
        if self.mode != "2":
            raise Reject("cell selector in N-class mode")
        return (f"({CELL[(sl.elts[1].value, sl.elts[2].value)]} m)", "Q")

    def expr(self, e):
        c = self.cell(e)
        if c is not None:
            return c
        if isinstance(e, ast.Name):
            if e.id in self.env:
                v = self.env[e.id]
                if v[1] == "NAN":
                    raise Reject("NaN buffer used as a value")
                return v
            raise Reject(f"unbound name {e.id} in {self.name}")
        if isinstance(e, ast.Constant):
            if type(e.value) in (int, float) and e.value == 1:
                return ("1", "Q1")
            if type(e.value) in (int, float) and e.value == 2:
                return ("2", "Q2")
            raise Reject(f"constant {e.value!r}")
        if isinstance(e, ast.BinOp):
            a, b = self.expr(e.left), self.expr(e.right)
            op = type(e.op)
            if op is ast.Add and a[1] == "Q" and b[1] == "Q":
                return (f"({a[0]} + {b[0]})", "Q")
            if op is ast.Sub and a[1] == "Q1" and b[1] == "R":
                return (f"(rcompl {b[0]})", "R")
            if op is ast.Mult and a[1] == "R" and b[1] == "R":
                return (f"(rmul {a[0]} {b[0]})", "R")
            if op is ast.Mult and a[1] == "Q" and b[1] == "R":
                return (f"(rscale {a[0]} {b[0]})", "R")
            if op is ast.Sub and a[1] == "R" and b[1] == "R":
                return (f"(rsub {a[0]} {b[0]})", "R")
            if op is ast.Add and a[1] == "R" and b[1] == "R":
                return (f"(radd {a[0]} {b[0]})", "R")
            if op is ast.Div and a[1] == "A" and b[1] == "Q2":
                return (f"({a[0]} / 2)", "Q")
            raise Reject(f"binop {op.__name__} on {a[1]},{b[1]} in {self.name}")
        if isinstance(e, ast.Call):
            return self.call(e)
        raise Reject("expression " + ast.dump(e)[:100])

    def nan_buffer(self, e, consume):
        """e is the out= argument: a direct np.full_like(<Q>, np.nan, dtype=float) or a name bound to a fresh one"""
        if isinstance(e, ast.Name):
            v = self.env.get(e.id)
            if v is None or v[1] != "NAN":
                raise Reject(f"out={e.id} is not a fresh NaN buffer")
            if consume:
                self.env[e.id] = ("", "USED")
            return
        if not (isinstance(e, ast.Call) and _is_np(e.func, "full_like")):
            raise Reject("out= is not np.full_like(...): " + ast.unparse(e)[:80])
        kws = _kwargs(e, {"dtype"})
        if len(e.args) != 2 or "dtype" not in kws:
            raise Reject("np.full_like shape: " + ast.unparse(e)[:80])
        if self.expr(e.args[0])[1] != "Q":
            raise Reject("np.full_like prototype is not a count array")
        if not _is_np(e.args[1], "nan"):
            raise Reject("np.full_like fill value is not np.nan")
        if not (isinstance(kws["dtype"], ast.Name) and kws["dtype"].id == "float"):
            raise Reject("np.full_like dtype is not float")

    def call(self, e):
        f = e.func
        # ---- numpy
        if _is_np(f, "sum"):
            kws = _kwargs(e, {"axis"})
            if len(e.args) != 1 or "axis" not in kws:
                raise Reject("np.sum shape")
            arg = e.args[0]
            if isinstance(arg, ast.Name) and arg.id == "matrix" and "matrix" not in self.env:
                if not _axes_last_two(kws["axis"]):
                    raise Reject("np.sum(matrix) axes " + ast.unparse(kws["axis"]))
                return ("(m00 m + m01 m + m10 m + m11 m)", "Q") if self.mode == "2" else ("(total M)", "Q")
            if self.expr_kind(arg) == "DIAG":
                if not _neg_const(kws["axis"], 1):
                    raise Reject("np.sum(diagonal) axis")
                return ("(m00 m + m11 m)", "Q") if self.mode == "2" else ("(traceN M)", "Q")
            raise Reject("np.sum argument " + ast.unparse(arg)[:60])
        if _is_np(f, "diagonal"):
            kws = _kwargs(e, {"axis1", "axis2"})
            if not (len(e.args) == 1 and isinstance(e.args[0], ast.Name) and e.args[0].id == "matrix"
                    and "matrix" not in self.env and set(kws) == {"axis1", "axis2"}):
                raise Reject("np.diagonal shape")
            a1, a2 = kws["axis1"], kws["axis2"]
            if not ((_neg_const(a1, 1) and _neg_const(a2, 2)) or (_neg_const(a1, 2) and _neg_const(a2, 1))):
                raise Reject("np.diagonal axes")
            return ("DIAG", "DIAG")
        if _is_np(f, "divide"):
            kws = _kwargs(e, {"out", "where"})
            if len(e.args) != 2 or set(kws) != {"out", "where"}:
                raise Reject("np.divide without out=/where=: " + ast.unparse(e)[:80])
            num, den = e.args
            w = kws["where"]
            if not (isinstance(w, ast.Compare) and len(w.ops) == 1 and isinstance(w.ops[0], ast.NotEq)
                    and ast.dump(w.left) == ast.dump(den) and _const(w.comparators[0], 0)):
                raise Reject("where= is not `<denominator> != 0`: " + ast.unparse(w))
            n, d = self.expr(num), self.expr(den)
            self.nan_buffer(kws["out"], consume=True)
            if d[1] != "Q":
                raise Reject("denominator kind " + d[1])
            if n[1] == "Q":
                return (f"(rdiv {n[0]} {d[0]})", "R")
            if n[1] == "R":
                return (f"(rdivr {n[0]} {d[0]})", "R")
            raise Reject("numerator kind " + n[1])
        if _is_np(f, "sqrt"):
            if len(e.args) != 1 or e.keywords:
                raise Reject("np.sqrt shape")
            a = self.expr(e.args[0])
            if a[1] != "R":
                raise Reject("np.sqrt of " + a[1])
            return (f"(rmap sqrtQ {a[0]})", "R")
        if _is_np(f, "stack"):
            kws = _kwargs(e, {"axis"})
            if not (len(e.args) == 1 and isinstance(e.args[0], ast.List) and len(e.args[0].elts) == 2
                    and "axis" in kws and _neg_const(kws["axis"], 1)):
                raise Reject("np.stack shape")
            lo, hi = (self.expr(x) for x in e.args[0].elts)
            if lo[1] != "R" or hi[1] != "R":
                raise Reject("np.stack of non-rates")
            return (f"({lo[0]}, {hi[0]})", "CI")
        if ast.unparse(f) == "scipy.stats.norm.isf":
            if len(e.args) != 1 or e.keywords:
                raise Reject("isf shape")
            a = self.expr(e.args[0])
            if a[1] != "Q":
                raise Reject("isf argument kind")
            return (f"(isf {a[0]})", "Q")
        # ---- sibling functions of metrics.py and binomial_ci
        if isinstance(f, ast.Name):
            if f.id in self.env:
                raise Reject(f"call of local name {f.id}")
            if f.id == "binomial_ci" and self.mod.kind == "metrics":
                if not self.mod.imports_binomial_ci:
                    raise Reject("binomial_ci is not imported from .utils")
                kws = _kwargs(e, {"count", "nobs", "alpha"})
                if e.args or set(kws) != {"count", "nobs", "alpha"}:
                    raise Reject("binomial_ci call shape: " + ast.unparse(e)[:80])
                c, n, a = self.expr(kws["count"]), self.expr(kws["nobs"]), self.expr(kws["alpha"])
                if (c[1], n[1], a[1]) != ("Q", "Q", "A"):
                    raise Reject("binomial_ci argument kinds")
                self.mod.uses_ci.add(self.name)
                return (f"(gen_binomial_ci {c[0]} {n[0]} {a[0]})", "CI")
            if self.mod.kind == "metrics" and f.id in self.mod.funcs:
                sig, kind = self.mod.translate(f.id, self.mode)
                if not (e.args and isinstance(e.args[0], ast.Name) and e.args[0].id == "matrix" and "matrix" not in self.env):
                    raise Reject("first argument is not matrix: " + ast.unparse(e)[:80])
                arg = "m" if self.mode == "2" else "M"
                suffix = "" if self.mode == "2" else "_N"
                if sig == ["matrix"]:
                    if len(e.args) != 1 or e.keywords:
                        raise Reject("call shape " + ast.unparse(e)[:80])
                    return (f"(gen_{f.id}{suffix} {arg})", kind)
                if sig == ["matrix", "alpha"]:
                    kws = _kwargs(e, {"alpha"})
                    rest = list(e.args[1:]) + ([kws["alpha"]] if "alpha" in kws else [])
                    if len(rest) != 1 or self.expr(rest[0])[1] != "A":
                        raise Reject("alpha argument " + ast.unparse(e)[:80])
                    self.mod.uses_ci.add(self.name)
                    return (f"(gen_{f.id} {arg} alpha)", kind)
        raise Reject("call " + ast.unparse(e)[:80])

    def expr_kind(self, e):
        if isinstance(e, ast.Name) and e.id in self.env:
            return self.env[e.id][1]
        return None

    # ------------------------------------------------------------------ statements
    def body(self, stmts):
        ret = None
        for i, st in enumerate(stmts):
            if ret is not None:
                raise Reject("statement after return")
            if isinstance(st, ast.Assign) and len(st.targets) == 1 and isinstance(st.targets[0], ast.Name):
                tgt = st.targets[0].id
                if ast.unparse(st) == SCALAR_REDUCE:
                    if self.env.get("res", (None, None))[1] != "R":
                        raise Reject("scalar reduction of a non-rate")
                    self.reduced = True
                    continue
                if tgt in ("matrix", "alpha", "np", "scipy"):
                    raise Reject(f"re-binding {tgt}")
                v = st.value
                if isinstance(v, ast.Call) and _is_np(v.func, "full_like"):
                    self.nan_buffer(v, consume=False)
                    self.env[tgt] = ("", "NAN")
                else:
                    self.env[tgt] = self.expr(v)
            elif isinstance(st, ast.Return) and st.value is not None:
                ret = self.expr(st.value)
            else:
                raise Reject(f"statement {type(st).__name__} in {self.name}")
        if ret is None:
            raise Reject(f"{self.name} does not return")
        if ret[1] in ("Q1", "Q2", "DIAG", "NAN", "A", "USED"):
            raise Reject(f"{self.name} returns kind {ret[1]}")
        return ret


class Module:
    def __init__(self, tree, kind):
        self.kind = kind
        self.funcs = {n.name: n for n in tree.body if isinstance(n, ast.FunctionDef)}
        self.imports_binomial_ci = any(
            isinstance(n, ast.ImportFrom) and n.module == "utils" and n.level == 1
            and any(a.name == "binomial_ci" and a.asname is None for a in n.names) for n in tree.body)
        self.done = {}      # (name, mode) -> (sig, kind, text, reduced)
        self.order = []
        self.active = set()
        self.uses_ci = set()

    def translate(self, name, mode):
        key = (name, mode)
        if key in self.done:
            d = self.done[key]
            return d[0], d[1]
        if key in self.active:
            raise Reject(f"recursion through {name}")
        self.active.add(key)
        fn = self.funcs[name]
        a = fn.args
        if a.vararg or a.kwarg or a.kwonlyargs or a.posonlyargs or fn.decorator_list:
            raise Reject(f"signature of {name}")
        sig = [x.arg for x in a.args]
        if sig not in (["matrix"], ["matrix", "alpha"]):
            raise Reject(f"parameters of {name}: {sig}")
        if len(a.defaults) > (1 if len(sig) == 2 else 0):
            raise Reject(f"defaults of {name}")
        tr = FnTr(self, name, mode)
        if "alpha" in sig:
            tr.env["alpha"] = ("alpha", "A")
        text, kind = tr.body(strip_doc(fn.body))
        self.active.discard(key)
        self.done[key] = (sig, kind, text, tr.reduced)
        self.order.append(key)
        return sig, kind


COQ_TY = {"Q": "Q", "R": "rate", "CI": "(rate * rate)%type"}


def translate_binomial_ci(repo):
    path = os.path.join(repo, "score_analysis", "utils.py")
    tree = _parse(path)
    fn = find_function(tree, "binomial_ci")
    a = fn.args
    if [x.arg for x in a.args] != ["count", "nobs", "alpha"] or a.vararg or a.kwarg or a.kwonlyargs or fn.decorator_list:
        raise Reject("binomial_ci signature")
    imports = {al.name for n in tree.body if isinstance(n, ast.Import) for al in n.names if al.asname is None}
    if "scipy.stats" not in imports:
        raise Reject("utils.py does not `import scipy.stats`")
    mod = Module(tree, "utils")
    tr = FnTr(mod, "binomial_ci", "2")
    tr.env = {"count": ("count", "Q"), "nobs": ("nobs", "Q"), "alpha": ("alpha", "A")}
    text, kind = tr.body(strip_doc(fn.body))
    if kind != "CI":
        raise Reject("binomial_ci does not return a stacked interval")
    return f"  Definition gen_binomial_ci (count nobs alpha : Q) : rate * rate :=\n    {text}.\n"


HEADER = ("(* generated from {src} by harness/translate/metrics_tr.py - do not edit *)\n"
          "From Coq Require Import String.\nFrom SA Require Import Model.Metrics Model.Multiclass.\nOpen Scope Q_scope.\n")


def translate_metrics(repo):
    path = os.path.join(repo, "score_analysis", "metrics.py")
    tree = _parse(path)
    mod = Module(tree, "metrics")
    missing = [f for f in EXPECTED if f not in mod.funcs]
    if missing:
        raise Reject(f"functions missing from metrics.py: {missing}")
    for name in mod.funcs:
        try:
            mod.translate(name, "2")
        except Reject:
            if name in EXPECTED:
                raise
    for name in N_MODE:
        mod.translate(name, "N")
    plain, ci = [], []
    for (name, mode) in mod.order:
        sig, kind, text, _ = mod.done[(name, mode)]
        if mode == "N":
            plain.append(f"Definition gen_{name}_N (M : mat) : {COQ_TY[kind]} :=\n  {text}.")
        elif name in mod.uses_ci:
            ci.append(f"  Definition gen_{name} (m : cm2) (alpha : Q) : {COQ_TY[kind]} :=\n    {text}.")
        elif sig == ["matrix"]:
            plain.append(f"Definition gen_{name} (m : cm2) : {COQ_TY[kind]} :=\n  {text}.")
        else:
            raise Reject(f"{name} takes alpha but is not an interval")
    reduced = sorted(n for (n, mode) in mod.order if mode == "2" and mod.done[(n, mode)][3])
    red = "Definition gen_scalar_reduced : list string :=\n  [" + "; ".join(f'"{n}"%string' for n in reduced) + "].\n"
    return (HEADER.format(src="score_analysis/metrics.py, utils.binomial_ci") + "\n".join(plain) + "\n" + red
            + "Section GenCI.\n  Variable isf : Q -> Q.\n  Variable sqrtQ : Q -> Q.\n"
            + translate_binomial_ci(repo) + "\n".join(ci) + "\nEnd GenCI.\n")


# ---------------------------------------------------------------------------------------- cm.py wrappers
DECORATOR_SRC = '''def cm_class_metric(metric=None, axis: int=-1):

    def decorator(_metric):

        @wraps(_metric)
        def wrapper(self: ConfusionMatrix, *args, as_dict: bool=False, **kwargs):
            if self.binary and as_dict:
                raise ValueError('Cannot return as dict with binary matrices.')
            cm = self if self.binary else self.one_vs_all()
            res = _metric(cm, *args, **kwargs)
            return self._class_metric_as_dict(res, axis=axis) if as_dict else res
        return wrapper
    if metric is not None:
        return decorator(metric)
    else:
        return decorator'''

AS_DICT_SRC = '''def _class_metric_as_dict(self, arr: np.ndarray, axis: int=-1) -> dict:
    res = {c: np.take(arr, j, axis=axis) for j, c in enumerate(self.classes)}
    return res'''


def _nodoc_src(fn):
    fn = ast.parse(ast.unparse(fn)).body[0]
    for n in ast.walk(fn):
        if isinstance(n, ast.FunctionDef):
            n.body = strip_doc(n.body) or [ast.Pass()]
    return ast.unparse(fn)


def cm_wrapper_table(repo):
    """[(method, metrics function, decorator kind)] sorted by method; decorator kind: 'none' | 'class' | 'class_ci'"""
    path = os.path.join(repo, "score_analysis", "cm.py")
    tree = _parse(path)
    if not any(isinstance(n, ast.ImportFrom) and n.level == 1 and n.module is None
               and any(a.name == "metrics" and a.asname is None for a in n.names) for n in tree.body):
        raise Reject("cm.py does not `from . import metrics`")
    if _nodoc_src(find_function(tree, "cm_class_metric")) != DECORATOR_SRC:
        raise Reject("cm_class_metric is not the known wrapper")
    if _nodoc_src(find_function(tree, "_class_metric_as_dict", cls="ConfusionMatrix")) != AS_DICT_SRC:
        raise Reject("_class_metric_as_dict is not the known comprehension")
    cls = [n for n in tree.body if isinstance(n, ast.ClassDef) and n.name == "ConfusionMatrix"]
    if len(cls) != 1:
        raise Reject("class ConfusionMatrix")
    rows = []
    for fn in cls[0].body:
        if not isinstance(fn, ast.FunctionDef):
            continue
        body = strip_doc(fn.body)
        if not (len(body) == 1 and isinstance(body[0], ast.Return) and isinstance(body[0].value, ast.Call)):
            continue
        call = body[0].value
        f = call.func
        if not (isinstance(f, ast.Attribute) and isinstance(f.value, ast.Name) and f.value.id == "metrics"):
            continue
        params = [a.arg for a in fn.args.args] + [a.arg for a in fn.args.kwonlyargs]
        if not (call.args and ast.unparse(call.args[0]) == "self.matrix" and len(call.args) == 1):
            raise Reject(f"{fn.name}: first argument is not self.matrix")
        kws = _kwargs(call, {"alpha"})
        if "alpha" in kws:
            if not (isinstance(kws["alpha"], ast.Name) and kws["alpha"].id == "alpha" and "alpha" in params):
                raise Reject(f"{fn.name}: alpha is not passed through")
        decos = [ast.unparse(d) for d in fn.decorator_list]
        if decos == []:
            kind = "none"
        elif decos == ["cm_class_metric"]:
            kind = "class"
        elif decos == ["cm_class_metric(axis=-2)"]:
            kind = "class_ci"
        else:
            raise Reject(f"{fn.name}: decorators {decos}")
        if ("alpha" in kws) != (kind == "class_ci") or ("alpha" in params) != (kind == "class_ci"):
            raise Reject(f"{fn.name}: interval wrappers and only those take alpha and use axis=-2")
        if params[0] != "self" or [p for p in params[1:] if p not in ("alpha", "as_dict")]:
            raise Reject(f"{fn.name}: parameters {params}")
        rows.append((fn.name, f.attr, kind))
    names = [r[0] for r in rows]
    if len(set(names)) != len(names):
        raise Reject("a wrapper is defined twice")
    return sorted(rows)


def translate_cm_wrappers(repo):
    rows = cm_wrapper_table(repo)
    body = ";\n   ".join(f'("{m}"%string, "{f}"%string, "{k}"%string)' for m, f, k in rows)
    return ("(* generated from score_analysis/cm.py by harness/translate/metrics_tr.py - do not edit *)\n"
            "From Coq Require Import String List.\nImport ListNotations.\n"
            "Definition gen_cm_wrappers : list (string * string * string) :=\n  [" + body + "].\n")


if __name__ == "__main__":
    import sys
    r = sys.argv[1] if len(sys.argv) > 1 else "/repo"
    print(translate_metrics(r))
    print(translate_cm_wrappers(r))
