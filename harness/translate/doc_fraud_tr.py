"""Translator instance for score_analysis/applications/doc_fraud.py (tie T, property C19).

Fail-closed: every module-level statement, every member of the two classes and every statement of the
translated functions must have one of the shapes recognised below; anything else raises Reject.
Emits Gen_fraud.v with shallow Gallina definitions over the primitives of Model/Fraud.v:
  gen_doc_value, gen_binary_value        enum member values (DocLabel from doc_fraud.py, BinaryLabel from scores.py)
  gen_doc_to_binary_label, gen_binary_to_doc_label
  gen_genuines, gen_frauds, gen_set_genuines, gen_set_frauds
  gen_init                               FraudScores.__init__: keyword mapping of super().__init__ + range tests
  gen_init_defaults                      defaults of the constructor's keyword-only parameters
  gen_from_labels
Trusted tables: the meaning of Enum(...) calls / .name (DocLabel_call, BinaryLabel_call, doc_name), np.any(a <op> c)
(any_b), boolean-mask indexing (mask_select), Scores.__init__ = mk_scores with its parameter order."""
import ast
import os

from .pyast import Reject, find_function, strip_doc

HEADER = ("(* generated from score_analysis/applications/doc_fraud.py by harness/translate/doc_fraud_tr.py — do not edit *)\n"
          "From Coq Require Import Strings.String.\nFrom SA Require Import Model.Fraud.\nOpen Scope Q_scope.\n")

SCORES_INIT_PARAMS = ["pos", "neg", "nb_easy_pos", "nb_easy_neg", "score_class", "equal_class", "is_sorted"]


def _u(node):
    return ast.unparse(node)


def _cls(tree, name):
    for n in tree.body:
        if isinstance(n, ast.ClassDef) and n.name == name:
            return n
    raise Reject(f"class {name} not found")


def _enum_values(cls, allow_eq=False):
    """{'pos': value, 'neg': value} of an Enum class whose body is exactly two string members (+ docstring)"""
    if [_u(b) for b in cls.bases] != ["Enum"] or cls.keywords or cls.decorator_list:
        raise Reject(f"{cls.name}: bases/decorators {[_u(b) for b in cls.bases]}")
    vals = {}
    for st in strip_doc(cls.body):
        if (isinstance(st, ast.Assign) and len(st.targets) == 1 and isinstance(st.targets[0], ast.Name)
                and isinstance(st.value, ast.Constant) and isinstance(st.value.value, str)):
            if st.targets[0].id in vals:
                raise Reject(f"{cls.name}: member {st.targets[0].id} assigned twice")
            vals[st.targets[0].id] = st.value.value
        elif (allow_eq and isinstance(st, ast.FunctionDef) and st.name == "__eq__"
              and [_u(s) for s in strip_doc(st.body)] == ["return self.value == BinaryLabel(other).value"]):
            continue  # BinaryLabel.__eq__: equality of member values (modelled by label_eqb)
        else:
            raise Reject(f"{cls.name}: unexpected member {_u(st)[:60]}")
    if sorted(vals) != ["neg", "pos"]:
        raise Reject(f"{cls.name}: members {sorted(vals)}")
    if vals["pos"] == vals["neg"]:
        raise Reject(f"{cls.name}: aliased members")
    return vals


def _str(s):
    if '"' in s or "\\" in s or not s.isprintable():
        raise Reject(f"string constant {s!r}")
    return f'"{s}"%string'


class Lab:
    """monadic translation of the small label-expression language; types: DARG, BARG (call arguments: member or
    string), DOC, BIN (members), STR"""

    def __init__(self, env):
        self.env = dict(env)
        self.n = 0

    def fresh(self):
        self.n += 1
        return f"v{self.n}"

    def tr(self, e, k):
        """k(text, type) -> coq text of type res _ ; returns the coq text computing e then continuing"""
        if isinstance(e, ast.Name):
            if e.id not in self.env:
                raise Reject(f"unbound name {e.id}")
            return k(*self.env[e.id])
        if isinstance(e, ast.Constant) and isinstance(e.value, str):
            return k(_str(e.value), "STR")
        if isinstance(e, ast.Attribute) and isinstance(e.value, ast.Name) and e.value.id in ("DocLabel", "BinaryLabel"):
            if e.attr not in ("pos", "neg"):
                raise Reject(_u(e))
            if e.value.id == "DocLabel":
                return k("DocPos" if e.attr == "pos" else "DocNeg", "DOC")
            return k("Pos" if e.attr == "pos" else "Neg", "BIN")
        if isinstance(e, ast.Attribute) and e.attr == "name":
            return self.tr(e.value, lambda t, ty: k(f"(doc_name {t})", "STR") if ty == "DOC" else self._rej(f".name on {ty}"))
        if isinstance(e, ast.Call) and isinstance(e.func, ast.Name) and len(e.args) == 1 and not e.keywords:
            f = e.func.id
            if f in ("DocLabel", "BinaryLabel"):
                def after(t, ty, f=f):
                    v = self.fresh()
                    if f == "DocLabel":
                        arg = {"DARG": t, "DOC": f"(DMember {t})", "STR": f"(DStr {t})"}.get(ty) or self._rej(f"DocLabel({ty})")
                        return f"(bind (DocLabel_call gen_doc_value {arg}) (fun {v} => {k(v, 'DOC')}))"
                    arg = {"BARG": t, "BIN": f"(BMember {t})", "STR": f"(BStr {t})"}.get(ty) or self._rej(f"BinaryLabel({ty})")
                    return f"(bind (BinaryLabel_call gen_binary_value {arg}) (fun {v} => {k(v, 'BIN')}))"
                return self.tr(e.args[0], after)
            if f == "doc_to_binary_label":
                def after2(t, ty):
                    v = self.fresh()
                    arg = {"DARG": t, "DOC": f"(DMember {t})", "STR": f"(DStr {t})"}.get(ty) or self._rej(f"doc_to_binary_label({ty})")
                    return f"(bind (gen_doc_to_binary_label {arg}) (fun {v} => {k(v, 'BIN')}))"
                return self.tr(e.args[0], after2)
            raise Reject(f"call {f}")
        if isinstance(e, ast.Compare) and len(e.ops) == 1 and isinstance(e.ops[0], (ast.Eq, ast.NotEq)):
            neg = isinstance(e.ops[0], ast.NotEq)

            def a1(t1, ty1):
                def a2(t2, ty2):
                    if ty1 == ty2 == "BIN":
                        c = f"(label_eqb {t1} {t2})"
                        return k(f"(negb {c})" if neg else c, "BOOL")
                    return self._rej(f"compare {ty1} with {ty2}")
                return self.tr(e.comparators[0], a2)
            return self.tr(e.left, a1)
        if isinstance(e, ast.IfExp):
            def a_test(c, tyc):
                if tyc != "BOOL":
                    return self._rej("ifexp test")

                def a_body(t1, ty1):
                    def a_else(t2, ty2):
                        if ty1 != ty2:
                            return self._rej("ifexp branch types")
                        return k(f"(if {c} then {t1} else {t2})", ty1)
                    return self.tr(e.orelse, a_else)
                return self.tr(e.body, a_body)
            return self.tr(e.test, a_test)
        raise Reject("label expression " + _u(e)[:80])

    @staticmethod
    def _rej(msg):
        raise Reject(msg)


def _label_function(fn, argty, retty):
    args = [a.arg for a in fn.args.args]
    if args != ["label"] or fn.args.kwonlyargs or fn.args.vararg or fn.args.kwarg or fn.decorator_list:
        raise Reject(f"{fn.name} signature")
    lab = Lab({"label": ("label", argty)})
    body = strip_doc(fn.body)
    pre = []
    for st in body[:-1]:
        if not (isinstance(st, ast.Assign) and len(st.targets) == 1 and isinstance(st.targets[0], ast.Name)):
            raise Reject(f"{fn.name}: statement {_u(st)[:60]}")
        pre.append(st)
    if not body or not isinstance(body[-1], ast.Return):
        raise Reject(f"{fn.name}: no final return")

    def go(i):
        if i == len(pre):
            def fin(t, ty):
                if ty != retty:
                    raise Reject(f"{fn.name} returns {ty}")
                return f"(Ok {t})"
            return lab.tr(body[-1].value, fin)
        st = pre[i]

        def bindit(t, ty):
            lab.env[st.targets[0].id] = (t, ty)
            return go(i + 1)
        return lab.tr(st.value, bindit)
    return go(0)


def _only_warns(stmts):
    """a statement list without any effect on the object: local assignments and warnings.warn calls"""
    for st in stmts:
        if isinstance(st, ast.Assign) and all(isinstance(t, ast.Name) for t in st.targets):
            continue
        if isinstance(st, ast.Expr) and isinstance(st.value, ast.Call) and _u(st.value.func) == "warnings.warn":
            continue
        if isinstance(st, ast.If) and _only_warns(st.body) and _only_warns(st.orelse):
            continue
        return False
    return True


def _range_test(test):
    """np.any(self.X <op> c) or ...  ->  coq bool text over `self`"""
    parts = test.values if isinstance(test, ast.BoolOp) and isinstance(test.op, ast.Or) else [test]
    out = []
    for p in parts:
        if not (isinstance(p, ast.Call) and _u(p.func) == "np.any" and len(p.args) == 1 and not p.keywords):
            raise Reject("range test " + _u(p)[:60])
        c = p.args[0]
        if not (isinstance(c, ast.Compare) and len(c.ops) == 1 and isinstance(c.left, ast.Attribute)
                and _u(c.left.value) == "self" and c.left.attr in ("genuines", "frauds", "pos", "neg")
                and isinstance(c.comparators[0], ast.Constant) and type(c.comparators[0].value) in (int, float)):
            raise Reject("range test " + _u(c)[:60])
        from fractions import Fraction
        f = Fraction(c.comparators[0].value)
        const = f"(Qmake ({f.numerator}) {f.denominator})"
        arr = {"genuines": "(gen_genuines self)", "frauds": "(gen_frauds self)", "pos": "(pos self)", "neg": "(neg self)"}[c.left.attr]
        op = type(c.ops[0])
        cmp = {ast.Lt: f"Qltb v {const}", ast.Gt: f"Qltb {const} v", ast.LtE: f"Qleb v {const}", ast.GtE: f"Qleb {const} v"}.get(op)
        if cmp is None:
            raise Reject("range comparison " + _u(c))
        out.append(f"any_b (fun v => {cmp}) {arr}")
    return "(" + " || ".join(out) + ")"


def _scores_init_defaults(scores_tree):
    fn = find_function(scores_tree, "__init__", cls="Scores")
    pos_args = [a.arg for a in fn.args.args]
    kwonly = [a.arg for a in fn.args.kwonlyargs]
    if pos_args != ["self", "pos", "neg"] or kwonly != SCORES_INIT_PARAMS[2:]:
        raise Reject(f"Scores.__init__ signature {pos_args} {kwonly}")
    d = {a.arg: v for a, v in zip(fn.args.kwonlyargs, fn.args.kw_defaults)}
    if not (isinstance(d["is_sorted"], ast.Constant) and d["is_sorted"].value is False):
        raise Reject("Scores.__init__ default is_sorted")
    return d


def _translate_init(fn, scores_tree):
    a = fn.args
    if [x.arg for x in a.args] != ["self"] or a.vararg or a.kwarg or fn.decorator_list:
        raise Reject("FraudScores.__init__ positional signature")
    kw = [x.arg for x in a.kwonlyargs]
    if kw != ["genuines", "frauds", "nb_easy_genuines", "nb_easy_frauds", "score_class"]:
        raise Reject(f"FraudScores.__init__ keyword-only parameters {kw}")
    defaults = {x.arg: v for x, v in zip(a.kwonlyargs, a.kw_defaults)}
    if defaults["genuines"] is not None or defaults["frauds"] is not None:
        raise Reject("genuines/frauds have defaults")
    dz = []
    for n in ("nb_easy_genuines", "nb_easy_frauds"):
        v = defaults[n]
        if not (isinstance(v, ast.Constant) and type(v.value) is int):
            raise Reject(f"default of {n}")
        dz.append(f"({v.value})%Z")
    v = defaults["score_class"]
    if not (isinstance(v, ast.Constant) and isinstance(v.value, str)):
        raise Reject("default of score_class")
    gen_defaults = f"({dz[0]}, {dz[1]}, DStr {_str(v.value)})"

    env = {"genuines": ("genuines_", "LQ"), "frauds": ("frauds_", "LQ"), "nb_easy_genuines": ("nb_easy_genuines", "Z"),
           "nb_easy_frauds": ("nb_easy_frauds", "Z"), "score_class": ("score_class_", "DARG")}
    body = strip_doc(fn.body)
    if not body:
        raise Reject("empty __init__")
    st = body[0]
    if not (isinstance(st, ast.Expr) and isinstance(st.value, ast.Call) and _u(st.value.func) == "super().__init__" and not st.value.args):
        raise Reject("first statement is not super().__init__(keywords...)")
    _scores_init_defaults(scores_tree)
    given = {}
    for k in st.value.keywords:
        if k.arg not in SCORES_INIT_PARAMS or k.arg in given:
            raise Reject(f"super().__init__ keyword {k.arg}")
        given[k.arg] = k.value
    for need in SCORES_INIT_PARAMS[:6]:
        if need not in given:
            raise Reject(f"super().__init__ does not pass {need} (the Scores default would apply)")
    lab = Lab(env)
    want = {"pos": "LQ", "neg": "LQ", "nb_easy_pos": "Z", "nb_easy_neg": "Z", "score_class": "BIN", "equal_class": "BIN"}
    vals = {}

    def rest_of_body():
        is_sorted = "false"
        if "is_sorted" in given:
            c = given["is_sorted"]
            if not (isinstance(c, ast.Constant) and isinstance(c.value, bool)):
                raise Reject("is_sorted argument")
            is_sorted = "true" if c.value else "false"
        txt = (f"let self := mk_scores {vals['pos']} {vals['neg']} {vals['nb_easy_pos']} {vals['nb_easy_neg']} "
               f"{vals['score_class']} {vals['equal_class']} {is_sorted} in\n  ")
        tail = "Ok self"
        chain = []
        for s2 in body[1:]:
            if (isinstance(s2, ast.If) and not s2.orelse and len(s2.body) == 1 and isinstance(s2.body[0], ast.Raise)):
                exc = s2.body[0].exc
                if not (isinstance(exc, ast.Call) and _u(exc.func) == "ValueError"):
                    raise Reject("raise of something other than ValueError")
                chain.append(_range_test(s2.test))
            elif isinstance(s2, ast.If) and _only_warns([s2]):
                continue  # the median heuristic: warnings only
            else:
                raise Reject("__init__ statement " + _u(s2)[:60])
        for c in reversed(chain):
            tail = f"if {c} then ErrValue\n  else {tail}"
        return "(" + txt + tail + ")"

    def go(names):
        if not names:
            return rest_of_body()
        n = names[0]

        def k(t, ty):
            if ty != want[n]:
                raise Reject(f"super().__init__({n}=...) has type {ty}")
            vals[n] = t
            return go(names[1:])
        return lab.tr(given[n], k)
    # keyword arguments are evaluated in source order
    order = [k.arg for k in st.value.keywords if k.arg != "is_sorted"]
    return go(order), gen_defaults


def _prop_pair(cls_body, name):
    getter = setter = None
    for st in cls_body:
        if isinstance(st, ast.FunctionDef) and st.name == name:
            decs = [_u(d) for d in st.decorator_list]
            if decs == ["property"]:
                getter = st
            elif decs == [f"{name}.setter"]:
                setter = st
            else:
                raise Reject(f"{name}: decorators {decs}")
    if getter is None or setter is None:
        raise Reject(f"{name}: property getter/setter missing")
    got = [_u(s) for s in strip_doc(getter.body)]
    if [a.arg for a in getter.args.args] != ["self"] or got not in (["return self.pos"], ["return self.neg"]):
        raise Reject(f"{name} getter body {got}")
    field_g = got[0][-3:]
    sb = [_u(s) for s in strip_doc(setter.body)]
    if [a.arg for a in setter.args.args] != ["self", "value"] or sb not in (["self.pos = value"], ["self.neg = value"]):
        raise Reject(f"{name} setter body {sb}")
    field_s = sb[0][5:8]
    return field_g, field_s


def _translate_from_labels(fn):
    if [_u(d) for d in fn.decorator_list] != ["staticmethod"]:
        raise Reject("from_labels decorators")
    a = fn.args
    if [x.arg for x in a.args] != ["labels", "scores"] or a.vararg or a.kwarg:
        raise Reject("from_labels positional signature")
    kw = [x.arg for x in a.kwonlyargs]
    if kw != ["genuine_label", "nb_easy_genuines", "nb_easy_frauds", "score_class"]:
        raise Reject(f"from_labels keyword-only parameters {kw}")
    body = strip_doc(fn.body)
    env = {"labels": "labels", "scores": "xs", "genuine_label": "genuine_label", "nb_easy_genuines": "nb_easy_genuines",
           "nb_easy_frauds": "nb_easy_frauds", "score_class": "score_class_"}
    arrays = {}
    lets = []
    for st in body[:-1]:
        if not (isinstance(st, ast.Assign) and len(st.targets) == 1 and isinstance(st.targets[0], ast.Name)):
            raise Reject("from_labels statement " + _u(st)[:60])
        tgt = st.targets[0].id
        v = st.value
        if isinstance(v, ast.Call) and _u(v.func) == "np.asarray" and len(v.args) == 1 and not v.keywords and _u(v.args[0]) == tgt and tgt in ("labels", "scores"):
            continue  # identity on the model's lists
        if (isinstance(v, ast.Subscript) and _u(v.value) == "scores" and isinstance(v.slice, ast.Compare) and len(v.slice.ops) == 1
                and _u(v.slice.left) == "labels" and _u(v.slice.comparators[0]) == "genuine_label"
                and isinstance(v.slice.ops[0], (ast.Eq, ast.NotEq)) and tgt not in env):
            test = "Z.eqb l genuine_label"
            if isinstance(v.slice.ops[0], ast.NotEq):
                test = f"negb ({test})"
            lets.append(f"let {tgt}_ := mask_select (map (fun l => {test}) labels) xs in\n  ")
            arrays[tgt] = f"{tgt}_"
            continue
        raise Reject("from_labels statement " + _u(st)[:60])
    ret = body[-1]
    if not (isinstance(ret, ast.Return) and isinstance(ret.value, ast.Call) and _u(ret.value.func) == "FraudScores" and not ret.value.args):
        raise Reject("from_labels return")
    given = {}
    for k in ret.value.keywords:
        if not isinstance(k.value, ast.Name):
            raise Reject("from_labels keyword value")
        n = k.value.id
        given[k.arg] = arrays.get(n) or env.get(n) or Lab._rej(f"unbound {n}")
    need = ["genuines", "frauds", "nb_easy_genuines", "nb_easy_frauds", "score_class"]
    if sorted(given) != sorted(need):
        raise Reject(f"FraudScores(...) keywords {sorted(given)}")
    for n in ("genuines", "frauds"):
        if given[n] not in arrays.values():
            raise Reject(f"{n} is not a mask selection")
    for n in ("nb_easy_genuines", "nb_easy_frauds", "score_class"):
        if given[n] != env[n]:
            raise Reject(f"{n} not passed through")
    return "(" + "".join(lets) + "gen_init " + " ".join(given[n] for n in need) + ")"


def translate_fraud(repo):
    path = os.path.join(repo, "score_analysis", "applications", "doc_fraud.py")
    tree = ast.parse(open(path).read())
    scores_tree = ast.parse(open(os.path.join(repo, "score_analysis", "scores.py")).read())
    # ---- module level: imports, the enum, two functions, the class; nothing else
    imports = {}
    for st in strip_doc(tree.body):
        if isinstance(st, ast.ImportFrom):
            for al in st.names:
                imports[al.asname or al.name] = f"{st.module}.{al.name}"
        elif isinstance(st, ast.Import):
            for al in st.names:
                imports[al.asname or al.name] = al.name
        elif isinstance(st, ast.ClassDef) and st.name in ("DocLabel", "FraudScores"):
            pass
        elif isinstance(st, ast.FunctionDef) and st.name in ("doc_to_binary_label", "binary_to_doc_label"):
            pass
        else:
            raise Reject("module-level statement " + _u(st)[:70])
    if (imports.get("Scores") != "score_analysis.Scores" or imports.get("BinaryLabel") != "score_analysis.scores.BinaryLabel"
            or imports.get("Enum") != "enum.Enum" or imports.get("np") != "numpy" or imports.get("warnings") != "warnings"):
        raise Reject(f"imports {imports}")
    doc_vals = _enum_values(_cls(tree, "DocLabel"))
    bin_vals = _enum_values(_cls(scores_tree, "BinaryLabel"), allow_eq=True)
    d2b = _label_function(find_function(tree, "doc_to_binary_label"), "DARG", "BIN")
    b2d = _label_function(find_function(tree, "binary_to_doc_label"), "BARG", "DOC")
    # ---- the class: exactly the expected members, so no Scores query is overridden
    fs = _cls(tree, "FraudScores")
    if [_u(b) for b in fs.bases] != ["Scores"] or fs.keywords or fs.decorator_list:
        raise Reject("FraudScores bases")
    members = []
    for st in strip_doc(fs.body):
        if not isinstance(st, ast.FunctionDef):
            raise Reject("FraudScores member " + _u(st)[:60])
        members.append(st.name)
    if sorted(members) != sorted(["__init__", "genuines", "genuines", "frauds", "frauds", "from_labels"]):
        raise Reject(f"FraudScores defines {members}: a member beyond the constructor, the two aliases and from_labels")
    init_txt, gen_defaults = _translate_init(find_function(tree, "__init__", cls="FraudScores"), scores_tree)
    g_get, g_set = _prop_pair(fs.body, "genuines")
    f_get, f_set = _prop_pair(fs.body, "frauds")
    fl_txt = _translate_from_labels(find_function(tree, "from_labels", cls="FraudScores"))
    out = HEADER
    out += (f"Definition gen_doc_value (d : doc_label) : string :=\n  match d with DocPos => {_str(doc_vals['pos'])} | DocNeg => {_str(doc_vals['neg'])} end.\n"
            f"Definition gen_binary_value (l : label) : string :=\n  match l with Pos => {_str(bin_vals['pos'])} | Neg => {_str(bin_vals['neg'])} end.\n"
            f"Definition gen_doc_to_binary_label (label : doc_arg) : res Scores.label :=\n  {d2b}.\n"
            f"Definition gen_binary_to_doc_label (label : bin_arg) : res doc_label :=\n  {b2d}.\n"
            f"Definition gen_genuines (self : scores) : list Q := {g_get} self.\n"
            f"Definition gen_frauds (self : scores) : list Q := {f_get} self.\n"
            f"Definition gen_set_genuines (self : scores) (value : list Q) : scores := set_{g_set} self value.\n"
            f"Definition gen_set_frauds (self : scores) (value : list Q) : scores := set_{f_set} self value.\n"
            f"Definition gen_init (genuines_ frauds_ : list Q) (nb_easy_genuines nb_easy_frauds : Z) (score_class_ : doc_arg) : res scores :=\n  {init_txt}.\n"
            f"Definition gen_init_defaults : Z * Z * doc_arg := {gen_defaults}.\n"
            f"Definition gen_from_labels (labels : list Z) (xs : list Q) (genuine_label : Z) (nb_easy_genuines nb_easy_frauds : Z) "
            f"(score_class_ : doc_arg) : res scores :=\n  {fl_txt}.\n")
    return out


if __name__ == "__main__":
    import sys
    print(translate_fraud(sys.argv[1] if len(sys.argv) > 1 else "/repo"))
