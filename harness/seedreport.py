"""Markdown table of the seeded changes under /verif/seeded (for DESIGN.md 12.5)."""
import glob
import json
import os

VERIF = os.path.dirname(os.path.dirname(os.path.abspath(__file__)))
print("| seed | property | needs, in order to manifest | valid seed (tests pass, demo fails only with it) | verdict of `./check` (quick, seed 0) | mechanism that caught it |")
print("|---|---|---|---|---|---|")
for f in sorted(glob.glob(os.path.join(VERIF, "seeded", "*", "meta.json"))):
    m = json.load(open(f))
    c = m.get("checks", {}).get(m["property"], {})
    v = c.get("verdict", [""])
    first = v[0] if v else ""
    if "violating input [" in first:
        mech = "oracle: `" + first.split("[")[1].split("]")[0] + "`"
    elif "broken obligation" in first:
        mech = first.split("broken obligation ")[1].split(":")[0] + " (no input)"
    else:
        mech = "—"
    others = [f"{k}:{'VIOLATION' if x['exit'] == 1 else 'ok'}" for k, x in m.get("checks", {}).items() if k != m["property"]]
    verdict = ("VIOLATION with replay input" if m.get("caught_with_input") else "VIOLATION no-failing-input-found" if m.get("caught") else "MISSED")
    if others:
        verdict += " (also " + ", ".join(others) + ")"
    print(f"| {m['seed']} | {m['property']} | {m.get('needs', '')} | {'yes' if m.get('valid_seed') else 'NO'} | {verdict} | {mech} |")
