"""Regenerates /verif/MANIFEST.json from the table below (run: /venv/bin/python -m harness.mkmanifest)."""
import json
import os

VERIF = os.path.dirname(os.path.dirname(os.path.abspath(__file__)))

# property -> (design section, level text, level note, technique)
CLAIMED = {
    "C01": ("7/C01",
            "Coq theorems over all score lists, configurations and thresholds (cm = counting by the decision rule, "
            "constant margins, pointwise_cm sums to cm); model tied to the source by a regenerated definition of "
            "Scores.cm with tie lemma (all inputs) and by model-vs-implementation correspondence on generated cases",
            "trusted: Coq kernel, vm_compute; np.searchsorted/np.sort contracts modelled as count/sorted permutation; "
            "translator whitelist; harness printers. NaN scores excluded.",
            "Coq proof (induction over lists) + ast-regenerated tie lemma + vm_compute correspondence"),
}
CLAIMED["C02"] = ("7/C02",
    "Coq theorems about the exact-rational model of threshold setting (in progress: see Props/C02.v for what is "
    "proved); the model is tied to the source by regenerating all of the threshold-setting code (ratio properties, six "
    "threshold_at_*, _threshold_at_ratio, _invert_increasing_function) into Gallina with 17 tie lemmas valid for all "
    "inputs, and by bit-exact (stream E) / 64-ulp (stream F) correspondence runs",
    "trusted: Coq kernel, vm_compute; binary64 nextafter as succ64/pred64; float rounding is outside the model (exact "
    "rationals) and reached only through stream E exactness and the oracle on real floats; translator whitelist",
    "Coq proof + ast-regenerated tie lemmas + vm_compute correspondence")
CLAIMED["C03"] = ("7/C03",
    "Coq theorems about the exact-rational model (in progress: see Props/C03.v); same ties as C02; thresholds at "
    "extreme targets are sentinels (exact doubles) and are compared bit-for-bit on every stream; the oracle demands "
    "equality of the metric with its value at -inf/+inf",
    "as C02; two genuine defects were found by this check and repaired (known_findings.json: fixed 9ba2891, 33d4440)",
    "Coq proof + ast-regenerated tie lemmas + vm_compute correspondence")
CLAIMED["C08"] = ("7/C08",
    "Coq theorems for all inputs: swap() transposes the confusion matrix at every threshold (hence the six rate "
    "identities), negation+direction flip and increasing affine maps leave every confusion matrix unchanged at the "
    "mapped threshold; Scores.swap regenerated from source with a tie lemma; equivariance of returned thresholds/EER "
    "and invariance of EER/AUC are checked on the implementation (pairs of executions) within the property's few-ulp tolerance",
    "partial: threshold/EER/AUC equivariance is oracle+correspondence, not a theorem (one-ulp sentinel convention breaks exact equality)",
    "Coq proof + tie lemma + vm_compute correspondence + paired-execution oracle")
CLAIMED["C09"] = ("7/C09",
    "Coq theorem for all inputs: at every threshold between the materialised extremes the materialised object has the "
    "same confusion matrix; thresholds for in-range targets and full/partial AUC are compared on the implementation on every run",
    "partial: AUC and threshold equality are oracle-only; model's materialise/cm tied by correspondence",
    "Coq proof + vm_compute correspondence + paired-execution oracle")
PENDING = {}


def main():
    props = [json.loads(l) for l in open(os.path.join(VERIF, "properties.jsonl"))]
    checks = []
    na = []
    for p in props:
        pid = p["id"]
        if pid in CLAIMED:
            ref, text, note, tech = CLAIMED[pid]
            checks.append({
                "property_id": pid,
                "quick_cmd": f"./check {pid} --tier quick",
                "thorough_cmd": f"./check {pid} --tier thorough",
                "evidence_file": f"/verif/evidence/{pid}.json",
                "replay_cmd_template": f"./check {pid} --replay {{path}}",
                "engine": "coq-model",
                "level_claimed": {"category": "proof", "text": text, "design_ref": f"DESIGN.md section {ref}"},
                "level_note": note,
                "technique": tech,
            })
        else:
            na.append({"property_id": pid, "reason": PENDING.get(pid, "check not built yet (work in progress; the Coq model and harness for this property are not committed)")})
    manifest = {
        "version": 1,
        "setup_cmd": "./setup.sh",
        "hooks": {"guard": "SCORE_ANALYSIS_VERIF", "enable": "no hooks are needed: the harness drives /repo through PYTHONPATH=/repo and records RNG draws by wrapping numpy in its own process",
                  "baseline_off_cmd": "cd /repo && /venv/bin/python -m pytest -ra -q -p no:cacheprovider --timeout=900 --continue-on-collection-errors",
                  "source_commits": [], "add_only": True},
        "engines": [{"name": "coq-model", "path": "/verif/coq", "serves_properties": sorted(CLAIMED),
                     "kind_free_text": "hand-written Gallina model of score_analysis with theorems per property (coq/theories/Props), "
                                       "tied to /repo by an ast translator + tie lemmas (coq/ties) and by vm_compute correspondence runs (harness/)"}],
        "checks": checks,
        "not_applicable": na,
        "notes": "See DESIGN.md. Repairs of genuine defects committed in /repo as fix: commits (not hooks): 9ba2891, 33d4440 (C03). ./check Cxx [--tier quick|thorough] [--replay FILE]; known findings in known_findings.json.",
    }
    with open(os.path.join(VERIF, "MANIFEST.json"), "w") as fh:
        json.dump(manifest, fh, indent=1)
    print(f"{len(checks)} checks, {len(na)} not claimed")


if __name__ == "__main__":
    main()
