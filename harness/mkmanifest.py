"""Regenerates /verif/MANIFEST.json from the table below (run: /venv/bin/python -m harness.mkmanifest)."""
import json
import os

VERIF = os.path.dirname(os.path.dirname(os.path.abspath(__file__)))

# property -> (design section, level text, level note, technique)
CLAIMED = {
    "C01": ("7/C01",
            "Coq theorems over all score lists, configurations and thresholds (cm = counting by the decision rule, "
            "constant margins, pointwise_cm sums to cm); model tied to the source by a regenerated definition of "
            "Scores.cm with tie lemma (all inputs) and by model-vs-implementation correspondence on generated cases",
            "trusted: Coq kernel, vm_compute; np.searchsorted/np.sort contracts modelled as count/sorted permutation; "
            "translator whitelist; harness printers. NaN scores excluded.",
            "Coq proof (induction over lists) + ast-regenerated tie lemma + vm_compute correspondence"),
    "C13": ("7/C13, Appendix A.7",
            "Coq theorems (Props/C13.v, all inputs, no size bound) about an executable model of utils.bootstrap_ci and of "
            "np.nanquantile: agreement with the documented quantile / BC / BCa formulas (unconditional, incl. the p0 in {0,1} "
            "and pole branches); empirical quantile monotone in the level, within [min,max] of the finite replicates, invariant "
            "under permutation and NaN insertion, affine equivariant; hence limits ordered, in range, NaN/permutation invariant, "
            "affine equivariant, nested in alpha (bca under the property's side condition), per-component, shape "
            "metric_shape+alpha_shape+(2,) with the moveaxis/reshape element placement. Two clauses are REFUTED for the faithful "
            "model and recorded as known findings: an all-NaN component makes bc/bca raise for the whole array "
            "(C13_component_independent_refuted), integer-typed replicates make bca raise (C13_int_bca_refuted).",
            "proved: all theorems listed in Props/C13.v, closed under the global context. Assumed (Section hypotheses, visible in "
            "each statement): scipy norm.cdf in [0,1] and monotone, norm.ppf monotone on (0,1), both and x**1.5 respect ==, "
            "homogeneity of x**1.5 (affine clause only). Correspondence only (vm_compute vs implementation, every run): that "
            "np.nanquantile/np.moveaxis/np.reshape/nansum behave as modelled, with the implementation's own norm.ppf/cdf "
            "arguments and results recorded and substituted (arguments within 1e-9, limits within 1e-9 of the replicate scale; "
            "bit-exact for the quantile method on dyadic inputs). Float rounding is outside the model. No translator tie "
            "(the function is array code, not flag logic).",
            "Coq proof (induction over lists; order statistics via counting) + vm_compute correspondence with recorded SciPy "
            "oracle values + independent Python oracle (exact Fractions + SciPy) incl. metamorphic re-runs"),
    "C14": ("7/C14",
            "Coq theorems (Props/C14.v) about a model of Scores.bootstrap_metric / bootstrap_ci / the custom-sampler dispatch that "
            "is parametric in objects, kwargs, metric values, names, built-in samplers and draw histories: one row per sample, "
            "row j = metric (resolved along the object's own class chain, caller's kwargs) of the j-th sample; custom callable "
            "dispatch; bootstrap_ci = CI routine(theta=rows, theta_hat=metric(self), alpha, method=config.bootstrap_method); identity "
            "sampler => interval = point estimate for quantile/bc/bca (through the C13 model, p0 = 1, z0 = +inf branch); results are "
            "functions of the draw history. The two Python functions and the tail of bootstrap_sample are re-translated from the "
            "current source on every run and proved equal to the model (3 tie lemmas, all inputs). Refuted + known finding: "
            "integer-valued metric with bca raises (C14_int_metric_bca_refuted).",
            "proved: Props/C14.v closed under the global context; tie lemmas tie_bootstrap_metric, tie_bootstrap_ci, "
            "tie_sample_tail re-proved per run. Assumed/abstract: the built-in samplers (C11) and NumPy's global RNG (modelled as "
            "a draw history: same seed + same call sequence = same history; checked by seeded re-runs, not proved), metrics are "
            "deterministic functions, Python attribute lookup = class-chain lookup, the translator whitelist. Correspondence: "
            "model rows vs implementation for the plain rates under a counting sampler; C13 correspondence on the actual rows "
            "handed to utils.bootstrap_ci.",
            "Coq proof + ast-regenerated definitions with tie lemmas + vm_compute correspondence + Python oracle with pass-through "
            "recording of samples, utils.bootstrap_ci arguments and norm.ppf/cdf"),
}
PENDING = {}


def main():
    props = [json.loads(l) for l in open(os.path.join(VERIF, "properties.jsonl"))]
    checks = []
    na = []
    for p in props:
        pid = p["id"]
        if pid in CLAIMED:
            ref, text, note, tech = CLAIMED[pid]
            checks.append({
                "property_id": pid,
                "quick_cmd": f"./check {pid} --tier quick",
                "thorough_cmd": f"./check {pid} --tier thorough",
                "evidence_file": f"/verif/evidence/{pid}.json",
                "replay_cmd_template": f"./check {pid} --replay {{path}}",
                "engine": "coq-model",
                "level_claimed": {"category": "proof", "text": text, "design_ref": f"DESIGN.md section {ref}"},
                "level_note": note,
                "technique": tech,
            })
        else:
            na.append({"property_id": pid, "reason": PENDING.get(pid, "check not built yet (work in progress; the Coq model and harness for this property are not committed)")})
    manifest = {
        "version": 1,
        "setup_cmd": "./setup.sh",
        "hooks": {"guard": "SCORE_ANALYSIS_VERIF", "enable": "no hooks are needed: the harness drives /repo through PYTHONPATH=/repo and records RNG draws by wrapping numpy in its own process",
                  "baseline_off_cmd": "cd /repo && /venv/bin/python -m pytest -ra -q -p no:cacheprovider --timeout=900 --continue-on-collection-errors",
                  "source_commits": [], "add_only": True},
        "engines": [{"name": "coq-model", "path": "/verif/coq", "serves_properties": sorted(CLAIMED),
                     "kind_free_text": "hand-written Gallina model of score_analysis with theorems per property (coq/theories/Props), "
                                       "tied to /repo by an ast translator + tie lemmas (coq/ties) and by vm_compute correspondence runs (harness/)"}],
        "checks": checks,
        "not_applicable": na,
        "notes": "See DESIGN.md. ./check Cxx [--tier quick|thorough] [--replay FILE]; known findings in known_findings.json.",
    }
    with open(os.path.join(VERIF, "MANIFEST.json"), "w") as fh:
        json.dump(manifest, fh, indent=1)
    print(f"{len(checks)} checks, {len(na)} not claimed")


if __name__ == "__main__":
    main()
