"""Regenerates /verif/MANIFEST.json from the table below (run: /venv/bin/python -m harness.mkmanifest)."""
import json
import os

VERIF = os.path.dirname(os.path.dirname(os.path.abspath(__file__)))

# property -> (design section, level text, level note, technique)
CLAIMED = {
    "C01": ("7/C01",
            "Coq theorems over all score lists, configurations and thresholds (cm = counting by the decision rule, "
            "constant margins, pointwise_cm sums to cm); model tied to the source by a regenerated definition of "
            "Scores.cm with tie lemma (all inputs) and by model-vs-implementation correspondence on generated cases",
            "trusted: Coq kernel, vm_compute; np.searchsorted/np.sort contracts modelled as count/sorted permutation; "
            "translator whitelist; harness printers. NaN scores excluded.",
            "Coq proof (induction over lists) + ast-regenerated tie lemma + vm_compute correspondence"),
    "C17": ("7/C17",
            "Coq theorems over all sample lists and targets about the model of utils.invert_pl_function (every returned "
            "point lies in a crossing segment on the chord; all returned points are solutions whenever a sample touches "
            "or two consecutive samples straddle the target; strictly increasing; inside the sampled range; strict sign "
            "changes and non-final touches represented exactly once; closest-sample fallback with first-minimal-index "
            "rule; one entry per target, scalar => bare array) and of Scores.threshold_at_metric (= that inversion at the "
            "selected points; the three point-selection modes and their ValueError guards); model tied to the source by "
            "model-vs-implementation correspondence (vm_compute) incl. recorded evaluation points and metric values",
            "correspondence-only tie (no regenerated fragment: the function is NumPy broadcasting/nonzero/argmin "
            "bookkeeping, modelled by hand). Exact-rational model: bit-exact comparison only on cases whose float "
            "operations are all exact (decided per case), 2^-40 relative otherwise; fallback cases with rounded |y-t| are "
            "left to the oracle. Completeness is claimed for strict sign changes and touches at non-final samples only: a "
            "touch at the last sample is not reported when another crossing exists (Example in Props/C17.v; the property "
            "text does not claim all solutions). The fallback's (1,1) shape is cosmetic and not checked. NaN metric "
            "values (empty class) are outside.",
            "Coq proof (lists, nra/field over Q) + vm_compute correspondence + exact-Fraction oracle with recording callable"),
    "C19": ("7/C19",
            "Coq theorems over all genuine/fraud score lists, easy counts and labels about the model of doc_fraud.py "
            "(translations mutually inverse; ValueError iff some score outside [0,1]; otherwise the constructed object "
            "equals mk_scores genuines frauds easy translated-score_class Pos, hence every query coincides; aliases; "
            "from_labels split = Scores.from_labels on the flags label == genuine_label, partition); the model is tied to "
            "the source for all inputs by definitions regenerated from the current doc_fraud.py (enum values, both "
            "translations, super().__init__ keyword mapping, the two range tests, aliases/setters, from_labels, defaults) "
            "with 12 tie lemmas, the translator refusing any FraudScores member beyond __init__/genuines/frauds/from_labels; "
            "plus model-vs-implementation correspondence on generated cases",
            "trusted: translator tables (Enum call/.name semantics, np.any(a<c), mask indexing, Scores.__init__ = "
            "mk_scores, median heuristic = warnings only). The clause 'every query returns exactly what Scores(...) "
            "returns' is, at run time, an implementation-vs-implementation bitwise comparison in the oracle (49 queries "
            "per object); in Coq it is the equality of the constructed records. NaN scores excluded.",
            "Coq proof + ast-regenerated tie lemmas (all inputs) + vm_compute correspondence + differential oracle"),
    "C20": ("7/C20",
            "Coq theorems about the model of experimental/datasets.py with scipy.stats.norm.{cdf,ppf,sf,isf} and np.sqrt as "
            "universally quantified functions: under the stated oracle hypotheses (cdf/ppf and sf/isf mutually inverse, "
            "sf = 1 - cdf) fnr(threshold_at_fnr x) = x, threshold_at_fnr(fnr t) = t and the same for fpr; roc() rates = "
            "analytic rates at its thresholds, ValueError unless exactly one of fnr/fpr; from_metrics: fnr(0), fpr(0) = "
            "requested, n = floor(fs/fnr) + floor(ps/fpr), p_pos = nb_pos/n; sample(): sizes, direction and RNG call "
            "parameters over every draw history within numpy's contract; Bernoulli non-random count = floor(n*p) for "
            "every shuffle; correlated pair: probabilities sum to 1 with marginals p1, p2, ValueError iff some probability "
            "< 0, non-random sample of shape (2,n), 0/1 values, both marginal counts in [n*p_i, n*p_i + 2) for every "
            "shuffle and every sqrt function; model tied to the source by model-vs-implementation correspondence with "
            "recorded RNG draws and SciPy values supplied at the exact arguments the model asks for",
            "correspondence-only tie (no regenerated fragment). The theorems are conditional on the oracle hypotheses "
            "about SciPy's normal distribution functions (not proved; float cdf(ppf(x)) = x is checked to 1e-9 relative by "
            "the oracle on the implementation). Exact-rational model: floor(n*p) is compared exactly unless n*p is within "
            "1e-9 relative of an integer and the float product is inexact (the property's own hedge; then +-1 accepted by "
            "the oracle and the case left out of the model comparison). The correlation actually realised by the joint "
            "distribution is not part of the property and not checked by the oracle (the model comparison pins the sign of "
            "the rho term).",
            "Coq proof (Section variables for external functions, draw histories) + vm_compute correspondence + exact-Fraction oracle"),
}
PENDING = {}


def main():
    props = [json.loads(l) for l in open(os.path.join(VERIF, "properties.jsonl"))]
    checks = []
    na = []
    for p in props:
        pid = p["id"]
        if pid in CLAIMED:
            ref, text, note, tech = CLAIMED[pid]
            checks.append({
                "property_id": pid,
                "quick_cmd": f"./check {pid} --tier quick",
                "thorough_cmd": f"./check {pid} --tier thorough",
                "evidence_file": f"/verif/evidence/{pid}.json",
                "replay_cmd_template": f"./check {pid} --replay {{path}}",
                "engine": "coq-model",
                "level_claimed": {"category": "proof", "text": text, "design_ref": f"DESIGN.md section {ref}"},
                "level_note": note,
                "technique": tech,
            })
        else:
            na.append({"property_id": pid, "reason": PENDING.get(pid, "check not built yet (work in progress; the Coq model and harness for this property are not committed)")})
    manifest = {
        "version": 1,
        "setup_cmd": "./setup.sh",
        "hooks": {"guard": "SCORE_ANALYSIS_VERIF", "enable": "no hooks are needed: the harness drives /repo through PYTHONPATH=/repo and records RNG draws by wrapping numpy in its own process",
                  "baseline_off_cmd": "cd /repo && /venv/bin/python -m pytest -ra -q -p no:cacheprovider --timeout=900 --continue-on-collection-errors",
                  "source_commits": [], "add_only": True},
        "engines": [{"name": "coq-model", "path": "/verif/coq", "serves_properties": sorted(CLAIMED),
                     "kind_free_text": "hand-written Gallina model of score_analysis with theorems per property (coq/theories/Props), "
                                       "tied to /repo by an ast translator + tie lemmas (coq/ties) and by vm_compute correspondence runs (harness/)"}],
        "checks": checks,
        "not_applicable": na,
        "notes": "See DESIGN.md. ./check Cxx [--tier quick|thorough] [--replay FILE]; known findings in known_findings.json.",
    }
    with open(os.path.join(VERIF, "MANIFEST.json"), "w") as fh:
        json.dump(manifest, fh, indent=1)
    print(f"{len(checks)} checks, {len(na)} not claimed")


if __name__ == "__main__":
    main()
