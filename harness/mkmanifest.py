"""Regenerates /verif/MANIFEST.json from the table below (run: /venv/bin/python -m harness.mkmanifest)."""
import json
import os

VERIF = os.path.dirname(os.path.dirname(os.path.abspath(__file__)))

# property -> (design section, level text, level note, technique)
CLAIMED = {
    "C01": ("7/C01",
            "Coq theorems over all score lists, configurations and thresholds (cm = counting by the decision rule, "
            "constant margins, pointwise_cm sums to cm); model tied to the source by a regenerated definition of "
            "Scores.cm with tie lemma (all inputs) and by model-vs-implementation correspondence on generated cases",
            "trusted: Coq kernel, vm_compute; np.searchsorted/np.sort contracts modelled as count/sorted permutation; "
            "translator whitelist; harness printers. NaN scores excluded.",
            "Coq proof (induction over lists) + ast-regenerated tie lemma + vm_compute correspondence"),
    "C11": ("7/C11",
            "Coq theorems over all Scores, easy counts, configurations and ALL RNG draw histories within NumPy's contract "
            "(flags kept; class membership with smoothing off; sample sorted incl. the single-pass is_sorted=True path; "
            "replacement: total preserved incl. corrections, by_label strata exact, at least one hard sample per non-empty "
            "class; single-pass by_label easy strata exact; proportion: sizes, sub-multiset without repeated index; "
            "reachability of every source score). The non-emptiness clause is REFUTED for explicit single_pass "
            "(C11_single_pass_nonempty_refuted, witness replayed on the implementation = open known finding). "
            "Unbiasedness is PARTIAL: proved for the parameters handed to NumPy (n*p = drawn/source, = 1 under by_label; "
            "binomial means), not over NumPy's generator. Model tied to the source by replaying recorded RNG histories "
            "(sample AND call order/parameters compared) on generated cases.",
            "trusted: Coq kernel, vm_compute; NumPy RNG contract (draw_ok) and documented means (draw_mean); np.sort/np.repeat/"
            "fancy indexing modelled by isort/repeat_idx/take_idx; RNG recorder (monkeypatch in the driver process). No tie lemma "
            "(translator not attempted for _sample_indices): the tie is correspondence only. Smoothing: noise values/bandwidth "
            "not modelled (sizes, flags, order only). Strata 'exact' is read for replacement sampling; single pass fixes hard "
            "strata only in expectation. Oracle adds an 8-sigma expected-size test for single-pass by_label (statistical, "
            "false-alarm probability < 1e-14 per case).",
            "Coq proof (induction over lists / histories) + vm_compute correspondence on recorded draw histories + property oracle"),
    "C12": ("7/C12",
            "Coq theorems over all labelled score sets, all 4 configurations, every threshold, ANY argsort that returns a sorting "
            "permutation, and all draw histories within NumPy's contract: constructor / swap / every sampling mode keep each score "
            "with its label (pair multisets; image of the drawn indices for None/by_label), indexing = exactly the labelled scores, "
            "group_cm = counting over the labelled pairs, sum over groups = overall matrix (labels in a duplicate-free group list), "
            "by_group replacement preserves each group's count, group list/order and flags preserved in samples, groupwise = "
            "metric group by group. Model tied to the source by correspondence on generated cases (identifiable pairings, "
            "recorded RNG histories).",
            "trusted: Coq kernel, vm_compute; np.argsort contract (argsort_ok; executable instance iargsort proved to satisfy it); "
            "boolean-mask indexing = order-preserving filter; np.concatenate = concat; NumPy RNG contract (draw_ok); group names "
            "mapped to integers order-preservingly by the harness; RNG recorder. No tie lemma: correspondence only. The "
            "_grouped_scores cache is not modelled. by_group count preservation is for replacement sampling (single pass: in "
            "expectation only). Sampling clauses assume every sampled stratum non-empty (property quantifier).",
            "Coq proof (induction over lists / histories, Permutation reasoning) + vm_compute correspondence + property oracle"),
}
PENDING = {}


def main():
    props = [json.loads(l) for l in open(os.path.join(VERIF, "properties.jsonl"))]
    checks = []
    na = []
    for p in props:
        pid = p["id"]
        if pid in CLAIMED:
            ref, text, note, tech = CLAIMED[pid]
            checks.append({
                "property_id": pid,
                "quick_cmd": f"./check {pid} --tier quick",
                "thorough_cmd": f"./check {pid} --tier thorough",
                "evidence_file": f"/verif/evidence/{pid}.json",
                "replay_cmd_template": f"./check {pid} --replay {{path}}",
                "engine": "coq-model",
                "level_claimed": {"category": "proof", "text": text, "design_ref": f"DESIGN.md section {ref}"},
                "level_note": note,
                "technique": tech,
            })
        else:
            na.append({"property_id": pid, "reason": PENDING.get(pid, "check not built yet (work in progress; the Coq model and harness for this property are not committed)")})
    manifest = {
        "version": 1,
        "setup_cmd": "./setup.sh",
        "hooks": {"guard": "SCORE_ANALYSIS_VERIF", "enable": "no hooks are needed: the harness drives /repo through PYTHONPATH=/repo and records RNG draws by wrapping numpy in its own process",
                  "baseline_off_cmd": "cd /repo && /venv/bin/python -m pytest -ra -q -p no:cacheprovider --timeout=900 --continue-on-collection-errors",
                  "source_commits": [], "add_only": True},
        "engines": [{"name": "coq-model", "path": "/verif/coq", "serves_properties": sorted(CLAIMED),
                     "kind_free_text": "hand-written Gallina model of score_analysis with theorems per property (coq/theories/Props), "
                                       "tied to /repo by an ast translator + tie lemmas (coq/ties) and by vm_compute correspondence runs (harness/)"}],
        "checks": checks,
        "not_applicable": na,
        "notes": "See DESIGN.md. ./check Cxx [--tier quick|thorough] [--replay FILE]; known findings in known_findings.json.",
    }
    with open(os.path.join(VERIF, "MANIFEST.json"), "w") as fh:
        json.dump(manifest, fh, indent=1)
    print(f"{len(checks)} checks, {len(na)} not claimed")


if __name__ == "__main__":
    main()
