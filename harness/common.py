"""Shared generators / helpers for the property modules (pure Python + numpy)."""
import math
from fractions import Fraction

CONFIGS = [("pos", "pos"), ("pos", "neg"), ("neg", "pos"), ("neg", "neg")]


def F(s):
    """decode exact number encoded by enc()"""
    if s is None:
        return None
    if s == "inf":
        return math.inf
    if s == "-inf":
        return -math.inf
    return Fraction(s)


def enc(x):
    if x is None:
        return None
    if isinstance(x, float):
        if math.isnan(x):
            return None
        if math.isinf(x):
            return "inf" if x > 0 else "-inf"
    f = Fraction(x)
    return f"{f.numerator}/{f.denominator}"


def fl(s):
    """decode to a Python float (exact when the value is a double)"""
    v = F(s)
    return None if v is None else float(v)


def dyadic(rng, lo=-8, hi=8, bits=2):
    """small dyadic rational k/2^bits in [lo, hi]"""
    d = 1 << bits
    return Fraction(rng.randint(lo * d, hi * d), d)


def score_list(rng, n, style):
    """list of exact scores; styles force ties, shared values, arbitrary doubles"""
    if style == "ties":
        pool = [Fraction(rng.randint(-3, 3)) for _ in range(3)]
        return [rng.choice(pool) for _ in range(n)]
    if style == "dyadic":
        return [dyadic(rng) for _ in range(n)]
    if style == "ints":
        return [Fraction(rng.randint(-6, 6)) for _ in range(n)]
    if style == "float":
        return [Fraction(rng.gauss(0, 1)) for _ in range(n)]
    if style == "distinct":
        vals = rng.sample(range(-40, 40), n)
        return [Fraction(v, 4) for v in vals]
    if style == "uint":         # non-negative integers over the whole uint8 range, 0 included (unsigned dtypes: -x wraps, x - y wraps)
        return [Fraction(rng.choice([0, rng.randint(0, 6), rng.randint(100, 140), rng.randint(250, 255)])) for _ in range(n)]
    if style == "wide-int":     # integers spread over the whole int8 range (adjacent gaps may exceed 127)
        return [Fraction(rng.choice([rng.randint(-128, -90), rng.randint(-20, 20), rng.randint(90, 127)])) for _ in range(n)]
    raise ValueError(style)


def sizes(rng, allow_empty=True, big=False):
    r = rng.random()
    if allow_empty and r < 0.05:
        return 0
    if r < 0.15:
        return 1
    if big and r > 0.97:
        return rng.randint(100, 130)
    return rng.randint(2, 9)


def nextafter(x, up):
    import numpy as np

    return Fraction(float(np.nextafter(float(x), math.inf if up else -math.inf)))


def pick_dtype(rng, values):
    """numpy dtype name for a score array holding exactly `values` (all representable in it)"""
    vals = [Fraction(v) for v in values]
    r = rng.random()
    ints = all(v.denominator == 1 for v in vals)
    if ints and all(0 <= v <= 255 for v in vals) and any(v > 127 for v in vals):
        return "uint8" if r < 0.7 else ("uint16" if r < 0.85 else "float64")
    if ints and all(-128 <= v <= 127 for v in vals) and r < 0.10:
        return "int8"
    if ints and r < 0.18:
        return "int64"
    small = all(v.denominator <= 1024 and abs(v) < 1024 and (v.denominator & (v.denominator - 1)) == 0 for v in vals)
    if small and r < 0.38:
        return "float32"
    return "float64"
