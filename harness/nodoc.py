"""Print a python source file with docstrings and blank lines removed, keeping line numbers."""
import ast, sys
src = open(sys.argv[1]).read()
lo = int(sys.argv[2]) if len(sys.argv) > 2 else 1
hi = int(sys.argv[3]) if len(sys.argv) > 3 else 10**9
tree = ast.parse(src)
skip = set()
for n in ast.walk(tree):
    if isinstance(n, (ast.FunctionDef, ast.ClassDef, ast.Module)) and n.body:
        b = n.body[0]
        if isinstance(b, ast.Expr) and isinstance(getattr(b, "value", None), ast.Constant) and isinstance(b.value.value, str):
            skip.update(range(b.lineno, b.end_lineno + 1))
for i, l in enumerate(src.split("\n"), 1):
    if lo <= i <= hi and i not in skip and l.strip():
        print(f"{i:5d} {l}")
