"""C13 — utils.bootstrap_ci: quantile / BC / BCa limits follow the documented formulas; derived clauses
(ordered, in range, NaN/permutation invariant, affine equivariant, nested in alpha, per component, shape)."""
import math
from fractions import Fraction

from harness import bootref
from harness import coqio as cq
from harness.common import F, enc, fl

ID = "C13"
PROPS_FILE = "Props/C13.v"
COQ_IMPORTS = ("From SA Require Import Model.BootHarness.\nFrom SA Require Model.FloatQuantile.\n"
               "From Coq Require Import Floats.PrimFloat.")
GEN_AVAILABLE = set()


def _ties():
    from harness.translate import bootci_tr
    return [{"name": "utils.bootstrap_ci: nominal levels, bc / bca arguments, acceleration numerator and denominator "
                     "(array plumbing and error branches pinned)",
             "translate": bootci_tr.translate_bootstrap_ci, "gen_file": "Gen_bootci.v", "tie_file": "Tie_bootci.v"}]


TIES = _ties()
RULE = ("structured replicate arrays of shape (N,)+Y, N in 1..40, Y in {(), (k,), (j,k)}; columns constant / discrete / "
        "skewed / outlier-laden / dyadic / arbitrary doubles, NaNs sprinkled (rarely a whole component); estimate "
        "inside the range, equal to a replicate (ties in <=), at min/max, below, above; alpha scalar (dyadic and "
        "decimal) and, for the quantile method, arrays of shape (k,), (1,k), (j,k); methods quantile/bc/bca; every "
        "case is re-run on permuted rows, with all-NaN rows inserted, on an affine image, at a larger alpha and on "
        "single components.  A case is non-trivial when some component has replicates that are not all equal and "
        "(NaNs are present or the estimate is strictly inside or strictly outside the replicate range)")
TRUSTED = [
    "np.nanquantile default 'linear' method = drop NaNs, sort, position (n-1)q, linear interpolation between the "
    "neighbouring order statistics; ValueError for levels outside [0,1] or NaN (modelled: nanquantile, q_valid)",
    "scipy.stats.norm.cdf / norm.ppf are oracles (Section variables Phi, PhiInv); hypotheses used, per theorem: "
    "0 <= Phi <= 1, Phi monotone, PhiInv monotone on (0,1), Phi/pow15 respect == ; ppf(0) = -inf, ppf(1) = +inf, "
    "cdf(-inf) = 0, cdf(+inf) = 1, NaN propagates (modelled: ppf_x, cdf_x)",
    "x ** 1.5 is an oracle (pow15) with homogeneity pow15(c^2 x) = c^3 pow15(x) for c > 0 (used only for affine "
    "equivariance of the acceleration)",
    "Model/FloatQuantile.v: binary64 model (Coq primitive floats, kernel-evaluated) of numpy's linear-method quantile "
    "on a sorted finite column: virtual index (n-1)*q, floor, gamma, _lerp with the t >= 0.5 branch; every finite limit "
    "returned by bootstrap_ci is compared bit for bit with it at the levels the implementation used",
    "float arithmetic is exact-rational in the proved model; float division s/0.0 at the pole of the acceleration term gives "
    "+-inf by the sign of s (modelled in bca_arg)",
    "the harness records the arguments/results of the implementation's norm.ppf / norm.cdf calls by wrapping "
    "scipy.stats.norm in the driver process; (sum d^2) ** 1.5 is evaluated by numpy in the harness",
]
ASSUMPTIONS = [
    "alpha in (0,1) (so ppf(alpha/2), ppf(1-alpha/2) are finite); array alpha only with the quantile method",
    "finite estimates theta_hat; one estimate per metric component",
    "bca: formula agreement is compared numerically only where |1 - a(z0+z_alpha)| >= 1e-4 (conditioning); the "
    "derived ordering/nesting clauses are checked where |a(z0+z_alpha)| < 1 - 1e-9 for both tails",
    "derived inequalities on floats are checked with a slack of 1e-12 of the replicate scale; equalities between "
    "float results with 1e-9 relative to the replicate scale plus the propagated rounding of the level",
]

DY_ALPHAS = [Fraction(1, 2), Fraction(1, 4), Fraction(1, 8), Fraction(1, 16), Fraction(1, 32), Fraction(3, 4), Fraction(3, 8)]
ANY_ALPHAS = [0.05, 0.1, 0.2, 0.01, 0.32, 0.9, 0.001]
METHODS = ["quantile", "bc", "bca"]


# ------------------------------------------------------------------ generators
def _column(rng, n, style):
    if style == "constant":
        c = Fraction(rng.randint(-12, 12), 4)
        return [c] * n
    if style == "discrete":
        pool = [Fraction(rng.randint(-8, 8), 2) for _ in range(rng.choice([2, 2, 3]))]
        return [rng.choice(pool) for _ in range(n)]
    if style == "skewed":
        return [Fraction(rng.choice([0, 1, 1, 2, 3, 4, 6, 9, 16, 25, 49, 100]) * rng.choice([1, 1, 1, 2]), 4) for _ in range(n)]
    if style == "outlier":
        col = [Fraction(rng.randint(-8, 8), 4) for _ in range(n)]
        for _ in range(rng.choice([1, 1, 2])):
            col[rng.randrange(n)] = Fraction(rng.choice([-1, 1, 1]) * 2 ** rng.randint(8, 16))
        return col
    if style == "intcount":      # integer-valued replicates (counts)
        return [Fraction(rng.choice([0, 1, 2, 3, 3, 4, 5, 7, 12, 40])) for _ in range(n)]
    if style == "constant_int":
        return [Fraction(rng.randint(0, 9))] * n
    if style == "outlier_pos":   # one large positive outlier: acceleration close to its maximum 1/6
        col = [Fraction(rng.randint(-4, 4), 4) for _ in range(n)]
        col[rng.randrange(n)] = Fraction(2 ** rng.randint(8, 12))
        return col
    if style == "dyadic":
        return [Fraction(rng.randint(-32, 32), 4) for _ in range(n)]
    if style == "float":
        mu, sd = rng.choice([(0, 1), (0.5, 0.1), (100, 3), (0, 1e-3)])
        return [Fraction(rng.gauss(mu, sd)) for _ in range(n)]
    if style == "tied_float":    # few distinct non-dyadic values, many ties (rates k/7, 0.1, 1/3): interpolation between equal neighbours
        pool = [Fraction(v) for v in rng.sample([0.1, 0.3, 1 / 3, 3 / 7, 5.3, 0.7, 2 / 7, 0.007, 1 / 7], rng.choice([1, 2, 2, 3]))]
        return [rng.choice(pool) for _ in range(n)]
    if style == "floatskew":
        return [Fraction(math.exp(rng.gauss(0, 1))) for _ in range(n)]
    raise ValueError(style)


def _hat(rng, col, style, exact):
    fin = [x for x in col if x is not None]
    if not fin:
        return Fraction(rng.randint(-4, 4))
    lo, hi = min(fin), max(fin)
    if style == "inside":
        v = (lo + hi) / 2 if exact else Fraction(float((lo + hi) / 2))
        return v
    if style == "replicate":
        return rng.choice(fin)
    if style == "median":
        return sorted(fin)[len(fin) // 2]
    if style == "second":     # just below the largest value: p0 = (n-1)/n, z0 large and finite
        below = [x for x in fin if x < hi]
        return max(below) if below else hi
    if style == "min":
        return lo
    if style == "max":
        return hi
    if style == "below":
        return lo - (1 if exact else Fraction(float(abs(lo)) * 0.5 + 0.5))
    if style == "above":
        return hi + (1 if exact else Fraction(float(abs(hi)) * 0.5 + 0.5))
    raise ValueError(style)


def _shape(rng):
    r = rng.random()
    if r < 0.45:
        return []
    if r < 0.8:
        return [rng.randint(1, 3)]
    return [rng.randint(1, 2), rng.randint(1, 3)]


def _prod(s):
    p = 1
    for x in s:
        p *= x
    return p


def _one_case(rng, k, force=None):
    force = force or {}
    method = force.get("method", METHODS[k % 3])
    exact = force.get("exact", rng.random() < 0.75)
    r = rng.random()
    n = force.get("N", 1 if r < 0.06 else (2 if r < 0.12 else (rng.randint(3, 12) if r < 0.7 else rng.randint(13, 40))))
    if not exact:
        n = min(n, 14)
    Y = force.get("Y", _shape(rng))
    size = _prod(Y)
    int_dtype = force.get("dtype", "int" if (exact and "style" not in force and rng.random() < 0.08) else "float") == "int"
    styles_e = ["constant", "discrete", "discrete", "skewed", "skewed", "outlier", "dyadic", "dyadic"]
    if int_dtype:
        styles_e = ["intcount", "intcount", "constant_int"]
    styles_f = ["float", "float", "floatskew", "discrete", "tied_float", "tied_float"]
    cols, hats, cstyles, hstyles = [], [], [], []
    allnan = rng.random() < 0.03 and size >= 1 and not int_dtype
    for j in range(size):
        st = force.get("style") or rng.choice(styles_e if exact else styles_f)
        col = _column(rng, n, st)
        if rng.random() < 0.3 and "style" not in force and not int_dtype:   # NaNs
            for i in range(n):
                if rng.random() < 0.2:
                    col[i] = None
        if allnan and j == size - 1:
            col = [None] * n
            st = "allnan"
        hs = force.get("hat_style") or rng.choice(["inside", "replicate", "replicate", "median", "min", "max", "below", "above", "second"])
        if int_dtype and hs == "inside":
            hs = "median"
        cols.append(col)
        h = _hat(rng, col, hs, exact)
        hats.append(h if exact else Fraction(float(h)))
        cstyles.append(st)
        hstyles.append(hs)
    theta = [cols[j][i] for i in range(n) for j in range(size)]
    if method == "quantile" and rng.random() < 0.5:
        ash = rng.choice([[2], [3], [1, 2], [2, 2], [1]])
        pool = DY_ALPHAS if exact else DY_ALPHAS + [Fraction(a) for a in ANY_ALPHAS]
        alpha = {"shape": ash, "data": [enc(rng.choice(pool)) for _ in range(_prod(ash))]}
        a_main = None
    else:
        a_main = rng.choice(DY_ALPHAS) if (exact and rng.random() < 0.6) else Fraction(rng.choice(ANY_ALPHAS))
        if "alpha" in force:
            a_main = Fraction(force["alpha"])
        alpha = enc(a_main)
    case = {"N": n, "Y": Y, "theta": [enc(x) for x in theta], "hat": [enc(h) for h in hats],
            "alpha": alpha, "method": method, "exact": bool(exact), "dtype": "int" if int_dtype else "float",
            "styles": cstyles, "hat_styles": hstyles}
    perm = list(range(n))
    rng.shuffle(perm)
    case["perm"] = perm
    case["nanrows"] = sorted(rng.randint(0, n) for _ in range(rng.choice([1, 2, 3])))
    if int_dtype:
        case["nanrows"] = []
        case["aff"] = [enc(Fraction(rng.choice([2, 3, 5]))), enc(Fraction(rng.randint(-5, 5)))]
    elif exact:
        case["aff"] = [enc(rng.choice([Fraction(1, 4), Fraction(1, 2), Fraction(2), Fraction(3), Fraction(3, 2), Fraction(8)])),
                       enc(Fraction(rng.randint(-20, 20), 4))]
        r_ = rng.random()
        if r_ < 0.15:      # a tiny scale (exact: a power of two): replicates 1e-9 apart are still different replicates
            case["aff"] = [enc(Fraction(1, 2 ** rng.choice([30, 40]))), enc(Fraction(0))]
        elif r_ < 0.3:     # a large offset (exact for the small dyadic replicates of this stream)
            case["aff"] = [enc(Fraction(1)), enc(Fraction(2 ** rng.choice([20, 24])))]
    else:
        case["aff"] = [enc(rng.choice([Fraction(2), Fraction(1, 2), Fraction(4), Fraction(1, 2 ** 30)])), enc(Fraction(0))]
    if a_main is not None:
        bigger = [a for a in (DY_ALPHAS + [Fraction(x) for x in ANY_ALPHAS]) if a > a_main]
        case["alpha2"] = enc(rng.choice(bigger)) if bigger else None
    else:
        case["alpha2"] = None
    case["comp"] = sorted(set(rng.randrange(size) for _ in range(2))) if size > 1 else []
    return case


def gen_cases(rng, tier):
    n = {"quick": 330, "thorough": 5000, "search": 2500}[tier]
    cases = []
    # branch-aimed cases first: N = 1, constant column with estimate at / off the constant, p0 = 0, p0 = 1
    k = 0
    for method in METHODS:
        for n1 in (1, 2):
            cases.append(_one_case(rng, k, {"method": method, "N": n1, "Y": [], "exact": True}))
            k += 1
        cases.append(_one_case(rng, k, {"method": method, "Y": [2, 2], "exact": True}))
        k += 1
        cases.append(_one_case(rng, k, {"method": method, "exact": True, "dtype": "int"}))
        k += 1
    # bca beyond / near the pole of the acceleration term (|a (z0 + z_alpha)| >= 1): formula agreement is claimed there too
    for tiny in (1e-6, 1e-9, 1e-12, 1e-9):
        cases.append(_one_case(rng, k, {"method": "bca", "N": rng.randint(30, 40), "Y": [], "exact": True,
                                        "style": "outlier_pos", "hat_style": "second", "alpha": tiny}))
        k += 1
    while len(cases) < n:
        cases.append(_one_case(rng, k))
        k += 1
    return cases


# ------------------------------------------------------------------ implementation
def _theta_array(case, np):
    n, Y = case["N"], case["Y"]
    if case.get("dtype") == "int":
        return np.array([int(F(v)) for v in case["theta"]], dtype=np.int64).reshape([n] + list(Y))
    vals = [math.nan if v is None else fl(v) for v in case["theta"]]
    return np.array(vals, dtype=float).reshape([n] + list(Y))


def _alpha_value(case, np, key="alpha"):
    a = case[key]
    if isinstance(a, dict):
        return np.array([fl(x) for x in a["data"]], dtype=float).reshape(a["shape"])
    return fl(a)


def _flat(arr, np):
    return [enc(float(v)) for v in np.asarray(arr, dtype=float).reshape(-1)]


def run_impl(case):
    import numpy as np
    import scipy.stats
    from score_analysis.utils import bootstrap_ci

    theta = _theta_array(case, np)
    Y = list(case["Y"])
    if case.get("dtype") == "int":
        hat = np.array([int(F(h)) for h in case["hat"]], dtype=np.int64).reshape(Y)
    else:
        hat = np.array([fl(h) for h in case["hat"]], dtype=float).reshape(Y)
    alpha = _alpha_value(case, np)
    method = case["method"]
    norm = scipy.stats.norm
    orig_ppf, orig_cdf = norm.ppf, norm.cdf
    rec = {"ppf": [], "cdf": []}

    def ppf(x, *a, **k):
        r = orig_ppf(x, *a, **k)
        rec["ppf"].append([_flat(x, np), _flat(r, np)])
        return r

    def cdf(x, *a, **k):
        r = orig_cdf(x, *a, **k)
        rec["cdf"].append([_flat(x, np), _flat(r, np)])
        return r

    norm.ppf, norm.cdf = ppf, cdf
    try:
        ci = bootstrap_ci(theta.copy(), hat.copy() if method != "quantile" else None, alpha, method=method)
    finally:
        del norm.ppf
        del norm.cdf
    out = {"shape": list(ci.shape), "ci": _flat(ci, np), "ppf": rec["ppf"], "cdf": rec["cdf"]}

    def call(th, ht, al):
        try:
            r = bootstrap_ci(th, ht if method != "quantile" else None, al, method=method)
            return {"shape": list(r.shape), "ci": _flat(r, np)}
        except Exception as ex:  # reported to the oracle
            return {"err": type(ex).__name__, "msg": str(ex)[:200]}

    # reordered replicates
    out["perm"] = call(theta[case["perm"]].copy(), hat.copy(), alpha)
    # all-NaN replicates inserted
    if case["nanrows"]:
        padded = theta
        for pos in reversed(case["nanrows"]):
            padded = np.insert(padded, pos, np.nan, axis=0)
        out["nanpad"] = call(padded.copy(), hat.copy(), alpha)
    # affine image
    if case.get("dtype") == "int":
        a, b = int(F(case["aff"][0])), int(F(case["aff"][1]))
    else:
        a, b = fl(case["aff"][0]), fl(case["aff"][1])
    out["affine"] = call(a * theta + b, a * hat + b, alpha)
    if case.get("dtype") != "int":
        # history: one preallocated buffer analysed, refilled in place with the affine image, analysed again
        buf = np.array(theta, dtype=float, copy=True)
        call(buf, hat.copy(), alpha)
        buf *= a
        buf += b
        out["affine_inplace"] = call(buf, a * hat + b, alpha)
    if case.get("dtype") == "int" and theta.size and theta.min() >= 0 and hat.min() >= 0 and max(theta.max(), hat.max()) < 60000:
        # count-valued replicates held in an unsigned dtype: the same numbers, the same interval
        out["unsigned"] = {dn: call(theta.astype(dt_), hat.astype(dt_), alpha) for dn, dt_ in (("uint16", np.uint16), ("uint64", np.uint64))}
    # larger alpha
    if case.get("alpha2") is not None:
        out["alpha2"] = call(theta.copy(), hat.copy(), fl(case["alpha2"]))
    # single components
    size = int(np.prod(Y)) if Y else 1
    flat_theta = theta.reshape(case["N"], size)
    flat_hat = hat.reshape(size)
    out["comp"] = {str(j): call(flat_theta[:, j].copy(), flat_hat[j], alpha) for j in case["comp"]}
    return out


# ------------------------------------------------------------------ helpers on cases
def _columns(case):
    n, size = case["N"], _prod(case["Y"])
    vals = [F(v) for v in case["theta"]]
    return [[vals[i * size + j] for i in range(n)] for j in range(size)]


def _alphas(case):
    a = case["alpha"]
    if isinstance(a, dict):
        return a["shape"], [fl(x) for x in a["data"]]
    return [], [fl(a)]


def _scale(col):
    fin = [x for x in col if x is not None]
    return float(max(abs(x) for x in fin)) if fin else 0.0


def _num(s):
    """decode an encoded float result into a float (nan for None)"""
    if s is None:
        return math.nan
    v = F(s)
    return float(v)


def _is_exact_case(case):
    if not case["exact"]:
        return False
    for v in case["theta"]:
        if v is not None:
            f = F(v)
            if f.denominator > 4 or abs(f) > 2 ** 17:
                return False
    _, al = _alphas(case)
    return all(Fraction(a).denominator <= 64 for a in al) and case["N"] <= 64


# ------------------------------------------------------------------ correspondence
def _rows_term(case):
    n, size = case["N"], _prod(case["Y"])
    vals = case["theta"]
    rows = []
    for i in range(n):
        rows.append("[" + "; ".join(cq.rate(None if vals[i * size + j] is None else F(vals[i * size + j])) for j in range(size)) + "]")
    return "[" + "; ".join(rows) + "]"


def _natlist(xs):
    return "[" + "; ".join(cq.nat(x) for x in xs) + "]"


def _ratelist(xs):
    return "[" + "; ".join(cq.rate(None if x is None else F(x)) for x in xs) + "]"


def _xval(s):
    if s is None:
        return "None"
    if s == "inf":
        return "(Some PosInf)"
    if s == "-inf":
        return "(Some NegInf)"
    return f"(Some (Fin {cq.q(F(s))}))"


def _finite_q(s):
    return cq.q(F(s)) if s not in (None, "inf", "-inf") else cq.q(0)


METHOD_COQ = {"quantile": "MQuantile", "bc": "MBc", "bca": "MBca"}


def _float_quantile_term(case, r):
    """binary64 model of np.nanquantile(method='linear') (Model/FloatQuantile.v): every finite limit bit for bit, at the
    levels the implementation used (quantile: alpha/2 and 1 - alpha/2 in double arithmetic; bc / bca: the recorded
    results of its two norm.cdf calls)"""
    method = case["method"]
    size = _prod(case["Y"])
    _, al = _alphas(case)
    nz = len(al)
    cols = _columns(case)
    if len(r["ci"]) != size * nz * 2:
        return None
    out = []
    for j in range(size):
        fin = sorted(float(x) for x in cols[j] if x is not None)
        if not fin:
            continue
        pairs = []
        for k, a in enumerate(al):
            if method == "quantile":
                levels = (a / 2.0, 1 - a / 2.0)
            else:
                if len(r.get("cdf", [])) != 2 or len(r["cdf"][0][1]) != size:
                    return None
                levels = (_num(r["cdf"][0][1][j]), _num(r["cdf"][1][1][j]))
            for t, lv in enumerate(levels):
                got = r["ci"][(j * nz + k) * 2 + t]
                if got is None or math.isnan(lv) or not (0.0 <= lv <= 1.0) or not math.isfinite(_num(got)):
                    continue
                pairs.append(f"({cq.f64(lv)}, {cq.f64(_num(got))})")
        if pairs:
            out.append(f"({cq.f64list(fin)}, [{'; '.join(pairs)}])")
    return f"(FloatQuantile.fq_check [{'; '.join(out)}])" if out else None


def coq_term(case, res):
    t = _coq_term_exact(case, res)
    if "ok" not in res or t == "false":
        return t
    ft = _float_quantile_term(case, res["ok"])
    if t is None:
        return ft
    return t + (f" && {ft}" if ft else "")


def _coq_term_exact(case, res):
    method = case["method"]
    Y = case["Y"]
    size = _prod(Y)
    ash, al = _alphas(case)
    rows = _rows_term(case)
    hats = "None" if method == "quantile" else f"(Some {_ratelist(case['hat'])})"
    if isinstance(case["alpha"], dict):
        alarg = f"(AArray {_natlist(ash)} {cq.qlist(Fraction(a) for a in al)})"
    else:
        alarg = f"(AScalar {cq.q(Fraction(al[0]))})"
    dt = "DInt" if case.get("dtype") == "int" else "DFloat"
    model = (f"(bootstrap_ci_dt no_oracle no_oracle no_oracle {dt} {_natlist(Y)} rows {hats} {alarg} {METHOD_COQ[method]})")
    if "ok" not in res:
        # the implementation raised: the model must raise too (all-NaN component with bc/bca)
        return f"(let rows := {rows} in is_err {model})"
    r = res["ok"]
    cols = _columns(case)
    if method == "quantile":
        tolv = 0 if _is_exact_case(case) else Fraction(1, 10 ** 9) * Fraction(max([_scale(c) for c in cols] + [0.0]))
        return (f"(let rows := {rows} in arr_close {cq.q(tolv)} {model} {_natlist(r['shape'])} {_ratelist(r['ci'])})")
    # bc / bca: per component, with the recorded oracle values substituted
    if len(r["ppf"]) != 3 or len(r["cdf"]) != 2 or r["shape"] != list(Y) + [2]:
        return "false"
    import numpy as np

    p0s, z0s = r["ppf"][0]
    al_lower, zl = r["ppf"][1][0][0], r["ppf"][1][1][0]
    zu = r["ppf"][2][1][0]
    if len(p0s) != size or len(r["cdf"][0][0]) != size or len(r["cdf"][1][0]) != size:
        return "false"
    parts = [f"nat_list_eqb {_natlist(r['shape'])} {_natlist(list(Y) + [2])}"]
    for j in range(size):
        th = F(case["hat"][j])
        info = bootref.doc_ci_column(cols[j], th, al[0], method)
        if info["ill"]:
            return None  # ill-conditioned: near the pole of the acceleration term
        fin = [x for x in cols[j] if x is not None]
        s2 = sum(((x - th) ** 2 for x in fin), Fraction(0))
        p15 = Fraction(float((np.array([float(s2)]) ** 1.5)[0]))
        tolv = Fraction(1, 10 ** 9) * Fraction(_scale(cols[j]))
        parts.append(
            f"check_bcx {METHOD_COQ[method]} (column rows {cq.nat(j)}) {cq.rate(th)} {cq.q(Fraction(al[0]))} "
            f"{cq.rate(None if p0s[j] is None else F(p0s[j]))} {_finite_q(z0s[j])} {_finite_q(al_lower)} {_finite_q(zl)} {_finite_q(zu)} "
            f"{cq.q(p15)} {_xval(r['cdf'][0][0][j])} {_xval(r['cdf'][1][0][j])} "
            f"{cq.rate(None if r['cdf'][0][1][j] is None else F(r['cdf'][0][1][j]))} "
            f"{cq.rate(None if r['cdf'][1][1][j] is None else F(r['cdf'][1][1][j]))} "
            f"{cq.rate(None if r['ci'][2 * j] is None else F(r['ci'][2 * j]))} "
            f"{cq.rate(None if r['ci'][2 * j + 1] is None else F(r['ci'][2 * j + 1]))} "
            f"{cq.q(Fraction(1, 10 ** 9))} {cq.q(tolv)}")
    return f"(let rows := {rows} in " + " && ".join(parts) + ")"


# ------------------------------------------------------------------ oracle
def _close(x, y, tol):
    """both NaN, or both numbers within tol"""
    if math.isnan(x) or math.isnan(y):
        return math.isnan(x) and math.isnan(y)
    return abs(x - y) <= tol


def oracle(case, res):
    method = case["method"]
    Y = list(case["Y"])
    size = _prod(Y)
    cols = _columns(case)
    hats = [F(h) for h in case["hat"]]
    ash, als = _alphas(case)
    nz = len(als)
    fails = []
    empty = [j for j in range(size) if all(x is None for x in cols[j])]
    if "ok" not in res:
        if method in ("bc", "bca") and empty and res.get("err") == "ValueError":
            return [("C13/all-nan-component/raises",
                     f"method {method}: component {empty[0]} has no finite replicate and bootstrap_ci raises {res.get('err')} "
                     f"({res.get('msg')}) for the whole array instead of returning NaN limits for that component "
                     "(the quantile method does); the limits of the other components are lost, so components are not "
                     "computed independently (regression of fix fa251ac)")]
        if method == "bca" and case.get("dtype") == "int" and "UFuncTypeError" in str(res.get("err")):
            return [("C13/int-replicates/bca-raises",
                     f"method bca with integer-typed replicates and estimate: bootstrap_ci raises {res.get('err')} ({res.get('msg')}) "
                     "instead of returning the BCa limits (regression of fix 4a7af20: the acceleration must be divided into a float buffer)")]
        return [("C13/exception", f"bootstrap_ci raised {res.get('err')}: {res.get('msg')}")]
    r = res["ok"]
    want_shape = Y + list(ash) + [2]
    if r["shape"] != want_shape:
        return [("C13/shape", f"result shape {r['shape']}, want metric_shape+alpha_shape+(2,) = {want_shape}")]
    ci = [_num(v) for v in r["ci"]]

    def lim(flat, j, k, t):
        return flat[(j * nz + k) * 2 + t]

    infos = {}
    for j in range(size):
        col = cols[j]
        fin = [x for x in col if x is not None]
        scale = _scale(col)
        slack = 1e-12 * scale
        for k, a in enumerate(als):
            info = bootref.doc_ci_column(col, hats[j], a, method)
            infos[(j, k)] = info
            lo, hi = lim(ci, j, k, 0), lim(ci, j, k, 1)
            tag = f"component {j}, alpha {a}"
            # --- formula agreement
            if not fin:
                if not (math.isnan(lo) and math.isnan(hi)):
                    fails.append(("C13/formula/all-nan", f"{tag}: no finite replicate but limits ({lo}, {hi})"))
                continue
            if math.isnan(lo) or math.isnan(hi):
                fails.append(("C13/formula/nan", f"{tag}: NaN limit ({lo}, {hi}) although {len(fin)} replicates are finite"))
                continue
            if not info["ill"]:
                tol = bootref.limit_tolerance(col, info)
                for name, got, want in (("lower", lo, info["lo"]), ("upper", hi, info["hi"])):
                    if abs(got - float(want)) > tol:
                        fails.append((f"C13/formula/{method}",
                                      f"{tag}: {name} limit {got!r}, documented formula gives {float(want)!r} "
                                      f"(p0={info['p0']}, z0={info['z0']}, a={info['a']}, cdf args={info['args']}, levels={info['levels']})"))
            # --- within the range of the finite replicates
            # (exactly: each limit is a linear-interpolation quantile a + (b - a) * t of two neighbouring replicates, which
            # never leaves [a, b] in floating point and is a itself when b == a)
            if lo < float(min(fin)) or hi > float(max(fin)) or lo > float(max(fin)) or hi < float(min(fin)):
                fails.append(("C13/range", f"{tag}: limits ({lo}, {hi}) outside the replicate range [{float(min(fin))}, {float(max(fin))}]"))
            # --- ordered
            if info["side_ok"] and lo > hi + slack:
                fails.append(("C13/ordered", f"{tag}: lower {lo} > upper {hi}"))

    def compare(name, kind, other, transform=None, cond_extra=1.0):
        if other is None:
            return
        if "err" in other:
            fails.append((kind, f"{name}: bootstrap_ci raised {other['err']}: {other.get('msg')}"))
            return
        if other["shape"] != r["shape"]:
            fails.append((kind, f"{name}: shape {other['shape']} differs from {r['shape']}"))
            return
        oc = [_num(v) for v in other["ci"]]
        for j in range(size):
            for k in range(nz):
                info = infos[(j, k)]
                if info["ill"]:
                    continue
                tol = bootref.limit_tolerance(cols[j], info) * 2
                for t in (0, 1):
                    base = lim(ci, j, k, t)
                    want = transform(base) if transform else base
                    scale_f = cond_extra if transform else 1.0
                    if not _close(lim(oc, j, k, t), want, tol * scale_f + (1e-12 * abs(want) if transform else 0.0)):
                        fails.append((kind, f"{name}: component {j}, alpha {als[k]}, limit {t}: {lim(oc, j, k, t)!r}, expected {want!r}"))
                        return

    if r.get("affine_inplace") is not None and r.get("affine") is not None and r["affine_inplace"] != r["affine"]:
        fails.append(("C13/history/refilled-buffer", "the interval of a buffer that was analysed before and then refilled in place differs "
                                                     "from the interval of a fresh array with the same contents"))
    for dn, ou in (r.get("unsigned") or {}).items():
        if ou.get("ci") != r["ci"]:
            fails.append(("C13/formula/unsigned-replicates", f"the same count-valued replicates held as {dn} give "
                          f"{ou.get('err') or [float(F(v)) if v is not None else None for v in ou['ci']][:6]}, as int64 "
                          f"{[float(F(v)) if v is not None else None for v in r['ci']][:6]} (method {case['method']})"))
            break
    compare("replicates reordered", "C13/permutation", r.get("perm"))
    compare("all-NaN replicates inserted", "C13/nan-invariance", r.get("nanpad"))
    if case.get("aff") is not None:
        a, b = fl(case["aff"][0]), fl(case["aff"][1])
        compare(f"affine image x -> {a} x + {b}", "C13/affine", r.get("affine"), transform=lambda v: a * v + b, cond_extra=abs(a) + 1e-300)
    # nested in alpha
    o2 = r.get("alpha2")
    if o2 is not None and case.get("alpha2") is not None:
        if "err" in o2:
            fails.append(("C13/nested", f"alpha {fl(case['alpha2'])}: raised {o2['err']}: {o2.get('msg')}"))
        else:
            a2 = fl(case["alpha2"])
            oc = [_num(v) for v in o2["ci"]]
            for j in range(size):
                fin = [x for x in cols[j] if x is not None]
                if not fin:
                    continue
                i1 = infos[(j, 0)]
                i2 = bootref.doc_ci_column(cols[j], hats[j], a2, method)
                if not (i1["side_ok"] and i2["side_ok"]) or i1["ill"] or i2["ill"]:
                    continue
                slack = 1e-12 * _scale(cols[j]) + bootref.limit_tolerance(cols[j], i1) - 1e-9 * _scale(cols[j]) \
                    + bootref.limit_tolerance(cols[j], i2) - 1e-9 * _scale(cols[j])
                lo1, hi1 = lim(ci, j, 0, 0), lim(ci, j, 0, 1)
                lo2, hi2 = oc[2 * j], oc[2 * j + 1]
                if lo2 < lo1 - slack or hi2 > hi1 + slack:
                    fails.append(("C13/nested", f"component {j}: interval at alpha={a2} ({lo2}, {hi2}) is not inside the one at "
                                                f"alpha={als[0]} ({lo1}, {hi1})"))
    # per-component independence
    for js, oc in r.get("comp", {}).items():
        j = int(js)
        if "err" in oc:
            if not [x for x in cols[j] if x is not None] and method != "quantile":
                continue  # that component alone is the all-NaN case (reported above when the array call raises)
            fails.append(("C13/independent", f"component {j} alone: raised {oc['err']}: {oc.get('msg')}"))
            continue
        if oc["shape"] != list(ash) + [2]:
            fails.append(("C13/independent", f"component {j} alone: shape {oc['shape']}"))
            continue
        ov = [_num(v) for v in oc["ci"]]
        for k in range(nz):
            info = infos[(j, k)]
            if info["ill"]:
                continue
            tol = bootref.limit_tolerance(cols[j], info) * 2
            for t in (0, 1):
                if not _close(ov[k * 2 + t], lim(ci, j, k, t), tol):
                    fails.append(("C13/independent", f"component {j} computed alone gives {ov[k * 2 + t]!r}, inside the array {lim(ci, j, k, t)!r}"))
    return fails


def nontrivial(case, res):
    cols = _columns(case)
    hats = [F(h) for h in case["hat"]]
    for col, th in zip(cols, hats):
        fin = [x for x in col if x is not None]
        if len(set(fin)) < 2:
            continue
        if len(fin) < len(col):
            return True
        if min(fin) < th < max(fin) or th < min(fin) or th > max(fin):
            return True
    return False


def distribution(cases, results):
    d = {"n": len(cases), "method": {}, "exact_stream": 0, "float_stream": 0, "array_alpha": 0, "with_nan": 0,
         "all_nan_component": 0, "int_dtype": 0, "N": {"1": 0, "2": 0, "3-12": 0, "13-40": 0}, "rank_Y": {"0": 0, "1": 0, "2": 0},
         "column_style": {}, "estimate_position": {}, "p0_is_0": 0, "p0_is_1": 0, "bca_side_condition_fails": 0,
         "bca_ill_conditioned": 0, "errors": 0}
    for c, r in zip(cases, results):
        d["method"][c["method"]] = d["method"].get(c["method"], 0) + 1
        d["exact_stream" if c.get("exact") else "float_stream"] += 1
        if isinstance(c["alpha"], dict):
            d["array_alpha"] += 1
        if c.get("dtype") == "int":
            d["int_dtype"] += 1
        if any(v is None for v in c["theta"]):
            d["with_nan"] += 1
        n = c["N"]
        d["N"]["1" if n == 1 else "2" if n == 2 else "3-12" if n <= 12 else "13-40"] += 1
        d["rank_Y"][str(len(c["Y"]))] += 1
        for s in c.get("styles", []):
            d["column_style"][s] = d["column_style"].get(s, 0) + 1
        for s in c.get("hat_styles", []):
            d["estimate_position"][s] = d["estimate_position"].get(s, 0) + 1
        if "allnan" in c.get("styles", []):
            d["all_nan_component"] += 1
        if "ok" not in r:
            d["errors"] += 1
        elif c["method"] != "quantile" and r["ok"].get("ppf"):
            for p in r["ok"]["ppf"][0][0]:
                if p is not None and F(p) == 0:
                    d["p0_is_0"] += 1
                if p is not None and F(p) == 1:
                    d["p0_is_1"] += 1
            if c["method"] == "bca":
                cols = _columns(c)
                for j, col in enumerate(cols):
                    info = bootref.doc_ci_column(col, F(c["hat"][j]), fl(c["alpha"]), "bca")
                    if not info["side_ok"]:
                        d["bca_side_condition_fails"] += 1
                    if info["ill"]:
                        d["bca_ill_conditioned"] += 1
    return d
