"""C16 — ROC confidence bands are well-formed envelopes of pointwise rectangles: roc_with_ci, _apply_rule_of_three,
_aggregate_rectangles and the three experimental band functions."""
import math
from fractions import Fraction

from harness import coqio as cq
from harness import thr_common as tc
from harness.common import CONFIGS, F, enc, fl, score_list
from harness.props import C15

ID = "C16"
PROPS_FILE = "Props/C16.v"
COQ_IMPORTS = "From SA Require Import Model.HarnessRocCI."
GEN_AVAILABLE = set()
CHUNK = 12
FUNCS = ["roc_with_ci", "pointwise_band_ci", "simultaneous_joint_region_ci", "fixed_width_band_ci"]
METHODS = {"quantile": "MQuantile", "bc": "MBc", "bca": "MBca"}
TOL = Fraction(1, 10 ** 12)
RULE = ("three streams. (r3) _apply_rule_of_three called directly: rates k/n' with k in {0, 1, n'-1, n', other}, the population "
        "n equal to or different from n', NaN rates; (agg) _aggregate_rectangles called directly: nested / disjoint / touching / "
        "degenerate rectangles, occasional NaN limits; (band) the four band functions on Scores with both classes non-empty "
        "(ties, easy samples incl. 5 hard + 8 easy positives, 4 configurations), every combination of supplied arrays / "
        "nb_points / x_axis, alpha in {.05,.1,.25,.5}, the three bootstrap methods, identity sampler (closed form, compared "
        "exactly / 1e-12) and built-in samplers replacement / single_pass / dynamic / proportion with and without by_label stratification "
        "under np.random.seed (well-formedness); fixed_width_band_ci only with nb_points / all scores. Model vs implementation: "
        "r3/agg exactly; band under the identity sampler and under recorded by_label samples with the quantile method on "
        "inputs whose float operations are exact. A band case is non-trivial when the curve has >= 3 distinct operating "
        "points, a point with observed rate 0 or 1 and one without")
TRUSTED = C15.TRUSTED + [
    "math.pow / scipy.stats.ksone.ppf values are recorded from the same libraries at the arguments the model asks for",
    "np.where on (N,1) x (1,2) x (N,2) = row-wise choice; np.min/np.max(initial=) propagate NaN; Python min/max on floats; "
    "boolean-mask indexing = filter; joint_ci[0]/[1] = first / last n rows of the (2,n,2) array",
    "the built-in samplers are a parameter of the model (C11); recorded samples are replayed as a callable sampler (C14)",
    "explicit single_pass sampling is included since /repo c42c88e (single-pass samples keep a scored sample per class)",
]
ASSUMPTIONS = ["fixed_width_band_ci raising 'Could not initialise search for displacement' is counted as a failure only when the "
               "curve at the chosen supports runs from (0,1) to (1,0) (the documented precondition of the tube search); with all "
               "scores as supports and e.g. easy samples the curve ends elsewhere and the input is outside the quantifier",
               "both classes non-empty; finite scores of moderate magnitude; supplied fnr/fpr in [0,1]; alpha in (0,1); nb_samples >= 1",
               "NaN-freeness is claimed under C11's at-least-one rule (every sample keeps a scored positive and negative)",
               "fixed_width_band_ci: supports spanning the whole curve (nb_points or all scores, no supplied arrays)"]


def _ties():
    from harness.translate import roc_tr
    return [{"name": "roc_curve.roc_with_ci/_apply_rule_of_three + experimental.roc_ci", "translate": roc_tr.translate_rocci,
             "gen_file": "Gen_rocci.v", "tie_file": "Tie_rocci.v"}]


TIES = _ties()


# ------------------------------------------------------------------ generators
def gen_r3(rng):
    n = rng.choice([1, 2, 3, 4, 5, 8, 13, 16, 20])
    if rng.random() < 0.25:
        # class sizes for which (1/n)*n or ((n-1)/n)*n round away from the integer: the tests are on the rate itself
        n = rng.choice([49, 98, 103, 107, 161, 187, 196, 197, 93, 186])
    n_rate = n if rng.random() < 0.7 else rng.choice([5, 13, 16, 7])     # population the rates were computed over
    k_pool = [0, 0, 1, n_rate - 1, n_rate, n_rate, rng.randint(0, n_rate), rng.randint(0, n_rate)]
    m = rng.randint(1, 6)
    ks = [rng.choice(k_pool) for _ in range(m)]
    p = [None if rng.random() < 0.05 else [k, n_rate] for k in ks]
    ci = []
    for _ in range(m):
        a, b = sorted([Fraction(rng.randint(0, 16), 16), Fraction(rng.randint(0, 16), 16)])
        ci.append([enc(a), enc(b)])
    return {"kind": "r3", "p": p, "ci": ci, "alpha": enc(Fraction(rng.choice([0.05, 0.1, 0.25, 0.5]))), "n": n}


def gen_agg(rng, m=None):
    long_ = m is not None
    m = m or rng.randint(1, 7)
    style = rng.choice(["random", "random", "nested", "degenerate", "touching"]) if not long_ else rng.choice(["random", "wide"])
    x, dxp, dyp = [], [], []
    for j in range(m):
        c = Fraction(rng.randint(0, 16), 16)
        if style == "degenerate":
            a, b = c, c
        elif style == "nested":
            a, b = max(Fraction(0), c - Fraction(j + 1, 16)), min(Fraction(1), c + Fraction(j + 1, 16))
        elif style == "touching":
            a, b = Fraction(j, m), Fraction(j + 1, m)
            c = rng.choice([a, b])
        elif style == "wide":     # long sequences: early rectangles are wide and cover many later points
            c = Fraction(rng.randint(0, 64), 64)
            w = Fraction(rng.randint(8, 24), 64) if j < m // 3 else Fraction(rng.randint(0, 2), 64)
            a, b = max(Fraction(0), c - w), min(Fraction(1), c + w)
        else:
            a, b = sorted([Fraction(rng.randint(0, 16), 16), Fraction(rng.randint(0, 16), 16)])
            if rng.random() < 0.7:
                c = rng.choice([a, b, (a + b) / 2])
        lo, hi = sorted([Fraction(rng.randint(0, 32), 32), Fraction(rng.randint(0, 32), 32)])
        x.append(enc(c)), dxp.append([enc(a), enc(b)]), dyp.append([enc(lo), enc(hi)])
    if rng.random() < 0.12:
        tgt = rng.choice([dxp, dyp])
        tgt[rng.randrange(m)][rng.randrange(2)] = None
    if rng.random() < 0.04:
        x[rng.randrange(m)] = None
    return {"kind": "agg", "x": x, "dxp": dxp, "dyp": dyp}


def gen_scores(rng, exact, easy_scene=False):
    if easy_scene:
        # few hard + many easy positives (or negatives): rates over all samples vs 1/len(hard)
        if exact:
            npos, ep, nneg, en = 4, 12, rng.choice([2, 4]), 0
        else:
            npos, ep, nneg, en = 5, 8, rng.choice([3, 4, 6]), rng.choice([0, 0, 5])
        if rng.random() < 0.3:
            npos, ep, nneg, en = nneg, en, npos, ep
        style = rng.choice(["distinct", "dyadic"])
        return score_list(rng, npos, style), score_list(rng, nneg, style), ep, en
    return C15.gen_scores(rng, exact)


def gen_band(rng, k, func=None, sampler=None, exact=None, easy_scene=None):
    func = func or FUNCS[k % 4]
    exact = rng.random() < 0.6 if exact is None else exact
    easy_scene = rng.random() < 0.25 if easy_scene is None else easy_scene
    pos, neg, ep, en = gen_scores(rng, exact, easy_scene)
    sc, ec = CONFIGS[(k // 4) % 4] if rng.random() < 0.5 else rng.choice(CONFIGS)
    case = {"kind": "band", "func": func, "pos": [enc(x) for x in pos], "neg": [enc(x) for x in neg], "ep": ep, "en": en,
            "sc": sc, "ec": ec, "exact": exact}
    supplied = 0 if func == "fixed_width_band_ci" else rng.choice([0, 0, 0, 1, 2, 3, 4, 5, 6, 7])
    case["fnr"] = [enc(x) for x in C15.gen_rates(rng, True)] if supplied & 1 else None
    case["fpr"] = [enc(x) for x in C15.gen_rates(rng, True)] if supplied & 2 else None
    case["thresholds"] = [enc(x) for x in C15.gen_thresholds(rng, pos + neg, True)] if supplied & 4 else None
    case["nb_points"] = rng.choice([None, None, 2, 3, 6, 10, 10, 24] if func != "fixed_width_band_ci" else [None, None, 6, 10, 24])
    case["x_axis"] = C15.AXES[k % 8] if func == "roc_with_ci" else None
    case["alpha"] = enc(Fraction(rng.choice([0.05, 0.1, 0.25, 0.5])))
    case["bootstrap_method"] = rng.choice(list(METHODS))
    if sampler is None:
        r = rng.random()
        if func == "simultaneous_joint_region_ci":
            sampler = {"type": "none"}
        elif r < 0.45:
            sampler = {"type": "identity"}
        else:
            sm = rng.choice(["replacement", "replacement", "dynamic", "proportion", "single_pass"])
            sampler = {"type": "builtin", "sampling_method": sm, "stratified": None if sm == "proportion" else rng.choice([None, "by_label"]),
                       "ratio": 0.5 if sm == "proportion" else None, "seed": rng.randint(0, 10 ** 6)}
    case["sampler"] = sampler
    case["nb_samples"] = rng.choice([1, 3, 5, 8]) if sampler["type"] != "identity" else rng.choice([1, 2, 4])
    return case


def gen_replay(rng, k):
    """recorded by_label samples, quantile method, alpha = 1/4, 5 or 9 samples: every float operation is exact"""
    c = gen_band(rng, k, func=rng.choice(["roc_with_ci", "pointwise_band_ci"]), exact=True, easy_scene=(k % 3 == 0),
                 sampler={"type": "builtin", "sampling_method": "replacement", "stratified": "by_label", "ratio": None,
                          "seed": rng.randint(0, 10 ** 6)})
    c["alpha"], c["bootstrap_method"], c["nb_samples"], c["record"] = enc(Fraction(1, 4)), "quantile", rng.choice([5, 9]), True
    if c["nb_points"] == 24:
        c["nb_points"] = 10
    return c


def gen_cases(rng, tier):
    n_band, n_small = {"quick": (300, 160), "thorough": (4000, 2500), "search": (1500, 300)}[tier]
    cases = []
    k = 0
    # aimed: easy-sample scene x identity sampler x every method x the two functions that apply the rule of three
    for m in METHODS:
        for func in ("roc_with_ci", "pointwise_band_ci"):
            for ex in (True, False):
                c = gen_band(rng, k, func=func, sampler={"type": "identity"}, exact=ex, easy_scene=True)
                c["bootstrap_method"] = m
                cases.append(c)
                k += 1
    for func in FUNCS:       # every experimental function: all scores and nb_points
        for nb in (None, 10):
            c = gen_band(rng, k, func=func)
            c["fnr"] = c["fpr"] = c["thresholds"] = None
            c["nb_points"] = nb
            cases.append(c)
            k += 1
    for _ in range(max(12, n_band // 12)):
        cases.append(gen_replay(rng, k))
        k += 1
    while len(cases) < n_band:
        cases.append(gen_band(rng, k))
        k += 1
    for j in range(n_small):
        cases.append(gen_r3(rng) if j % 2 else gen_agg(rng))
    # long rectangle sequences (more points than any internal block size is likely to be)
    for _ in range({"quick": 2, "thorough": 8, "search": 4}.get(tier, 2)):
        cases.append(gen_agg(rng, m=rng.choice([257, 300, 520, 600])))
    return cases


# ------------------------------------------------------------------ implementation
def _pairs(a):
    return [[enc(float(r[0])), enc(float(r[1]))] for r in a]


def _p_float(p):
    return float("nan") if p is None else p[0] / p[1]


def run_impl(case):
    import numpy as np

    if case["kind"] == "r3":
        from score_analysis.roc_curve import _apply_rule_of_three
        p = np.array([_p_float(x) for x in case["p"]], dtype=float)
        ci = np.array([[fl(a), fl(b)] for a, b in case["ci"]], dtype=float)
        out = _apply_rule_of_three(p=p, ci=ci, alpha=fl(case["alpha"]), n=case["n"])
        return {"ci": _pairs(out), "shape": list(out.shape), "pow": enc(math.pow(fl(case["alpha"]), 1 / case["n"]))}
    if case["kind"] == "agg":
        from score_analysis.roc_curve import _aggregate_rectangles

        def f(v):
            return float("nan") if v is None else fl(v)
        x = np.array([f(v) for v in case["x"]], dtype=float)
        dxp = np.array([[f(a), f(b)] for a, b in case["dxp"]], dtype=float)
        dyp = np.array([[f(a), f(b)] for a, b in case["dyp"]], dtype=float)
        out = _aggregate_rectangles(x, dxp, dyp)
        return {"ci": _pairs(out), "shape": list(out.shape)}
    # band functions
    import scipy.stats
    import score_analysis.experimental.roc_ci as X
    from score_analysis import BootstrapConfig, roc_with_ci

    s = tc.make_scores(case)
    sp = case["sampler"]
    if sp["type"] == "builtin":
        cfg = BootstrapConfig(nb_samples=case["nb_samples"], bootstrap_method=case["bootstrap_method"],
                              sampling_method=sp["sampling_method"], stratified_sampling=sp["stratified"], ratio=sp["ratio"])
        np.random.seed(sp["seed"])
    else:
        cfg = BootstrapConfig(nb_samples=case["nb_samples"], bootstrap_method=case["bootstrap_method"],
                              sampling_method=lambda source: source)
    samples = []
    if case.get("record"):
        def rec_sample(config):
            smp = type(s).bootstrap_sample(s, config=config)
            samples.append(smp)
            return smp
        s.bootstrap_sample = rec_sample
    kw = dict(fnr=C15._arr(case["fnr"], np), fpr=C15._arr(case["fpr"], np), thresholds=C15._arr(case["thresholds"], np),
              nb_points=case["nb_points"], alpha=fl(case["alpha"]))
    func = case["func"]
    if func == "roc_with_ci":
        c = roc_with_ci(s, x_axis=case["x_axis"], config=cfg, **kw)
    elif func == "simultaneous_joint_region_ci":
        c = X.simultaneous_joint_region_ci(s, **kw)
    elif func == "fixed_width_band_ci":
        # the method is documented to need a curve from (0,1) to (1,0) (_find_tube_radius: "All curves are assumed to
        # start at (0, 1) and end at (1, 0)"): record whether the curve at these supports has both corners
        from score_analysis import roc
        c0 = roc(s, nb_points=case["nb_points"], x_axis="fnr")
        corners = bool(len(c0.fnr) and c0.fnr[0] == 0 and c0.fpr[0] == 1 and c0.fnr[-1] == 1 and c0.fpr[-1] == 0)
        try:
            c = X.fixed_width_band_ci(s, config=cfg, **kw)
        except ValueError as ex:
            if "Could not initialise search" in str(ex):
                return {"fw_error": str(ex), "corners": corners}
            raise
    else:
        c = getattr(X, func)(s, config=cfg, **kw)
    if case.get("record"):
        del s.bootstrap_sample
    t = np.asarray(c.thresholds, dtype=float)
    fnr, fpr = np.asarray(c.fnr, dtype=float), np.asarray(c.fpr, dtype=float)
    a = fl(case["alpha"])
    out = {"thresholds": C15._encl(t), "fnr": C15._encl(fnr), "fpr": C15._encl(fpr),
           "fnr_ci": _pairs(np.asarray(c.fnr_ci, dtype=float)), "fpr_ci": _pairs(np.asarray(c.fpr_ci, dtype=float)),
           "shapes": [list(np.shape(c.thresholds)), list(np.shape(c.fnr)), list(np.shape(c.fpr)), list(np.shape(c.fnr_ci)), list(np.shape(c.fpr_ci))],
           "fnr_at": C15._encl(np.atleast_1d(s.fnr(t))), "fpr_at": C15._encl(np.atleast_1d(s.fpr(t))),
           # the point estimates of the joint metric: q = fnr(threshold_at_fpr(fpr)), q' = fpr(threshold_at_fnr(fnr))
           "q_fnr": C15._encl(np.atleast_1d(s.fnr(s.threshold_at_fpr(fpr)))) if len(t) else [],
           "q_fpr": C15._encl(np.atleast_1d(s.fpr(s.threshold_at_fnr(fnr)))) if len(t) else [],
           "nb_all": [int(s.nb_all_pos), int(s.nb_all_neg)],
           "pow": [enc(math.pow(a, 1 / s.nb_all_pos)), enc(math.pow(a, 1 / s.nb_all_neg))],
           "ks": [enc(float(scipy.stats.ksone.ppf(1.0 - a / 2.0, s.nb_all_pos))), enc(float(scipy.stats.ksone.ppf(1.0 - a / 2.0, s.nb_all_neg)))],
           "tau": enc(tc.tau(dict(case, metric="topr")))}
    if func == "roc_with_ci" and sp["type"] == "builtin" and len(t):
        # the statement, re-composed from its parts under the same seed: bootstrap intervals of the joint metric
        # (Scores.bootstrap_ci, C14), rule of three, envelope of the rectangles (the helpers are checked by the r3 / agg cases)
        from score_analysis.roc_curve import _aggregate_rectangles, _apply_rule_of_three

        def joint(_s):
            return np.stack([_s.fnr(_s.threshold_at_fpr(fpr)), _s.fpr(_s.threshold_at_fnr(fnr))], axis=0)
        np.random.seed(sp["seed"])
        ji = s.bootstrap_ci(metric=joint, alpha=a, config=cfg)
        f_ci = _apply_rule_of_three(p=fnr, ci=ji[0], alpha=a, n=s.nb_all_pos)
        p_ci = _apply_rule_of_three(p=fpr, ci=ji[1], alpha=a, n=s.nb_all_neg)
        want_fpr_band = _aggregate_rectangles(fnr, f_ci, p_ci)
        want_fnr_band = _aggregate_rectangles(fpr, p_ci, f_ci)
        out["recomposed"] = {"fnr_ci": _pairs(np.asarray(want_fnr_band, dtype=float)), "fpr_ci": _pairs(np.asarray(want_fpr_band, dtype=float))}
    if case.get("record"):
        out["samples"] = [{"pos": C15._encl(x.pos), "neg": C15._encl(x.neg), "ep": int(x.nb_easy_pos), "en": int(x.nb_easy_neg)} for x in samples]
    # the requested points are a set: listing them in another order gives the same supports and point estimates
    # (done last: the extra calls advance the sampler / the global generator)
    if func == "roc_with_ci" and any(kw[nm] is not None and len(kw[nm]) >= 2 for nm in ("fnr", "fpr", "thresholds")):
        order_same = True
        for how in ("sorted", "reversed"):
            kw2 = dict(kw)
            for nm in ("fnr", "fpr", "thresholds"):
                if kw[nm] is not None:
                    kw2[nm] = np.sort(kw[nm]) if how == "sorted" else np.sort(kw[nm])[::-1].copy()
            c2 = roc_with_ci(s, x_axis=case["x_axis"], config=cfg, **kw2)
            order_same = order_same and bool(np.array_equal(np.asarray(c2.thresholds, dtype=float), t)
                                             and np.array_equal(np.asarray(c2.fnr, dtype=float), fnr)
                                             and np.array_equal(np.asarray(c2.fpr, dtype=float), fpr))
        out["order_same"] = order_same
    return out


# ------------------------------------------------------------------ model
def _orate(v):
    return cq.rate(None if v is None else F(v))


def _ci_rows(rows):
    return "[" + "; ".join(f"({_orate(a)}, {_orate(b)})" for a, b in rows) + "]"


def _sample_term(case, smp):
    return (f"(mk_scores {cq.qlist(F(x) for x in smp['pos'])} {cq.qlist(F(x) for x in smp['neg'])} {cq.z(smp['ep'])} {cq.z(smp['en'])} "
            f"{cq.label(case['sc'])} {cq.label(case['ec'])} false)")


def coq_term(case, res):
    if case["kind"] == "r3":
        if "ok" not in res:
            return "false"
        r = res["ok"]
        p = "[" + "; ".join("None" if x is None else f"(Some {cq.q(Fraction(x[0], x[1]))})" for x in case["p"]) + "]"
        return (f"r3_agree (Qmake 1 1099511627776) {cq.q(F(r['pow']))} {p} {_ci_rows(case['ci'])} {cq.q(F(case['alpha']))} "
                f"{cq.z(case['n'])} {_ci_rows(r['ci'])}")
    if case["kind"] == "agg":
        if "ok" not in res:
            return "false"
        x = "[" + "; ".join(_orate(v) for v in case["x"]) + "]"
        return f"agg_agree {x} {_ci_rows(case['dxp'])} {_ci_rows(case['dyp'])} {_ci_rows(res['ok']['ci'])}"
    # band
    if not case.get("exact") or "ok" not in res or case["func"] == "fixed_width_band_ci" or "fw_error" in res["ok"]:
        return None
    if not C15._dyadic_targets(case):
        return None
    sp = case["sampler"]
    r = res["ok"]
    if sp["type"] == "builtin" and not case.get("record"):
        return None
    s = tc.scores_term(case)
    args = f"{C15._olist(case['fnr'])} {C15._olist(case['fpr'])} {C15._olist(case['thresholds'])} {C15._oz(case['nb_points'])}"
    npos, nneg = r["nb_all"]
    expect = (f"{cq.qlist(F(x) for x in r['thresholds'])} {C15._rates(r['fnr'])} {C15._rates(r['fpr'])} "
              f"{_ci_rows(r['fnr_ci'])} {_ci_rows(r['fpr_ci'])}")
    tols = "0 (Qmake 1 1125899906842624) (Qmake 1 1099511627776)"
    if case["func"] == "simultaneous_joint_region_ci":
        call = f"sjr64 {cq.z(npos)} {cq.q(F(r['ks'][0]))} {cq.q(F(r['ks'][1]))} {s} {args} {cq.q(F(case['alpha']))}"
        return f"curve_agree {tols} ({call}) {expect}"
    powf = f"(pow_table (1 / inject_Z {cq.z(npos)}) {cq.q(F(r['pow'][0]))} {cq.q(F(r['pow'][1]))})"
    samples = "[" + "; ".join(_sample_term(case, x) for x in r.get("samples", [])) + "]"
    cfg = f"(cfg_of {cq.nat(case['nb_samples'])} {METHODS[case['bootstrap_method']]} {samples})"
    tail = f"{cq.q(F(case['alpha']))} {cfg} (fun _ => tt)"
    if case["func"] == "roc_with_ci":
        call = f"roc_with_ci64 {powf} {s} {args} {C15._xaxis(case['x_axis'])} {tail}"
    else:
        call = f"pointwise_band_ci64 {powf} {s} {args} {tail}"
    return f"curve_agree {tols} ({call}) {expect}"


# ------------------------------------------------------------------ oracle
def envelope(x, dxp, dyp):
    out = []
    for j in range(len(x)):
        lo, hi = dyp[j]
        for (a, b), (l2, h2) in zip(dxp, dyp):
            if a <= x[j] <= b:
                lo, hi = min(lo, l2), max(hi, h2)
        out.append((lo, hi))
    return out


def rule3(p, ci, powv, one_minus_pow):
    out = []
    for pj, row in zip(p, ci):
        if pj == 0:
            out.append((Fraction(0), one_minus_pow))
        elif pj == 1:
            out.append((powv, Fraction(1)))
        else:
            out.append(row)
    return out


def _rows(rows):
    return [(F(a), F(b)) for a, b in rows]


def _cmp_rows(kind, name, got, want, fails, tol=TOL):
    if len(got) != len(want):
        fails.append((kind, f"{name}: {len(got)} rows, expected {len(want)}"))
        return
    for j, (g, w) in enumerate(zip(got, want)):
        if any(v is None for v in g) or abs(g[0] - w[0]) > tol or abs(g[1] - w[1]) > tol:
            fails.append((kind, f"{name}[{j}] = [{g[0]}, {g[1]}], closed form [{w[0]}, {w[1]}]"))
            return


def oracle_r3(case, res):
    if "ok" not in res:
        return [("C16/r3/exception", f"_apply_rule_of_three raised {res.get('err')}: {res.get('msg')}")]
    r = res["ok"]
    fails = []
    n = case["n"]
    if r["shape"] != [len(case["p"]), 2]:
        return [("C16/r3/shape", f"shape {r['shape']}")]
    a = fl(case["alpha"])
    powv = math.pow(a, 1 / n)
    for j, (p, row, got) in enumerate(zip(case["p"], case["ci"], r["ci"])):
        # the iff clause needs the rate to be a count over the population n handed to the function
        if p is None or p[1] != n:
            continue
        k = p[0]
        want = [enc(0.0), enc(1 - powv)] if k == 0 else [enc(powv), enc(1.0)] if k == n else row
        if got != want:
            fails.append((f"C16/r3/{'zero' if k == 0 else 'all' if k == n else 'interior'}",
                          f"count {k} of {n}: interval {got}, expected {want}"))
    return fails


def oracle_agg(case, res):
    if "ok" not in res:
        return [("C16/agg/exception", f"_aggregate_rectangles raised {res.get('err')}: {res.get('msg')}")]
    r = res["ok"]
    if r["shape"] != [len(case["x"]), 2]:
        return [("C16/agg/shape", f"shape {r['shape']}")]
    vals = case["x"] + [v for row in case["dxp"] + case["dyp"] for v in row]
    if any(v is None for v in vals):
        return []        # NaN input: outside the property; model comparison only
    fails = []
    want = envelope([F(v) for v in case["x"]], _rows(case["dxp"]), _rows(case["dyp"]))
    got = [(F(a), F(b)) for a, b in r["ci"]]
    _cmp_rows("C16/agg/envelope", "band", got, want, fails, tol=0)
    return fails


def oracle(case, res):
    if case["kind"] == "r3":
        return oracle_r3(case, res)
    if case["kind"] == "agg":
        return oracle_agg(case, res)
    func = case["func"]
    if "ok" not in res:
        msg = res.get("msg", "")
        if func == "fixed_width_band_ci" and "Could not initialise search" in msg:
            return [("C16/fixed-width/search-not-initialised", f"fixed_width_band_ci raised ValueError: {msg}")]
        return [(f"C16/exception/{func}/{res.get('err')}", f"{func} raised {res.get('err')}: {msg}")]
    r = res["ok"]
    if "fw_error" in r:
        if r["corners"]:
            return [("C16/fixed-width/search-not-initialised", f"fixed_width_band_ci raised ValueError({r['fw_error']}) on a curve "
                     "that runs from (0,1) to (1,0)")]
        return []     # the curve at these supports does not run from (0,1) to (1,0): outside the method's documented domain
    fails = []
    n = len(r["thresholds"])
    if r["shapes"] != [[n], [n], [n], [n, 2], [n, 2]]:
        return [(f"C16/shape/{func}", f"thresholds/fnr/fpr/fnr_ci/fpr_ci have shapes {r['shapes']}")]
    for nm in ("fnr", "fpr"):
        if r[nm] != r[nm + "_at"]:
            j = next(i for i in range(n) if r[nm][i] != r[nm + "_at"][i])
            fails.append((f"C16/rates-at-thresholds/{func}", f"curve.{nm}[{j}] = {r[nm][j]} but scores.{nm}(thresholds[{j}]) = {r[nm + '_at'][j]}"))
    if r.get("order_same") is False:
        fails.append((f"C16/support/listing-order/{func}", f"the supports / point estimates change when the requested points fnr={case['fnr']} fpr={case['fpr']} "
                      f"thresholds={case['thresholds']} are listed in sorted or reversed order"))
    bands = {"fnr_ci": r["fnr_ci"], "fpr_ci": r["fpr_ci"]}
    if "recomposed" in r:
        for nm in ("fnr_ci", "fpr_ci"):
            if r["recomposed"][nm] != r[nm]:
                j = next((i for i in range(min(len(r[nm]), len(r["recomposed"][nm]))) if r[nm][i] != r["recomposed"][nm][i]), 0)
                fails.append((f"C16/band/recomposed/{func}", f"{nm}[{j}] = {r[nm][j]}; the envelope of the rule-of-three-corrected bootstrap "
                              f"intervals of the joint metric (same seed, point estimate = the joint metric of the original object) is "
                              f"{r['recomposed'][nm][j] if j < len(r['recomposed'][nm]) else None}"))
                break
    for nm, rows in bands.items():
        for j, (a, b) in enumerate(rows):
            if a is None or b is None:
                fails.append((f"C16/nan/{func}", f"{nm}[{j}] = [{a}, {b}] contains NaN"))
                break
            lo, hi = F(a), F(b)
            if lo > hi:
                fails.append((f"C16/ordered/{func}", f"{nm}[{j}]: lower {lo} > upper {hi}"))
                break
            if func == "roc_with_ci" and (lo < 0 or hi > 1):
                fails.append((f"C16/unit-interval/{func}", f"{nm}[{j}] = [{lo}, {hi}] leaves [0,1]"))
                break
    if fails:
        return fails
    fnr, fpr = [F(x) for x in r["fnr"]], [F(x) for x in r["fpr"]]
    a = fl(case["alpha"])
    npos, nneg = r["nb_all"]
    pw_pos, pw_neg = math.pow(a, 1 / npos), math.pow(a, 1 / nneg)
    if func in ("roc_with_ci", "pointwise_band_ci") and case["sampler"]["type"] == "identity":
        # closed form: [q, q] with q the point estimate of the joint metric, rule of three at observed rate 0 / 1
        fnr_pw = rule3(fnr, [(F(q), F(q)) for q in r["q_fnr"]], Fraction(pw_pos), Fraction(1 - pw_pos))
        fpr_pw = rule3(fpr, [(F(q), F(q)) for q in r["q_fpr"]], Fraction(pw_neg), Fraction(1 - pw_neg))
        if func == "pointwise_band_ci":
            want_fnr, want_fpr = fnr_pw, fpr_pw
        else:
            want_fpr = envelope(fnr, fnr_pw, fpr_pw)
            want_fnr = envelope(fpr, fpr_pw, fnr_pw)
        easy = "easy" if (case["ep"] or case["en"]) else "no-easy"
        _cmp_rows(f"C16/closed-form/{func}/{easy}", "fnr_ci", _rows(r["fnr_ci"]), want_fnr, fails)
        _cmp_rows(f"C16/closed-form/{func}/{easy}", "fpr_ci", _rows(r["fpr_ci"]), want_fpr, fails)
    if func == "simultaneous_joint_region_ci":
        d1, d2 = fl(r["ks"][0]), fl(r["ks"][1])
        fnr_pw = [(Fraction(float(x) - d1), Fraction(float(x) + d1)) for x in fnr]
        fpr_pw = [(Fraction(float(x) - d2), Fraction(float(x) + d2)) for x in fpr]
        _cmp_rows("C16/closed-form/simultaneous_joint_region_ci", "fpr_ci", _rows(r["fpr_ci"]), envelope(fnr, fnr_pw, fpr_pw), fails)
        _cmp_rows("C16/closed-form/simultaneous_joint_region_ci", "fnr_ci", _rows(r["fnr_ci"]), envelope(fpr, fpr_pw, fnr_pw), fails)
    return fails


def nontrivial(case, res):
    if "ok" not in res or "fw_error" in res["ok"]:
        return False
    if case["kind"] != "band":
        rows = res["ok"]["ci"]
        return len(rows) >= 2 and len({tuple(x) for x in rows}) >= 2
    r = res["ok"]
    pts = set(zip(r["fnr"], r["fpr"]))
    ends = {"0/1", "1/1"}
    return len(pts) >= 3 and any(x in ends for x in r["fnr"] + r["fpr"]) and any(x not in ends for x in r["fnr"] + r["fpr"])


def distribution(cases, results):
    d = {"n": len(cases), "kind": {}, "func": {}, "sampler": {}, "method": {}, "cfg": {}, "with_easy": 0, "exact_stream": 0,
         "supplied": {}, "nb_points": {}, "errors": 0, "recorded_sample_cases": 0, "substituted_points": 0, "points": 0, "nan_inputs": 0}
    for c, r in zip(cases, results):
        d["kind"][c["kind"]] = d["kind"].get(c["kind"], 0) + 1
        d["errors"] += "ok" not in r
        if c["kind"] != "band":
            d["nan_inputs"] += any(v is None for v in (c.get("x") or []) + (c.get("p") or []))
            continue
        d["func"][c["func"]] = d["func"].get(c["func"], 0) + 1
        sp = c["sampler"]
        key = sp["type"] if sp["type"] != "builtin" else f"{sp['sampling_method']}/{sp['stratified']}"
        d["sampler"][key] = d["sampler"].get(key, 0) + 1
        d["method"][c["bootstrap_method"]] = d["method"].get(c["bootstrap_method"], 0) + 1
        k = c["sc"] + "/" + c["ec"]
        d["cfg"][k] = d["cfg"].get(k, 0) + 1
        d["with_easy"] += bool(c["ep"] or c["en"])
        d["exact_stream"] += bool(c.get("exact"))
        d["recorded_sample_cases"] += bool(c.get("record"))
        sup = "".join(ch for ch, nm in (("f", "fnr"), ("p", "fpr"), ("t", "thresholds")) if c[nm] is not None) or "none"
        d["supplied"][sup] = d["supplied"].get(sup, 0) + 1
        d["nb_points"][str(c["nb_points"])] = d["nb_points"].get(str(c["nb_points"]), 0) + 1
        if "ok" in r and "fw_error" in r["ok"]:
            d["fixed_width_outside_documented_domain"] = d.get("fixed_width_outside_documented_domain", 0) + (not r["ok"]["corners"])
        elif "ok" in r:
            d["points"] += len(r["ok"]["fnr"])
            d["substituted_points"] += sum(x in ("0/1", "1/1") for x in r["ok"]["fnr"] + r["ok"]["fpr"])
    return d
