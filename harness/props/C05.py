"""C05 — multiclass confusion matrices: faithful construction, equivalent inputs, conservative one-vs-all,
per-class metrics (shape, as_dict, permutation equivariance), accuracy = trace / population.

Ties (all inputs): metrics.py regenerated (incl. the N-class forms of pop/accuracy/error_rate) and the
ConfusionMatrix wrapper table + the bodies of cm_class_metric / _class_metric_as_dict (shared with C04).
Correspondence: Model/Multiclass.v (vm_compute) vs ConfusionMatrix on generated inputs.
Oracle: every clause of the property text on the implementation's outputs, exact Fractions."""
from fractions import Fraction

from harness import coqio as cq
from harness.common import F, enc, fl
from harness.props.C04 import ALIAS, _rates

ID = "C05"
PROPS_FILE = "Props/C05.v"
COQ_IMPORTS = "From SA Require Import Model.HarnessMetrics."
GEN_AVAILABLE = set()
CHUNK = 20
RULE = ("two input families. labels: label/prediction sequences (0-14 samples) over 2-5 classes (int ids or strings), classes "
        "explicit (any order, possibly with unused classes) or implicit (np.unique order), weights absent / int / dyadic float / "
        "arbitrary double. matrix: non-negative N x N tables (N = 2..5, int / dyadic / double entries, zero rows and columns, "
        "leading shapes (), (k,), (j,k), (0,)) supplied as ndarray, nested lists, dict of dicts and DataFrame (rows and columns "
        "in different orders) with a requested class order or none; every case also builds the class-permuted matrix. "
        "A case is non-trivial when it has >= 3 classes or a non-identity class permutation, and an off-diagonal weight")
TRUSTED = ["np.unique = sorted distinct values (modelled by sorted duplicate-free insertion); string labels are numbered by the "
           "harness in sorted order so that their order is the order of the ids",
           "Python dict / pandas .loc[classes, classes] lookups = association-list lookups (checked by correspondence)",
           "NumPy broadcasting over leading dimensions = the same computation for every stacked matrix (checked elementwise)",
           "the theorems of C04 give the algebra of each one-vs-all 2x2 matrix"]
ASSUMPTIONS = ["labels and predictions are among the classes (otherwise KeyError, outside the property)",
               "positive weights / non-negative entries; float entries that are not small dyadics are compared up to rounding "
               "(4 ulp per sum) and not sent to the exact model"]

NAMES = ["ant", "beetle", "cat", "dogfish", "eel", "fox", "gnu-antelope"]      # sorted: id k <-> NAMES[k]
INT_POOL = [-3, 0, 1, 2, 4, 7, 10]
Q_NAMES = ["tp", "tn", "fp", "fn", "p", "n", "top", "ton"]
R_NAMES = ["tpr", "tnr", "fpr", "fnr", "topr", "tonr", "ppv", "npv", "fdr", "for_", "class_accuracy", "class_error_rate",
           "tar", "frr", "trr", "far", "acceptance_rate", "rejection_rate"]
CI_NAMES = ["tpr_ci", "tnr_ci", "fpr_ci", "fnr_ci"]
R_COQ = ["tpr", "tnr", "fpr", "fnr", "topr", "tonr", "ppv", "npv", "fdr", "for_", "class_accuracy", "class_error_rate"]
BASE = dict(ALIAS, class_accuracy="accuracy", class_error_rate="error_rate")
ALPHA = 0.125      # not the default level: a level that is dropped on the way shows


def _ties():
    from harness.translate import metrics_tr
    return [{"name": "metrics.py+utils.binomial_ci", "translate": metrics_tr.translate_metrics,
             "gen_file": "Gen_metrics.v", "tie_file": "Tie_metrics.v"},
            {"name": "cm.py:ConfusionMatrix wrappers", "translate": metrics_tr.translate_cm_wrappers,
             "gen_file": "Gen_cm_wrappers.v", "tie_file": "Tie_cm_wrappers.v"}]


TIES = _ties()


# ---------------------------------------------------------------------------------------------- generation
def _value(rng, dtype):
    if dtype == "int":
        return Fraction(rng.choice([0, 0, 1, 1, 2, 3, 5, 8, 13, rng.randint(0, 200)]))
    if dtype == "dyadic":
        return Fraction(rng.randint(0, 60), 4) if rng.random() < 0.8 else Fraction(0)
    return Fraction(abs(rng.gauss(0, 4))) if rng.random() < 0.8 else Fraction(0)


def _perm(rng, n, identity_ok=True):
    p = list(range(n))
    rng.shuffle(p)
    if not identity_ok and p == list(range(n)) and n > 1:
        p = p[1:] + p[:1]
    return p


def gen_cases(rng, tier):
    n = {"quick": 240, "thorough": 4000, "search": 1500}[tier]
    cases = []
    for k in range(n):
        style = rng.choice(["int", "str"])
        N = rng.choice([2, 2, 3, 3, 3, 4, 5]) if k >= 12 else rng.choice([2, 3])   # small cases first: short replays
        ids = sorted(rng.sample(range(7), N)) if style == "str" else sorted(rng.sample(INT_POOL, N))
        if k % 2 == 0:
            ns = rng.choice([0, 1, 2, 3, 5, 8, 14])
            if k % 60 == 22:      # round sample counts (block sizes of vectorised implementations): every sample counts once
                ns = [1024, 2048, 256, 1000, 512, 4096, 128][(k // 60) % 7]
            used = ids if rng.random() < 0.7 else ids[: max(1, N - 1)]
            labels = [rng.choice(used) for _ in range(ns)]
            preds = [rng.choice(used) if rng.random() < 0.6 else lab for lab in labels]
            wkind = rng.choice(["none", "none", "int", "dyadic", "dyadic", "double"])
            if k % 22 == 8 and 2 <= ns <= 64:      # (few samples: the totals stay inside int64)
                wkind = "bigint"
            weights = None
            if wkind == "bigint":
                # integer weights whose cell totals pass 2^53 with low bits set: the totals are exact in int64, not in float64
                weights = [enc(2 ** 53 + 2 * rng.randint(0, 2 ** 30) + 1) for _ in range(ns)]
            elif wkind == "int":
                weights = [enc(rng.randint(1, 9)) for _ in range(ns)]
            elif wkind == "dyadic":
                weights = [enc(Fraction(rng.randint(1, 40), 4)) for _ in range(ns)]
            elif wkind == "double":
                weights = [enc(Fraction(0.01 + abs(rng.gauss(0, 2)))) for _ in range(ns)]
            explicit = rng.random() < 0.6
            if style == "int" and k % 16 == 6:
                # many classes labelled 0 .. n-1 (all present), no weights, classes inferred
                N = rng.choice([17, 20, 24])
                ids = list(range(N))
                ns = 3 * N
                labels = ids + [rng.choice(ids) for _ in range(ns - N)]
                preds = ids[::-1] + [rng.choice(ids) if rng.random() < 0.6 else lab for lab in labels[N:]]
                wkind, weights, explicit = "none", None, False
            order = [ids[i] for i in _perm(rng, N)]
            present = sorted(set(labels) | set(preds))
            if not explicit and len(present) < 2:
                explicit = True   # fewer than two distinct classes: the constructor raises, outside the property
            cases.append({"kind": "labels", "style": style, "classes": order if explicit else None, "labels": labels,
                          "preds": preds, "weights": weights, "wkind": wkind, "perm": _perm(rng, N if explicit else len(present),
                                                                                           identity_ok=k % 4 != 0)})
        else:
            dtype = rng.choice(["int", "int", "dyadic", "double"])
            r = (k // 2) % 6
            shape = [[], [], [], [rng.randint(1, 3)], [rng.randint(1, 2), 2], [0]][r]
            size = 1
            for s in shape:
                size *= s
            mats = []
            for _ in range(size):
                m = [[_value(rng, dtype) for _ in range(N)] for _ in range(N)]
                z = rng.random()
                if z < 0.15:      # a class never occurs as label: zero row
                    j = rng.randrange(N)
                    m[j] = [Fraction(0)] * N
                elif z < 0.3:     # never predicted: zero column
                    j = rng.randrange(N)
                    for row in m:
                        row[j] = Fraction(0)
                elif z < 0.35:
                    m = [[Fraction(0)] * N for _ in range(N)]
                mats.append([enc(x) for row in m for x in row])
            explicit = rng.random() < 0.7
            if style == "int" and not explicit and rng.random() < 0.5:
                ids = list(range(N))   # so that the array form without classes names the same classes as the other forms
            cases.append({"kind": "matrix", "style": style, "dtype": dtype, "N": N, "base_classes": ids, "shape": shape,
                          "mats": mats, "classes": [ids[i] for i in _perm(rng, N)] if explicit else None,
                          "df_rows": [ids[i] for i in _perm(rng, N)], "df_cols": [ids[i] for i in _perm(rng, N)],
                          "dict_rows": [ids[i] for i in _perm(rng, N)], "dict_cols": [ids[i] for i in _perm(rng, N)],
                          "perm": _perm(rng, N, identity_ok=k % 4 != 1)})
    return cases


# ---------------------------------------------------------------------------------------------- implementation
def _name(style, i):
    return NAMES[i] if style == "str" else i


def _ident(style, c):
    if style == "str":
        return NAMES.index(str(c)) if str(c) in NAMES else -1000   # not one of the class names at all
    return int(c)


def _arr(res):
    import numpy as np

    a = np.asarray(res)
    if a.dtype.kind in "iu":     # integer results are reported exactly (totals beyond 2^53 are not doubles)
        return {"shape": list(a.shape), "vals": [enc(int(v)) for v in a.reshape(-1)]}
    return {"shape": list(a.shape), "vals": [enc(float(v)) for v in a.reshape(-1)]}


def _collect(cm, style):
    import numpy as np

    out = {"classes": [_ident(style, c) for c in cm.classes], "binary": bool(cm.binary), "matrix": _arr(cm.matrix),
           "dtype": str(np.asarray(cm.matrix).dtype.kind)}
    ova = cm.one_vs_all()
    out["ova"] = _arr(ova.matrix)
    out["ova_binary"] = bool(ova.binary)
    out["pop"] = _arr(cm.pop())
    out["accuracy"] = _arr(cm.accuracy())
    out["error_rate"] = _arr(cm.error_rate())
    out["per_class"] = {}
    out["as_dict"] = {}
    # the level reaches the interval whichever way it is passed, and omitting it means 0.05
    ci_args_ok = True
    for name in CI_NAMES:
        f_ = getattr(cm, name)
        a_, b_, c_, d_ = f_(alpha=ALPHA), f_(ALPHA), f_(), f_(alpha=0.05)
        ci_args_ok = ci_args_ok and bool(np.array_equal(a_, b_, equal_nan=True) and np.array_equal(c_, d_, equal_nan=True))
    out["ci_args_ok"] = ci_args_ok
    for name in Q_NAMES + R_NAMES + CI_NAMES:
        kw = {"alpha": ALPHA} if name.endswith("_ci") else {}
        out["per_class"][name] = _arr(getattr(cm, name)(**kw))
        d = getattr(cm, name)(as_dict=True, **kw)
        out["as_dict"][name] = {"keys": [_ident(style, c) for c in d.keys()], "vals": [_arr(v) for v in d.values()]}
    return out


def run_impl(case):
    import numpy as np
    import pandas as pd
    import scipy.stats
    from score_analysis import ConfusionMatrix

    style = case["style"]
    out = {"z": enc(float(scipy.stats.norm.isf(ALPHA / 2.0)))}
    if case["kind"] == "labels":
        labels = [_name(style, c) for c in case["labels"]]
        preds = [_name(style, c) for c in case["preds"]]
        weights = None
        if case["weights"] is not None:
            weights = [int(F(w)) if case["wkind"] in ("int", "bigint") else fl(w) for w in case["weights"]]
        classes = None if case["classes"] is None else [_name(style, c) for c in case["classes"]]
        cm = ConfusionMatrix(labels, preds, weights=weights, classes=classes)
        out["main"] = _collect(cm, style)
        # the same data as numpy arrays, and with the class order permuted
        cm_np = ConfusionMatrix(np.asarray(labels), np.asarray(preds), weights=None if weights is None else np.asarray(weights),
                                classes=None if classes is None else np.asarray(classes))
        out["np_same"] = bool(np.array_equal(cm_np.matrix, cm.matrix) and list(cm_np.classes) == list(cm.classes))
        # integer labels held in a narrow dtype give the same matrix
        narrow_same = True
        if style == "int" and labels and weights is None:
            lo_, hi_ = min(labels + preds + list(classes or [])), max(labels + preds + list(classes or []))
            for ndt, (a_, b_) in ((np.uint8, (0, 255)), (np.int8, (-128, 127)), (np.int16, (-32768, 32767))):
                if a_ <= lo_ and hi_ <= b_:
                    try:
                        cmn = ConfusionMatrix(np.asarray(labels, dtype=ndt), np.asarray(preds, dtype=ndt),
                                              classes=None if classes is None else np.asarray(classes, dtype=ndt))
                        narrow_same = narrow_same and bool(np.array_equal(cmn.matrix, cm.matrix))
                    except Exception:
                        narrow_same = False
        out["narrow_same"] = narrow_same
        # the same rows held in pandas Series whose index is a permutation of 0..n-1 (rows of a shuffled DataFrame):
        # row k is the k-th label, prediction and weight, whatever the index says
        series_same = True
        if labels:
            import pandas as pd
            idx = np.random.RandomState(len(labels) * 13 + 5).permutation(len(labels))
            for lab_, pr_, w_ in ((pd.Series(labels, index=idx), pd.Series(preds, index=idx), None if weights is None else pd.Series(weights, index=idx)),
                                  (labels, preds, None if weights is None else pd.Series(weights, index=idx)),
                                  (pd.Series(labels, index=idx[::-1]), preds, weights)):
                try:
                    cms = ConfusionMatrix(lab_, pr_, weights=w_, classes=classes)
                    series_same = series_same and bool(np.array_equal(cms.matrix, cm.matrix) and list(cms.classes) == list(cm.classes))
                except Exception:
                    series_same = False
        out["series_same"] = series_same
        base = list(cm.classes)
        classes2 = [base[i] for i in case["perm"]]
        out["perm"] = _collect(ConfusionMatrix(labels, preds, weights=weights, classes=classes2), style)
        return out
    N = case["N"]
    base = case["base_classes"]
    dt = np.int64 if case["dtype"] == "int" else np.float64
    conv = (lambda x: int(F(x))) if case["dtype"] == "int" else fl
    tables = [{(base[i], base[j]): conv(m[i * N + j]) for i in range(N) for j in range(N)} for m in case["mats"]]
    req = case["classes"]
    order = req if req is not None else base
    arr = np.array([[[t[(r, c)] for c in order] for r in order] for t in tables], dtype=dt).reshape(tuple(case["shape"]) + (N, N))
    names = None if req is None else [_name(style, c) for c in req]
    out["main"] = _collect(ConfusionMatrix(matrix=arr, classes=names), style if req is not None else "int")
    out["list"] = _collect(ConfusionMatrix(matrix=arr.tolist(), classes=names), style if req is not None else "int") if arr.size else None
    if case["shape"] == []:
        t = tables[0]
        d = {_name(style, r): {_name(style, c): t[(r, c)] for c in case["dict_cols"][k:] + case["dict_cols"][:k]}
             for k, r in enumerate(case["dict_rows"])}
        out["dict"] = _collect(ConfusionMatrix(matrix=d, classes=names), style)
        df = pd.DataFrame([[t[(r, c)] for c in case["df_cols"]] for r in case["df_rows"]],
                          index=[_name(style, r) for r in case["df_rows"]], columns=[_name(style, c) for c in case["df_cols"]])
        out["df"] = _collect(ConfusionMatrix(matrix=df, classes=names), style)
    # the same numbers under another leading shape (queried after the first object): results follow the new shape
    kk = int(np.prod(case["shape"])) if case["shape"] else 1
    if arr.size:
        other = [kk] if case["shape"] != [kk] else [1, kk]
        out["reshaped"] = _collect(ConfusionMatrix(matrix=arr.reshape(tuple(other) + (N, N)).copy(), classes=names),
                                   style if req is not None else "int")
        out["reshaped_lead"] = other
    # the same kind of count matrix held in a narrow integer dtype (entries up to the top of the dtype's range, so sums
    # of entries do not fit the dtype): every result equals the result for the same numbers held as int64
    narrow = []
    if case["dtype"] == "int" and arr.size:
        for ndt, mult in ((np.uint8, 37), (np.uint16, 9973), (np.int32, 104729 * 1009)):
            hi = int(np.iinfo(ndt).max)
            big = np.array([[(int(v) * mult + 11 * (i_ + 1)) % (hi + 1) for v in m_.reshape(-1)] for i_, m_ in enumerate(arr.reshape(-1, N * N))],
                           dtype=np.int64).reshape(arr.shape)
            ref = ConfusionMatrix(matrix=big.copy(), classes=names)
            nar = ConfusionMatrix(matrix=big.astype(ndt), classes=names)
            row = {"dtype": np.dtype(ndt).name, "matrix": [int(v) for v in big.reshape(-1)][: 2 * N * N]}
            try:
                row["acc_same"] = bool(np.array_equal(nar.accuracy(), ref.accuracy(), equal_nan=True)
                                       and np.array_equal(nar.error_rate(), ref.error_rate(), equal_nan=True)
                                       and np.array_equal(nar.pop(), ref.pop()))
                row["acc"] = [repr(float(v)) for v in np.atleast_1d(nar.accuracy()).reshape(-1)[:3]]
                row["acc_ref"] = [repr(float(v)) for v in np.atleast_1d(ref.accuracy()).reshape(-1)[:3]]
            except Exception as e_:
                row["acc_same"], row["acc"] = False, [type(e_).__name__]
            try:
                row["ova_same"] = bool(np.array_equal(nar.one_vs_all().matrix, ref.one_vs_all().matrix)
                                       and all(np.array_equal(getattr(nar, nm_)(), getattr(ref, nm_)(), equal_nan=True)
                                               for nm_ in ("tpr", "tnr", "ppv", "npv", "topr", "class_accuracy")))
            except Exception:
                row["ova_same"] = False
            narrow.append(row)
    out["narrow_matrix"] = narrow
    sigma = case["perm"]
    arr2 = arr[..., sigma, :][..., :, sigma]
    names2 = [_name(style, order[i]) for i in sigma]
    out["perm"] = _collect(ConfusionMatrix(matrix=arr2, classes=names2), style)
    return out


# ---------------------------------------------------------------------------------------------- helpers
def _is_exact(vals):
    return all(v.denominator in (1, 2, 4) and v < 2 ** 24 for v in vals)


def _mats(entry, N):
    """list of N x N Fraction matrices from a canonical array of shape X + (N, N)"""
    v = [F(x) for x in entry["vals"]]
    return [[v[k * N * N + i * N: k * N * N + (i + 1) * N] for i in range(N)] for k in range(len(v) // (N * N) if N else 0)]


def _expected_labels(case):
    """(classes, matrix of exact total weights)"""
    if case["classes"] is not None:
        classes = case["classes"]
    else:
        classes = sorted(set(case["labels"]) | set(case["preds"]))
    ws = [Fraction(1)] * len(case["labels"]) if case["weights"] is None else [F(w) for w in case["weights"]]
    M = [[sum((w for lab, pr, w in zip(case["labels"], case["preds"], ws) if lab == ci and pr == cj), Fraction(0))
          for cj in classes] for ci in classes]
    return classes, M


# ---------------------------------------------------------------------------------------------- model side
def _mat(M):
    return "[" + "; ".join(cq.qlist(row) for row in M) + "]"


def _zl(xs):
    return cq.zlist(xs)


def _cm2s(vals):
    return "[" + "; ".join(f"(Build_cm2 {cq.q(vals[4 * k])} {cq.q(vals[4 * k + 1])} {cq.q(vals[4 * k + 2])} {cq.q(vals[4 * k + 3])})"
                           for k in range(len(vals) // 4)) + "]"


def _rates_list(vals):
    return "[" + "; ".join(cq.rate(v) for v in vals) + "]"


def _check_cm_term(col, z):
    """model of everything observable on one ConfusionMatrix object, per stacked matrix"""
    N = len(col["classes"])
    mats = _mats(col["matrix"], N)
    if not mats:
        return None
    terms = []
    nm = len(mats)
    ova = [F(x) for x in col["ova"]["vals"]]
    for k, M in enumerate(mats):
        sl = lambda name, w=1: [F(x) for x in col["per_class"][name]["vals"]][k * N * w:(k + 1) * N * w]  # noqa: E731
        qs = "[" + "; ".join(cq.qlist(sl(nmq)) for nmq in Q_NAMES) + "]"
        rs = "[" + "; ".join(_rates_list(sl(nmr)) for nmr in R_COQ) + "]"
        cis = []
        for nmc in CI_NAMES:
            v = sl(nmc, 2)
            cis.append("[" + "; ".join(f"({cq.rate(v[2 * i])}, {cq.rate(v[2 * i + 1])})" for i in range(N)) + "]")
        acc = F(col["accuracy"]["vals"][k])
        err = F(col["error_rate"]["vals"][k])
        pop = F(col["pop"]["vals"][k])
        terms.append(f"c05_check_matrix {_mat(M)} {cq.nat(N)} {_cm2s(ova[k * N * 4:(k + 1) * N * 4])} {qs} {rs} "
                     f"{cq.rate(acc)} {cq.rate(err)} {cq.q(pop)} && "
                     f"check_ci (one_vs_all {_mat(M)} {cq.nat(N)}) {cq.q(Fraction(ALPHA))} {cq.q(z)} [{'; '.join(cis)}]")
    if nm == 1:   # as_dict of a single matrix: the dict, key by key in insertion order
        for name, fn, dflt, pr in (("tpr", "tpr", "None", cq.rate), ("tp", "tp", "0", cq.q)):
            d = col["as_dict"][name]
            items = "[" + "; ".join(f"({cq.z(kk)}, {pr(F(v['vals'][0]))})" for kk, v in zip(d["keys"], d["vals"])) + "]"
            cmpf = "rcmp_tol" if name == "tpr" else "Qeqb"
            terms.append(f"c05_check_dict {cmpf} (cm_class_metric {dflt} {fn} {_mat(mats[0])} {_zl(col['classes'])} false true) {items}")
    return " && ".join(terms)


def coq_term(case, res):
    if "ok" not in res:
        return "false"
    r = res["ok"]
    z = F(r["z"])
    terms = []
    if case["kind"] == "labels":
        ws = [Fraction(1)] * len(case["labels"]) if case["weights"] is None else [F(w) for w in case["weights"]]
        if not _is_exact(ws):
            return None
        samples = "[" + "; ".join(f"({cq.z(a)}, {cq.z(b)}, {cq.q(w)})" for a, b, w in zip(case["labels"], case["preds"], ws)) + "]"
        main = r["main"]
        N = len(main["classes"])
        M = _mats(main["matrix"], N)[0]
        cls = f"(implicit_classes {samples})" if case["classes"] is None else _zl(case["classes"])
        terms.append(f"zlist_eqb {cls} {_zl(main['classes'])}")
        terms.append(f"opt_mat_eqb (assign_from_predictions {cls} {samples}) (Some {_mat(M)})")
        terms.append(f"valid_cm {_mat(M)} {cls} false")
        M2 = _mats(r["perm"]["matrix"], N)[0]
        sig = "[" + "; ".join(cq.nat(i) for i in case["perm"]) + "]"
        terms.append(f"opt_mat_eqb (assign_from_predictions (map (fun i => nth i {cls} 0%Z) {sig}) {samples}) (Some {_mat(M2)})")
        terms.append(f"mat_eqb (permute {_mat(M)} {sig}) {_mat(M2)}")
        t = _check_cm_term(main, z)
        if t:
            terms.append(t)
    else:
        N = case["N"]
        base = case["base_classes"]
        allv = [F(x) for m in case["mats"] for x in m]
        if not _is_exact(allv) or not case["mats"]:
            return None
        req = case["classes"]
        order = req if req is not None else base
        pos = {c: i for i, c in enumerate(base)}
        tabs = [[[F(m[pos[rr] * N + pos[cc]]) for cc in order] for rr in order] for m in case["mats"]]
        mains = _mats(r["main"]["matrix"], N)
        clsopt = "None" if req is None else f"(Some {_zl(req)})"
        for T, M in zip(tabs, mains):
            terms.append(f"(let r := from_array {_mat(T)} {clsopt} false in mat_eqb (fst r) {_mat(M)} && "
                         f"zlist_eqb (snd r) {_zl(r['main']['classes'])} && valid_cm (fst r) (snd r) false)")
        if case["shape"] == []:
            m = case["mats"][0]
            dct = "[" + "; ".join(
                f"({cq.z(rr)}, [" + "; ".join(f"({cq.z(cc)}, {cq.q(F(m[pos[rr] * N + pos[cc]]))})"
                                             for cc in case["dict_cols"][k:] + case["dict_cols"][:k]) + "])"
                for k, rr in enumerate(case["dict_rows"])) + "]"
            dm = _mats(r["dict"]["matrix"], N)[0]
            terms.append(f"opt_cm_eqb (from_dict {dct} {clsopt}) (Some ({_mat(dm)}, {_zl(r['dict']['classes'])}))")
            vals = [[F(m[pos[rr] * N + pos[cc]]) for cc in case["df_cols"]] for rr in case["df_rows"]]
            fm = _mats(r["df"]["matrix"], N)[0]
            terms.append(f"opt_cm_eqb (from_df (Build_dframe {_zl(case['df_rows'])} {_zl(case['df_cols'])} {_mat(vals)}) {clsopt}) "
                         f"(Some ({_mat(fm)}, {_zl(r['df']['classes'])}))")
        sig = "[" + "; ".join(cq.nat(i) for i in case["perm"]) + "]"
        for M, M2 in zip(mains, _mats(r["perm"]["matrix"], N)):
            terms.append(f"mat_eqb (permute {_mat(M)} {sig}) {_mat(M2)}")
        t = _check_cm_term(r["main"], z)
        if t:
            terms.append(t)
        t = _check_cm_term(r["perm"], z)
        if t:
            terms.append(t)
    return "(" + " && ".join(terms) + ")"


# ---------------------------------------------------------------------------------------------- oracle
def _close(v, w, exact, scale=0):
    """inexact stream: sums of up to N*N rounded terms: a few ulp of the largest partial sum (scale)"""
    if v is None or w is None:
        return v is None and w is None
    if exact:
        return v == w
    return abs(v - w) <= Fraction(1, 2 ** 47) * max(abs(w), scale, 1)


def _rate_ok(v, num, den, exact, direct, total=0):
    if den == 0:
        return v is None
    if v is None:
        return False
    w = num / den
    if exact and direct:
        return v == Fraction(float(w))
    if exact:
        return abs(v - w) <= Fraction(1, 2 ** 52)
    # numerator and denominator carry an absolute error of a few ulp of the population (TN is formed by subtraction)
    return abs(v - w) <= Fraction(1, 2 ** 47) * (1 + Fraction(total) / den)


DIRECT = {"accuracy", "tpr", "fnr", "tnr", "fpr", "topr", "tonr", "ppv", "npv"}


def _check_cm(case, col, tag, want_classes, want_mats, lead, fails, exact):
    """all clauses that concern one ConfusionMatrix object. want_mats: list of exact N x N tables (or None: not checked)"""
    def bad(kind, msg):
        fails.append((f"C05/{kind}", f"[{tag}] {msg}"))

    if col.get("ci_args_ok") is False:
        bad("ci-level", f"a per-class interval method gives different results for alpha={ALPHA} passed by keyword and positionally, or "
                        "for alpha omitted and alpha=0.05")

    if callable(want_mats):
        # no class order was requested: any duplicate-free order over the class set is acceptable, the matrix must be
        # the table in that order
        if sorted(col["classes"]) != sorted(want_classes):
            bad("classes", f"classes {col['classes']} are not the class set {sorted(want_classes)}")
            return
        want_classes = col["classes"]
        want_mats = want_mats(want_classes)
    N = len(want_classes)
    if col["classes"] != want_classes:
        bad("classes", f"classes {col['classes']}, requested order {want_classes}")
        return
    if col["matrix"]["shape"] != lead + [N, N]:
        bad("matrix-shape", f"matrix shape {col['matrix']['shape']}, want {lead + [N, N]}")
        return
    mats = _mats(col["matrix"], N)
    if want_mats is not None:
        for k, (M, W) in enumerate(zip(mats, want_mats)):
            for i in range(N):
                for j in range(N):
                    # an integer matrix holds its totals exactly, whatever their size
                    if not _close(M[i][j], W[i][j], exact or col.get("dtype") in ("i", "u")):
                        bad("entry", f"matrix{[k] if lead else ''}[{i}][{j}] = {M[i][j]}, total weight of (label {want_classes[i]}, "
                            f"prediction {want_classes[j]}) is {W[i][j]}")
                        return
    # ---- one-vs-all
    if col["ova"]["shape"] != lead + [N, 2, 2] or not col["ova_binary"]:
        bad("ova-shape", f"one_vs_all matrix shape {col['ova']['shape']} (binary={col['ova_binary']}), want {lead + [N, 2, 2]}")
        return
    ova = [F(x) for x in col["ova"]["vals"]]
    for name in Q_NAMES + R_NAMES:
        if col["per_class"][name]["shape"] != lead + [N]:
            bad("per-class-shape", f"{name}() has shape {col['per_class'][name]['shape']}, want {lead + [N]}")
            return
    for name in CI_NAMES:
        if col["per_class"][name]["shape"] != lead + [N, 2]:
            bad("per-class-shape", f"{name}() has shape {col['per_class'][name]['shape']}, want {lead + [N, 2]}")
            return
    for name in ("pop", "accuracy", "error_rate"):
        if col[name]["shape"] != lead:
            bad("shape", f"{name}() has shape {col[name]['shape']}, want {lead}")
            return
    for k, M in enumerate(mats):
        total = sum(sum(row) for row in M)
        trace = sum(M[i][i] for i in range(N))
        for j in range(N):
            a, b, c, d = ova[(k * N + j) * 4:(k * N + j) * 4 + 4]
            rowsum = sum(M[j])
            colsum = sum(M[i][j] for i in range(N))
            where = f"class index {j} of matrix {[[str(x) for x in row] for row in M]}"
            if not _close(a + b + c + d, total, exact, total):
                bad("ova-conservation", f"one-vs-all 2x2 sums to {a + b + c + d}, population is {total}; {where}")
            if a != M[j][j]:
                bad("ova-tp", f"TP_j = {a}, diagonal entry is {M[j][j]}; {where}")
            if not _close(a + b, rowsum, exact, total):
                bad("ova-p", f"P_j = TP+FN = {a + b}, row sum is {rowsum}; {where}")
            if not _close(a + c, colsum, exact, total):
                bad("ova-top", f"TOP_j = TP+FP = {a + c}, column sum is {colsum}; {where}")
            # per-class metrics are the metrics of the j-th 2x2 matrix
            ea, eb, ec = M[j][j], rowsum - M[j][j], colsum - M[j][j]
            ed = total - ea - eb - ec
            wq = {"tp": ea, "fn": eb, "fp": ec, "tn": ed, "p": ea + eb, "n": ec + ed, "top": ea + ec, "ton": eb + ed}
            for name, w in wq.items():
                v = F(col["per_class"][name]["vals"][k * N + j])
                if not _close(v, w, exact, total):
                    bad(f"per-class/{name}", f"{name}()[{j}] = {v}, want {w}; {where}")
            defs = _rates(ea, eb, ec, ed)
            for name in R_NAMES:
                base = BASE.get(name, name)
                num, den = defs[base]
                v = F(col["per_class"][name]["vals"][k * N + j])
                if v is not None and not (0 <= v <= 1):
                    bad(f"per-class-range/{name}", f"{name}()[{j}] = {float(v)!r} outside [0,1]; {where}")
                if not _rate_ok(v, num, den, exact, base in DIRECT, total):
                    bad(f"per-class/{name}", f"{name}()[{j}] = {None if v is None else float(v)!r}, want {num}/{den} "
                        f"(one-vs-all TN_j = {float(d)!r}, exactly {ed}); {where}")
        acc = F(col["accuracy"]["vals"][k])
        if not _rate_ok(acc, trace, total, exact, True, total):
            bad("accuracy", f"accuracy() = {None if acc is None else float(acc)!r}, trace/population = {trace}/{total}")
        if not _close(F(col["pop"]["vals"][k]), total, exact, total):
            bad("pop", f"pop() = {col['pop']['vals'][k]}, want {total}")
    # ---- as_dict agrees with the array form (same numbers, NaN where NaN)
    nm = len(mats)
    for name in Q_NAMES + R_NAMES + CI_NAMES:
        d = col["as_dict"][name]
        w = 2 if name.endswith("_ci") else 1
        if d["keys"] != want_classes:
            bad("as-dict-keys", f"{name}(as_dict=True) has keys {d['keys']}, classes are {want_classes}")
            continue
        arr = col["per_class"][name]["vals"]
        for j, v in enumerate(d["vals"]):
            want = [arr[(k * N + j) * w + t] for k in range(nm) for t in range(w)]
            if v["shape"] != lead + ([2] if w == 2 else []) or v["vals"] != want:
                bad(f"as-dict/{name}", f"{name}(as_dict=True)[class {want_classes[j]}] = {v['vals']} (shape {v['shape']}), "
                    f"array form has {want}")


def _check_equivariance(col, colp, sigma, lead, fails, exact):
    N = len(col["classes"])
    nm = len(_mats(col["matrix"], N))
    if colp["classes"] != [col["classes"][i] for i in sigma]:
        fails.append(("C05/classes", f"[perm] classes {colp['classes']} for requested order {[col['classes'][i] for i in sigma]}"))
        return
    M, P = _mats(col["matrix"], N), _mats(colp["matrix"], N)
    for k in range(nm):
        for a in range(N):
            for b in range(N):
                if P[k][a][b] != M[k][sigma[a]][sigma[b]]:
                    fails.append(("C05/reorder", f"reordered matrix [{a}][{b}] = {P[k][a][b]}, original [{sigma[a]}][{sigma[b]}] = "
                                  f"{M[k][sigma[a]][sigma[b]]} (class order {col['classes']} -> {colp['classes']})"))
                    return
    ova, ovap = [F(x) for x in col["ova"]["vals"]], [F(x) for x in colp["ova"]["vals"]]

    def cond(k, j):
        """population / smallest non-zero margin of the class: how much an absolute error of an ulp of the population
        is amplified in its rates"""
        tot = sum(sum(row) for row in M[k])
        rs, cs = sum(M[k][j]), sum(M[k][i][j] for i in range(N))
        dens = [x for x in (rs, tot - rs, cs, tot - cs) if x > 0]
        return 1 + (tot / min(dens) if dens else 0)

    for name in Q_NAMES + R_NAMES + CI_NAMES:
        w = 2 if name.endswith("_ci") else 1
        v, vp = col["per_class"][name]["vals"], colp["per_class"][name]["vals"]
        if len(v) != len(vp):
            continue
        for k in range(nm):
            for a in range(N):
                for t in range(w):
                    x, y = F(vp[(k * N + a) * w + t]), F(v[(k * N + sigma[a]) * w + t])
                    ok = (x is None and y is None) or (x is not None and y is not None and
                                                       (x == y if exact else abs(x - y) <= Fraction(1, 2 ** 44) * max(1, abs(y)) * cond(k, sigma[a])))
                    if not ok:
                        fails.append((f"C05/equivariance/{name}", f"{name}() of the class-permuted matrix at position {a} is "
                                      f"{fl(vp[(k * N + a) * w + t])!r}, the original at position {sigma[a]} is "
                                      f"{fl(v[(k * N + sigma[a]) * w + t])!r} (sigma = {sigma}, one-vs-all TN = "
                                      f"{float(ovap[(k * N + a) * 4 + 3])!r} resp. {float(ova[(k * N + sigma[a]) * 4 + 3])!r}, "
                                      f"matrix {[[float(q) for q in row] for row in M[k]]})"))
                        return
    for name in ("accuracy", "pop"):
        for k in range(nm):
            x, y = F(colp[name]["vals"][k]), F(col[name]["vals"][k])
            if not ((x is None and y is None) or (x is not None and y is not None and (x == y if exact else abs(x - y) <= Fraction(1, 2 ** 44) * max(1, abs(y))))):
                fails.append((f"C05/equivariance/{name}", f"{name}() changes under class permutation: {y} -> {x}"))


def oracle(case, res):
    if "ok" not in res:
        return [("C05/exception", f"ConfusionMatrix raised {res.get('err')}: {res.get('msg')}")]
    r = res["ok"]
    fails = []
    if case["kind"] == "labels":
        classes, W = _expected_labels(case)
        ws = [Fraction(1)] if case["weights"] is None else [F(w) for w in case["weights"]]
        exact = _is_exact(ws)
        wl = [Fraction(1)] * len(case["labels"]) if case["weights"] is None else [F(w) for w in case["weights"]]

        def tab(order):
            return [[[sum((w for lab, pr, w in zip(case["labels"], case["preds"], wl) if lab == ci and pr == cj), Fraction(0))
                      for cj in order] for ci in order]]

        _check_cm(case, r["main"], "labels", classes, [W] if case["classes"] is not None else tab, [], fails, exact)
        if fails:
            return fails
        classes = r["main"]["classes"]
        W = tab(classes)[0]
        if not r["np_same"]:
            fails.append(("C05/equivalent-inputs", "[labels] numpy-array inputs give a different matrix than the same data as lists"))
        if r.get("narrow_same") is False:
            fails.append(("C05/equivalent-inputs/narrow-dtype", "[labels] the same integer labels held in a uint8 / int8 / int16 array give a "
                                                                "different matrix (or raise) than as a list"))
        if r.get("series_same") is False:
            fails.append(("C05/equivalent-inputs/series", "[labels] the same rows held in pandas Series with a permuted integer index give a "
                                                          "different matrix (or raise) than as lists: rows are positional"))
        sigma = case["perm"]
        c2 = [classes[i] for i in sigma]
        W2 = [[W[i][j] for j in sigma] for i in sigma]
        _check_cm(case, r["perm"], "labels,reordered", c2, [W2], [], fails, exact)
        if not fails:
            _check_equivariance(r["main"], r["perm"], sigma, [], fails, exact)
        return fails
    N = case["N"]
    base = case["base_classes"]
    pos = {c: i for i, c in enumerate(base)}
    allv = [F(x) for m in case["mats"] for x in m]
    exact = _is_exact(allv)
    req = case["classes"]

    def table(order):
        return [[[F(m[pos[rr] * N + pos[cc]]) for cc in order] for rr in order] for m in case["mats"]]

    order = req if req is not None else base
    # an array carries no class names: without `classes` any N distinct names do, the matrix is the array itself
    main_classes = req if req is not None else r["main"]["classes"]
    if req is None and (len(set(main_classes)) != N or r.get("list") and r["list"]["classes"] != main_classes):
        fails.append(("C05/classes", f"[ndarray] default classes {main_classes} for N = {N}"))
        return fails
    _check_cm(case, r["main"], "ndarray", main_classes, table(order), case["shape"], fails, exact)
    if r.get("reshaped") is not None:
        _check_cm(case, r["reshaped"], f"ndarray, same data with leading shape {r['reshaped_lead']}", main_classes, table(order),
                  r["reshaped_lead"], fails, exact)
    if r.get("list") is not None:
        _check_cm(case, r["list"], "nested lists", main_classes, table(order), case["shape"], fails, exact)
    if case["shape"] == []:
        _check_cm(case, r["dict"], "dict of dicts", req if req is not None else base, table(req) if req is not None else table, [], fails, exact)
        _check_cm(case, r["df"], "DataFrame", req if req is not None else base, table(req) if req is not None else table, [], fails, exact)
        if req is not None and not fails:
            for form in ("list", "dict", "df"):
                if r[form]["matrix"] != r["main"]["matrix"] or r[form]["classes"] != r["main"]["classes"]:
                    fails.append(("C05/equivalent-inputs", f"{form} input gives {r[form]['matrix']['vals']} / {r[form]['classes']}, "
                                  f"ndarray input gives {r['main']['matrix']['vals']} / {r['main']['classes']}"))
    nfails = []
    for row in r.get("narrow_matrix") or []:
        if not row["acc_same"]:
            nfails.append(("C05/accuracy/narrow-int-matrix", f"[{row['dtype']} matrix {row['matrix']}...] accuracy / error_rate / pop = {row.get('acc')}, "
                          f"the same numbers held as int64 give {row.get('acc_ref')}: accuracy is trace / population"))
        if not row["ova_same"]:
            nfails.append(("C05/one-vs-all/narrow-int-matrix", f"[{row['dtype']} matrix {row['matrix']}...] one_vs_all() / per-class rates differ from (or raise, "
                          "unlike) those of the same numbers held as int64: sums of entries are formed in the matrix's own narrow dtype"))
    sigma = case["perm"]
    if not fails:
        _check_cm(case, r["perm"], "permuted", [order[i] for i in sigma],
                  [[[T[i][j] for j in sigma] for i in sigma] for T in table(order)], case["shape"], fails, exact)
    if not fails:
        main = dict(r["main"], classes=order)
        _check_equivariance(main, r["perm"], sigma, case["shape"], fails, exact)
    return fails + nfails


def nontrivial(case, res):
    if "ok" not in res:
        return False
    m = res["ok"]["main"]
    N = len(m["classes"])
    mats = _mats(m["matrix"], N)
    offdiag = any(M[i][j] != 0 for M in mats for i in range(N) for j in range(N) if i != j)
    return offdiag and (N >= 3 or case["perm"] != sorted(case["perm"]))


def distribution(cases, results):
    d = {"n": len(cases), "kind": {}, "style": {}, "N": {}, "classes_explicit": 0, "weights": {}, "leading_shape": {},
         "dtype": {}, "identity_perm": 0, "errors": 0}
    for c, r in zip(cases, results):
        d["kind"][c["kind"]] = d["kind"].get(c["kind"], 0) + 1
        d["style"][c["style"]] = d["style"].get(c["style"], 0) + 1
        d["classes_explicit"] += c["classes"] is not None
        d["identity_perm"] += c["perm"] == sorted(c["perm"])
        if c["kind"] == "labels":
            d["weights"][c["wkind"]] = d["weights"].get(c["wkind"], 0) + 1
        else:
            d["N"][str(c["N"])] = d["N"].get(str(c["N"]), 0) + 1
            k = str(tuple(c["shape"]))
            d["leading_shape"][k] = d["leading_shape"].get(k, 0) + 1
            d["dtype"][c["dtype"]] = d["dtype"].get(c["dtype"], 0) + 1
        if "ok" not in r:
            d["errors"] += 1
    return d
