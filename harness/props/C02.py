"""C02 — threshold setting round-trips within one sample; the three methods are coherent."""
import math
from fractions import Fraction

from harness import coqio as cq
from harness import thr_common as tc
from harness.common import CONFIGS, F, enc, fl

ID = "C02"
PROPS_FILE = "Props/C02.v"
COQ_IMPORTS = "From SA Require Import Model.Harness.\nFrom SA Require Model.FloatThreshold.\nFrom Coq Require Import Floats.PrimFloat."
GEN_AVAILABLE = set()
RULE = ("random Scores x metric (6) x configuration (4) x method (3) x 5 targets (grid, off-grid, 0, 1, <0, >1); "
        "stream E (exact: relevant class size and size+easy powers of two, small dyadic scores/targets) compared "
        "bit-for-bit with the model, stream F (arbitrary sizes/doubles) within 64 ulp; non-trivial: relevant class "
        "has >= 2 scores and some target lies strictly inside the achievable range")
TRUSTED = ["Model/FloatThreshold.v (binary64 model of threshold setting over Coq primitive floats, compared bit for bit on every case): kernel float primitives + vm_compute on hardware doubles; used by the correspondence only, no theorem depends on it",
           "np.nextafter = succ64/pred64 (binary64 neighbour on exact rationals, Base/Carrier.v)",
           "np.floor/np.ceil/np.maximum/np.minimum/astype(int) as Qfloor/Qceiling/Qmax2/Qmin2",
           "float rounding absent from the model (exact rationals): stream E inputs are exact by construction, stream F compared up to 64 ulp"]
ASSUMPTIONS = ["finite scores of moderate magnitude", "relevant class non-empty (otherwise ValueError, compared as such)"]


def _ties():
    from harness.translate import scores_tr
    return [{"name": "scores.threshold-setting", "translate": scores_tr.translate_thresholds,
             "gen_file": "Gen_thr.v", "tie_file": "Tie_thr.v"}]


TIES = _ties()


def gen_cases(rng, tier):
    n = {"quick": 360, "thorough": 6000, "search": 4000}[tier]
    cases = []
    for k in range(n):
        exact = rng.random() < 0.8
        c = tc.thr_case(rng, exact)
        if not exact and any(F(x).denominator > 1 << 20 for x in c["pos"] + c["neg"]) and k % 3:
            c = tc.thr_case(rng, True)   # keep the number of big-literal cases low
        cases.append(c)
    # unsigned integer scores (quantised 8 / 16 bit, values above 127), every configuration
    for j in range({"quick": 32, "thorough": 320, "search": 120}[tier]):
        c = tc.thr_case(rng, True)
        from fractions import Fraction as _Fr
        n1 = len(c["pos"]) or 2
        n2 = len(c["neg"]) or 2
        c["pos"] = [enc(_Fr(v)) for v in rng.sample(range(90, 256), n1)]
        c["neg"] = [enc(_Fr(v)) for v in rng.sample(range(0, 200), n2)]
        c["sc"], c["ec"] = CONFIGS[j % 4]
        c["dtype"] = rng.choice(["uint8", "uint16"])
        c.pop("dtype_pos", None), c.pop("dtype_neg", None)
        cases.append(c)
    # probability-like scores whose smallest / largest value is exactly 0.0 / 1.0, after a BCa interval of an error-rate ratio
    # was computed on the same object
    for j in range({"quick": 12, "thorough": 100, "search": 40}[tier]):
        c = tc.thr_case(rng, True)
        from fractions import Fraction as _Fr
        n1, n2 = rng.randint(3, 8), rng.randint(3, 8)
        c["pos"] = [enc(_Fr(v, 8)) for v in ([0] if j % 2 else []) + [rng.randint(0, 8) for _ in range(n1)]]
        c["neg"] = [enc(_Fr(v, 8)) for v in ([] if j % 2 else [0]) + [rng.randint(0, 8) for _ in range(n2)]]
        c["dtype"] = "float64"
        c.pop("dtype_pos", None), c.pop("dtype_neg", None)
        c["exact"] = False
        c["warm_ci"] = rng.randint(1, 10 ** 6)
        cases.append(c)
    # derived objects: smoothed replacement bootstrap samples of small objects (arbitrary doubles), every configuration
    for j in range({"quick": 24, "thorough": 240, "search": 80}[tier]):
        c = tc.thr_case(rng, False)
        if not (c["pos"] and c["neg"]):
            continue
        c["via"], c["via_seed"], c["dtype"] = "smoothed", rng.randint(0, 10 ** 6), "float64"
        c["sc"], c["ec"] = CONFIGS[j % 4]
        c.pop("dtype_pos", None), c.pop("dtype_neg", None)
        cases.append(c)
    # large populations (generated from a seed inside the driver, distinct doubles): targets a few samples from either
    # end of the scale, where "within one sample" is a relative accuracy of 1e-5 and below
    for j in range({"quick": 4, "thorough": 24, "search": 8}[tier]):
        sc, ec = CONFIGS[j % 4]
        cases.append({"kind": "big", "n_pos": rng.choice([150000, 250000]), "n_neg": rng.choice([200000, 400000]),
                      "ep": rng.choice([0, 0, 50000]), "en": rng.choice([0, 30000]), "sc": sc, "ec": ec,
                      "metric": tc.METRICS[j % 6] if tier == "quick" else rng.choice(tc.METRICS), "seed": rng.randint(0, 10 ** 6),
                      "targets": [8e-6, 3e-6, 1 - 8e-6, 1 - 2e-6, 1e-5, 0.5, 1.5e-5, 1 - 1.2e-5]})
    return cases


def _run_big(case):
    import numpy as np
    from score_analysis import Scores

    g = np.random.default_rng(case["seed"])
    pos = np.unique(g.normal(1.0, 1.0, case["n_pos"]))
    neg = np.unique(g.normal(-1.0, 1.0, case["n_neg"]))
    s = Scores(pos, neg, nb_easy_pos=case["ep"], nb_easy_neg=case["en"], score_class=case["sc"], equal_class=case["ec"])
    met = getattr(s, case["metric"])
    n_all = {"tpr": s.nb_all_pos, "fnr": s.nb_all_pos, "tnr": s.nb_all_neg, "fpr": s.nb_all_neg}.get(case["metric"], s.nb_all_samples)
    easy = {"tpr": (s.nb_easy_pos, "hi"), "fnr": (s.nb_easy_pos, "lo"), "tnr": (s.nb_easy_neg, "hi"), "fpr": (s.nb_easy_neg, "lo"),
            "topr": (s.nb_easy_pos, "offset"), "tonr": (s.nb_easy_neg, "offset")}[case["metric"]]
    out = {"n_all": int(n_all), "rows": []}
    lo_ach, hi_ach = float(met(np.inf)), float(met(-np.inf))
    lo_ach, hi_ach = min(lo_ach, hi_ach), max(lo_ach, hi_ach)
    for r in case["targets"]:
        for m in ("linear", "lower", "higher"):
            t = getattr(s, "threshold_at_" + case["metric"])(r, method=m)
            out["rows"].append([r, m, float(met(t)), lo_ach, hi_ach])
    return out


def run_impl(case):
    import numpy as np

    if case.get("kind") == "big":
        return _run_big(case)
    s, targets, thr, out = tc.run_thresholds(case)
    met = getattr(s, case["metric"])
    for m in ("linear", "lower", "higher"):
        t = np.asarray(getattr(s, "threshold_at_" + case["metric"])(targets, method=m), dtype=float)
        out["thr_" + m] = [enc(float(x)) for x in t]
        out["at_" + m] = [enc(float(x)) for x in np.atleast_1d(met(t))]
    alias = getattr(s, "threshold_at_" + tc.ALIASES[case["metric"]])(targets, method=case["method"])
    out["alias_equal"] = bool(np.array_equal(np.asarray(alias, dtype=float), thr))
    sc = getattr(s, "threshold_at_" + case["metric"])(float(targets[0]), method=case["method"])
    out["scalar_type"] = type(sc).__name__
    out["scalar_equal"] = bool(float(sc) == float(thr[0]))
    out["shape_ok"] = bool(thr.shape == targets.shape)
    out["tau"] = enc(tc.tau(case))
    return out


def coq_term(case, res):
    if case.get("kind") == "big":
        return None
    case = tc.effective(case, res)
    if "ok" not in res:
        if res.get("err") == "ValueError":
            return (f"(let s := {tc.scores_term(case)} in thr_raises {tc.COQ_METRIC[case['metric']]} s Linear 0) && "
                    + tc.float_agree_term(case, [], raised=True))
        return "false"
    r = res["ok"]
    fuzzy = not case["exact"]
    tol = F(r["tau"]) if fuzzy else 0
    parts = [tc.thr_agree_term(case, r["thr_" + m], tol, fuzzy, method=m) for m in ("linear", "lower", "higher")]
    # binary64 model (Model/FloatThreshold.v): bit-for-bit on every input, exact stream or not
    parts += [t for t in (tc.float_agree_term(case, r["thr_" + m], method=m) for m in ("linear", "lower", "higher")) if t]
    if "Gen_thr" in GEN_AVAILABLE and not fuzzy:
        s = tc.scores_term(case)
        mt = case["metric"]
        m = tc.COQ_METHOD[case["method"]]
        gen = " && ".join(
            f"match Gen.Gen_thr.gen_threshold_at_{mt} succ64 pred64 s {cq.q(F(t))} {m} with Ret v => Qeqb v {cq.q(F(v))} | Raise => false end"
            for t, v in zip(case["targets"], r["thr"]))
        parts.append(f"(let s := {s} in {gen})")
    return " && ".join(parts)


def _untied(case, tau):
    rel, _ = tc.relevant(case)
    rel = sorted(rel)
    return all(b - a > 2 * tau for a, b in zip(rel, rel[1:]))


def oracle(case, res):
    case = tc.effective(case, res)
    if case.get("kind") == "big":
        if "ok" not in res:
            return [("C02/exception", f"threshold_at_{case['metric']} raised {res.get('err')}: {res.get('msg')}")]
        r = res["ok"]
        fails = []
        one = 1.0 / r["n_all"]
        for target, m, got, lo_a, hi_a in r["rows"]:
            clipped = min(max(target, lo_a), hi_a)
            # scores are distinct: one sample, plus float slack of the rate arithmetic
            # linear: the round-trip clause (one sample); lower / higher are the neighbouring samples: one more sample
            if abs(got - clipped) > (1 if m == "linear" else 2) * one * 1.001 + 1e-12:
                fails.append((f"C02/roundtrip/big/{case['metric']}/{case['sc']}-{case['ec']}",
                              f"{r['n_all']} samples, target {target!r}, method {m}: {case['metric']} at the returned threshold is {got!r}, "
                              f"{abs(got - clipped) * r['n_all']:.2f} samples from the (clipped) target"))
                break
        return fails
    rel, _ = tc.relevant(case)
    if "ok" not in res:
        if res.get("err") == "ValueError" and not rel:
            return []
        return [("C02/exception", f"threshold_at_{case['metric']} raised {res.get('err')}: {res.get('msg')}")]
    r = res["ok"]
    fails = []
    if r.get("result_overwritten"):
        fails.append(("C02/result-overwritten", f"the array returned by threshold_at_{case['metric']} changed when other threshold functions "
                                                "were called afterwards with targets of the same shape"))
    lo, hi, one = tc.achievable(case)
    tau = F(r["tau"])
    eps = Fraction(1, 10 ** 12)
    untied = _untied(case, tau)
    mt, cfg = case["metric"], case["sc"] + "-" + case["ec"]
    n = len(rel)
    import numpy as np

    fl_rel = sorted(float(x) for x in rel)
    sentinels = {float(np.nextafter(fl_rel[0], -math.inf)), float(np.nextafter(fl_rel[-1], math.inf))}
    allowed = set(fl_rel) | sentinels
    for j, rs in enumerate(case["targets"]):
        rq = F(rs)
        c = min(max(rq, lo), hi)
        at, below, above = F(r["at_linear"][j]), None, None
        if case["method"] == "linear":
            below, above = F(r["below"][j]), F(r["above"][j])
            vals = [at, below, above]
            if not (min(vals) - one - eps <= c <= max(vals) + one + eps):
                fails.append((f"C02/bracket/{mt}/{cfg}",
                              f"target {rs}: metric just below/at/above the returned threshold {r['thr'][j]} is "
                              f"{[str(v) for v in vals]}, does not bracket clipped target {c} within one sample {one}"))
            elif untied and abs(at - c) > one + eps:
                fails.append((f"C02/roundtrip/{mt}/{cfg}",
                              f"target {rs}: metric at returned threshold is {at}, clipped target {c}, "
                              f"difference exceeds one sample ({one})"))
        tl, th, tm = F(r["thr_lower"][j]), F(r["thr_higher"][j]), F(r["thr_linear"][j])
        for name, tv in (("lower", tl), ("higher", th)):
            if float(tv) not in allowed:
                fails.append((f"C02/sample-or-sentinel/{name}", f"target {rs}: method {name} returned {tv}, neither a sample nor a sentinel"))
        if F(r["at_lower"][j]) > F(r["at_higher"][j]) + eps:
            fails.append((f"C02/lower-higher-order/{mt}/{cfg}", f"target {rs}: metric(lower)={r['at_lower'][j]} > metric(higher)={r['at_higher'][j]}"))
        if not (min(tl, th) - tau <= tm <= max(tl, th) + tau):
            fails.append((f"C02/linear-between/{mt}/{cfg}", f"target {rs}: linear {tm} not between lower {tl} and higher {th}"))
        # convex combination weighted by the fractional part of the (hard) target times N
        span = c - lo if mt in ("tpr", "tnr", "topr", "tonr") else c
        hard = (hi - lo)
        if hard > 0 and float(tl) not in sentinels and float(th) not in sentinels and float(tm) not in sentinels:
            x = (c - lo) / hard * n
            frac = x - math.floor(x)
            if min(frac, 1 - frac) > Fraction(1, 10 ** 8):
                cands = [frac * tl + (1 - frac) * th, (1 - frac) * tl + frac * th]
                slack = tau + abs(th - tl) * Fraction(1, 10 ** 8)
                if all(abs(tm - cv) > slack for cv in cands):
                    fails.append((f"C02/convex/{mt}/{cfg}", f"target {rs}: linear {tm} is not the convex combination of lower {tl} / higher {th} with weight {frac}"))
    # monotone in r
    order = sorted(range(len(case["targets"])), key=lambda j: F(case["targets"][j]))
    for m in ("linear", "lower", "higher"):
        ts = [F(r["thr_" + m][j]) for j in order]
        up = all(b >= a - tau for a, b in zip(ts, ts[1:]))
        down = all(b <= a + tau for a, b in zip(ts, ts[1:]))
        if not (up or down):
            fails.append((f"C02/monotone/{m}", f"thresholds not monotone in the target: {[str(t) for t in ts]}"))
    if not r["alias_equal"]:
        fails.append(("C02/alias", "alias threshold_at_* returns different values"))
    if not r["scalar_equal"] or r["scalar_type"] != "float":
        fails.append(("C02/scalar", f"scalar target returned {r['scalar_type']}, equal={r['scalar_equal']}"))
    if not r["shape_ok"]:
        fails.append(("C02/shape", "threshold array shape differs from target shape"))
    return fails


def nontrivial(case, res):
    if case.get("kind") == "big":
        return "ok" in res
    rel, _ = tc.relevant(case)
    if len(rel) < 2:
        return False
    lo, hi, _ = tc.achievable(case)
    return any(lo < F(t) < hi for t in case["targets"])


def distribution(cases, results):
    d = {"n": len(cases), "exact_stream": 0, "metric": {}, "method": {}, "cfg": {}, "with_easy": 0, "tied_relevant": 0, "errors": 0}
    d["big_populations"] = sum(1 for c in cases if c.get("kind") == "big")
    for c, r in zip(cases, results):
        if c.get("kind") == "big":
            continue
        d["exact_stream"] += bool(c.get("exact"))
        d["metric"][c["metric"]] = d["metric"].get(c["metric"], 0) + 1
        d["method"][c["method"]] = d["method"].get(c["method"], 0) + 1
        k = c["sc"] + "/" + c["ec"]
        d["cfg"][k] = d["cfg"].get(k, 0) + 1
        d["with_easy"] += bool(c["ep"] or c["en"])
        rel, _ = tc.relevant(c)
        d["tied_relevant"] += len(set(rel)) < len(rel)
        d["errors"] += "ok" not in r
    return d
