"""C07 — AUC equals the Mann-Whitney statistic; partial AUC is the exact step-ROC area."""
from fractions import Fraction

from harness import coqio as cq
from harness import thr_common as tc
from harness.common import CONFIGS, F, enc, fl, score_list, pick_dtype

ID = "C07"
PROPS_FILE = "Props/C07.v"
COQ_IMPORTS = "From SA Require Import Model.Harness."
GEN_AVAILABLE = set()
AXES = {"fpr": "AFpr", "tpr": "ATpr", "fnr": "AFnr", "tnr": "ATnr"}
RULE = ("random Scores, both classes non-empty, arbitrary ties (full AUC) / no cross-class ties (partial AUC), easy counts, "
        "4 configurations, windows 0 <= lower <= upper <= 1 on and off the rate grid, axis pairs (fpr,tpr), (fpr,fnr), "
        "(tnr,tpr), (tpr,fpr); stream E (class totals powers of two, dyadic windows) exact vs the model, else 1e-12; "
        "non-trivial: classes overlap or easy samples present")
TRUSTED = ["np.trapezoid as the trapezoid sum; np.searchsorted on the (sorted) x vector as counts; np.nextafter = succ64/pred64",
           "the float trapezoid rounds: exact comparison only when every abscissa/ordinate is dyadic (class totals powers of two)"]
ASSUMPTIONS = ["both classes non-empty", "finite scores"]


def _ties():
    from harness.translate import scores_tr
    return [{"name": "scores.auc", "translate": scores_tr.translate_auc, "gen_file": "Gen_auc.v", "tie_file": "Tie_auc.v"}]


TIES = _ties()


def gen_cases(rng, tier):
    n = {"quick": 260, "thorough": 4000, "search": 2500}[tier]
    cases = []
    for k in range(n):
        exact = rng.random() < 0.6
        if exact:
            npos, nneg = rng.choice([1, 2, 4, 8]), rng.choice([1, 2, 4, 8])
            ep, en = rng.choice([0, 0, npos, 3 * npos]), rng.choice([0, 0, nneg, 3 * nneg])
        else:
            npos, nneg = rng.randint(1, 7), rng.randint(1, 7)
            ep, en = rng.choice([0, 0, 1, 4]), rng.choice([0, 0, 2, 5])
        style = rng.choice(["ties", "ints", "distinct", "distinct", "dyadic"])
        if k % 9 == 4:
            style = "adjacent"
        if style == "adjacent":
            # scores of different classes that are neighbouring doubles (or neighbouring float32 values): the points one
            # ulp either side of a score coincide with the neighbouring score of the other class
            import math
            import struct
            f32 = rng.random() < 0.4

            def step32(v, up):
                (i,) = struct.unpack("<i", struct.pack("<f", v))
                i += (1 if up else -1) * (1 if v > 0 else -1) if v != 0 else 0
                return struct.unpack("<f", struct.pack("<i", i))[0] if v != 0 else (2.0 ** -149 if up else -2.0 ** -149)

            step = step32 if f32 else (lambda v, up: math.nextafter(v, math.inf if up else -math.inf))
            base = [float(Fraction(v, 2)) for v in rng.sample(range(-12, 12), npos + nneg)]
            pos, neg = [Fraction(v) for v in base[:npos]], [Fraction(v) for v in base[npos:]]
            for j in range(min(npos, nneg, rng.randint(1, 3))):
                if rng.random() < 0.5:
                    neg[j] = Fraction(step(float(pos[j]), rng.random() < 0.5))
                else:
                    pos[j] = Fraction(step(float(neg[j]), rng.random() < 0.5))
        elif style == "distinct":
            vals = rng.sample(range(-30, 30), npos + nneg)
            pos, neg = [Fraction(v, 2) for v in vals[:npos]], [Fraction(v, 2) for v in vals[npos:]]
        else:
            pos, neg = score_list(rng, npos, style), score_list(rng, nneg, style)
        sc, ec = rng.choice(CONFIGS)
        lo = Fraction(rng.randint(0, 16), 16)
        hi = Fraction(rng.randint(int(lo * 16), 16), 16)
        mid = Fraction(rng.randint(int(lo * 16), int(hi * 16)), 16)
        cases.append({"pos": [enc(x) for x in pos], "neg": [enc(x) for x in neg], "ep": ep, "en": en, "sc": sc, "ec": ec,
                      "lower": enc(lo), "upper": enc(hi), "mid": enc(mid), "exact": exact,
                      "dtype": ("float32" if style == "adjacent" and f32 else pick_dtype(rng, pos + neg))})
    # derived objects: smoothed replacement bootstrap samples (arbitrary doubles, no cross-class ties almost surely)
    for j in range({"quick": 24, "thorough": 200, "search": 80}[tier]):
        npos, nneg = rng.randint(2, 9), rng.randint(2, 9)
        pos, neg = score_list(rng, npos, "dyadic"), score_list(rng, nneg, "dyadic")
        lo = Fraction(rng.randint(0, 16), 16)
        hi = Fraction(rng.randint(int(lo * 16), 16), 16)
        mid = Fraction(rng.randint(int(lo * 16), int(hi * 16)), 16)
        sc, ec = CONFIGS[j % 4]
        cases.append({"pos": [enc(x) for x in pos], "neg": [enc(x) for x in neg], "ep": rng.choice([0, 0, 2]), "en": rng.choice([0, 0, 3]),
                      "sc": sc, "ec": ec, "lower": enc(lo), "upper": enc(hi), "mid": enc(mid), "exact": False, "dtype": "float64",
                      "via": "smoothed", "via_seed": rng.randint(0, 10 ** 6)})
    return cases


def run_impl(case):
    import numpy as np

    s = tc.make_scores(case)
    case = tc.actual_case(case, s)
    lo, hi, mid = fl(case["lower"]), fl(case["upper"]), fl(case["mid"])
    out = {"actual": {"pos": case["pos"], "neg": case["neg"], "ep": case["ep"], "en": case["en"]} if case.get("via") else None,
           "full": enc(float(s.auc())),
           "win": enc(float(s.auc(lower=lo, upper=hi))),
           "win_a": enc(float(s.auc(lower=lo, upper=mid))), "win_b": enc(float(s.auc(lower=mid, upper=hi))),
           "compl_y": enc(float(s.auc(lower=lo, upper=hi, y_axis="fnr"))),
           "mirror_x": enc(float(s.auc(lower=1 - hi, upper=1 - lo, x_axis="tnr"))),
           "swap_axes": enc(float(s.auc(x_axis="tpr", y_axis="fpr")))}
    # both complements at once (tnr on x over the mirrored interval, fnr on y), through the alias names too
    out["mirror_x_compl_y"] = enc(float(s.auc(lower=1 - hi, upper=1 - lo, x_axis="tnr", y_axis="fnr")))
    out["mirror_x_compl_y_alias"] = enc(float(s.auc(lower=1 - hi, upper=1 - lo, x_axis="trr", y_axis="frr")))
    out["full_again"] = enc(float(s.auc()))      # a history of calls on one object must not change the answers
    out["win_again"] = enc(float(s.auc(lower=lo, upper=hi)))
    return out


def coq_term(case, res):
    if case.get("via"):
        return None       # derived object (arbitrary doubles): oracle only
    if "ok" not in res:
        return "false"
    r = res["ok"]
    s = tc.scores_term(case)
    tol = cq.q(0) if case["exact"] else cq.q(Fraction(1, 10 ** 12))
    lo, hi = cq.q(F(case["lower"])), cq.q(F(case["upper"]))
    lom, him = cq.q(1 - F(case["upper"])), cq.q(1 - F(case["lower"]))
    return (f"(let s := {s} in auc_agree {tol} s 0 1 AFpr ATpr {cq.q(F(r['full']))} && "
            f"auc_agree {tol} s {lo} {hi} AFpr ATpr {cq.q(F(r['win']))} && "
            f"auc_agree {tol} s {lo} {hi} AFpr AFnr {cq.q(F(r['compl_y']))} && "
            f"auc_agree {tol} s {lom} {him} ATnr ATpr {cq.q(F(r['mirror_x']))} && "
            f"auc_agree {tol} s 0 1 ATpr AFpr {cq.q(F(r['swap_axes']))})")


def _mann_whitney(case):
    pos, neg = [F(x) for x in case["pos"]], [F(x) for x in case["neg"]]
    sgn = 1 if case["sc"] == "pos" else -1
    ep, en = case["ep"], case["en"]
    tot = Fraction(0)
    for p in pos:
        for n in neg:
            d = sgn * (p - n)
            tot += 1 if d > 0 else (Fraction(1, 2) if d == 0 else 0)
    # easy positives rank beyond every scored negative and every easy negative below every positive
    tot += ep * (len(neg) + en) + en * len(pos)
    return tot / ((len(pos) + ep) * (len(neg) + en))


def _step_area(case, lo, hi):
    """exact area under the empirical step ROC (fpr on x, tpr on y) between lo and hi; no cross-class ties"""
    pos, neg = [F(x) for x in case["pos"]], [F(x) for x in case["neg"]]
    sgn = 1 if case["sc"] == "pos" else -1
    pa, na = len(pos) + case["ep"], len(neg) + case["en"]
    # sweep thresholds from accept-nothing to accept-everything
    pts = sorted([(sgn * p, 1) for p in pos] + [(sgn * n, 0) for n in neg], key=lambda v: -v[0])
    x, y = Fraction(0), Fraction(case["ep"], pa)
    area = Fraction(0)
    for _, is_pos in pts:
        if is_pos:
            y += Fraction(1, pa)
        else:
            nx = x + Fraction(1, na)
            a, b = max(x, lo), min(nx, hi)
            if b > a:
                area += (b - a) * y
            x = nx
    # beyond the last scored negative (easy negatives): tpr = 1
    a, b = max(x, lo), min(Fraction(1), hi)
    if b > a:
        area += (b - a) * 1
    return area


def oracle(case, res):
    case = tc.effective(case, res)
    if "ok" not in res:
        return [("C07/exception", f"auc raised {res.get('err')}: {res.get('msg')}")]
    r = res["ok"]
    fails = []
    cfg = case["sc"] + "-" + case["ec"]
    tol = Fraction(1, 10 ** 12)
    lo, hi, mid = F(case["lower"]), F(case["upper"]), F(case["mid"])
    mw = _mann_whitney(case)
    if abs(F(r["full"]) - mw) > tol:
        fails.append((f"C07/mann-whitney/{cfg}", f"full AUC {r['full']} but Mann-Whitney statistic (ties 1/2, easy samples beyond) is {mw}"))
    if r.get("full_again", r["full"]) != r["full"] or r.get("win_again", r["win"]) != r["win"]:
        fails.append((f"C07/repeat/{cfg}", f"repeating auc() on the same object changed the result: {r['full']} -> {r.get('full_again')}, {r['win']} -> {r.get('win_again')}"))
    if abs(F(r["swap_axes"]) - (1 - F(r["full"]))) > tol:
        fails.append((f"C07/swap-axes/{cfg}", f"AUC with exchanged axes {r['swap_axes']} != 1 - {r['full']}"))
    if abs(F(r["compl_y"]) - ((hi - lo) - F(r["win"]))) > tol:
        fails.append((f"C07/complement-y/{cfg}", f"window [{lo},{hi}]: fnr-on-y {r['compl_y']} != (upper-lower) - {r['win']}"))
    for key in ("mirror_x_compl_y", "mirror_x_compl_y_alias"):
        if key in r and abs(F(r[key]) - ((hi - lo) - F(r["win"]))) > tol:
            fails.append((f"C07/mirror-x-complement-y/{cfg}", f"window [{lo},{hi}]: tnr on x over the mirrored interval with fnr on y "
                          f"({'alias names trr/frr' if key.endswith('alias') else 'tnr/fnr'}) gives {r[key]}, (upper-lower) - {r['win']} expected"))
    if abs(F(r["mirror_x"]) - F(r["win"])) > tol:
        fails.append((f"C07/mirror-x/{cfg}", f"window [{lo},{hi}]: tnr-on-x over mirrored interval {r['mirror_x']} != {r['win']}"))
    if not (set(case["pos"]) & set(case["neg"])):
        area = _step_area(case, lo, hi)
        if abs(F(r["win"]) - area) > tol:
            fails.append((f"C07/step-area/{cfg}", f"partial AUC over [{lo},{hi}] is {r['win']}, exact step area {area}"))
        if abs(F(r["win_a"]) + F(r["win_b"]) - F(r["win"])) > tol:
            fails.append((f"C07/additive/{cfg}", f"[{lo},{mid}] + [{mid},{hi}] = {F(r['win_a']) + F(r['win_b'])} != {r['win']}"))
        if F(r["win"]) > hi - lo + tol:
            fails.append((f"C07/bound/{cfg}", f"partial AUC {r['win']} exceeds upper-lower"))
    return fails


def nontrivial(case, res):
    pos, neg = [F(x) for x in case["pos"]], [F(x) for x in case["neg"]]
    return (min(pos) <= max(neg) and min(neg) <= max(pos)) or case["ep"] > 0 or case["en"] > 0


def distribution(cases, results):
    d = {"n": len(cases), "exact_stream": 0, "cross_class_ties": 0, "with_easy": 0, "cfg": {}, "errors": 0, "degenerate_window": 0}
    for c, r in zip(cases, results):
        d["exact_stream"] += bool(c["exact"])
        d["cross_class_ties"] += bool(set(c["pos"]) & set(c["neg"]))
        d["with_easy"] += bool(c["ep"] or c["en"])
        k = c["sc"] + "/" + c["ec"]
        d["cfg"][k] = d["cfg"].get(k, 0) + 1
        d["errors"] += "ok" not in r
        d["degenerate_window"] += c["lower"] == c["upper"]
    return d
