"""C01 — confusion matrix = counting by the documented decision rule; pointwise_cm sums to it."""
from fractions import Fraction

from harness import coqio as cq
from harness.common import CONFIGS, F, enc, fl, score_list, sizes, nextafter, pick_dtype

ID = "C01"
PROPS_FILE = "Props/C01.v"
COQ_IMPORTS = "From SA Require Import Model.Harness."
GEN_AVAILABLE = set()
RULE = ("structured random Scores (sizes 0-9, occasionally 100-130; value pools forcing ties within and across "
        "classes; small dyadics and arbitrary doubles), all 4 (score_class, equal_class), easy counts, thresholds "
        "equal to a score, one ulp either side, between, beyond the range and +-inf; a case is non-trivial when "
        "both classes are non-empty and some threshold ties a score or separates two samples")
TRUSTED = ["np.searchsorted on a sorted array = number of elements < v (left) / <= v (right) (modelled as count)",
           "np.sort = a sorted permutation (modelled by insertion sort)"]
ASSUMPTIONS = ["finite scores; NaN scores/thresholds are outside the property"]


def _ties():
    from harness.translate import scores_tr
    return [{"name": "scores.cm", "translate": scores_tr.translate_cm, "gen_file": "Gen_cm.v", "tie_file": "Tie_cm.v"},
            {"name": "scores.pointwise_cm", "translate": scores_tr.translate_pointwise, "gen_file": "Gen_pointwise.v",
             "tie_file": "Tie_pointwise.v"}]


TIES = _ties()


def _small_scope():
    """exhaustive small scope (thorough tier): every (pos, neg) with at most 2 elements each over {0,1,2,3}, all four
    configurations, thresholds -1 .. 4 in steps of 1/2 (on a score, between scores, beyond the range) and +-inf"""
    import itertools
    lists = [list(t) for k in range(3) for t in itertools.product(range(4), repeat=k)]
    thr = [enc(Fraction(k, 2)) for k in range(-2, 9)] + ["inf", "-inf"]
    out = []
    for pos in lists:
        for neg in lists:
            for sc, ec in CONFIGS:
                out.append({"pos": [enc(Fraction(x)) for x in pos], "neg": [enc(Fraction(x)) for x in neg], "ep": 1, "en": 2,
                            "sc": sc, "ec": ec, "thr": thr, "is_sorted": False, "dtype": "float64", "history": None})
    return out


def gen_cases(rng, tier):
    n = {"quick": 400, "thorough": 6000, "search": 3000}[tier]
    cases = _small_scope() if tier == "thorough" else []
    for k in range(n):
        style = rng.choice(["ties", "ties", "dyadic", "ints", "float", "distinct"])
        big = k % 97 == 0
        npos, nneg = sizes(rng, big=big), sizes(rng, big=big)
        if k % 7 == 4:      # medium sizes (NumPy switches sorting algorithm above 16 elements)
            npos, nneg = rng.randint(9, 16), rng.randint(9, 16)
        pos = score_list(rng, npos, style) if npos <= 40 else score_list(rng, npos, "ints")
        neg = score_list(rng, nneg, style) if nneg <= 40 else score_list(rng, nneg, "ints")
        if k % 11 == 3:     # quantised unsigned scores (0 .. 255, some above 127): uint8 / uint16 arrays
            pos = [Fraction(v) for v in rng.sample(range(60, 256), min(max(npos, 2), 40))]
            neg = [Fraction(v) for v in rng.sample(range(0, 200), min(max(nneg, 2), 40))]
        sc, ec = rng.choice(CONFIGS)
        allv = pos + neg
        thr = []
        for _ in range(rng.randint(1, 5)):
            r = rng.random()
            if allv and r < 0.4:
                thr.append(enc(rng.choice(allv)))
            elif allv and r < 0.55:
                thr.append(enc(nextafter(rng.choice(allv), rng.random() < 0.5)))
            elif r < 0.65:
                thr.append(rng.choice(["inf", "-inf"]))
            elif allv and r < 0.8:
                thr.append(enc(rng.choice([max(allv) + 1, min(allv) - 1])))
            else:
                thr.append(enc(Fraction(rng.randint(-28, 28), 8)))
        thr_dtype = None
        if k % 11 == 3 and k % 2 == 1:
            # thresholds taken from the scores and held in the scores' own unsigned dtype
            thr = [enc(rng.choice(allv)) for _ in range(rng.randint(2, 6))]
            thr_dtype = "same"
        if k % 11 == 7:
            # thresholds held in a narrower float type than the scores: float32 values (short dyadics) as thresholds,
            # and scores that are the float64 neighbours of those thresholds
            pos = score_list(rng, max(npos, 2) if npos <= 40 else 8, "dyadic")
            neg = score_list(rng, max(nneg, 2) if nneg <= 40 else 8, "dyadic")
            base = [rng.choice(pos + neg) for _ in range(rng.randint(2, 5))]
            for v in base:
                (pos if rng.random() < 0.5 else neg).append(nextafter(v, True))
                (pos if rng.random() < 0.5 else neg).append(nextafter(v, False))
            allv = pos + neg
            thr = [enc(v) for v in base]
            thr_dtype = rng.choice(["float32", "float32", "float16"])
        if k % 13 == 5 and allv and thr_dtype is None:
            # a long sorted grid of thresholds (more thresholds than samples), many of them exactly on a score
            m = rng.choice([32, 33, 40, 64, 100, 130])
            grid = sorted(rng.choice(allv) if rng.random() < 0.5 else Fraction(rng.randint(-60, 60), 8) for _ in range(m))
            if rng.random() < 0.3:
                grid = grid[::-1]
            thr = [enc(t) for t in grid]
        cases.append({"pos": [enc(x) for x in pos], "neg": [enc(x) for x in neg],
                      "ep": rng.choice([0, 0, 1, 3, 17]), "en": rng.choice([0, 0, 2, 5]),
                      "sc": sc, "ec": ec, "thr": thr, "thr_dtype": thr_dtype, "is_sorted": k % 6 == 0,
                      "dtype": pick_dtype(rng, pos + neg) if pos + neg else "float64",
                      "derive": (rng.randint(1, 10 ** 6) if k % 4 == 2 and max(npos, nneg) <= 40 else None),
                      "history": rng.choice([None, None, None, "proportion", "replacement", "single_pass", "swap", "thresholds"])})
    return cases


def run_impl(case):
    import numpy as np
    from score_analysis import Scores
    from score_analysis.scores import pointwise_cm

    dt = np.dtype(case.get("dtype", "float64"))     # values are exactly representable in the chosen dtype
    pos = np.array([fl(x) for x in case["pos"]], dtype=float).astype(dt)
    neg = np.array([fl(x) for x in case["neg"]], dtype=float).astype(dt)
    rs0 = np.random.RandomState(len(pos) * 17 + len(neg))       # handed over in a shuffled order; the constructor sorts
    pos, neg = pos[rs0.permutation(len(pos))], neg[rs0.permutation(len(neg))]
    thr = np.array([fl(t) for t in case["thr"]], dtype=float)
    tdt = case.get("thr_dtype")
    if tdt:
        tdt = dt if tdt == "same" else np.dtype(tdt)
        with np.errstate(all="ignore"):
            cast = thr.astype(tdt) if (tdt.kind == "f" or np.all(np.isfinite(thr))) else thr
        if np.array_equal(cast.astype(float), thr):     # the same values, held in another dtype
            thr = cast
    s = Scores(pos, neg, nb_easy_pos=case["ep"], nb_easy_neg=case["en"], score_class=case["sc"], equal_class=case["ec"])
    # the property holds for the object whatever was called on it before: run a short history first
    h = case.get("history")
    if h and len(pos) and len(neg):
        from score_analysis import BootstrapConfig
        np.random.seed(7)
        if h in ("proportion", "replacement", "single_pass"):
            for _ in range(2):
                s.bootstrap_sample(BootstrapConfig(sampling_method=h, ratio=0.5 if h == "proportion" else None))
        elif h == "swap":
            s.swap().cm(thr)
        else:
            for name in ("tpr", "fnr", "tnr", "fpr", "topr", "tonr"):
                getattr(s, "threshold_at_" + name)(np.array([0.0, 0.3, 1.0]))
    cm = s.cm(thr)
    raw = None
    mats = [[int(v) for v in m.reshape(-1)] for m in cm.matrix]
    rates = {name: [enc(float(v)) for v in np.atleast_1d(getattr(s, name)(thr))]
             for name in ("tpr", "fnr", "tnr", "fpr", "topr", "tonr")}
    labels = np.array([1] * len(pos) + [0] * len(neg))
    scores = np.concatenate([pos, neg])
    pw = pointwise_cm(labels, scores, thr, score_class=case["sc"], equal_class=case["ec"])
    pw_shape = list(pw.shape)
    pw_sum = [[int(v) for v in m.reshape(-1)] for m in pw.sum(axis=0)]
    # memory layout must not matter: transposed views / Fortran order for thresholds, labels and scores
    layout_ok = True
    if len(thr) >= 2 and len(scores) >= 2:
        reps = np.tile(thr, 6)[: 6].reshape(2, 3)
        for T in (np.asfortranarray(reps), reps.T, np.ascontiguousarray(reps.T).T):
            want = s.cm(T).matrix - np.array([[case["ep"], 0], [0, case["en"]]])
            got = pointwise_cm(labels, scores, T, score_class=case["sc"], equal_class=case["ec"]).sum(axis=0)
            layout_ok = layout_ok and got.shape == want.shape and bool(np.array_equal(got, want))
        n2 = (len(scores) // 2) * 2
        if n2 >= 4:
            l2, s2 = labels[:n2].reshape(2, -1), scores[:n2].reshape(2, -1)
            a = pointwise_cm(np.asfortranarray(l2), s2, thr, score_class=case["sc"], equal_class=case["ec"])
            b = pointwise_cm(l2, np.asfortranarray(s2), thr, score_class=case["sc"], equal_class=case["ec"])
            c = pointwise_cm(l2, s2, thr, score_class=case["sc"], equal_class=case["ec"])
            layout_ok = layout_ok and bool(np.array_equal(a, c)) and bool(np.array_equal(b, c))
    excl = bool(np.all(pw.sum(axis=(-1, -2)) == 1)) if pw.size else True
    # documented defaults: omitting score_class / equal_class means "pos" (whatever the other argument is)
    defaults_ok = True
    from_labels_bad = False
    if pw.size:
        d1 = pointwise_cm(labels, scores, thr, score_class=case["sc"])
        e1 = pointwise_cm(labels, scores, thr, score_class=case["sc"], equal_class="pos")
        d2 = pointwise_cm(labels, scores, thr, equal_class=case["ec"])
        e2 = pointwise_cm(labels, scores, thr, score_class="pos", equal_class=case["ec"])
        d3 = pointwise_cm(labels, scores, thr)
        e3 = pointwise_cm(labels, scores, thr, score_class="pos", equal_class="pos")
        defaults_ok = bool(np.array_equal(d1, e1) and np.array_equal(d2, e2) and np.array_equal(d3, e3))
        s_def = Scores(pos, neg, nb_easy_pos=case["ep"], nb_easy_neg=case["en"], score_class=case["sc"])
        s_exp = Scores(pos, neg, nb_easy_pos=case["ep"], nb_easy_neg=case["en"], score_class=case["sc"], equal_class="pos")
        defaults_ok = defaults_ok and bool(np.array_equal(s_def.cm(thr).matrix, s_exp.cm(thr).matrix))
    # the alternative constructor: the same data interleaved as (labels, scores) builds an object with the same matrices
    if pw.size:
        rs_ = np.random.RandomState(len(pos) * 7 + len(neg))
        order_ = rs_.permutation(len(scores))
        pl_ = [1, 0, "p"][len(pos) % 3]
        lab_ = np.array([pl_ if v == 1 else {1: 0, 0: 2, "p": "n"}[pl_] for v in labels], dtype=object if pl_ == "p" else None)
        s_fl = Scores.from_labels(lab_[order_], scores[order_], pos_label=pl_, nb_easy_pos=case["ep"], nb_easy_neg=case["en"],
                                  score_class=case["sc"], equal_class=case["ec"])
        if not np.array_equal(s_fl.cm(thr).matrix, cm.matrix):
            defaults_ok = False
            from_labels_bad = True
        # ... and handed over already sorted by score (labels interleaved), with the documented is_sorted=True
        asc_ = np.argsort(scores, kind="stable")
        s_fs = Scores.from_labels(lab_[asc_], scores[asc_], pos_label=pl_, nb_easy_pos=case["ep"], nb_easy_neg=case["en"],
                                  score_class=case["sc"], equal_class=case["ec"], is_sorted=True)
        if not np.array_equal(s_fs.cm(thr).matrix, cm.matrix):
            defaults_ok = False
            from_labels_bad = True
    # objects derived from this one (bootstrap samples under every built-in configuration, swap(), the same data as a
    # GroupScores and its samples) are Scores objects too: their cm() must count their own pos / neg arrays
    derived = []
    if len(pos) + len(neg):
        # swap() as the very first call on a fresh object (nothing has looked at its arrays yet)
        fresh = Scores(pos.copy(), neg.copy(), nb_easy_pos=case["ep"], nb_easy_neg=case["en"], score_class=case["sc"], equal_class=case["ec"])
        d = fresh.swap()
        derived.append({"what": "swap-first-on-fresh-object", "pos": [enc(float(x)) for x in d.pos], "neg": [enc(float(x)) for x in d.neg],
                        "ep": int(d.nb_easy_pos), "en": int(d.nb_easy_neg), "sc": str(getattr(d.score_class, "value", d.score_class)),
                        "ec": str(getattr(d.equal_class, "value", d.equal_class)),
                        "cm": [[int(v) for v in m.reshape(-1)] for m in d.cm(thr).matrix]})
    if len(pos) + len(neg):
        # the documented flag is_sorted given explicitly as a false value that is not the literal False (the result of the caller's
        # own NumPy check, or 0): the arrays are unsorted, so the constructor has to sort them
        for flag_, tag_ in ((np.bool_(False), "is_sorted=np.False_"), (0, "is_sorted=0")):
            d = Scores(pos.copy(), neg.copy(), nb_easy_pos=case["ep"], nb_easy_neg=case["en"], score_class=case["sc"],
                       equal_class=case["ec"], is_sorted=flag_)
            derived.append({"what": tag_, "pos": [enc(float(x)) for x in d.pos], "neg": [enc(float(x)) for x in d.neg],
                            "ep": int(d.nb_easy_pos), "en": int(d.nb_easy_neg), "sc": str(getattr(d.score_class, "value", d.score_class)),
                            "ec": str(getattr(d.equal_class, "value", d.equal_class)),
                            "cm": [[int(v) for v in m.reshape(-1)] for m in d.cm(thr).matrix]})
    if case.get("derive") and len(pos) and len(neg):
        from score_analysis import BootstrapConfig, GroupScores
        rs = np.random.RandomState(case["derive"])
        pg = rs.randint(0, 2, size=len(pos))
        ng = rs.randint(0, 2, size=len(neg))
        gs = GroupScores(pos.astype(float), neg.astype(float), pos_groups=pg, neg_groups=ng, score_class=case["sc"], equal_class=case["ec"])
        makers = [("swap", lambda: s.swap()), ("group-swap", lambda: gs.swap())]
        for sm in ("replacement", "single_pass", "proportion"):
            for st in (None, "by_label"):
                makers.append((f"sample/{sm}/{st}", lambda sm=sm, st=st: s.bootstrap_sample(
                    BootstrapConfig(sampling_method=sm, stratified_sampling=st, ratio=0.5 if sm == "proportion" else None))))
        for sm in ("replacement", "single_pass"):
            for st in (None, "by_label", "by_group"):
                makers.append((f"group-sample/{sm}/{st}", lambda sm=sm, st=st: gs.bootstrap_sample(
                    BootstrapConfig(sampling_method=sm, stratified_sampling=st))))
        np.random.seed(case["derive"])
        for what, mk in makers:
            try:
                d = mk()
            except (ValueError, ZeroDivisionError):
                continue          # configurations the sampler rejects for this object are not C01's concern
            derived.append({"what": what, "pos": [enc(float(x)) for x in d.pos], "neg": [enc(float(x)) for x in d.neg],
                            "ep": int(d.nb_easy_pos), "en": int(d.nb_easy_neg), "sc": str(getattr(d.score_class, "value", d.score_class)), "ec": str(getattr(d.equal_class, "value", d.equal_class)),
                            "cm": [[int(v) for v in m.reshape(-1)] for m in d.cm(thr).matrix]})
    return {"from_labels_bad": from_labels_bad, "defaults_ok": defaults_ok, "derived": derived, "cm": mats, "rates": rates, "pw_sum": pw_sum, "pw_shape": pw_shape, "pw_exclusive": excl, "cm_is_sorted": raw, "pw_layout_ok": layout_ok}


def _scores_term(case):
    return (f"(mk_scores {cq.qlist(F(x) for x in case['pos'])} {cq.qlist(F(x) for x in case['neg'])} "
            f"{cq.z(case['ep'])} {cq.z(case['en'])} {cq.label(case['sc'])} {cq.label(case['ec'])} false)")


def _cmz(m):
    return f"(mkCmz {cq.z(m[0])} {cq.z(m[1])} {cq.z(m[2])} {cq.z(m[3])})"


def coq_term(case, res):
    if "ok" not in res:
        return "false"  # the model is total on these inputs; an exception is a disagreement
    r = res["ok"]
    thr = "[" + "; ".join(cq.ext(t if t in ("inf", "-inf") else F(t)) for t in case["thr"]) + "]"
    exp = "[" + "; ".join(_cmz(m) for m in r["cm"]) + "]"
    pw = "[" + "; ".join(_cmz(m) for m in r["pw_sum"]) + "]"
    labels = cq.blist([True] * len(case["pos"]) + [False] * len(case["neg"]))
    xs = cq.qlist([F(x) for x in case["pos"] + case["neg"]])
    ties = f" && list_eqb cmz_eqb (map (Gen.Gen_cm.gen_cm s) {thr}) {exp}" if "Gen_cm" in GEN_AVAILABLE else ""
    ties += f" && list_eqb cmz_eqb (map (cm_bin s) {thr}) {exp}"
    return (f"(let s := {_scores_term(case)} in list_eqb cmz_eqb (map (cm s) {thr}) {exp}{ties} && "
            f"list_eqb cmz_eqb (map (pointwise_sum {cq.label(case['sc'])} {cq.label(case['ec'])} {labels} {xs}) {thr}) {pw})")


def _dec(sc, ec, x, t):
    if sc == "pos":
        return x >= t if ec == "pos" else x > t
    return x <= t if ec == "pos" else x < t


def oracle(case, res):
    if "ok" not in res:
        return [("C01/exception", f"query raised {res.get('err')}: {res.get('msg')}")]
    r = res["ok"]
    fails = []
    pos = [F(x) for x in case["pos"]]
    neg = [F(x) for x in case["neg"]]
    margins = set()
    for j, t in enumerate(case["thr"]):
        tv = F(t)
        tp = sum(_dec(case["sc"], case["ec"], x, tv) for x in pos)
        fp = sum(_dec(case["sc"], case["ec"], x, tv) for x in neg)
        want = [tp + case["ep"], len(pos) - tp, fp, len(neg) - fp + case["en"]]
        got = r["cm"][j]
        if got != want:
            fails.append(("C01/cm-cell", f"cm at threshold {t}: got {got}, counting by the decision rule gives {want}"))
        margins.add((got[0] + got[1], got[2] + got[3]))
        wpw = [tp, len(pos) - tp, fp, len(neg) - fp]
        if r["pw_sum"][j] != wpw:
            fails.append(("C01/pointwise", f"pointwise_cm summed over samples at {t}: got {r['pw_sum'][j]}, want {wpw}"))
        rates = {"tpr": (want[0], want[0] + want[1]), "fnr": (want[1], want[0] + want[1]),
                 "tnr": (want[3], want[2] + want[3]), "fpr": (want[2], want[2] + want[3]),
                 "topr": (want[0] + want[2], sum(want)), "tonr": (want[1] + want[3], sum(want))}
        for name, (a, d) in rates.items():
            exp = None if d == 0 else enc(a / d)
            if r["rates"][name][j] != exp:
                fails.append(("C01/rate", f"{name} at {t}: got {r['rates'][name][j]}, want {exp}"))
    for d in r.get("derived", []):
        dp, dn = [F(x) for x in d["pos"]], [F(x) for x in d["neg"]]
        for j, t in enumerate(case["thr"]):
            tv = F(t)
            tp = sum(_dec(d["sc"], d["ec"], x, tv) for x in dp)
            fp = sum(_dec(d["sc"], d["ec"], x, tv) for x in dn)
            want = [tp + d["ep"], len(dp) - tp, fp, len(dn) - fp + d["en"]]
            if d["cm"][j] != want:
                fails.append((f"C01/derived/{d['what']}", f"cm of the derived object ({d['what']}; pos {[str(x) for x in dp][:8]}, neg "
                              f"{[str(x) for x in dn][:8]}) at threshold {t}: got {d['cm'][j]}, counting its own scores by the decision rule gives {want}"))
                break
    if len(margins) > 1:
        fails.append(("C01/margins", f"TP+FN / FP+TN depend on the threshold: {sorted(margins)}"))
    if not r["pw_exclusive"]:
        fails.append(("C01/pointwise", "some sample is not in exactly one cell of pointwise_cm"))
    if r.get("from_labels_bad"):
        fails.append(("C01/from_labels", "Scores.from_labels(labels, scores, ...) on the same data (interleaved) gives confusion matrices that differ "
                                         "from those of Scores(pos, neg, ...) with the same flags and easy counts"))
    elif not r.get("defaults_ok", True):
        fails.append(("C01/defaults", "pointwise_cm / Scores with score_class or equal_class omitted differ from the same call with the documented default 'pos' passed explicitly"))
    if not r.get("pw_layout_ok", True):
        fails.append(("C01/pointwise-layout", "pointwise_cm depends on the memory layout (Fortran order / transposed view) of its threshold, label or score arrays"))
    if r["pw_shape"] != [len(pos) + len(neg), len(case["thr"]), 2, 2]:
        fails.append(("C01/pointwise", f"pointwise_cm shape {r['pw_shape']}"))
    return fails


def nontrivial(case, res):
    if not case["pos"] or not case["neg"]:
        return False
    vals = sorted(set(F(x) for x in case["pos"] + case["neg"]))
    for t in case["thr"]:
        tv = F(t)
        if tv in vals or (vals[0] < tv < vals[-1]):
            return True
    return False


def distribution(cases, results):
    d = {"n": len(cases), "empty_class": 0, "cross_class_ties": 0, "inf_threshold": 0, "cfg": {}, "errors": 0}
    for c, r in zip(cases, results):
        if not c["pos"] or not c["neg"]:
            d["empty_class"] += 1
        if set(c["pos"]) & set(c["neg"]):
            d["cross_class_ties"] += 1
        if any(t in ("inf", "-inf") for t in c["thr"]):
            d["inf_threshold"] += 1
        k = c["sc"] + "/" + c["ec"]
        d["cfg"][k] = d["cfg"].get(k, 0) + 1
        if "ok" not in r:
            d["errors"] += 1
    return d
