"""C12 — group labels stay attached to their scores; groups partition the data (GroupScores).

Inputs use *identifiable pairings*: score = 10*k + (index of its group), so a label that is moved to another score
changes the multiset of (score, label) pairs.  Correspondence: the Coq model (Model/Group.v, np.argsort instantiated
by a stable insertion argsort) is compared with the implementation on the constructor, swap, __getitem__, group_cm
and on seeded bootstrap samples replayed from the recorded RNG history (as in C11); (score, label) pair lists are
compared in canonical order because np.argsort is not stable."""
from collections import Counter
from fractions import Fraction

from harness import coqio as cq
from harness.common import CONFIGS, F, enc, fl
from harness.props import C11

ID = "C12"
PROPS_FILE = "Props/C12.v"
COQ_IMPORTS = "From SA Require Import Model.Group."
GEN_AVAILABLE = set()
RULE = ("labelled score sets with 1-4 groups (int and string names, default / explicit / permuted / extra group names, "
        "groups lacking a class, pre-sorted input with is_sorted=True, a few >= 100 per class), identifiable pairings "
        "score = 10k + group, all 4 configurations, thresholds on scores / between / beyond, swap, indexing, "
        "group_cm, groupwise, seeded samples for replacement / single_pass / dynamic x None / by_label / by_group; "
        "a case is non-trivial when it has >= 2 groups and some sample draws >= 2 distinct indices")
TRUSTED = C11.TRUSTED[:1] + [
    "np.argsort returns SOME sorting permutation (Section hypotheses argsort_perm / argsort_sorted; instance iargsort)",
    "boolean-mask indexing a[mask] = order-preserving filter; np.concatenate = concat; sorted(set(..)) = sorted_set",
    "group names are mapped to integers order-preservingly by the harness (strings by rank)",
    "harness RNG recorder (monkeypatch of np.random.* in the driver process only)",
]
ASSUMPTIONS = [
    "finite scores; pos/pos_groups and neg/neg_groups have equal lengths (gwf)",
    "sampling clauses: every sampled stratum non-empty (property quantifier); 'group count preserved' is for replacement "
    "sampling (single pass preserves it only in expectation)",
    "Sum over groups = overall matrix needs every label to occur in `groups` and `groups` duplicate-free (true for the "
    "default group list; stated as hypotheses of C12_group_cm_sum)",
]
TOL = C11.TOL


def _ties():
    from harness.translate import sampling_tr
    return [{"name": "scores._sampling_method", "translate": sampling_tr.translate_sampling_method,
             "gen_file": "Gen_sampling_method.v", "tie_file": "Tie_sampling_method.v"}]


TIES = _ties()


INT_NAMES = [-2, -1, 3, 7, 10, 12]      # -1 and -2 have the same hash in CPython
STR_NAMES = ["a", "g10", "g2", "zz"]           # lexicographic order differs from "numeric" order
LONG_NAMES = ["m", "female", "fr", "fr-CA"]    # unequal lengths, one a prefix of another: the two label arrays get different
                                               # fixed-width string dtypes when the longest name occurs in one class only


# ------------------------------------------------------------------ generators
def _mk(rng, ngroups, kind, npos, nneg, lacking=True, ties_across=False, pool=None):
    names = (pool or (INT_NAMES if kind == "int" else STR_NAMES))[:]
    rng.shuffle(names)
    names = names[:ngroups]
    pos_g = [g for g in range(ngroups)]
    neg_g = [g for g in range(ngroups)]
    if lacking and ngroups > 1 and rng.random() < 0.4:
        drop = rng.randrange(ngroups)
        if rng.random() < 0.5:
            pos_g.remove(drop)
        else:
            neg_g.remove(drop)

    def cls(n, gl, off):
        out = []
        for _ in range(n):
            g = rng.choice(gl)
            k = rng.randint(-3, 6)
            s = 10 * k + (0 if ties_across else g) + off
            out.append((Fraction(s), names[g]))
        return out

    # make sure every listed group occurs in the class when there is room
    P = cls(npos, pos_g, 0) if pos_g else []
    N = cls(nneg, neg_g, 5 if rng.random() < 0.5 else 0) if neg_g else []
    for gl, L, n in ((pos_g, P, npos), (neg_g, N, nneg)):
        for j, g in enumerate(gl):
            if j < n:
                s = 10 * rng.randint(-3, 6) + (0 if ties_across else g)
                L[j] = (Fraction(s), names[g])
    rng.shuffle(P)
    rng.shuffle(N)
    return names, P, N


def _samples(rng, P, N, groups, n, big=False):
    out = []
    both = bool(P) and bool(N)
    full = all(any(l == g for _, l in P) and any(l == g for _, l in N) for g in groups) and groups
    for _ in range(n):
        m = rng.choice(["replacement", "single_pass", "dynamic"])
        st = rng.choice([None, "by_label", "by_group"])
        if st == "by_group" and m == "single_pass" and not full:
            m = "replacement"
        if st != "by_group" and not both:
            m = "replacement"
        out.append({"method": m, "strat": st, "smoothing": False, "seed": rng.randint(0, 2**31 - 1)})
    return out


def gen_cases(rng, tier):
    n = {"quick": 130, "thorough": 4000, "search": 500}[tier]
    cases = []
    for k in range(n):
        kind = rng.choice(["int", "str"])
        ngroups = rng.choice([1, 2, 2, 3, 3, 4])
        npos, nneg = rng.randint(0, 8), rng.randint(0, 8)
        if rng.random() < 0.7:
            npos, nneg = max(npos, ngroups), max(nneg, ngroups)
        ties = k % 11 == 5
        longnames = kind == "str" and k % 5 == 1
        names, P, N = _mk(rng, ngroups, kind, npos, nneg, ties_across=ties, pool=LONG_NAMES if longnames else None)
        if longnames and P and N:
            # the longest label present stays in one class only (when that leaves the other class non-empty)
            longest = max(set(l for _, l in P + N), key=len)
            if rng.random() < 0.5:
                P2, N2 = [p for p in P if p[1] != longest], N
            else:
                P2, N2 = P, [q for q in N if q[1] != longest]
            if P2 and N2:
                P, N = P2, N2
        sc, ec = rng.choice(CONFIGS)
        dtype = "float64"
        if k % 7 == 2 and P and N:
            # scores in an unsigned / narrow integer dtype (quantised scores): differences wrap around there
            P = [(x + 40, l) for x, l in P]
            N = [(x + 40, l) for x, l in N]
            dtype = rng.choice(["uint8", "uint8", "uint16", "int8"])
        is_sorted = rng.random() < 0.2
        if is_sorted:
            P.sort(key=lambda p: p[0])
            N.sort(key=lambda p: p[0])
        r = rng.random()
        if r < 0.6:
            gnames = None
        elif r < 0.8:
            gnames = names[:]
            rng.shuffle(gnames)
        else:
            extra = [x for x in (INT_NAMES if kind == "int" else (LONG_NAMES if longnames else STR_NAMES)) if x not in names]
            gnames = names[:] + extra[:1]
            rng.shuffle(gnames)
        groups = gnames if gnames is not None else sorted(set(l for _, l in P + N))
        vals = sorted(set(x for x, _ in P + N)) or [Fraction(0)]
        thr = sorted(set([rng.choice(vals), rng.choice(vals), rng.choice(vals) + Fraction(1, 2),
                          vals[0] - 1, vals[-1] + 1]))
        if k % 3 == 1:      # thresholds in descending or arbitrary order (e.g. what threshold_at_fpr returns for a rising grid)
            thr = thr[::-1] if k % 2 else rng.sample(thr, len(thr))
        unknown = 99 if kind == "int" else "nope"
        c = {"pos": [enc(x) for x, _ in P], "neg": [enc(x) for x, _ in N], "pg": [l for _, l in P],
             "ng": [l for _, l in N], "names": gnames, "kind": kind, "sc": sc, "ec": ec, "is_sorted": is_sorted,
             "thr": [enc(t) for t in thr], "unknown": unknown, "samples": _samples(rng, P, N, groups, 3), "dtype": dtype}
        if kind == "int" and k % 4 == 2:
            c["float_ids"] = True     # the same integer ids held as float64 labels near 1.2e6
            c["samples"].append({"method": "replacement", "strat": "by_group", "smoothing": False, "seed": rng.randint(0, 2**31 - 1)})
        if longnames:
            c["samples"].append({"method": "replacement", "strat": "by_group", "smoothing": False, "seed": rng.randint(0, 2**31 - 1)})
        if k % 17 == 3:
            c["samples"].append({"method": rng.choice(["proportion", "bogus", "callable_swap", "invalid"]),
                                 "strat": None, "smoothing": False, "seed": 1})
        if k % 23 == 4:
            c["samples"].append({"method": "replacement", "strat": rng.choice(["weird", None]),
                                 "smoothing": rng.random() < 0.5, "seed": 2})
        cases.append(c)
    # >= 100 per class: dynamic resolves to single pass (not for by_group)
    for _ in range({"quick": 3, "thorough": 12, "search": 6}[tier]):
        kind = rng.choice(["int", "str"])
        ngroups = rng.choice([2, 3])
        names = (INT_NAMES if kind == "int" else STR_NAMES)[:ngroups]
        if _ % 3 == 2:
            # one group is itself at or above the single-pass switch in BOTH classes (by_group must still resample it with
            # replacement, keeping its count), the others are small
            gp = [0] * rng.randint(100, 112) + [rng.randrange(1, ngroups) for _i in range(rng.randint(4, 12))]
            gn = [0] * rng.randint(100, 112) + [rng.randrange(1, ngroups) for _i in range(rng.randint(4, 12))]
            rng.shuffle(gp)
            rng.shuffle(gn)
        else:
            gp = [rng.randrange(ngroups) for _i in range(rng.randint(100, 120))]
            gn = [rng.randrange(ngroups) for _i in range(rng.randint(100, 120))]
        P = [(Fraction(10 * rng.randint(-20, 40) + g), names[g]) for g in gp]
        N = [(Fraction(10 * rng.randint(-20, 40) + g + 5), names[g]) for g in gn]
        sc, ec = rng.choice(CONFIGS)
        vals = sorted(set(x for x, _ in P + N))
        cases.append({"pos": [enc(x) for x, _ in P], "neg": [enc(x) for x, _ in N], "pg": [l for _, l in P],
                      "ng": [l for _, l in N], "names": None, "kind": kind, "sc": sc, "ec": ec, "is_sorted": False,
                      "thr": [enc(vals[len(vals) // 3]), enc(vals[len(vals) // 2] + Fraction(1, 2))],
                      "unknown": 99 if kind == "int" else "nope",
                      "samples": [{"method": "dynamic", "strat": st, "smoothing": False, "seed": rng.randint(0, 2**31 - 1)}
                                  for st in (None, "by_label", "by_group")]})
    return cases


# ------------------------------------------------------------------ implementation side
FLOAT_ID_OFFSET = 1200300.0     # integer ids held as float64: distinct labels a few units apart at magnitude 1e6


def _name(case, v):
    if case.get("float_ids"):
        return int(round(float(v) - FLOAT_ID_OFFSET))
    return int(v) if case["kind"] == "int" else str(v)


def _lab(case, v):
    """the label as handed to the library"""
    return float(v) + FLOAT_ID_OFFSET if case.get("float_ids") else v


def _observe(case, o):
    return {"pos": [enc(float(v)) for v in o.pos], "neg": [enc(float(v)) for v in o.neg],
            "pg": [_name(case, v) for v in o.pos_groups], "ng": [_name(case, v) for v in o.neg_groups],
            "groups": [_name(case, v) for v in o.groups], "sc": o.score_class.value, "ec": o.equal_class.value,
            "ep": int(o.nb_easy_pos), "en": int(o.nb_easy_neg)}


def _cfg(smp):
    from score_analysis import BootstrapConfig

    m = smp["method"]
    method = (lambda s: s.swap()) if m == "callable_swap" else 5 if m == "invalid" else m
    return BootstrapConfig(sampling_method=method, stratified_sampling=smp["strat"], smoothing=smp["smoothing"])


def run_impl(case):
    import numpy as np
    from score_analysis import GroupScores, Scores, groupwise

    dt = np.dtype(case.get("dtype", "float64"))       # values exactly representable in the chosen dtype
    pos = np.array([fl(x) for x in case["pos"]], dtype=float).astype(dt)
    neg = np.array([fl(x) for x in case["neg"]], dtype=float).astype(dt)
    ldt = float if case.get("float_ids") else (int if case["kind"] == "int" else str)
    pg_in = np.array([_lab(case, v) for v in case["pg"]]) if case["pg"] else np.array([], dtype=ldt)
    ng_in = np.array([_lab(case, v) for v in case["ng"]]) if case["ng"] else np.array([], dtype=ldt)
    names_in = None if case["names"] is None else [_lab(case, v) for v in case["names"]]
    gs = GroupScores(pos, neg, pos_groups=pg_in, neg_groups=ng_in,
                     score_class=case["sc"], equal_class=case["ec"], group_names=names_in, is_sorted=case["is_sorted"])
    out = {"ctor": _observe(case, gs), "swap": _observe(case, gs.swap())}
    # the factory: the same data interleaved (labels, scores, groups), positive label 1 or "p"
    if case["names"] is None and len(pos) + len(neg) > 0 and not case["is_sorted"]:
        import random as _random
        g_ = _random.Random(len(pos) * 31 + len(neg))
        order = list(range(len(pos) + len(neg)))
        g_.shuffle(order)
        pl = g_.choice([1, "p", True])
        nl = {1: [0, 2], "p": ["n", "q"], True: [False]}[pl]
        lab_all = [pl] * len(pos) + [g_.choice(nl) for _ in neg]
        sc_all = np.concatenate([pos, neg])
        gr_all = [_lab(case, v) for v in list(case["pg"]) + list(case["ng"])]
        fl_obj = GroupScores.from_labels(np.array([lab_all[i] for i in order], dtype=object if pl == "p" else None),
                                         sc_all[order], np.array([gr_all[i] for i in order]), pos_label=pl,
                                         score_class=case["sc"], equal_class=case["ec"])
        out["from_labels"] = _observe(case, fl_obj)
        out["from_labels_cm"] = [[int(v) for v in fl_obj.cm(fl(t)).matrix.reshape(-1)] for t in case["thr"]]
        out["ctor_cm"] = [[int(v) for v in gs.cm(fl(t)).matrix.reshape(-1)] for t in case["thr"]]
    items = []
    for g in out["ctor"]["groups"] + [case["unknown"]]:
        try:
            s = gs[_lab(case, g)]
            items.append({"g": g, "pos": [enc(float(v)) for v in s.pos], "neg": [enc(float(v)) for v in s.neg],
                          "sc": s.score_class.value, "ec": s.equal_class.value, "ep": int(s.nb_easy_pos), "en": int(s.nb_easy_neg)})
        except ValueError:
            items.append({"g": g, "raised": "ValueError"})
    out["items"] = items
    thr = np.array([fl(t) for t in case["thr"]], dtype=float)
    ngr = len(out["ctor"]["groups"])
    if ngr:
        gcm = gs.group_cm(thr).matrix                       # (G, T, 2, 2)
        out["gcm"] = [[[int(v) for v in gcm[g, j].reshape(-1)] for g in range(ngr)] for j in range(len(thr))]
        gw = groupwise("tpr")(gs, threshold=thr)
        gw2 = groupwise(Scores.fpr)(gs, threshold=thr)
        out["gw_tpr"] = [[enc(float(v)) for v in row] for row in gw]
        out["gw_fpr"] = [[enc(float(v)) for v in row] for row in gw2]
        out["group_tpr"] = [[enc(float(v)) for v in row] for row in gs.group_tpr(thr)]
        out["group_fpr"] = [[enc(float(v)) for v in row] for row in gs.group_fpr(thr)]
    out["cm"] = [[int(v) for v in m.reshape(-1)] for m in gs.cm(thr).matrix]
    # history: a fresh equal object whose LAST group is indexed first; its group-wise results must come in `groups` order too
    if ngr >= 2:
        gs2 = GroupScores(pos, neg, pos_groups=pg_in, neg_groups=ng_in, score_class=case["sc"], equal_class=case["ec"],
                          group_names=names_in, is_sorted=case["is_sorted"])
        _ = gs2[_lab(case, out["ctor"]["groups"][-1])].pos
        g4 = gs2.group_cm(thr).matrix
        out["gcm_after_index"] = [[[int(v) for v in g4[g, j].reshape(-1)] for g in range(ngr)] for j in range(len(thr))]
        out["group_tpr_after_index"] = [[enc(float(v)) for v in row] for row in gs2.group_tpr(thr)]
    samples = []
    for smp in case["samples"]:
        np.random.seed(smp["seed"])
        raised = None
        with C11._Recorder(np) as rec:
            try:
                b = gs.bootstrap_sample(_cfg(smp))
            except (ValueError, ZeroDivisionError, TypeError, IndexError, KeyError) as ex:
                raised, msg = type(ex).__name__, str(ex)[:200]
        if raised:
            samples.append({"raised": raised, "msg": msg, "hist": rec.hist})
            continue
        o = _observe(case, b)
        o["hist"] = rec.hist
        o["cm"] = [[int(v) for v in m.reshape(-1)] for m in b.cm(thr).matrix]
        if len(o["groups"]):
            g2 = b.group_cm(thr).matrix
            o["gcm"] = [[[int(v) for v in g2[g, j].reshape(-1)] for g in range(len(o["groups"]))] for j in range(len(thr))]
        samples.append(o)
    out["samples"] = samples
    # history: swap() AFTER the per-group views of the original have been used (cache filled)
    late = gs.swap()
    ol = _observe(case, late)
    ol["cm"] = [[int(v) for v in m.reshape(-1)] for m in late.cm(thr).matrix]
    if len(ol["groups"]):
        g3 = late.group_cm(thr).matrix
        ol["gcm"] = [[[int(v) for v in g3[g, j].reshape(-1)] for g in range(len(ol["groups"]))] for j in range(len(thr))]
    out["swap_late"] = ol
    return out


# ------------------------------------------------------------------ model side
def _ids(case, res=None):
    """order-preserving map from group names to integers"""
    if case["kind"] == "int":
        return lambda v: int(v)
    allnames = set(case["pg"]) | set(case["ng"]) | set(case["names"] or []) | {case["unknown"]}
    rank = {nm: i for i, nm in enumerate(sorted(allnames))}
    return lambda v: rank[v]


def _gterm(o, gid):
    return (f"(mkG (mkScores {cq.qlist(F(x) for x in o['pos'])} {cq.qlist(F(x) for x in o['neg'])} {cq.z(o['ep'])} "
            f"{cq.z(o['en'])} {cq.label(o['sc'])} {cq.label(o['ec'])}) {cq.zlist(gid(v) for v in o['pg'])} "
            f"{cq.zlist(gid(v) for v in o['ng'])} {cq.zlist(gid(v) for v in o['groups'])})")


def _cmz(m):
    return f"(mkCmz {cq.z(m[0])} {cq.z(m[1])} {cq.z(m[2])} {cq.z(m[3])})"


def _cfg_term(smp):
    return f"(mkConfig {C11.METHODS[smp['method']]} {C11.STRATS[smp['strat']]} {cq.b(smp['smoothing'])} None)"


def coq_term(case, res):
    if "ok" not in res:
        return "false"
    r = res["ok"]
    gid = _ids(case)
    names = "None" if case["names"] is None else f"(Some {cq.zlist(gid(v) for v in case['names'])})"
    ctor = (f"(mk_gscores iargsort {cq.qlist(F(x) for x in case['pos'])} {cq.qlist(F(x) for x in case['neg'])} "
            f"{cq.zlist(gid(v) for v in case['pg'])} {cq.zlist(gid(v) for v in case['ng'])} {cq.label(case['sc'])} "
            f"{cq.label(case['ec'])} {names} {cq.b(case['is_sorted'])})")
    parts = [f"gscores_agree {ctor} obs", f"gscores_agree (gswap iargsort obs) {_gterm(r['swap'], gid)}"]
    for it in r["items"]:
        g = cq.z(gid(it["g"]))
        if "raised" in it:
            parts.append(f"error_agrees (getitem obs {g}) EValueError")
        else:
            exp = (f"(mkScores {cq.qlist(F(x) for x in it['pos'])} {cq.qlist(F(x) for x in it['neg'])} {cq.z(it['ep'])} "
                   f"{cq.z(it['en'])} {cq.label(it['sc'])} {cq.label(it['ec'])})")
            parts.append(f"res_scores_agree (getitem obs {g}) {exp}")
    if "gcm" in r:
        for t, row in zip(case["thr"], r["gcm"]):
            parts.append(f"res_cml_agree (group_cm obs {cq.ext(F(t))}) [{'; '.join(_cmz(m) for m in row)}]")
    for smp, o in zip(case["samples"], r["samples"]):
        hist = C11.hist_term(o["hist"])
        run = f"(g_bootstrap_sample iargsort {_cfg_term(smp)} (gswap iargsort) obs {hist})"
        if "raised" in o:
            parts.append(f"error_agrees {run} {C11.ERRS[o['raised']]}" if o["raised"] in C11.ERRS else "false")
        else:
            parts.append(f"gsample_agrees {TOL} {run} {hist} {_gterm(o, gid)}")
    return f"(let obs := {_gterm(r['ctor'], gid)} in " + " && ".join(f"({p})" for p in parts) + ")"


# ------------------------------------------------------------------ the property on the implementation's output
def _dec(sc, ec, x, t):
    if sc == "pos":
        return x >= t if ec == "pos" else x > t
    return x <= t if ec == "pos" else x < t


def _pairs(o):
    return list(zip([F(x) for x in o["pos"]], o["pg"])), list(zip([F(x) for x in o["neg"]], o["ng"]))


def _cm_count(P, N, sc, ec, t):
    tp = sum(_dec(sc, ec, x, t) for x in P)
    fp = sum(_dec(sc, ec, x, t) for x in N)
    return [tp, len(P) - tp, fp, len(N) - fp]


def _sorted(xs):
    return all(a <= b for a, b in zip(xs, xs[1:]))


def _rate(a, d):
    return None if d == 0 else enc(float(a) / float(d))


def _check_object(tag, o, thr, fails):
    """internal consistency of an observed GroupScores: aligned arrays, sorted scores, cm / group_cm = counting"""
    if len(o["pos"]) != len(o["pg"]) or len(o["neg"]) != len(o["ng"]):
        fails.append((f"C12/{tag}/alignment", f"score and label arrays differ in length: {len(o['pos'])}/{len(o['pg'])}, {len(o['neg'])}/{len(o['ng'])}"))
        return
    P, N = _pairs(o)
    if not _sorted([x for x, _ in P]) or not _sorted([x for x, _ in N]):
        fails.append((f"C12/{tag}/order", "scores of the object are not sorted"))
    if "cm" in o:
        for j, t in enumerate(thr):
            want = _cm_count([x for x, _ in P], [x for x, _ in N], o["sc"], o["ec"], t)
            if o["cm"][j] != want:
                fails.append((f"C12/{tag}/order", f"cm at {t} is {o['cm'][j]}, counting gives {want}"))
                break
    if "gcm" in o:
        for j, t in enumerate(thr):
            for gi, g in enumerate(o["groups"]):
                want = _cm_count([x for x, l in P if l == g], [x for x, l in N if l == g], o["sc"], o["ec"], t)
                if o["gcm"][j][gi] != want:
                    fails.append((f"C12/{tag}/group-cm", f"group_cm[{g}] at {t} is {o['gcm'][j][gi]}, filtered data gives {want}"))
                    return


def sample_in_quantifier(case, smp):
    if smp["method"] not in ("replacement", "single_pass", "dynamic") or smp["smoothing"]:
        return False
    if smp["strat"] not in (None, "by_label", "by_group"):
        return False
    groups = case["names"] if case["names"] is not None else sorted(set(case["pg"]) | set(case["ng"]))
    if smp["strat"] == "by_group":
        if smp["method"] == "single_pass":   # single pass needs both classes in every group (documented error otherwise)
            return bool(groups) and all(g in case["pg"] and g in case["ng"] for g in groups)
        # replacement (dynamic resolves to it for by_group) resamples every group as it is: a group that lacks a class has
        # nothing to sample in that class and keeps lacking it ("groups may lack a class"); the strata that are sampled
        # are the non-empty ones
        return bool(groups)
    return bool(case["pos"]) and bool(case["neg"])


def resolved(case, smp):
    if smp["method"] != "dynamic":
        return smp["method"]
    if smp["strat"] == "by_group" or len(case["pos"]) < 100 or len(case["neg"]) < 100:
        return "replacement"
    return "single_pass"


def oracle(case, res):
    if "ok" not in res:
        return [("C12/exception", f"a query raised {res.get('err')}: {res.get('msg')}")]
    r = res["ok"]
    fails = []
    thr = [F(t) for t in case["thr"]]
    srcP = list(zip([F(x) for x in case["pos"]], case["pg"]))
    srcN = list(zip([F(x) for x in case["neg"]], case["ng"]))
    c = r["ctor"]
    # constructor: every score keeps its label through the sort
    if len(c["pos"]) == len(c["pg"]) and len(c["neg"]) == len(c["ng"]):
        P, N = _pairs(c)
        if Counter(P) != Counter(srcP) or Counter(N) != Counter(srcN):
            fails.append(("C12/ctor/pairing", "(score, label) pairs after construction differ from the pairs given"))
    if (c["sc"], c["ec"]) != (case["sc"], case["ec"]):
        fails.append(("C12/ctor/flags", "flags changed"))
    want_groups = case["names"] if case["names"] is not None else sorted(set(case["pg"]) | set(case["ng"]))
    if c["groups"] != want_groups:
        fails.append(("C12/ctor/group-names", f"groups {c['groups']} != {want_groups}"))
    c2 = dict(c, cm=r["cm"])
    if "gcm" in r:
        c2["gcm"] = r["gcm"]
    _check_object("ctor", c2, thr, fails)
    P, N = _pairs(c) if len(c["pos"]) == len(c["pg"]) and len(c["neg"]) == len(c["ng"]) else (srcP, srcN)
    # swap
    s = r["swap"]
    if len(s["pos"]) == len(s["pg"]) and len(s["neg"]) == len(s["ng"]):
        SP, SN = _pairs(s)
        if Counter(SP) != Counter(srcN) or Counter(SN) != Counter(srcP):
            fails.append(("C12/swap/pairing", "swap() does not carry the (score, label) pairs of the other class"))
        if (s["sc"] == case["sc"]) or (s["ec"] == case["ec"]):
            fails.append(("C12/swap/flags", "swap() did not flip score_class / equal_class"))
    _check_object("swap", s, thr, fails)
    if "swap_late" in r:
        _check_object("swap-after-use", r["swap_late"], thr, fails)
    # indexing
    for it in r["items"]:
        g = it["g"]
        if g in c["groups"]:
            if "raised" in it:
                fails.append(("C12/getitem", f"indexing by existing group {g} raised"))
                continue
            wp = sorted(x for x, l in srcP if l == g)
            wn = sorted(x for x, l in srcN if l == g)
            if [F(x) for x in it["pos"]] != wp or [F(x) for x in it["neg"]] != wn:
                fails.append(("C12/getitem", f"scores[{g}] is not exactly the scores labelled {g}"))
    if "gcm_after_index" in r and "gcm" in r:
        if r["gcm_after_index"] != r["gcm"] or r.get("group_tpr_after_index") != r.get("group_tpr"):
            fails.append(("C12/group-order/after-indexing",
                          f"on a fresh equal object whose group {c['groups'][-1]!r} was indexed first, group_cm / group_tpr come in another "
                          f"row order than `groups` = {c['groups']}: {r['gcm_after_index'][0]} vs {r['gcm'][0]} at threshold {thr[0]}"))
    # group_cm = cm of the filtered data; sum over groups = overall matrix; groupwise = metric group by group
    if "gcm" in r:
        labels_ok = len(set(c["groups"])) == len(c["groups"]) and all(l in c["groups"] for _, l in srcP + srcN)
        for j, t in enumerate(thr):
            for gi, g in enumerate(c["groups"]):
                want = _cm_count([x for x, l in srcP if l == g], [x for x, l in srcN if l == g], case["sc"], case["ec"], t)
                if r["gcm"][j][gi] != want:
                    fails.append(("C12/group-cm", f"group_cm[{g}] at {t} is {r['gcm'][j][gi]}, filtered data gives {want}"))
                tp, fn, fp, tn = want
                for key, val in (("gw_tpr", _rate(tp, tp + fn)), ("group_tpr", _rate(tp, tp + fn)),
                                 ("gw_fpr", _rate(fp, fp + tn)), ("group_fpr", _rate(fp, fp + tn))):
                    if r[key][gi][j] != val:
                        fails.append(("C12/groupwise", f"{key}[{g}] at {t} is {r[key][gi][j]}, metric of the group's data is {val}"))
            if labels_ok:
                tot = [sum(r["gcm"][j][gi][k] for gi in range(len(c["groups"]))) for k in range(4)]
                if tot != r["cm"][j]:
                    fails.append(("C12/group-cm-sum", f"group matrices sum to {tot} at {t}, overall matrix is {r['cm'][j]}"))
    # from_labels builds the same object (pairs, flags, groups) from interleaved label / score / group arrays
    if "from_labels" in r:
        fo = r["from_labels"]
        if (fo["sc"], fo["ec"]) != (case["sc"], case["ec"]):
            fails.append(("C12/from_labels/flags", f"from_labels object has ({fo['sc']},{fo['ec']}), requested ({case['sc']},{case['ec']})"))
        if sorted(zip(fo["pos"], fo["pg"])) != sorted(zip(c["pos"], c["pg"])) or sorted(zip(fo["neg"], fo["ng"])) != sorted(zip(c["neg"], c["ng"])):
            fails.append(("C12/from_labels/pairing", "(score, label) pairs of the from_labels object differ from the pairs given"))
        if fo["groups"] != c["groups"]:
            fails.append(("C12/from_labels/group-names", f"from_labels groups {fo['groups']} != {c['groups']}"))
        if r["from_labels_cm"] != r["ctor_cm"]:
            fails.append(("C12/from_labels/cm", f"confusion matrices of the from_labels object {r['from_labels_cm']} differ from the "
                          f"constructor object's {r['ctor_cm']}"))
    # samples
    for smp, o in zip(case["samples"], r["samples"]):
        if not sample_in_quantifier(case, smp):
            continue
        tag = f"sample/{resolved(case, smp)}/{smp['strat']}"
        if "raised" in o:
            fails.append((f"C12/{tag}/exception", f"bootstrap_sample raised {o['raised']}: {o.get('msg')}"))
            continue
        before = len(fails)
        _check_object(tag, o, thr, fails)
        if len(fails) > before and fails[-1][0].endswith("alignment"):
            continue
        if (o["sc"], o["ec"]) != (case["sc"], case["ec"]):
            fails.append((f"C12/{tag}/flags", "sample changed the flags"))
        if o["groups"] != c["groups"]:
            fails.append((f"C12/{tag}/group-names", f"sample has groups {o['groups']}, source {c['groups']}"))
        BP, BN = _pairs(o)
        if not set(BP) <= set(P) or not set(BN) <= set(N):
            fails.append((f"C12/{tag}/pairing", "the sample contains a (score, label) pair that is not in the source's class"))
        m = resolved(case, smp)
        if smp["strat"] != "by_group" and len(o["hist"]) >= 2:
            hist = list(o["hist"])
            fix = []
            while hist and hist[-1][0] == "choice1":      # single-pass at-least-one corrections
                fix.insert(0, hist.pop())
            dp, dn = (hist[-2], hist[-1]) if len(hist) >= 2 else (["?"], ["?"])
            if m == "replacement" and dp[0] == dn[0] == "choice" and not fix:
                ip, in_ = dp[3], dn[3]
            elif m == "single_pass" and dp[0] in ("binomvec", "poissonvec") and dn[0] in ("binomvec", "poissonvec"):
                kp, kn = list(dp[-1]), list(dn[-1])
                if not any(kp) and fix and 0 <= fix[0][2] < len(kp):
                    kp[fix.pop(0)[2]] = 1
                if not any(kn) and fix and 0 <= fix[0][2] < len(kn):
                    kn[fix.pop(0)[2]] = 1
                ip = [i for i, k in enumerate(kp) for _ in range(k)]
                in_ = [i for i, k in enumerate(kn) for _ in range(k)]
            else:
                ip = in_ = None
            if ip is not None and all(0 <= i < len(P) for i in ip) and all(0 <= i < len(N) for i in in_):
                if Counter(BP) != Counter(P[i] for i in ip) or Counter(BN) != Counter(N[i] for i in in_):
                    fails.append((f"C12/{tag}/image", "sampled pairs are not the source pairs at the drawn indices"))
        if smp["strat"] == "by_group" and m == "replacement":
            for g in c["groups"]:
                a = sum(l == g for _, l in P) + sum(l == g for _, l in N)
                b = sum(l == g for _, l in BP) + sum(l == g for _, l in BN)
                if a != b:
                    fails.append((f"C12/{tag}/group-count", f"group {g}: source has {a} samples, the by_group sample {b}"))
        if smp["strat"] == "by_label" and m == "replacement" and (len(BP), len(BN)) != (len(P), len(N)):
            fails.append((f"C12/{tag}/strata", f"by_label sample sizes {(len(BP), len(BN))} != {(len(P), len(N))}"))
    return fails


def nontrivial(case, res):
    if "ok" not in res:
        return False
    if len(set(case["pg"]) | set(case["ng"])) < 2:
        return False
    for o in res["ok"]["samples"]:
        for d in o.get("hist", []):
            if d[0] == "choice" and len(set(d[3])) >= 2:
                return True
            if d[0] in ("binomvec", "poissonvec") and sum(1 for v in d[-1] if v > 0) >= 2:
                return True
    return False


def distribution(cases, results):
    d = {"n": len(cases), "groups": {}, "kind": {}, "names": {"default": 0, "explicit": 0}, "is_sorted": 0,
         "group_lacking_class": 0, "empty_class": 0, "ties_across_groups": 0, "cfg": {}, "samples": {}, "sample_raised": {},
         "big": 0, "errors": 0}
    for c, r in zip(cases, results):
        g = len(set(c["pg"]) | set(c["ng"]))
        d["groups"][g] = d["groups"].get(g, 0) + 1
        d["kind"][c["kind"]] = d["kind"].get(c["kind"], 0) + 1
        d["names"]["default" if c["names"] is None else "explicit"] += 1
        d["is_sorted"] += bool(c["is_sorted"])
        d["group_lacking_class"] += set(c["pg"]) != set(c["ng"])
        d["empty_class"] += (not c["pos"] or not c["neg"])
        by_score = {}
        for x, l in zip(c["pos"] + c["neg"], c["pg"] + c["ng"]):
            by_score.setdefault(x, set()).add(l)
        d["ties_across_groups"] += any(len(v) > 1 for v in by_score.values())
        k = c["sc"] + "/" + c["ec"]
        d["cfg"][k] = d["cfg"].get(k, 0) + 1
        d["big"] += len(c["pos"]) >= 100
        if "ok" not in r:
            d["errors"] += 1
            continue
        for smp, o in zip(c["samples"], r["ok"]["samples"]):
            key = f"{resolved(c, smp)}/{smp['strat']}"
            d["samples"][key] = d["samples"].get(key, 0) + 1
            if "raised" in o:
                d["sample_raised"][o["raised"]] = d["sample_raised"].get(o["raised"], 0) + 1
    return d
