"""C18 — showbias: every row of the returned frame is labelled with the group value(s) of exactly the rows it was computed
from, every column with its threshold; entries = the requested ConfusionMatrix metric of that group's rows; by_overall /
by_min normalisation; bootstrap intervals for the same normalised quantity, lower <= upper, same labels.

Correspondence: the Coq model (Model/ShowBias.v on top of Model/Group.v, Metrics.v, BootMetric.v) is run on the same rows;
the bootstrap samples (recorded GroupScores objects, or the identity sampler) are inputs of the model, utils.bootstrap_ci is
replaced by a stub that checks the arrays the model hands over against the arrays the implementation handed over and returns
the implementation's result (the CI formula itself is C13's; its correspondence term is re-used on the recorded arrays).
Oracle: everything is recomputed from the DataFrame rows filtered by the ORIGINAL column values with exact Fractions."""
import math
from fractions import Fraction

from harness import bootref
from harness import coqio as cq
from harness.common import CONFIGS, F, enc, fl
from harness.props import C13

ID = "C18"
PROPS_FILE = "Props/C18.v"
COQ_IMPORTS = ("From Coq Require Import String.\nFrom SA Require Import Model.HarnessC18.\nFrom SA Require Model.FloatQuantile.\n"
               "From Coq Require Import Floats.PrimFloat.\nOpen Scope string_scope.")
GEN_AVAILABLE = set()
CHUNK = 40
RULE = ("DataFrames with 1-4 groups (>= 1 row per group, groups lacking a class, single group), group_columns a column name or "
        "a list of 1-3 names, group values from a plain pool and from a pool with '_', spaces, empty string, punctuation "
        "(incl. tuples whose '_'-joined names collide, and a few non-ASCII values), int and str labels with a non-default "
        "pos_label and extra label values, all 4 score_class/equal_class configurations, all 29 ConfusionMatrix metric names "
        "without extra arguments, thresholds scalar / list on and between scores, normalize None / by_overall / by_min "
        "(zero and NaN divisors aimed at), bootstrap off / on with quantile, bc, bca and custom samplers passed as "
        "sampling_method=callable (identity, score shift, leave-one-out, regrouping) as well as seeded built-in samplers "
        "(replacement / dynamic x None / by_label / by_group); non-trivial = >= 2 groups whose metric values differ")
TRUSTED = [
    "pandas: column selection, .values, Index / MultiIndex.from_tuples / DataFrame construction from nested lists (a frame is "
    "observed as index tuples, index names, column labels, 2-d data)",
    "np.asarray / np.expand_dims on the threshold; np.where / np.divide(out=, where=) / np.min(axis=0) as modelled by "
    "norm1 / min_axis0 (NaN propagates; NaN != 0 is True) - compared on every run",
    "sorted(set(tuples), key=(joined, tuple)) = duplicates removed then sorted by code points (modelled: group_keys); for a "
    "single group column the strings are numbered in sorted order by the model (order isomorphism)",
    "the built-in samplers are inputs of this model (they are the subject of C11 / C12): the j-th sample is the recorded "
    "GroupScores object; GroupScores.bootstrap_sample, showbias.get_bootstrap_ci and scipy.stats.norm.ppf/cdf are wrapped by "
    "pass-through recorders in the driver process only",
    "utils.bootstrap_ci is the subject of C13: here a stub that checks its arguments and returns the recorded result; the "
    "C13 correspondence term is evaluated on the recorded arrays",
    "translator whitelist of harness/translate/showbias_tr.py: _apply_normalization and the flow of showbias from "
    "`group_names = ...` on are translated as written; the pandas-facing statements that build `groups` / `threshold` are "
    "accepted only in their exact present shape (their meaning is tied by correspondence, not by the translator)",
] + C13.TRUSTED[:2]
ASSUMPTIONS = [
    "string group values; every row has one value per group column; finite scores; threshold given, non-empty; alpha in (0,1); "
    "nb_samples >= 1; metric names without extra arguments (the *_ci methods take alpha)",
    "labels and pos_label of the same type (int or str)",
    "entries are compared with a tolerance of a few ulp (quotients of small integers are not dyadic); interval limits with "
    "the C13 tolerances",
    "oracle for seeded built-in samplers: bootstrap cases use pairwise distinct scores so that a sampled score identifies "
    "its row (and thereby its original group values) independently of the implementation's internal group numbering",
]
TOL = Fraction(1, 2 ** 46)


def _ties():
    from harness.translate import showbias_tr
    return [{"name": "showbias.py: _apply_normalization, _get_group_index, showbias", "translate": showbias_tr.translate_showbias,
             "gen_file": "Gen_showbias.v", "tie_file": "Tie_showbias.v"}]


TIES = _ties()

METRICS = ["pop", "accuracy", "error_rate", "tp", "tn", "fp", "fn", "p", "n", "top", "ton", "tpr", "tnr", "fpr", "fnr",
           "tar", "frr", "trr", "far", "topr", "tonr", "acceptance_rate", "rejection_rate", "ppv", "npv", "fdr", "for_",
           "class_accuracy", "class_error_rate"]
RATE_FIRST = ["fnr", "fpr", "tpr", "tnr", "ppv", "accuracy", "topr", "fdr"]
PLAIN = ["a", "b", "B", "g10", "g2", "zz", "Z9", "m"]
SPECIAL = ["x_y", "x", "y_z", "y", "z", "_", "", " ", "a b", "a-b", "q.", "__", "x_", "_z", "'", "A_"]
NONASCII = ["é", "ß_ü", "日本"]
METHODS = ["quantile", "bc", "bca"]
ALPHAS = [0.05, 0.1, 0.2, 0.5]
STR_LABELS = ["y", "n", "maybe"]


# ------------------------------------------------------------------ generators
def _scores(rng, n, distinct):
    if distinct:
        return [Fraction(v, 4) for v in rng.sample(range(-14, 15), n)]
    return [Fraction(rng.randint(-6, 6), 4) for _ in range(n)]


def _thresholds(rng, pool, force_list=None):
    def one():
        r = rng.random()
        if r < 0.08:
            # thresholds that come out of float arithmetic (0.1 + 0.2 = 0.30000000000000004, ...): used and shown as given
            return Fraction(rng.choice([0.1 + 0.2, 0.7 + 0.1, 1.1 * 3, 0.1 * 3, 1 - 0.9, 2.675 * 100 / 100]))
        if r < 0.5:
            return rng.choice(pool)
        if r < 0.85:
            return rng.choice(pool) + Fraction(1, 8)
        return Fraction(rng.randint(-16, 16), 4)
    as_list = rng.random() < 0.6 if force_list is None else force_list
    if not as_list:
        return enc(one())
    return [enc(one()) for _ in range(rng.choice([1, 2, 2, 3]))]


def _group_tuples(rng, ncols, ngroups, pool):
    width = max(ncols, 1)
    out = []
    guard = 0
    while len(out) < ngroups and guard < 200:
        guard += 1
        t = [rng.choice(pool) for _ in range(width)]
        if t not in out:
            out.append(t)
    return out


def _one_case(rng, k, force=None):
    force = force or {}
    boot = force.get("boot", "unset")
    if boot == "unset":
        boot = None
        if rng.random() < 0.45:
            r = rng.random()
            if r < 0.3:
                sampler = {"type": "identity"}
            elif r < 0.45:
                sampler = {"type": "shift", "step": enc(rng.choice([Fraction(1, 4), Fraction(-1, 4), Fraction(1, 2)]))}
            elif r < 0.55:
                sampler = {"type": "loo"}
            elif r < 0.7:
                sampler = {"type": "regroup"}
            else:
                sampler = {"type": "builtin", "sampling_method": rng.choice(["replacement", "replacement", "dynamic"]),
                           "stratified": rng.choice([None, None, "by_label", "by_group"]), "seed": rng.randint(0, 10 ** 6)}
            boot = {"nb": rng.choice([1, 2, 3, 4, 6]), "method": METHODS[k % 3], "sampler": sampler,
                    "alpha": enc(Fraction(rng.choice(ALPHAS)))}
    ncols = force.get("ncols", rng.choice([0, 0, 0, 1, 2, 2, 3]))
    stream = force.get("stream", "special" if rng.random() < 0.3 else "plain")
    pool = {"plain": PLAIN, "special": SPECIAL + PLAIN[:2], "nonascii": NONASCII + SPECIAL[:4]}[stream]
    ngroups = force.get("ngroups", rng.choice([1, 2, 2, 3, 3, 4]))
    tuples = force.get("tuples") or _group_tuples(rng, ncols, ngroups, pool)
    ngroups = len(tuples)
    label_kind = rng.choice(["int", "int", "str"])
    if label_kind == "int":
        pos_label = rng.choice([1, 1, 1, 0, 2])
        other = [v for v in (0, 1, 2, -1) if v != pos_label]
    else:
        pos_label = rng.choice(STR_LABELS[:2])
        other = [v for v in STR_LABELS if v != pos_label]
    # rows: >= 1 per group; some groups lack a class
    per_group = []
    for g in range(ngroups):
        npos, nneg = rng.randint(0, 4), rng.randint(0, 4)
        if rng.random() < 0.65:
            npos, nneg = max(npos, 1), max(nneg, 1)
        if npos + nneg == 0:
            npos = 1
        per_group.append((npos, nneg))
    if "per_group" in force:
        per_group = force["per_group"]
    total = sum(a + b for a, b in per_group)
    xs = _scores(rng, total, distinct=boot is not None and total <= 29)
    if boot is not None and total > 29:
        boot = None
    rows = []
    i = 0
    for g, (npos, nneg) in enumerate(per_group):
        for _ in range(npos):
            rows.append([list(tuples[g]), pos_label, enc(xs[i])])
            i += 1
        for _ in range(nneg):
            rows.append([list(tuples[g]), rng.choice(other), enc(xs[i])])
            i += 1
    rng.shuffle(rows)
    sc, ec = rng.choice(CONFIGS)
    metric = force.get("metric", rng.choice(RATE_FIRST) if rng.random() < 0.5 else METRICS[k % len(METRICS)])
    case = {"ncols": ncols, "rows": rows, "labels": label_kind, "pos_label": pos_label, "metric": metric,
            "thr": force.get("thr", _thresholds(rng, xs)), "normalize": force.get("normalize", rng.choice([None, "by_overall", "by_min", "by_min"])),
            "sc": sc, "ec": ec, "boot": boot, "stream": stream,
            # the DataFrame's row index (default RangeIndex / a permutation of it as after sort_values or a shuffle / labels
            # outside 0..n-1 / strings / duplicate labels): rows are what matter, never their index labels
            "index": rng.choice([None, None, "perm", "perm", "offset", "str", "dup"]), "index_seed": rng.randint(0, 10**6)}
    if rng.random() < 0.3:
        case["col_order"] = rng.randint(1, 10 ** 6)
    if rng.random() < 0.15:
        # group columns that happen to be called "label" / "score" / "threshold" while the label and score columns have other names
        width_ = max(ncols, 1)
        case["gnames"] = rng.sample(["label", "score", "threshold", "group", "index"], width_)
        case["label_col"], case["score_col"] = "y_true", "y_score"
    if rng.random() < 0.2:
        # group columns of categorical dtype whose category order is not alphabetical (age bands, severity levels):
        # the values are the same strings, so the labelled rows are the same
        case["categorical"] = rng.randint(1, 10 ** 6)
    return case


def _aimed(rng):
    """cases aimed at single branches / former defects"""
    out = []
    ident = lambda m: {"nb": 3, "method": m, "sampler": {"type": "identity"}, "alpha": enc(Fraction(0.1))}
    # tuples whose "_"-joined names collide / ragged splits / single-element list with "_"
    out.append(_one_case(rng, 0, {"ncols": 2, "tuples": [["x_y", "z"], ["x", "y_z"], ["p", "q"]], "stream": "special", "boot": None}))
    out.append(_one_case(rng, 1, {"ncols": 2, "tuples": [["x_y", "z"], ["p", "q"]], "stream": "special", "boot": None}))
    out.append(_one_case(rng, 2, {"ncols": 2, "tuples": [["x_y", "z"]], "stream": "special", "boot": None}))
    out.append(_one_case(rng, 3, {"ncols": 1, "tuples": [["x_y"], ["u"]], "stream": "special", "boot": None}))
    out.append(_one_case(rng, 4, {"ncols": 3, "tuples": [["", "", ""], ["", "_", ""], ["_", "", ""]], "stream": "special", "boot": None}))
    out.append(_one_case(rng, 5, {"ncols": 2, "tuples": [["a", "B"], ["aB", "c"], ["a b", "c"], ["a", "x"]], "stream": "special", "boot": None}))
    out.append(_one_case(rng, 6, {"ncols": 0, "tuples": [["x_y"], ["x"], ["_"], [""]], "stream": "special", "boot": None}))
    # single group, several thresholds, with intervals (np.squeeze finding)
    for m in METHODS:
        out.append(_one_case(rng, 7, {"ncols": 0, "ngroups": 1, "thr": [enc(Fraction(1, 4)), enc(Fraction(-1, 2))], "boot": ident(m),
                                      "normalize": None, "metric": "fnr", "per_group": [(3, 2)]}))
    out.append(_one_case(rng, 8, {"ncols": 2, "ngroups": 1, "thr": [enc(Fraction(0)), enc(Fraction(1)), enc(Fraction(2))],
                                  "boot": ident("quantile"), "normalize": "by_overall", "metric": "tpr", "per_group": [(2, 2)]}))
    # by_min with a group whose rate is undefined / by_min with identity sampler / by_overall with regroup + bc
    out.append(_one_case(rng, 9, {"ncols": 0, "ngroups": 3, "normalize": "by_min", "metric": "fnr", "boot": None,
                                  "per_group": [(2, 1), (3, 0), (0, 2)]}))
    for m in METHODS:
        out.append(_one_case(rng, 10, {"ncols": 0, "ngroups": 2, "normalize": "by_min", "metric": "fnr", "boot": ident(m),
                                       "per_group": [(4, 1), (4, 1)]}))
        out.append(_one_case(rng, 11, {"ncols": 0, "ngroups": 3, "normalize": "by_overall", "metric": "fnr",
                                       "boot": {"nb": 4, "method": m, "sampler": {"type": "regroup"}, "alpha": enc(Fraction(0.2))},
                                       "per_group": [(3, 1), (3, 1), (2, 2)]}))
    return out


def gen_cases(rng, tier):
    n = {"quick": 330, "thorough": 6000, "search": 2500}[tier]
    cases = _aimed(rng)
    k = 0
    while len(cases) < n:
        force = {}
        if k % 37 == 5:
            force["stream"] = "nonascii"
        cases.append(_one_case(rng, k, force))
        k += 1
    return cases


# ------------------------------------------------------------------ implementation side
def _frame(df, np):
    import pandas as pd

    multi = isinstance(df.index, pd.MultiIndex)
    idx = [list(map(str, t)) for t in df.index.tolist()] if multi else [[str(v)] for v in df.index.tolist()]
    cols = [enc(float(c)) for c in df.columns.tolist()]
    data = [[enc(float(v)) for v in row] for row in df.to_numpy(dtype=float).tolist()] if df.shape[1] else [[] for _ in range(df.shape[0])]
    return {"index": idx, "names": [None if v is None else str(v) for v in df.index.names], "multi": multi,
            "columns": cols, "data": data, "shape": list(df.shape)}


def _gname(case, j):
    names = case.get("gnames")
    return names[j] if names else f"g{j}"


def group_columns(case):
    return _gname(case, 0) if case["ncols"] == 0 else [_gname(case, j) for j in range(case["ncols"])]


def run_impl(case):
    import numpy as np
    import pandas as pd
    import scipy.stats
    import sys
    import score_analysis
    from score_analysis import BootstrapConfig, GroupScores

    SB = sys.modules["score_analysis.showbias"]     # the package attribute `showbias` is the function

    width = max(case["ncols"], 1)
    gcols = [_gname(case, j) for j in range(width)]
    lcol, scol = case.get("label_col", "label"), case.get("score_col", "score")
    data = {gcols[j]: [r[0][j] for r in case["rows"]] for j in range(width)}
    data[lcol] = [r[1] for r in case["rows"]]
    data[scol] = [fl(r[2]) for r in case["rows"]]
    df = pd.DataFrame(data)
    if case.get("col_order"):      # the frame's own column order differs from the order in which the group columns are requested
        import random as _random
        cols_ = list(df.columns)
        _random.Random(case["col_order"]).shuffle(cols_)
        if width >= 2 and [c for c in cols_ if c in gcols] == gcols:
            i_, j_ = cols_.index(gcols[0]), cols_.index(gcols[-1])
            cols_[i_], cols_[j_] = cols_[j_], cols_[i_]
        df = df[cols_].copy()
    if case.get("index"):
        import random as _random
        n_ = len(df)
        g_ = _random.Random(case.get("index_seed", 0))
        perm_ = list(range(n_))
        g_.shuffle(perm_)
        df.index = {"perm": perm_, "offset": [100 + 3 * i for i in perm_], "str": [f"r{i}" for i in perm_],
                    "dup": [i // 2 for i in range(n_)]}[case["index"]]
    thr = case["thr"]
    threshold = [fl(t) for t in thr] if isinstance(thr, list) else fl(thr)
    kwargs = dict(data=df, group_columns=group_columns(case), label_column=lcol, score_column=scol, metric=case["metric"],
                  normalize=case["normalize"], pos_label=case["pos_label"], score_class=case["sc"], equal_class=case["ec"],
                  threshold=threshold)
    # history: the same DataFrame object was analysed before with its group values rotated among the rows; the columns are
    # then put back in place (same object, same length) for the observed call
    if len(df) >= 2:
        saved = {c: df[c].copy() for c in df.columns if c in gcols}
        try:
            for c in saved:
                df[c] = list(saved[c].iloc[1:]) + list(saved[c].iloc[:1])
            SB.showbias(**dict(kwargs, normalize=None))
        except Exception:
            pass
        finally:
            for c in saved:
                df[c] = saved[c].values
    if case.get("categorical"):
        import random as _random
        g2_ = _random.Random(case["categorical"])
        for c in [c for c in df.columns if c in gcols]:
            cats = sorted(set(df[c]), reverse=True)
            if len(cats) > 2:
                g2_.shuffle(cats)
            df[c] = pd.Categorical(df[c], categories=cats, ordered=g2_.random() < 0.7)
    boot = case["boot"]
    if boot is None:
        bf = SB.showbias(**kwargs)
        return {"values": _frame(bf.values, np), "lower": None if bf.lower is None else _frame(bf.lower, np),
                "upper": None if bf.upper is None else _frame(bf.upper, np), "alpha": bf.alpha}

    sp = boot["sampler"]

    def rebuild(src, p, n, pg, ng, is_sorted):
        return GroupScores(pos=p, neg=n, pos_groups=pg, neg_groups=ng, score_class=src.score_class,
                           equal_class=src.equal_class, group_names=src.groups, is_sorted=is_sorted)

    class Counting:
        def __init__(self):
            self.calls = 0

        def __call__(self, source):
            j = self.calls
            self.calls += 1
            if sp["type"] == "shift":
                d = j * fl(sp["step"])
                return rebuild(source, source.pos + d, source.neg + d, source.pos_groups, source.neg_groups, True)
            if sp["type"] == "loo":
                p, n, pg, ng = source.pos, source.neg, source.pos_groups, source.neg_groups
                if len(p):
                    p, pg = np.delete(p, j % len(p)), np.delete(pg, j % len(pg))
                if len(n):
                    n, ng = np.delete(n, j % len(n)), np.delete(ng, j % len(ng))
                return rebuild(source, p, n, pg, ng, True)
            if sp["type"] == "regroup":
                return rebuild(source, source.pos, source.neg, np.roll(source.pos_groups, j), np.roll(source.neg_groups, j), True)
            return source

    if sp["type"] == "builtin":
        cfg = BootstrapConfig(nb_samples=boot["nb"], bootstrap_method=boot["method"], sampling_method=sp["sampling_method"],
                              stratified_sampling=sp["stratified"])
        np.random.seed(sp["seed"])
    else:
        cfg = BootstrapConfig(nb_samples=boot["nb"], bootstrap_method=boot["method"], sampling_method=Counting())

    def flat(a):
        a = np.asarray(a, dtype=float)
        return [enc(float(v)) for v in a.reshape(-1)]

    samples = []
    sample_err = []
    orig_bs = GroupScores.bootstrap_sample

    def rec_sample(self, config=None, **kw):
        try:
            s = orig_bs(self, config=config, **kw) if config is not None else orig_bs(self, **kw)
        except Exception as ex:
            sample_err.append(f"{type(ex).__name__}: {str(ex)[:120]}")
            raise
        samples.append({"pos": flat(s.pos), "neg": flat(s.neg), "pg": [str(v) for v in s.pos_groups] if case["ncols"] == 0 else [int(v) for v in s.pos_groups],
                        "ng": [str(v) for v in s.neg_groups] if case["ncols"] == 0 else [int(v) for v in s.neg_groups],
                        "groups": [str(v) for v in s.groups] if case["ncols"] == 0 else [int(v) for v in s.groups],
                        "sc": s.score_class.value, "ec": s.equal_class.value})
        return s

    norm = scipy.stats.norm
    orig_ppf, orig_cdf, orig_bci = norm.ppf, norm.cdf, SB.get_bootstrap_ci
    rec = {"ppf": [], "cdf": [], "utils": []}

    def ppf(x, *a, **k):
        r = orig_ppf(x, *a, **k)
        rec["ppf"].append([flat(x), flat(r)])
        return r

    def cdf(x, *a, **k):
        r = orig_cdf(x, *a, **k)
        rec["cdf"].append([flat(x), flat(r)])
        return r

    def bci(*a, **k):
        entry = {"nargs": len(a), "keys": sorted(k)}
        if "theta" in k:
            th = np.asarray(k["theta"])
            entry["theta"], entry["theta_shape"], entry["theta_dtype"] = flat(th), list(th.shape), str(th.dtype)
        if k.get("theta_hat") is not None:
            hh = np.asarray(k["theta_hat"])
            entry["theta_hat"], entry["theta_hat_shape"] = flat(hh), list(hh.shape)
        if "alpha" in k:
            entry["alpha"] = enc(float(k["alpha"]))
        if "method" in k:
            entry["method"] = str(k["method"])
        try:
            r = orig_bci(*a, **k)
        except Exception as ex:
            entry["raised"] = type(ex).__name__
            rec["utils"].append(entry)
            raise
        entry["ret"], entry["ret_shape"] = flat(r), list(np.asarray(r).shape)
        rec["utils"].append(entry)
        return r

    GroupScores.bootstrap_sample = rec_sample
    norm.ppf, norm.cdf, SB.get_bootstrap_ci = ppf, cdf, bci
    out = {}
    try:
        bf = SB.showbias(bootstrap_ci=True, bootstrap_config=cfg, alpha=fl(boot["alpha"]), **kwargs)
    except Exception as ex:
        out["raised"] = type(ex).__name__
        out["msg"] = str(ex)[:200]
        bf = None
    finally:
        GroupScores.bootstrap_sample = orig_bs
        del norm.ppf
        del norm.cdf
        SB.get_bootstrap_ci = orig_bci
    out.update({"samples": samples, "sample_err": sample_err, "utils": rec["utils"], "ppf": rec["ppf"], "cdf": rec["cdf"]})
    if bf is not None:
        out.update({"values": _frame(bf.values, np), "lower": None if bf.lower is None else _frame(bf.lower, np),
                    "upper": None if bf.upper is None else _frame(bf.upper, np), "alpha": bf.alpha})
    return out


# ------------------------------------------------------------------ exact reference (oracle side)
def _dec(sc, ec, x, t):
    if sc == "pos":
        return x >= t if ec == "pos" else x > t
    return x <= t if ec == "pos" else x < t


def _div(a, b):
    return None if b == 0 else Fraction(a, b)


def _compl(x):
    return None if x is None else 1 - x


def metric_value(name, tp, fn, fp, tn):
    """the ConfusionMatrix metric `name` of the 2x2 matrix [[tp, fn], [fp, tn]] (None = NaN)"""
    pop = tp + fn + fp + tn
    table = {
        "pop": lambda: Fraction(pop), "tp": lambda: Fraction(tp), "tn": lambda: Fraction(tn), "fp": lambda: Fraction(fp),
        "fn": lambda: Fraction(fn), "p": lambda: Fraction(tp + fn), "n": lambda: Fraction(fp + tn),
        "top": lambda: Fraction(tp + fp), "ton": lambda: Fraction(fn + tn),
        "accuracy": lambda: _div(tp + tn, pop), "error_rate": lambda: _compl(_div(tp + tn, pop)),
        "class_accuracy": lambda: _div(tp + tn, pop), "class_error_rate": lambda: _compl(_div(tp + tn, pop)),
        "tpr": lambda: _div(tp, tp + fn), "tar": lambda: _div(tp, tp + fn),
        "fnr": lambda: _div(fn, tp + fn), "frr": lambda: _div(fn, tp + fn),
        "tnr": lambda: _div(tn, fp + tn), "trr": lambda: _div(tn, fp + tn),
        "fpr": lambda: _div(fp, fp + tn), "far": lambda: _div(fp, fp + tn),
        "topr": lambda: _div(tp + fp, pop), "acceptance_rate": lambda: _div(tp + fp, pop),
        "tonr": lambda: _div(fn + tn, pop), "rejection_rate": lambda: _div(fn + tn, pop),
        "ppv": lambda: _div(tp, tp + fp), "fdr": lambda: _compl(_div(tp, tp + fp)),
        "npv": lambda: _div(tn, tn + fn), "for_": lambda: _compl(_div(tn, tn + fn)),
    }
    return table[name]()


def _cm(sc, ec, items, t):
    """items: (is_pos, score) pairs"""
    tp = sum(1 for p, x in items if p and _dec(sc, ec, x, t))
    fn = sum(1 for p, x in items if p and not _dec(sc, ec, x, t))
    fp = sum(1 for p, x in items if not p and _dec(sc, ec, x, t))
    tn = sum(1 for p, x in items if not p and not _dec(sc, ec, x, t))
    return tp, fn, fp, tn


def thresholds(case):
    thr = case["thr"]
    return [F(t) for t in thr] if isinstance(thr, list) else [F(thr)]


def data_rows(case):
    """(group tuple, is_pos, score) for every DataFrame row"""
    return [(tuple(r[0]), r[1] == case["pos_label"], F(r[2])) for r in case["rows"]]


def group_table(case, items, labels, ts):
    """items: (group tuple, is_pos, score); returns {label: [metric at t for t in ts]} and the overall vector"""
    sc, ec, name = case["sc"], case["ec"], case["metric"]
    tab = {}
    for g in labels:
        mine = [(p, x) for gg, p, x in items if gg == g]
        tab[g] = [metric_value(name, *_cm(sc, ec, mine, t)) for t in ts]
    overall = [metric_value(name, *_cm(sc, ec, [(p, x) for _, p, x in items], t)) for t in ts]
    return tab, overall


def normalise(case, tab, overall, labels, ts):
    """the property's normalisation of a table of exact values; returns ({label: [value]}, {label: [provenance]})"""
    nz = case["normalize"]
    out = {g: list(tab[g]) for g in labels}
    if nz is None:
        return out
    for j in range(len(ts)):
        if nz == "by_overall":
            d = overall[j]
        else:
            defined = [tab[g][j] for g in labels if tab[g][j] is not None]
            d = min(defined) if defined else None
        for g in labels:
            v = tab[g][j]
            if d is None:
                out[g][j] = None
            elif d == 0:
                out[g][j] = v
            else:
                out[g][j] = None if v is None else v / d
    return out


def _close(got, want, rel=1e-14):
    """got: encoded float or None; want: Fraction or None"""
    if got is None or want is None:
        return got is None and want is None
    g = F(got)
    if g in (math.inf, -math.inf):
        return False
    return abs(g - want) <= Fraction(rel) * max(1, abs(want))


def _fmt(v):
    return "nan" if v is None else (str(float(F(v))) if isinstance(v, str) else str(float(v)))


def expected_samples(case, r):
    """the bootstrap samples as lists of (group tuple, is_pos, score), or None when they cannot be reconstructed"""
    boot = case["boot"]
    sp = boot["sampler"]
    rows = data_rows(case)
    pos = sorted([(x, g) for g, p, x in rows if p])
    neg = sorted([(x, g) for g, p, x in rows if not p])
    n = boot["nb"]
    out = []
    if sp["type"] == "builtin":
        by_score = {}
        for g, p, x in rows:
            if x in by_score:
                return None
            by_score[x] = (g, p)
        if len(r.get("samples", [])) != n:
            return None
        for s in r["samples"]:
            items = []
            for key, want_pos in (("pos", True), ("neg", False)):
                for v in s[key]:
                    x = F(v)
                    if x not in by_score or by_score[x][1] != want_pos:
                        return None
                    items.append((by_score[x][0], want_pos, x))
            out.append(items)
        return out
    for j in range(n):
        if sp["type"] == "identity":
            P, N = pos, neg
        elif sp["type"] == "shift":
            d = j * F(sp["step"])
            P, N = [(x + d, g) for x, g in pos], [(x + d, g) for x, g in neg]
        elif sp["type"] == "loo":
            P = [e for i, e in enumerate(pos) if i != (j % len(pos))] if pos else pos
            N = [e for i, e in enumerate(neg) if i != (j % len(neg))] if neg else neg
        elif sp["type"] == "regroup":
            def roll(L):
                m = len(L)
                return [(L[i][0], L[(i - j) % m][1]) for i in range(m)] if m else L
            P, N = roll(pos), roll(neg)
        else:
            return None
        out.append([(g, True, x) for x, g in P] + [(g, False, x) for x, g in N])
    return out


# ------------------------------------------------------------------ the property on the implementation's output
def oracle(case, res):
    if "ok" not in res:
        return [(f"C18/exception/{res.get('err')}", f"showbias raised {res.get('err')}: {res.get('msg')}")]
    r = res["ok"]
    boot = case["boot"]
    if "raised" in r:
        if r.get("sample_err"):
            return []      # the sampler itself failed on this configuration (subject of C11/C12, outside this property)
        return [(f"C18/exception/{r['raised']}", f"showbias(bootstrap_ci=True) raised {r['raised']}: {r.get('msg')}")]
    fails = []
    rows = data_rows(case)
    ts = thresholds(case)
    labels = []
    for g, _, _ in rows:
        if g not in labels:
            labels.append(g)
    V = r["values"]
    gc = group_columns(case)
    # --- labels: one row per distinct tuple of ORIGINAL group values, each exactly once
    got_labels = [tuple(t) for t in V["index"]]
    if sorted(got_labels) != sorted(labels):
        missing = [g for g in labels if g not in got_labels]
        extra = [g for g in got_labels if g not in labels]
        dup = len(set(got_labels)) != len(got_labels)
        fails.append(("C18/labels/rows", f"row labels {got_labels} are not the distinct group values {sorted(labels)} of the data "
                                         f"(missing {missing}, not in the data {extra}{', duplicates' if dup else ''})"))
    want_names = [gc] if isinstance(gc, str) else gc
    if V["names"] != want_names or V["multi"] != (not isinstance(gc, str)):
        fails.append(("C18/labels/index-names", f"index names {V['names']} (MultiIndex={V['multi']}), group columns {want_names}"))
    if [F(c) for c in V["columns"]] != ts:
        fails.append(("C18/labels/columns", f"columns {[_fmt(c) for c in V['columns']]} are not the thresholds {[float(t) for t in ts]}"))
        return fails
    if V["shape"] != [len(got_labels), len(ts)]:
        fails.append(("C18/labels/shape", f"values frame has shape {V['shape']}"))
        return fails
    # --- entries: metric of exactly the rows with those group values; normalisation
    tab, overall = group_table(case, rows, labels, ts)
    want = normalise(case, tab, overall, labels, ts)
    nz = case["normalize"]
    # a normalised entry is ONE division of the group's value by the divisor: the smallest row under by_min is exactly 1, and
    # for the single-quotient rates (whose float value is the correctly rounded count ratio) the entry is that float quotient
    direct = case["metric"] in ("tpr", "fnr", "tnr", "fpr", "ppv", "npv", "topr", "tonr", "tar", "frr", "trr", "far",
                                "acceptance_rate", "rejection_rate")
    if nz is not None:
        for j, t in enumerate(ts):
            defined = [tab[h][j] for h in labels if tab[h][j] is not None]
            d = overall[j] if nz == "by_overall" else (min(defined) if defined and len(defined) == len(labels) else None)
            if d is None or d == 0:
                continue
            for i, g in enumerate(got_labels):
                if g not in want or tab[g][j] is None or V["data"][i][j] is None:
                    continue
                got_f = float(F(V["data"][i][j]))
                if nz == "by_min" and tab[g][j] == d and got_f != 1.0:
                    fails.append(("C18/by_min/smallest-row-not-1", f"by_min, threshold {float(t)}: group {list(g)} holds the smallest value "
                                                                   f"{_fmt(d)} but its entry is {got_f!r}, not 1"))
                    return fails
                if direct and got_f != float(tab[g][j]) / float(d):
                    fails.append((f"C18/{nz}/quotient", f"{nz}, group {list(g)} threshold {float(t)}: entry {got_f!r} is not the quotient "
                                                        f"{float(tab[g][j])!r} / {float(d)!r} = {float(tab[g][j]) / float(d)!r}"))
                    return fails
    for i, g in enumerate(got_labels):
        if g not in want:
            continue
        for j, t in enumerate(ts):
            got = V["data"][i][j]
            if _close(got, want[g][j]):
                continue
            raw = tab[g][j]
            if nz is None:
                fails.append(("C18/entry", f"group {list(g)} threshold {float(t)}: entry {_fmt(got)}, the metric {case['metric']} of that "
                                           f"group's rows is {_fmt(raw)}"))
            elif nz == "by_min" and got is None and want[g][j] is not None and any(tab[h][j] is None for h in labels):
                fails.append(("C18/by_min/undefined-group",
                              f"by_min, threshold {float(t)}: group {list(g)} has value {_fmt(raw)} and the smallest defined group value is "
                              f"{_fmt(min(v[j] for v in tab.values() if v[j] is not None))}, but the entry is NaN because another "
                              f"group's {case['metric']} is undefined (np.min propagates NaN): the whole column is NaN"))
            else:
                d = overall[j] if nz == "by_overall" else min([v[j] for v in tab.values() if v[j] is not None], default=None)
                fails.append((f"C18/{nz}/entry", f"{nz}, group {list(g)} threshold {float(t)}: entry {_fmt(got)}; group value {_fmt(raw)}, "
                                                 f"divisor {_fmt(d)}, expected {_fmt(want[g][j])}"))
            break
    if boot is None:
        if r["lower"] is not None or r["upper"] is not None:
            fails.append(("C18/ci/unrequested", "interval frames returned although bootstrap_ci=False"))
        return fails
    # --- intervals: same labels, lower <= upper, computed for the reported (normalised) quantity
    L, U = r["lower"], r["upper"]
    if L is None or U is None:
        fails.append(("C18/ci/missing", "bootstrap_ci=True but lower/upper are missing"))
        return fails
    for nm, fr in (("lower", L), ("upper", U)):
        if fr["index"] != V["index"] or fr["names"] != V["names"] or fr["columns"] != V["columns"] or fr["shape"] != V["shape"]:
            fails.append(("C18/ci/labels", f"{nm} frame: index {fr['index']} / columns {[_fmt(c) for c in fr['columns']]} / shape {fr['shape']} "
                                           f"differ from the values frame ({V['index']}, {[_fmt(c) for c in V['columns']]}, {V['shape']})"))
            return fails
    if r["alpha"] is None or enc(float(r["alpha"])) != boot["alpha"]:
        fails.append(("C18/ci/alpha", f"BiasFrame.alpha = {r['alpha']}, requested {_fmt(boot['alpha'])}"))
    for i, g in enumerate(got_labels):
        for j in range(len(ts)):
            lo, hi = L["data"][i][j], U["data"][i][j]
            if lo is not None and hi is not None and F(lo) > F(hi):
                fails.append(("C18/ci/ordered", f"group {list(g)} threshold {float(ts[j])}: lower {_fmt(lo)} > upper {_fmt(hi)}"))
    samples = expected_samples(case, r)
    if samples is None or sorted(got_labels) != sorted(labels):
        return fails
    # replicates of the reported quantity: the normalised group metric of every sample (normalised within the sample)
    reps = []
    for items in samples:
        stab, sover = group_table(case, items, labels, ts)
        reps.append((stab, sover, normalise(case, stab, sover, labels, ts)))
    alpha = fl(boot["alpha"])
    method = boot["method"]
    u = r["utils"][0] if len(r.get("utils", [])) == 1 else None
    G, T = len(got_labels), len(ts)
    done = False
    for i, g in enumerate(got_labels):
        for j in range(T):
            col = [rp[2][g][j] for rp in reps]
            th = want[g][j]
            lo, hi = L["data"][i][j], U["data"][i][j]
            fin = [x for x in col if x is not None]
            bad = None
            if not fin:
                if lo is not None or hi is not None:
                    bad = f"no replicate of the reported quantity is defined but the interval is ({_fmt(lo)}, {_fmt(hi)})"
            elif th is None:
                continue
            else:
                if nz is not None and method != "quantile":
                    # a replicate that equals the estimate in exact arithmetic but is the quotient of other counts may be one
                    # ulp away from it in floats, which changes p0: not decidable from exact values
                    if any(x is not None and x == th and rp[0][g][j] != tab[g][j] for x, rp in zip(col, reps)):
                        continue
                info = bootref.doc_ci_column(col, th, alpha, method)
                if info["ill"] or info["lo"] is None:
                    continue
                tol = bootref.limit_tolerance(col, info) + 1e-12
                if lo is None or hi is None:
                    bad = f"interval ({_fmt(lo)}, {_fmt(hi)}) although {len(fin)} replicates of the reported quantity are defined"
                elif abs(float(F(lo)) - float(info["lo"])) > tol or abs(float(F(hi)) - float(info["hi"])) > tol:
                    bad = (f"interval ({_fmt(lo)}, {_fmt(hi)}); the {method} interval of the reported quantity (value {_fmt(th)}, replicates "
                           f"{[_fmt(x) for x in col]}) is ({float(info['lo'])}, {float(info['hi'])})")
            if bad:
                fails.append((_ci_kind(case, r, u, reps, tab, overall, want, got_labels, ts), f"group {list(g)} threshold {float(ts[j])}: {bad}"))
                done = True
                break
        if done:
            break
    return fails


def _ci_kind(case, r, u, reps, tab, overall, want, got_labels, ts):
    """classify an interval that is not the interval of the reported quantity, from the arrays handed to the CI routine"""
    nz = case["normalize"]
    method = case["boot"]["method"]
    tag = "none" if nz is None else nz
    if u is None or "theta" not in u:
        return f"C18/ci/{tag}/{method}/formula"
    G, T = len(got_labels), len(ts)
    n = len(reps)
    if u["theta_shape"] != [n, G, T]:
        return f"C18/ci/{tag}/replicates-shape"

    def theta_matches(rows_of_tables):
        k = 0
        for tabl in rows_of_tables:
            for g in got_labels:
                for j in range(T):
                    if not _close(u["theta"][k], tabl[g][j], 1e-12):
                        return False
                    k += 1
        return True

    if not theta_matches([rp[2] for rp in reps]):
        if nz == "by_overall":
            fixed = [normalise(case, rp[0], overall, got_labels, ts) for rp in reps]
            if theta_matches(fixed):
                return "C18/ci/by_overall/replicates-divided-by-original-overall"
        if nz == "by_min":
            # np.min over axis 0 of the (nb_samples, G, T) array: the minimum over the SAMPLES of each (group, threshold) entry
            fixed = []
            for rp in reps:
                t2 = {}
                for g in got_labels:
                    t2[g] = []
                    for j in range(T):
                        colv = [q[0][g][j] for q in reps]
                        d = None if any(x is None for x in colv) else min(colv)
                        v = rp[0][g][j]
                        t2[g].append(None if d is None else (v if d == 0 else (None if v is None else v / d)))
                fixed.append(t2)
            if theta_matches(fixed):
                return "C18/ci/by_min/replicates-normalised-over-sample-axis"
        return f"C18/ci/{tag}/replicates"
    if method != "quantile" and "theta_hat" in u:
        k = 0
        same = True
        raw = True
        for g in got_labels:
            for j in range(T):
                same = same and _close(u["theta_hat"][k], want[g][j], 1e-12)
                raw = raw and _close(u["theta_hat"][k], tab[g][j], 1e-12)
                k += 1
        if not same:
            return f"C18/ci/{tag}/estimate-unnormalised" if (raw and nz is not None) else f"C18/ci/{tag}/estimate"
    return f"C18/ci/{tag}/{method}/formula"


# ------------------------------------------------------------------ model side
def _ascii_ok(case):
    return all(all(ord(ch) < 127 and ord(ch) >= 32 for ch in v) for r in case["rows"] for v in r[0])


def _str(s):
    return '"' + s.replace('"', '""') + '"'


def _key(t):
    return "[" + "; ".join(_str(v) for v in t) + "]"


def _label_code(case, v):
    if case["labels"] == "int":
        return int(v)
    return STR_LABELS.index(v)


def sorted_keys(case):
    """the distinct group tuples in the order of the implementation's group numbering"""
    keys = {tuple(r[0]) for r in case["rows"]}
    if case["ncols"] == 0:
        return sorted(keys)
    return sorted(keys, key=lambda k: ("_".join(k), k))


def _rates(xs):
    return "[" + "; ".join(cq.rate(None if v is None else F(v)) for v in xs) + "]"


def _matrix(data):
    return "[" + "; ".join(_rates(row) for row in data) + "]"


def _gterm(case, s, rank):
    code = (lambda v: rank[v]) if case["ncols"] == 0 else int
    return (f"(mkG (mkScores {cq.qlist(F(x) for x in s['pos'])} {cq.qlist(F(x) for x in s['neg'])} 0%Z 0%Z {cq.label(s['sc'])} "
            f"{cq.label(s['ec'])}) {cq.zlist(code(v) for v in s['pg'])} {cq.zlist(code(v) for v in s['ng'])} "
            f"{cq.zlist(code(v) for v in s['groups'])})")


def coq_term(case, res):
    if "ok" not in res or not _ascii_ok(case):
        return None
    r = res["ok"]
    boot = case["boot"]
    rows = "[" + "; ".join(f"mkRow {_key(k)} {cq.z(_label_code(case, l))} {cq.q(F(x))}" for k, l, x in case["rows"]) + "]"
    gc = "GStr" if case["ncols"] == 0 else f"(GList {cq.nat(case['ncols'])})"
    nz = {None: "None", "by_overall": "(Some NOverall)", "by_min": "(Some NMin)"}[case["normalize"]]
    thr = case["thr"]
    thr_t = f"(TList {cq.qlist(F(t) for t in thr)})" if isinstance(thr, list) else f"(TScalar {cq.q(F(thr))})"
    common = f"{cq.z(_label_code(case, case['pos_label']))} {cq.label(case['sc'])} {cq.label(case['ec'])} {thr_t}"
    mname = "M" + case["metric"]
    if boot is None:
        V = r["values"]
        call = (f"(showbias iargsort (fun _ _ _ _ _ => Err) {rows} {gc} {mname} {nz} false (mkConfig 0%nat MQuantile SReplacement) "
                f"(fun _ => Err) 0 {common})")
        idx = "[" + "; ".join(_key(t) for t in V["index"]) + "]"
        return (f"(bias_close {cq.q(TOL)} {call} {idx} {cq.qlist(F(c) for c in V['columns'])} {_matrix(V['data'])} None None)")
    if r.get("sample_err"):
        return None
    rank = {"".join(k): i for i, k in enumerate(sorted_keys(case))} if case["ncols"] == 0 else None
    sp = boot["sampler"]
    method = C13.METHOD_COQ[boot["method"]]
    n = boot["nb"]
    if len(r["samples"]) != n:
        return None if "raised" in r else "false"
    samples = "[" + "; ".join(_gterm(case, s, rank) for s in r["samples"]) + "]"
    dummy = "(mkG (mkScores [] [] 0%Z 0%Z Pos Pos) [] [] [])"
    if sp["type"] == "identity":
        sampler, hist = "(SCallable (fun _ s => s))", "(fun _ => Err)"
    elif sp["type"] == "builtin":
        sampler, hist = "SReplacement", f"(fun j => Ok (nth j samples {dummy}))"
    else:
        sampler, hist = f"(SCallable (fun j _ => nth j samples {dummy}))", "(fun _ => Err)"
    if "raised" in r:
        if r["raised"] != "ValueError":
            return None
        stub = "(fun sh _ _ _ _ => Ok (sh, []))"
        call = (f"(showbias iargsort {stub} {rows} {gc} {mname} {nz} true (mkConfig {cq.nat(n)} {method} {sampler}) {hist} "
                f"{cq.q(F(boot['alpha']))} {common})")
        return f"(let samples := {samples} in is_err {call})"
    if len(r["utils"]) != 1 or "theta" not in r["utils"][0] or "theta_hat" not in r["utils"][0] or "ret" not in r["utils"][0]:
        return "false"
    u = r["utils"][0]
    if len(u["theta_shape"]) != 3 or u["ret_shape"] != u["theta_shape"][1:] + [2]:
        return "false"
    size = u["theta_shape"][1] * u["theta_shape"][2]
    theta = "[" + "; ".join(_rates(u["theta"][i * size:(i + 1) * size]) for i in range(u["theta_shape"][0])) + "]"
    stub = (f"(ci_stub {cq.q(TOL)} {C13._natlist(u['theta_shape'][1:])} {theta} {_rates(u['theta_hat'])} {cq.q(F(u['alpha']))} "
            f"{C13.METHOD_COQ[u['method']]} {_rates(u['ret'])})")
    call = (f"(showbias iargsort {stub} {rows} {gc} {mname} {nz} true (mkConfig {cq.nat(n)} {method} {sampler}) {hist} "
            f"{cq.q(F(boot['alpha']))} {common})")
    V, L, U = r["values"], r["lower"], r["upper"]
    idx = "[" + "; ".join(_key(t) for t in V["index"]) + "]"
    parts = [f"bias_close {cq.q(TOL)} {call} {idx} {cq.qlist(F(c) for c in V['columns'])} {_matrix(V['data'])} "
             f"(Some {_matrix(L['data'])}) (Some {_matrix(U['data'])})"]
    # the CI formula on the arrays actually handed over (C13's model with the recorded scipy values)
    if all(h is not None for h in u["theta_hat"]) or boot["method"] == "quantile":
        c13_case = {"N": u["theta_shape"][0], "Y": u["theta_shape"][1:], "theta": u["theta"], "hat": u["theta_hat"], "alpha": boot["alpha"],
                    "method": boot["method"], "exact": False, "comp": [], "alpha2": None,
                    "dtype": "int" if u.get("theta_dtype", "").startswith("int") else "float"}
        t = C13.coq_term(c13_case, {"ok": {"shape": u["ret_shape"], "ci": u["ret"], "ppf": r["ppf"], "cdf": r["cdf"]}})
        if t is not None:
            parts.append(t)
    return f"(let samples := {samples} in " + " && ".join(f"({p})" for p in parts) + ")"


# ------------------------------------------------------------------ bookkeeping
def nontrivial(case, res):
    if "ok" not in res or "values" not in res["ok"]:
        return False
    data = res["ok"]["values"]["data"]
    if len(data) < 2:
        return False
    return any(len({row[j] for row in data}) >= 2 for j in range(len(data[0]))) if data[0] else False


def distribution(cases, results):
    d = {"n": len(cases), "group_columns": {}, "groups": {}, "stream": {}, "metric": {}, "normalize": {}, "labels": {},
         "thr": {"scalar": 0, "list": 0}, "cfg": {}, "boot": {"off": 0}, "sampler": {}, "group_lacking_class": 0,
         "nan_entries": 0, "zero_divisor": 0, "joined_name_collision": 0, "value_with_underscore": 0, "sampler_failed": 0,
         "errors": 0, "not_modelled_nonascii": 0}
    for c, r in zip(cases, results):
        key = "str" if c["ncols"] == 0 else f"list{c['ncols']}"
        d["group_columns"][key] = d["group_columns"].get(key, 0) + 1
        keys = {tuple(x[0]) for x in c["rows"]}
        d["groups"][len(keys)] = d["groups"].get(len(keys), 0) + 1
        d["stream"][c["stream"]] = d["stream"].get(c["stream"], 0) + 1
        d["metric"][c["metric"]] = d["metric"].get(c["metric"], 0) + 1
        d["normalize"][str(c["normalize"])] = d["normalize"].get(str(c["normalize"]), 0) + 1
        d["labels"][c["labels"]] = d["labels"].get(c["labels"], 0) + 1
        d["thr"]["list" if isinstance(c["thr"], list) else "scalar"] += 1
        k = c["sc"] + "/" + c["ec"]
        d["cfg"][k] = d["cfg"].get(k, 0) + 1
        d["joined_name_collision"] += len({"_".join(t) for t in keys}) < len(keys)
        d["value_with_underscore"] += any("_" in v for t in keys for v in t)
        d["not_modelled_nonascii"] += not _ascii_ok(c)
        for g in keys:
            cl = {x[1] == c["pos_label"] for x in c["rows"] if tuple(x[0]) == g}
            if len(cl) < 2:
                d["group_lacking_class"] += 1
                break
        if c["boot"] is None:
            d["boot"]["off"] += 1
        else:
            d["boot"][c["boot"]["method"]] = d["boot"].get(c["boot"]["method"], 0) + 1
            sp = c["boot"]["sampler"]
            key = sp["type"] if sp["type"] != "builtin" else f"builtin:{sp['sampling_method']}/{sp['stratified']}"
            d["sampler"][key] = d["sampler"].get(key, 0) + 1
        if "ok" not in r:
            d["errors"] += 1
            continue
        if r["ok"].get("sample_err"):
            d["sampler_failed"] += 1
        if "values" in r["ok"]:
            d["nan_entries"] += any(v is None for row in r["ok"]["values"]["data"] for v in row)
        if c["normalize"] is not None:
            rows = data_rows(c)
            ts = thresholds(c)
            labels = list(keys)
            tab, overall = group_table(c, rows, labels, ts)
            for j in range(len(ts)):
                dv = overall[j] if c["normalize"] == "by_overall" else min([tab[g][j] for g in labels if tab[g][j] is not None], default=None)
                if dv == 0:
                    d["zero_divisor"] += 1
                    break
    return d
