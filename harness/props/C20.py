"""C20 — synthetic datasets (experimental/datasets.py): NormalDataset closed forms, from_metrics, sample();
BernoulliDataset and CorrelatedBernoullilDataset sampling."""
import math
from fractions import Fraction

from harness import coqio as cq
from harness.common import F, enc, fl

ID = "C20"
PROPS_FILE = "Props/C20.v"
COQ_IMPORTS = "From SA Require Import Model.HarnessC20."
GEN_AVAILABLE = set()


def _ties():
    from harness.translate import datasets_tr
    return [{"name": "datasets.py: NormalDataset fnr/fpr/threshold_at_fnr/threshold_at_fpr/roc/from_metrics/defaults, "
                     "CorrelatedBernoullilDataset joint probabilities and validity test",
             "translate": datasets_tr.translate_datasets, "gen_file": "Gen_datasets.v", "tie_file": "Tie_datasets.v"}]


TIES = _ties()
RULE = ("five streams: normal (mu/sigma from dyadic and arbitrary doubles, sigma > 0, both score directions, rates in "
        "(0,1) incl. 1e-9 and 1-1e-9, thresholds within 4 sigma, scalar and array arguments, roc by fnr / fpr / neither / "
        "both), from_metrics (rates in (0,1), supports >= 1, quotients on and off integers), sample (sizes and p_pos "
        "given in the call or in the dataset, recorded RNG), bernoulli (p in [0,1] incl. 0 and 1, dyadic and decimal p, "
        "n*p integer / non-integer / within rounding of an integer, n in the call or in the dataset, random and "
        "non-random), correlated (p1, p2, rho with valid and invalid joint distributions, rho = 0, boundary rho, random "
        "and non-random). Non-trivial: n*p non-integer; correlated: rho != 0; normal: any")
TRUSTED = ["scipy.stats.norm.cdf/ppf/sf/isf of the standard normal and np.sqrt are universally quantified functions in the "
           "theorems, with the hypotheses stated there (cdf o ppf = id on (0,1), ppf o cdf = id, sf o isf = id on (0,1), "
           "isf o sf = id, sf = 1 - cdf, compatibility with ==); no hypothesis on sqrt is used",
           "scipy's loc/scale convention (cdf(x, loc, scale) = cdf((x-loc)/scale), ppf(q, loc, scale) = ppf(q)*scale+loc), "
           "np.floor, np.repeat, % and // on small non-negative ints, rng.shuffle = some permutation, rng.binomial / normal / "
           "choice return values within their documented ranges and sizes: modelled, exercised by correspondence with "
           "recorded draws",
           "float floor(n*p) vs exact floor: compared exactly unless |n*p - round(n*p)| < 1e-9*max(1, n*p) and the product "
           "is not exactly representable; then (the property's own hedge) the count may differ by one and the case is "
           "left out of the model comparison"]
ASSUMPTIONS = ["finite parameters, sigma > 0, rates strictly inside (0,1), supports >= 1, n >= 1, p, p1, p2 in [0,1]",
               "the analytic fnr/fpr of NormalDataset do not depend on score_class (the code ignores it there); only "
               "sample() carries the direction - as the property states"]


# ------------------------------------------------------------------ generators
def _dbl(x):
    return Fraction(float(x))


def _normal_params(rng):
    if rng.random() < 0.5:
        mu_pos = Fraction(rng.randint(-16, 16), 4)
        mu_neg = rng.choice([None, Fraction(rng.randint(-16, 16), 4)])
        sp, sn = Fraction(rng.randint(1, 16), 4), Fraction(rng.randint(1, 16), 4)
    else:
        mu_pos = _dbl(rng.gauss(1, 3))
        mu_neg = rng.choice([None, _dbl(rng.gauss(-1, 3))])
        sp, sn = _dbl(abs(rng.gauss(0, 2)) + 0.01), _dbl(abs(rng.gauss(0, 2)) + 0.01)
    return mu_pos, mu_neg, sp, sn


def _rate(rng, tiny=False):
    r = rng.random()
    if tiny and r < 0.12:   # far tails (NormalDataset only: from_metrics turns a rate into a sample size ~ 1/rate)
        return _dbl(rng.choice([1e-12, 1e-15, 1e-20, 1e-30, 1 - 1e-12]))
    if r < 0.15:
        return _dbl(rng.choice([1e-9, 1 - 1e-9, 1e-4, 0.5, 0.999]))
    if r < 0.5:
        return Fraction(rng.randint(1, 15), 16)
    return _dbl(rng.uniform(0.001, 0.999))


def _n_pair(rng, lo=1, hi=40, big=False):
    n = rng.randint(lo, hi) if not big else rng.choice([100, 128, 250, 199])
    mode = rng.choice(["arg", "arg", "self", "self", "both", "both", "none"])
    if mode == "none":
        return None, rng.choice([None, 0])
    if mode == "arg":
        return None, n
    if mode == "self":
        return n, rng.choice([None, None, 0])
    return rng.randint(lo, hi), n


def gen_cases(rng, tier):
    m = {"quick": 60, "thorough": 600, "search": 300}[tier]
    cases = []
    for k in range(m):  # normal
        mu_pos, mu_neg, sp, sn = _normal_params(rng)
        eff_neg = -mu_pos if mu_neg is None else mu_neg
        thr = [_dbl(rng.choice([mu_pos, eff_neg]) + rng.choice([sp, sn]) * Fraction(rng.randint(-16, 16), 4)) for _ in range(rng.randint(1, 3))]
        cases.append({"kind": "normal", "mu_pos": enc(mu_pos), "mu_neg": enc(mu_neg), "sp": enc(sp), "sn": enc(sn),
                      "sc": rng.choice(["pos", "neg"]), "rates": [enc(_rate(rng, tiny=True)) for _ in range(rng.randint(1, 3))],
                      "thr": [enc(t) for t in thr], "scalar": rng.random() < 0.3,
                      "roc": rng.choice(["fnr", "fnr", "fpr", "fpr", "none", "both"])})
    for k in range(m):  # from_metrics
        fnr, fpr = _rate(rng), _rate(rng)
        fs, ps = rng.choice([1, 1, 2, 3, 5, 10, 30]), rng.choice([1, 2, 3, 7, 10, 30])
        if k % 3 == 0:  # exact quotients
            fnr, fpr = Fraction(1, rng.choice([2, 4, 8, 16, 64])), Fraction(1, rng.choice([2, 4, 8, 32]))
        _, _, sp, sn = _normal_params(rng)
        cases.append({"kind": "fm", "fnr": enc(fnr), "fpr": enc(fpr), "fs": fs, "ps": ps, "sp": enc(sp), "sn": enc(sn),
                      "default_sigma": rng.random() < 0.2})
    for k in range(m):  # sample
        mu_pos, mu_neg, sp, sn = _normal_params(rng)
        n_self, n_arg = _n_pair(rng)
        if n_arg == 0:
            n_arg = None
        if n_self is None and n_arg is None:
            n_arg = rng.randint(1, 30)  # sample() without any size fails inside numpy (TypeError): outside the property
        p_self = Fraction(rng.randint(0, 8), 8)
        p_arg = rng.choice([None, None, Fraction(rng.randint(0, 16), 16), _dbl(rng.random())])
        cases.append({"kind": "sample", "mu_pos": enc(mu_pos), "mu_neg": enc(mu_neg), "sp": enc(sp), "sn": enc(sn),
                      "sc": rng.choice(["pos", "neg"]), "n_self": n_self, "n_arg": n_arg, "p_self": enc(p_self),
                      "p_arg": enc(p_arg), "seed": rng.randint(0, 10 ** 6)})
    for k in range(2 * m):  # bernoulli
        style = rng.choice(["dyadic", "decimal", "float", "edge", "near"])
        n_self, n_arg = _n_pair(rng, big=(k % 11 == 0))
        n = (n_arg if n_arg else n_self) or 7
        if style == "dyadic":
            p = Fraction(rng.randint(0, 16), 16)
        elif style == "decimal":
            p = _dbl(rng.randint(0, 100) / 100)
        elif style == "float":
            p = _dbl(rng.random())
        elif style == "edge":
            p = rng.choice([Fraction(0), Fraction(1), _dbl(1e-12), _dbl(1 - 1e-12)])
        else:  # n*p within rounding of an integer
            j = rng.randint(0, n)
            p = _dbl(j / n)
            if rng.random() < 0.5:
                p = _dbl(float(p) * (1 + rng.choice([-1, 1]) * 2.0 ** -52)) if j else p
            p = min(max(p, Fraction(0)), Fraction(1))
        cases.append({"kind": "bern", "style": style, "p": enc(p), "n_self": n_self, "n_arg": n_arg,
                      "random": rng.random() < 0.25, "seed": rng.randint(0, 10 ** 6)})
    for k in range(2 * m):  # correlated
        style = rng.choice(["dyadic", "float", "rho0", "invalid", "boundary"])
        n_self, n_arg = _n_pair(rng, big=(k % 13 == 0))
        if style == "dyadic":
            p1, p2, rho = Fraction(rng.randint(1, 7), 8), Fraction(rng.randint(1, 7), 8), Fraction(rng.randint(-8, 8), 16)
        elif style == "float":
            p1, p2, rho = _dbl(rng.uniform(0.05, 0.95)), _dbl(rng.uniform(0.05, 0.95)), _dbl(rng.uniform(-0.6, 0.6))
        elif style == "rho0":
            p1, p2, rho = rng.choice([Fraction(rng.randint(0, 8), 8), _dbl(rng.random())]), Fraction(rng.randint(0, 8), 8), Fraction(0)
        elif style == "invalid":
            p1, p2 = _dbl(rng.uniform(0.05, 0.4)), _dbl(rng.uniform(0.6, 0.95))
            rho = rng.choice([Fraction(1), Fraction(-1), _dbl(rng.uniform(0.8, 1.0)), _dbl(rng.uniform(-1.0, -0.8))])
        else:  # exactly representable boundary: p1 = p2 = 1/2 (sqrt(1/16) exact), rho = +-1 -> a zero probability
            p1 = p2 = Fraction(1, 2)
            rho = rng.choice([Fraction(1), Fraction(-1), Fraction(1, 2)])
        cases.append({"kind": "corr", "style": style, "p1": enc(p1), "p2": enc(p2), "rho": enc(rho), "n_self": n_self,
                      "n_arg": n_arg, "random": rng.random() < 0.25, "seed": rng.randint(0, 10 ** 6)})
    return cases


# ------------------------------------------------------------------ implementation
def _rec_rng(seed):
    import numpy as np

    class RecRng:
        """stands for a numpy Generator: delegates to a seeded one and records (call, parameters, result)"""

        def __init__(self):
            self.g = np.random.default_rng(seed)
            self.calls = []

        def binomial(self, n, p, size=None):
            r = self.g.binomial(n, p, size=size)
            self.calls.append(["binomial", int(n), enc(float(p)), None if size is None else int(size),
                               [int(v) for v in np.atleast_1d(r)]])
            return r

        def normal(self, loc=0.0, scale=1.0, size=None):
            r = self.g.normal(loc=loc, scale=scale, size=size)
            self.calls.append(["normal", enc(float(loc)), enc(float(scale)), None if size is None else int(size),
                               [enc(float(v)) for v in np.atleast_1d(r)]])
            return r

        def shuffle(self, x):
            perm = self.g.permutation(len(x))
            x[:] = x[perm]
            self.calls.append(["shuffle", int(len(x)), [int(i) for i in perm]])

        def choice(self, a, size=None, p=None):
            r = self.g.choice(a, size=size, p=p)
            self.calls.append(["choice", int(a), None if size is None else int(size), [enc(float(v)) for v in p],
                               [int(v) for v in np.atleast_1d(r)]])
            return r

    return RecRng()


def _encl(a):
    import numpy as np

    return [enc(float(v)) for v in np.atleast_1d(np.asarray(a, dtype=float)).reshape(-1)]


def run_impl(case):
    import numpy as np
    import scipy.stats
    from score_analysis.experimental import BernoulliDataset, CorrelatedBernoullilDataset, NormalDataset

    nm = scipy.stats.norm
    kind = case["kind"]
    if kind in ("normal", "sample"):
        kw = dict(mu_pos=fl(case["mu_pos"]), sigma_pos=fl(case["sp"]), sigma_neg=fl(case["sn"]), score_class=case["sc"])
        if case["mu_neg"] is not None:
            kw["mu_neg"] = fl(case["mu_neg"])
    if kind == "normal":
        ds = NormalDataset(**kw)
        rates = np.array([fl(v) for v in case["rates"]])
        thr = np.array([fl(v) for v in case["thr"]])
        out = {"mu_neg": enc(float(ds.mu_neg))}
        if case["scalar"]:
            r0, t0 = float(rates[0]), float(thr[0])
            vals = {"t_fnr": ds.threshold_at_fnr(r0), "t_fpr": ds.threshold_at_fpr(r0), "fnr": ds.fnr(t0), "fpr": ds.fpr(t0)}
            out["types_ok"] = all(type(v) is float for v in vals.values())
            out["fnr_back"] = _encl(ds.fnr(vals["t_fnr"]))
            out["fpr_back"] = _encl(ds.fpr(vals["t_fpr"]))
            out["t_back_fnr"] = _encl(ds.threshold_at_fnr(vals["fnr"]))
            out["t_back_fpr"] = _encl(ds.threshold_at_fpr(vals["fpr"]))
            rates, thr = rates[:1], thr[:1]
        else:
            vals = {"t_fnr": ds.threshold_at_fnr(rates), "t_fpr": ds.threshold_at_fpr(rates), "fnr": ds.fnr(thr), "fpr": ds.fpr(thr)}
            out["types_ok"] = all(isinstance(v, np.ndarray) for v in vals.values()) and \
                vals["t_fnr"].shape == rates.shape and vals["fnr"].shape == thr.shape
            out["fnr_back"] = _encl(ds.fnr(vals["t_fnr"]))
            out["fpr_back"] = _encl(ds.fpr(vals["t_fpr"]))
            out["t_back_fnr"] = _encl(ds.threshold_at_fnr(vals["fnr"]))
            out["t_back_fpr"] = _encl(ds.threshold_at_fpr(vals["fpr"]))
        for k2, v in vals.items():
            out[k2] = _encl(v)
        # the closed forms are functions of the VALUE handed in: float32 / float16 arrays of thresholds or rates give what the
        # same values give as float64
        nf_bad = None
        for ndt in (np.float32, np.float16):
            with np.errstate(all="ignore"):
                t_n, r_n = np.atleast_1d(thr).astype(ndt), np.atleast_1d(rates).astype(ndt)
                # (rates only: for the inverse direction SciPy itself evaluates ppf / isf of a float32 array in single precision)
                for fname, arg in (("fnr", t_n), ("fpr", t_n)):
                    if not np.all(np.isfinite(arg.astype(float))):
                        continue
                    a_ = np.asarray(getattr(ds, fname)(arg), dtype=float)
                    b_ = np.asarray(getattr(ds, fname)(arg.astype(np.float64)), dtype=float)
                    if not np.array_equal(a_, b_, equal_nan=True) and nf_bad is None:
                        nf_bad = [fname, np.dtype(ndt).name, [repr(float(v)) for v in arg.astype(float)[:3]], [repr(float(v)) for v in a_[:3]], [repr(float(v)) for v in b_[:3]]]
        out["narrow_float_bad"] = nf_bad
        # roc
        mode = case["roc"]
        try:
            roc = ds.roc(**({"fnr": rates} if mode in ("fnr", "both") else {}), **({"fpr": rates} if mode in ("fpr", "both") else {}))
            out["roc"] = {"fnr": _encl(roc.fnr), "fpr": _encl(roc.fpr), "thresholds": _encl(roc.thresholds),
                          "fnr_consistent": bool(np.array_equal(np.asarray(roc.fnr), np.asarray(ds.fnr(np.asarray(roc.thresholds))))),
                          "fpr_consistent": bool(np.array_equal(np.asarray(roc.fpr), np.asarray(ds.fpr(np.asarray(roc.thresholds))))),
                          "thr_consistent": bool(np.array_equal(np.asarray(roc.thresholds),
                                                                np.asarray(ds.threshold_at_fnr(rates) if mode == "fnr" else ds.threshold_at_fpr(rates))))}
        except ValueError:
            out["roc"] = {"raised": "ValueError"}
        # oracle values at the exact arguments the model asks for
        mu_p, mu_n, sp, sn = F(case["mu_pos"]), F(out["mu_neg"]), F(case["sp"]), F(case["sn"])
        tabs = {"cdf": [], "ppf": [], "sf": [], "isf": []}
        rr = [F(v) for v in case["rates"]][: len(rates)]
        tt = [F(v) for v in case["thr"]][: len(thr)]
        for r in rr:
            vp, vi = Fraction(float(nm.ppf(float(r)))), Fraction(float(nm.isf(float(r))))
            tabs["ppf"].append([enc(r), enc(vp)])
            tabs["isf"].append([enc(r), enc(vi)])
            th = (vp * sp + mu_p) if mode != "fpr" else (vi * sn + mu_n)  # the model's roc thresholds, exactly
            for name, arg in (("cdf", (th - mu_p) / sp), ("sf", (th - mu_n) / sn)):
                tabs[name].append([enc(arg), enc(float(getattr(nm, name)(float(arg))))])
        for t in tt:
            for name, arg in (("cdf", (t - mu_p) / sp), ("sf", (t - mu_n) / sn)):
                tabs[name].append([enc(arg), enc(float(getattr(nm, name)(float(arg))))])
        out["tabs"] = tabs
        return out
    if kind == "fm":
        args = dict(fnr=fl(case["fnr"]), fpr=fl(case["fpr"]), fnr_support=case["fs"], fpr_support=case["ps"])
        if not case["default_sigma"]:
            args.update(sigma_pos=fl(case["sp"]), sigma_neg=fl(case["sn"]))
        # history: another model requested first, with rates 4e-9 away; every request is answered from its own rates
        warm = dict(args, fnr=min(args["fnr"] + 4e-9, 0.999999), fpr=max(args["fpr"] - 4e-9, 1e-12))
        try:
            NormalDataset.from_metrics(**warm)
        except (ValueError, OverflowError, ZeroDivisionError):
            pass
        ds = NormalDataset.from_metrics(**args)
        one_minus = Fraction(1) - F(case["fpr"])
        return {"mu_pos": enc(float(ds.mu_pos)), "mu_neg": enc(float(ds.mu_neg)), "sp": enc(float(ds.sigma_pos)),
                "sn": enc(float(ds.sigma_neg)), "p_pos": enc(float(ds.p_pos)), "n": int(ds.n), "n_type_int": isinstance(ds.n, int),
                "sc": str(getattr(ds.score_class, "value", ds.score_class)),
                "fnr0": enc(float(ds.fnr(0.0))), "fpr0": enc(float(ds.fpr(0.0))),
                "tabs": {"ppf": [[case["fnr"], enc(float(nm.ppf(fl(case["fnr"]))))], [enc(one_minus), enc(float(nm.ppf(float(one_minus))))]]}}
    if kind == "sample":
        ds = NormalDataset(p_pos=fl(case["p_self"]), n=case["n_self"], **kw)
        skw = {}
        if case["p_arg"] is not None:
            skw["p_pos"] = fl(case["p_arg"])
        rec = _rec_rng(case["seed"])
        s = ds.sample(case["n_arg"], rng=rec, **skw)
        s2 = ds.sample(case["n_arg"], rng=np.random.default_rng(case["seed"]), **skw)
        return {"calls": rec.calls, "pos": _encl(s.pos) if len(s.pos) else [], "neg": _encl(s.neg) if len(s.neg) else [],
                "sc": s.score_class.value, "ec": s.equal_class.value, "easy": [int(s.nb_easy_pos), int(s.nb_easy_neg)],
                "type": type(s).__name__, "mu_neg": enc(float(ds.mu_neg)),
                "real": {"n": int(len(s2.pos) + len(s2.neg)), "sc": s2.score_class.value}}
    if kind == "bern":
        ds = BernoulliDataset(p=fl(case["p"]), n=case["n_self"])
        rec = _rec_rng(case["seed"])
        out = {}
        try:
            d = ds.sample(case["n_arg"], random=case["random"], rng=rec)
            out.update({"data": [int(v) for v in d], "shape": list(d.shape), "int_dtype": bool(np.issubdtype(d.dtype, np.integer))})
        except ValueError as ex:
            out["raised"] = "ValueError"
            out["msg"] = str(ex)[:100]
        out["calls"] = rec.calls
        try:
            d2 = ds.sample(case["n_arg"], random=case["random"], rng=np.random.default_rng(case["seed"]))
            out["real"] = {"ones": int(np.sum(d2 == 1)), "zeros": int(np.sum(d2 == 0)), "shape": list(d2.shape)}
        except ValueError:
            out["real"] = {"raised": "ValueError"}
        return out
    if kind == "corr":
        ds = CorrelatedBernoullilDataset(p1=fl(case["p1"]), p2=fl(case["p2"]), rho=fl(case["rho"]), n=case["n_self"])
        rec = _rec_rng(case["seed"])
        out = {}
        try:
            d = ds.sample(case["n_arg"], random=case["random"], rng=rec)
            out.update({"r0": [int(v) for v in d[0]], "r1": [int(v) for v in d[1]], "shape": list(d.shape),
                        "int_dtype": bool(np.issubdtype(d.dtype, np.integer))})
        except ValueError as ex:
            out["raised"] = "ValueError"
            out["msg"] = str(ex)[:100]
        out["calls"] = rec.calls
        try:
            d2 = ds.sample(case["n_arg"], random=case["random"], rng=np.random.default_rng(case["seed"]))
            out["real"] = {"ones0": int(np.sum(d2[0] == 1)), "ones1": int(np.sum(d2[1] == 1)), "shape": list(d2.shape),
                           "all01": bool(np.all((d2 == 0) | (d2 == 1)))}
        except ValueError:
            out["real"] = {"raised": "ValueError"}
        return out
    raise ValueError(kind)


# ------------------------------------------------------------------ exact helpers
def _n_eff(case):
    return case["n_arg"] if case["n_arg"] else case["n_self"]


def _is_double(v):
    return Fraction(float(v)) == v


def _near_integer(x):
    """the property's hedge: n*p within floating-point accuracy of an integer (and the float product not exact)"""
    return (not _is_double(x)) and abs(x - round(x)) < Fraction(1, 10 ** 9) * max(1, x)


def _sqrt_frac(x, digits=40):
    """rational approximation of sqrt(x), x >= 0, absolute error < 10^-digits"""
    if x <= 0:
        return Fraction(0)
    sc = 10 ** (2 * digits)
    return Fraction(math.isqrt(x.numerator * sc // x.denominator), 10 ** digits)


def _corr_probs(case):
    p1, p2, rho = F(case["p1"]), F(case["p2"]), F(case["rho"])
    c = (1 - p1) * (1 - p2)
    sq = _sqrt_frac(p1 * p2 * c)
    a = c + rho * sq
    return [a, 1 - p2 - a, 1 - p1 - a, p1 + p2 + a - 1], sq, p1 * p2 * c


def _corr_exact_floats(case):
    """every float operation in the probabilities is exact (dyadic parameters with an exact square root)"""
    p1, p2, rho = F(case["p1"]), F(case["p2"]), F(case["rho"])
    c = (1 - p1) * (1 - p2)
    prod = p1 * p2 * c
    sq = _sqrt_frac(prod)
    if rho == 0:
        sq = Fraction(0)
    elif sq * sq != prod:
        return False
    a = c + rho * sq
    vals = [1 - p1, 1 - p2, c, p1 * p2, prod, a, 1 - p2, 1 - p2 - a, 1 - p1 - a, p1 + p2, p1 + p2 + a, p1 + p2 + a - 1]
    return all(_is_double(v) for v in vals)


TINY = Fraction(1, 10 ** 300)   # rates are compared relatively (1e-9): small rates are the ones people ask of a ROC curve


def _close(a, b, rel=Fraction(1, 10 ** 9), ab=Fraction(1, 10 ** 12)):
    return abs(a - b) <= ab + rel * max(abs(a), abs(b))


# ------------------------------------------------------------------ oracle
def oracle(case, res):
    if "ok" not in res:
        return [("C20/exception", f"raised {res.get('err')}: {res.get('msg')}")]
    r = res["ok"]
    kind = case["kind"]
    fails = []
    if kind == "normal":
        rates = [F(v) for v in case["rates"]][: len(r["t_fnr"])]
        thr = [F(v) for v in case["thr"]][: len(r["fnr"])]
        sp, sn = F(case["sp"]), F(case["sn"])
        if not r["types_ok"]:
            fails.append(("C20/normal/shape", "scalar argument did not give a Python float / array argument did not keep its shape"))
        if r.get("narrow_float_bad"):
            nb_ = r["narrow_float_bad"]
            fails.append(("C20/normal/narrow-float-input", f"{nb_[0]}({nb_[1]} array {nb_[2]}) = {nb_[3]}, the same values as float64 give {nb_[4]}"))
        if case["mu_neg"] is None and F(r["mu_neg"]) != -F(case["mu_pos"]):
            fails.append(("C20/normal/post_init", "mu_neg does not default to -mu_pos"))
        for x, back in zip(rates, r["fnr_back"]):
            if back is None or not _close(F(back), x, ab=TINY):
                fails.append(("C20/normal/inverse/fnr", f"fnr(threshold_at_fnr({float(x)})) = {back and float(F(back))}"))
        for x, back in zip(rates, r["fpr_back"]):
            if back is None or not _close(F(back), x, ab=TINY):
                fails.append(("C20/normal/inverse/fpr", f"fpr(threshold_at_fpr({float(x)})) = {back and float(F(back))}"))
        # the other direction is ill-conditioned in the tails: thresholds are within 4 sigma, tolerance 1e-6 sigma
        mu_p, mu_n = F(case["mu_pos"]), F(r["mu_neg"])
        for t, back in zip(thr, r["t_back_fnr"]):
            if abs(t - mu_p) <= 4 * sp and (back is None or abs(F(back) - t) > Fraction(1, 10 ** 6) * sp):
                fails.append(("C20/normal/inverse/threshold_fnr", f"threshold_at_fnr(fnr({float(t)})) = {back and float(F(back))}"))
        for t, back in zip(thr, r["t_back_fpr"]):
            if abs(t - mu_n) <= 4 * sn and (back is None or abs(F(back) - t) > Fraction(1, 10 ** 6) * sn):
                fails.append(("C20/normal/inverse/threshold_fpr", f"threshold_at_fpr(fpr({float(t)})) = {back and float(F(back))}"))
        roc = r["roc"]
        if case["roc"] in ("none", "both"):
            if roc.get("raised") != "ValueError":
                fails.append(("C20/normal/roc/args", f"roc() with {case['roc']} of fnr/fpr did not raise ValueError"))
        elif roc.get("raised"):
            fails.append(("C20/normal/roc/args", "roc() raised with exactly one of fnr/fpr"))
        else:
            if not (roc["fnr_consistent"] and roc["fpr_consistent"]):
                fails.append(("C20/normal/roc/consistency", "roc() rates are not the analytic rates at its thresholds"))
            if not roc["thr_consistent"]:
                fails.append(("C20/normal/roc/thresholds", "roc() thresholds are not the thresholds at the requested rates"))
            req = roc["fnr"] if case["roc"] == "fnr" else roc["fpr"]
            for x, got in zip(rates, req):
                if got is None or not _close(F(got), x, ab=TINY):
                    fails.append(("C20/normal/roc/operating-point", f"requested rate {float(x)}, curve has {got and float(F(got))}"))
    elif kind == "fm":
        fnr, fpr = F(case["fnr"]), F(case["fpr"])
        if r["fnr0"] is None or not _close(F(r["fnr0"]), fnr):
            fails.append(("C20/from_metrics/fnr", f"FNR at threshold 0 is {r['fnr0'] and float(F(r['fnr0']))}, requested {float(fnr)}"))
        if r["fpr0"] is None or not _close(F(r["fpr0"]), fpr):
            fails.append(("C20/from_metrics/fpr", f"FPR at threshold 0 is {r['fpr0'] and float(F(r['fpr0']))}, requested {float(fpr)}"))
        qp, qn = Fraction(case["fs"]) / fnr, Fraction(case["ps"]) / fpr
        okp = {math.floor(qp)} | ({math.floor(qp) - 1, math.floor(qp) + 1} if _near_integer(qp) else set())
        okn = {math.floor(qn)} | ({math.floor(qn) - 1, math.floor(qn) + 1} if _near_integer(qn) else set())
        if r["n"] not in {a + b for a in okp for b in okn}:
            fails.append(("C20/from_metrics/sizes", f"n = {r['n']}, implied floor({float(qp)}) + floor({float(qn)})"))
        elif not any(_close(F(r["p_pos"]), Fraction(a, r["n"])) for a in okp):
            fails.append(("C20/from_metrics/sizes", f"p_pos = {float(F(r['p_pos']))}, implied {math.floor(qp)}/{r['n']}"))
        want_sp, want_sn = (Fraction(1), Fraction(1)) if case["default_sigma"] else (F(case["sp"]), F(case["sn"]))
        if F(r["sp"]) != want_sp or F(r["sn"]) != want_sn or r["sc"] != "pos":
            fails.append(("C20/from_metrics/config", "sigma / score_class not as requested"))
    elif kind == "sample":
        n = case["n_arg"] if case["n_arg"] is not None else case["n_self"]
        p = F(case["p_arg"]) if case["p_arg"] is not None else F(case["p_self"])
        if len(r["pos"]) + len(r["neg"]) != n or r["real"]["n"] != n:
            fails.append(("C20/sample/size", f"{len(r['pos'])}+{len(r['neg'])} scores for n={n}"))
        if r["sc"] != case["sc"] or r["real"]["sc"] != case["sc"] or r["type"] != "Scores":
            fails.append(("C20/sample/direction", f"score_class {r['sc']} for a model with {case['sc']}"))
        calls = r["calls"]
        ok = (len(calls) == 3 and calls[0][0] == "binomial" and calls[0][1] == n and F(calls[0][2]) == p and calls[0][3] is None)
        if ok:
            k = calls[0][4][0]
            mu_n = F(r["mu_neg"])
            ok = (calls[1][:4] == ["normal", case["mu_pos"], case["sp"], k] and calls[2][:4] == ["normal", enc(mu_n), case["sn"], n - k]
                  and sorted(F(v) for v in calls[1][4]) == [F(v) for v in r["pos"]]
                  and sorted(F(v) for v in calls[2][4]) == [F(v) for v in r["neg"]])
        if not ok:
            fails.append(("C20/sample/split", f"sample() does not draw binomial(n, p_pos) positives from N(mu_pos, sigma_pos) and the "
                          f"rest from N(mu_neg, sigma_neg): calls {[c[:4] for c in calls]}"))
    elif kind == "bern":
        n = _n_eff(case)
        if n is None:
            if r.get("raised") != "ValueError":
                fails.append(("C20/bernoulli/size", "no dataset size but no ValueError"))
            return fails
        if r.get("raised"):
            return [("C20/bernoulli/exception", f"raised {r['raised']}: {r.get('msg')}")]
        p = F(case["p"])
        if r["shape"] != [n] or not r["int_dtype"] or any(v not in (0, 1) for v in r["data"]):
            fails.append(("C20/bernoulli/shape", f"shape {r['shape']} / values not 0-1 for n={n}"))
        if not case["random"]:
            x = n * p
            ok = {math.floor(x)} | ({math.floor(x) - 1, math.floor(x) + 1} if _near_integer(x) else set())
            for ones, where in ((sum(r["data"]), "recorded rng"), (r["real"].get("ones"), "numpy Generator")):
                if ones not in ok:
                    fails.append(("C20/bernoulli/count", f"{ones} successes in n={n} draws with p={float(p)} ({where}); "
                                  f"floor(n*p) = {math.floor(x)}"))
        elif r["real"].get("shape") != [n]:
            fails.append(("C20/bernoulli/shape", f"random sample shape {r['real'].get('shape')}"))
    elif kind == "corr":
        n = _n_eff(case)
        if n is None:
            if r.get("raised") != "ValueError":
                fails.append(("C20/correlated/size", "no dataset size but no ValueError"))
            return fails
        probs, _, _ = _corr_probs(case)
        exact = _corr_exact_floats(case)
        mn = min(probs)
        eps = Fraction(0) if exact else Fraction(1, 10 ** 12)
        if mn < -eps and r.get("raised") != "ValueError":
            fails.append(("C20/correlated/validity", f"joint probabilities {[float(q) for q in probs]} contain a negative one but no ValueError"))
        if mn >= eps and r.get("raised"):
            fails.append(("C20/correlated/validity", f"ValueError although the joint probabilities {[float(q) for q in probs]} are non-negative"))
        if abs(sum(probs) - 1) > Fraction(1, 10 ** 30):
            fails.append(("C20/correlated/validity", "reference probabilities do not sum to one"))
        if r.get("raised") or mn < eps:
            return fails
        if r["shape"] != [2, n] or not r["int_dtype"] or any(v not in (0, 1) for v in r["r0"] + r["r1"]) or \
                r["real"].get("shape") != [2, n] or not r["real"].get("all01"):
            fails.append(("C20/correlated/shape", f"shape {r['shape']} / values not 0-1 for n={n}"))
        if not case["random"]:
            p1, p2 = F(case["p1"]), F(case["p2"])
            for nm_, ones, pi in (("first", sum(r["r0"]), p1), ("second", sum(r["r1"]), p2),
                                  ("first", r["real"].get("ones0"), p1), ("second", r["real"].get("ones1"), p2)):
                if ones is None or abs(ones - n * pi) > 3:
                    fails.append(("C20/correlated/marginal", f"{nm_} variable: {ones} successes in n={n}, n*p = {float(n * pi)}: "
                                  f"more than three draws off"))
    return fails


# ------------------------------------------------------------------ correspondence
def _oz(v):
    return "None" if v is None else f"(Some {cq.z(v)})"


def _tab(pairs):
    return "(oracle_tab [" + "; ".join(f"({cq.q(F(a))}, {cq.q(F(b))})" for a, b in pairs) + "])"


def _ds(case, mu_neg, p_pos="(1#2)", n="None"):
    return (f"(normal_dataset {cq.q(F(case['mu_pos']))} (Some {cq.q(F(mu_neg))}) {cq.q(F(case['sp']))} {cq.q(F(case['sn']))} "
            f"{p_pos} {n} {cq.label(case['sc'])})")


def _call(c):
    if c[0] == "binomial":
        return f"(CBinomial {cq.z(c[1])} {cq.q(F(c[2]))} {_oz(c[3])})"
    if c[0] == "normal":
        return f"(CNormal {cq.q(F(c[1]))} {cq.q(F(c[2]))} {cq.z(c[3])})"
    if c[0] == "shuffle":
        return f"(CShuffle {cq.z(c[1])})"
    return f"(CChoice {cq.z(c[1])} {cq.z(c[2])} {cq.qlist(F(v) for v in c[3])})"


def _nats(xs):
    return "[" + "; ".join(cq.nat(i) for i in xs) + "]"


TOL = Fraction(1, 2 ** 36)


def coq_term(case, res):
    if "ok" not in res:
        return "false"
    r = res["ok"]
    kind = case["kind"]
    if kind == "normal":
        if any(v is None for key in ("t_fnr", "t_fpr", "fnr", "fpr") for v in r[key]):
            return None
        d = _ds(case, r["mu_neg"])
        tabs = r["tabs"]
        cdf, ppf, sf, isf = (_tab(tabs[k]) for k in ("cdf", "ppf", "sf", "isf"))
        rates = cq.qlist([F(v) for v in case["rates"]][: len(r["t_fnr"])])
        thr = cq.qlist([F(v) for v in case["thr"]][: len(r["fnr"])])
        scale = max([abs(F(v)) for key in ("t_fnr", "t_fpr") for v in r[key]] + [Fraction(1)])
        tol = cq.q(TOL * scale)
        parts = [f"qlist_close20 {tol} (map (nd_threshold_at_fnr {ppf} {d}) {rates}) {cq.qlist(F(v) for v in r['t_fnr'])}",
                 f"qlist_close20 {tol} (map (nd_threshold_at_fpr {isf} {d}) {rates}) {cq.qlist(F(v) for v in r['t_fpr'])}",
                 f"qlist_close20 {tol} (map (nd_fnr {cdf} {d}) {thr}) {cq.qlist(F(v) for v in r['fnr'])}",
                 f"qlist_close20 {tol} (map (nd_fpr {sf} {d}) {thr}) {cq.qlist(F(v) for v in r['fpr'])}"]
        roc = r["roc"]
        fa = f"(Some {rates})" if case["roc"] in ("fnr", "both") else "None"
        fb = f"(Some {rates})" if case["roc"] in ("fpr", "both") else "None"
        if roc.get("raised"):
            parts.append(f"roc_agree {tol} (nd_roc {cdf} {ppf} {sf} {isf} {d} {fa} {fb}) true [] [] []")
        elif any(v is None for key in ("fnr", "fpr", "thresholds") for v in roc[key]):
            return None
        else:
            parts.append(f"roc_agree {tol} (nd_roc {cdf} {ppf} {sf} {isf} {d} {fa} {fb}) false {cq.qlist(F(v) for v in roc['fnr'])} "
                         f"{cq.qlist(F(v) for v in roc['fpr'])} {cq.qlist(F(v) for v in roc['thresholds'])}")
        return "(" + " && ".join(parts) + ")"
    if kind == "fm":
        fnr, fpr = F(case["fnr"]), F(case["fpr"])
        if _near_integer(Fraction(case["fs"]) / fnr) or _near_integer(Fraction(case["ps"]) / fpr):
            return None
        sp, sn = (Fraction(1), Fraction(1)) if case["default_sigma"] else (F(case["sp"]), F(case["sn"]))
        scale = max(abs(F(r["mu_pos"])), abs(F(r["mu_neg"])), 1)
        return (f"(nds_agree {cq.q(TOL * scale)} (nd_from_metrics {_tab(r['tabs']['ppf'])} {cq.q(fnr)} {cq.q(fpr)} {cq.z(case['fs'])} "
                f"{cq.z(case['ps'])} {cq.q(sp)} {cq.q(sn)}) {cq.q(F(r['mu_pos']))} {cq.q(F(r['mu_neg']))} {cq.q(F(r['sp']))} "
                f"{cq.q(F(r['sn']))} {cq.q(F(r['p_pos']))} (Some {cq.z(r['n'])}) {cq.label(r['sc'])})")
    if kind == "sample":
        calls = r["calls"]
        if len(calls) != 3 or [c[0] for c in calls] != ["binomial", "normal", "normal"]:
            return "false"
        d = _ds(case, r["mu_neg"], p_pos=cq.q(F(case["p_self"])), n=_oz(case["n_self"]))
        p_arg = "None" if case["p_arg"] is None else f"(Some {cq.q(F(case['p_arg']))})"
        k = calls[0][4][0]
        return (f"(sample_agree (nd_sample {d} {_oz(case['n_arg'])} {p_arg} {cq.z(k)} {cq.qlist(F(v) for v in calls[1][4])} "
                f"{cq.qlist(F(v) for v in calls[2][4])}) [{'; '.join(_call(c) for c in calls)}] {cq.qlist(F(v) for v in r['pos'])} "
                f"{cq.qlist(F(v) for v in r['neg'])} {cq.label(r['sc'])})")
    if kind == "bern":
        n = _n_eff(case)
        p = F(case["p"])
        if n is not None and not case["random"] and _near_integer(n * p):
            return None
        calls = r["calls"]
        if r.get("raised"):
            h, data, cl = "(HShuffle [])", "[]", "[]"
        elif len(calls) != 1:
            return "false"
        else:
            c = calls[0]
            h = f"(HBinomial {cq.zlist(c[4])})" if c[0] == "binomial" else (f"(HShuffle {_nats(c[2])})" if c[0] == "shuffle" else None)
            if h is None:
                return "false"
            data, cl = cq.zlist(r["data"]), f"[{_call(c)}]"
        return (f"(bern_agree (bern_sample {cq.q(p)} {_oz(case['n_self'])} {_oz(case['n_arg'])} {cq.b(case['random'])} {h}) "
                f"{cq.b(bool(r.get('raised')))} {cl} {data})")
    if kind == "corr":
        n = _n_eff(case)
        probs, sq, prod = _corr_probs(case)
        exact = _corr_exact_floats(case)
        if n is not None and not exact:
            if min(abs(q) for q in probs) < Fraction(1, 10 ** 12):
                return None
            if not case["random"] and min(probs) >= 0 and any(_near_integer(n * q) for q in probs[:3]):
                return None
        calls = r["calls"]
        if r.get("raised"):
            h, r0, r1, cl = "(HShuffle [])", "[]", "[]", "[]"
        elif len(calls) != 1:
            return "false"
        else:
            c = calls[0]
            h = f"(HChoice {cq.zlist(c[4])})" if c[0] == "choice" else (f"(HShuffle {_nats(c[2])})" if c[0] == "shuffle" else None)
            if h is None:
                return "false"
            r0, r1, cl = cq.zlist(r["r0"]), cq.zlist(r["r1"]), f"[{_call(c)}]"
        sqf = f"(oracle_tab [({cq.q(prod)}, {cq.q(sq)})])"
        return (f"(corr_agree {cq.q(TOL)} (corr_sample {sqf} {cq.q(F(case['p1']))} {cq.q(F(case['p2']))} {cq.q(F(case['rho']))} "
                f"{_oz(case['n_self'])} {_oz(case['n_arg'])} {cq.b(case['random'])} {h}) {cq.b(bool(r.get('raised')))} {cl} {r0} {r1})")
    return None


# ------------------------------------------------------------------ bookkeeping
def nontrivial(case, res):
    if "ok" not in res:
        return False
    kind = case["kind"]
    if kind == "bern":
        n = _n_eff(case)
        return n is not None and not case["random"] and (n * F(case["p"])).denominator != 1
    if kind == "corr":
        return _n_eff(case) is not None and F(case["rho"]) != 0
    if kind == "fm":
        return (Fraction(case["fs"]) / F(case["fnr"])).denominator != 1
    return True


def distribution(cases, results):
    d = {"n": len(cases), "kind": {}, "bern": {"random": 0, "nonrandom": 0, "np_integer": 0, "np_near_integer": 0, "no_size": 0, "style": {}},
         "corr": {"random": 0, "nonrandom": 0, "rho_nonzero": 0, "raised": 0, "float_exact": 0, "no_size": 0, "style": {}},
         "normal": {"scalar": 0, "roc": {}, "mu_neg_default": 0, "score_class_neg": 0}, "errors": 0}
    for c, res in zip(cases, results):
        d["kind"][c["kind"]] = d["kind"].get(c["kind"], 0) + 1
        if "ok" not in res:
            d["errors"] += 1
            continue
        if c["kind"] == "bern":
            b = d["bern"]
            b["style"][c["style"]] = b["style"].get(c["style"], 0) + 1
            n = _n_eff(c)
            if n is None:
                b["no_size"] += 1
                continue
            b["random" if c["random"] else "nonrandom"] += 1
            x = n * F(c["p"])
            b["np_integer"] += x.denominator == 1
            b["np_near_integer"] += _near_integer(x)
        elif c["kind"] == "corr":
            b = d["corr"]
            b["style"][c["style"]] = b["style"].get(c["style"], 0) + 1
            if _n_eff(c) is None:
                b["no_size"] += 1
                continue
            b["random" if c["random"] else "nonrandom"] += 1
            b["rho_nonzero"] += F(c["rho"]) != 0
            b["raised"] += bool(res["ok"].get("raised"))
            b["float_exact"] += _corr_exact_floats(c)
        elif c["kind"] == "normal":
            b = d["normal"]
            b["scalar"] += bool(c["scalar"])
            b["roc"][c["roc"]] = b["roc"].get(c["roc"], 0) + 1
            b["mu_neg_default"] += c["mu_neg"] is None
            b["score_class_neg"] += c["sc"] == "neg"
    return d
