"""C06 — EER is a crossing point: FPR and FNR at its threshold agree with the EER."""
from fractions import Fraction

from harness import coqio as cq
from harness import thr_common as tc
from harness.common import CONFIGS, F, enc, fl, pick_dtype

ID = "C06"
PROPS_FILE = "Props/C06.v"
COQ_IMPORTS = ("From SA Require Import Model.Harness.\nFrom SA Require Model.FloatThreshold Model.FloatEer.\n"
               "From Coq Require Import Floats.PrimFloat.")
GEN_AVAILABLE = set()
XTOL = Fraction(1e-10)
RULE = ("Scores with both classes non-empty: overlapping, perfectly separated, perfectly inverted (edge branch with equal "
        "and unequal easy ratios), boundary ties, flat spots; 4 configurations; easy counts; stream E (class sizes and "
        "size+easy powers of two, small dyadic distinct scores) compared bit-for-bit with the model incl. the bisection; "
        "stream F oracle only; non-trivial: classes overlap or easy samples present")
TRUSTED = ["Model/FloatEer.v + Model/FloatThreshold.v (binary64 models over Coq primitive floats, compared bit for bit on every case): kernel float primitives + vm_compute on hardware doubles; correspondence only, no theorem depends on them",
           "np.isclose / 1e-10 / 1e-8 / 1e-5 as the exact rationals of the doubles",
           "bisection midpoints of dyadic intervals are exact in binary64 (stream E)"]
ASSUMPTIONS = ["both classes non-empty", "crossing clauses: no value repeated within or across classes, moderate magnitude; "
               "zero-EER clause: all inputs"]


def _ties():
    from harness.translate import scores_tr
    return [{"name": "scores.eer", "translate": scores_tr.translate_eer, "gen_file": "Gen_eer.v", "tie_file": "Tie_eer.v"},
            {"name": "scores.threshold-setting", "translate": scores_tr.translate_thresholds, "gen_file": "Gen_thr.v", "tie_file": "Tie_thr.v"}]


TIES = _ties()


def _distinct(rng, n, lo=-40, hi=40, den=4):
    return [Fraction(v, den) for v in rng.sample(range(lo, hi), n)]


def gen_case(rng, exact):
    sc, ec = rng.choice(CONFIGS)
    kind = rng.choice(["overlap", "overlap", "overlap", "separated", "inverted", "boundary-tie", "ties"])
    if exact:
        npos, nneg = rng.choice([1, 2, 4, 8]), rng.choice([1, 2, 4, 8])
        ep, en = rng.choice([0, 0, npos, 3 * npos]), rng.choice([0, 0, nneg, 3 * nneg])
    else:
        npos, nneg = rng.randint(1, 9), rng.randint(1, 9)
        ep, en = rng.choice([0, 0, 1, 5]), rng.choice([0, 0, 2, 7])
    vals = _distinct(rng, npos + nneg)
    if kind == "overlap":
        pos, neg = vals[:npos], vals[npos:]
    elif kind in ("separated", "inverted"):
        vals.sort()
        hi_is_pos = (sc == "pos") == (kind == "separated")
        pos, neg = (vals[nneg:], vals[:nneg]) if hi_is_pos else (vals[:npos], vals[npos:])
    elif kind == "boundary-tie":
        vals.sort()
        if sc == "pos":
            neg, pos = vals[:nneg], vals[nneg:]
            pos[0] = neg[-1]
        else:
            pos, neg = vals[:npos], vals[npos:]
            neg[0] = pos[-1]
    else:
        pool = [Fraction(rng.randint(-3, 3)) for _ in range(3)]
        pos, neg = [rng.choice(pool) for _ in range(npos)], [rng.choice(pool) for _ in range(nneg)]
    return {"pos": [enc(x) for x in pos], "neg": [enc(x) for x in neg], "ep": ep, "en": en, "sc": sc, "ec": ec,
            "exact": exact, "kind": kind, "dtype": pick_dtype(rng, pos + neg),
            "warmup": rng.choice([[], [], ["topr"], ["tonr", "tpr"], ["fnr"]]), "a": enc(rng.choice([Fraction(1, 2), Fraction(2), Fraction(4)])),
            "b": enc(Fraction(rng.randint(-8, 8), 2))}


def gen_cases(rng, tier):
    n = {"quick": 260, "thorough": 4000, "search": 2500}[tier]
    cases = [gen_case(rng, rng.random() < 0.6) for _ in range(n)]
    # narrow integer dtypes with scores near the end of the dtype's range (quantised scores): sums of two scores do not fit
    for j in range({"quick": 8, "thorough": 60, "search": 20}[tier]):
        dt = ["int8", "uint8", "int8", "uint8", "int16", "uint16"][j % 6]
        top = {"int8": 127, "uint8": 255, "int16": 32767, "uint16": 65535}[dt]
        lo = top - rng.randint(30, 60)
        vals = sorted(rng.sample(range(lo, top + 1), rng.randint(4, 10)))
        sc, ec = rng.choice(CONFIGS)
        kind = rng.choice(["separated", "separated", "overlap", "inverted"])
        k = rng.randint(1, len(vals) - 1)
        if kind == "overlap":
            rng.shuffle(vals)
            pos, neg = vals[:k], vals[k:]
        else:
            hi_is_pos = (sc == "pos") == (kind == "separated")
            pos, neg = (vals[k:], vals[:k]) if hi_is_pos else (vals[:k], vals[k:])
        cases.append({"pos": [enc(Fraction(x)) for x in pos], "neg": [enc(Fraction(x)) for x in neg], "ep": rng.choice([0, 0, 3]),
                      "en": rng.choice([0, 2]), "sc": sc, "ec": ec, "exact": False, "kind": kind + "-narrow-int", "dtype": dt,
                      "warmup": [], "a": enc(Fraction(1, 2)), "b": enc(Fraction(1))})
    # finely spaced scores of moderate magnitude (0.5 + k * 2^-34, about 6e-11 apart): comparisons of thresholds must stay
    # exact — a tolerance of 1e-8 in score units merges hundreds of them
    for j in range({"quick": 10, "thorough": 80, "search": 30}[tier]):
        n = rng.randint(12, 40)
        ks = rng.sample(range(1, 4096), n)
        vals = [Fraction(1, 2) + Fraction(k, 2 ** 34) for k in ks]
        npos = rng.randint(n // 3, 2 * n // 3)
        sc, ec = rng.choice(CONFIGS)
        cases.append({"pos": [enc(x) for x in vals[:npos]], "neg": [enc(x) for x in vals[npos:]], "ep": rng.choice([0, 0, 2]),
                      "en": rng.choice([0, 0, 3]), "sc": sc, "ec": ec, "exact": False, "kind": "overlap-fine", "dtype": "float64",
                      "warmup": [], "a": enc(Fraction(2)), "b": enc(Fraction(rng.randint(-4, 4), 2))})
    return cases


def run_impl(case):
    import numpy as np
    from score_analysis import Scores

    dt = np.dtype(case.get("dtype", "float64"))     # values exactly representable in the chosen dtype
    pos = np.array([fl(x) for x in case["pos"]], dtype=float).astype(dt)
    neg = np.array([fl(x) for x in case["neg"]], dtype=float).astype(dt)
    kw = dict(nb_easy_pos=case["ep"], nb_easy_neg=case["en"], score_class=case["sc"], equal_class=case["ec"])
    s = Scores(pos, neg, **kw)
    for w in case.get("warmup", []):      # other queries made on the same object first
        getattr(s, "threshold_at_" + w)(np.array([0.0, 0.4, 1.0]))
    t, e = s.eer()
    out = {"t": enc(float(t)), "e": enc(float(e)), "fpr": enc(float(s.fpr(t))), "fnr": enc(float(s.fnr(t))),
           "hard": [enc(float(s.hard_pos_ratio)), enc(float(s.hard_neg_ratio))]}
    # hypotheses of the two FNR-side theorems (evidence only): is the returned threshold the FNR-side threshold for e
    # (exact root), and if not, does a scored positive separate the two (C06_fnr_side_same_gap_partial)
    tf = s.threshold_at_fnr(e)
    out["exact_root"] = bool(float(tf) == float(t))
    out["same_gap"] = bool(int(s.cm(t).fn()) == int(s.cm(tf).fn()))
    if "a" in case:
        a, b = fl(case["a"]), fl(case["b"])
        t2, e2 = Scores(a * pos.astype(float) + b, a * neg.astype(float) + b, **kw).eer()
        out["aff"] = [enc(float(t2)), enc(float(e2))]
    # reversing the score direction: negated scores, score_class flipped, same equal_class
    kwn = dict(kw, score_class="neg" if case["sc"] == "pos" else "pos")
    t3, e3 = Scores(-pos.astype(float), -neg.astype(float), **kwn).eer()
    out["rev"] = [enc(float(t3)), enc(float(e3))]
    return out


def _float_term(case, r):
    """binary64 model (Model/FloatEer.v): (t, e) bit for bit, on every input (every dtype: all arithmetic of eer() is
    done in double precision since the fix of the perfect-separation midpoint)"""
    lab = {"pos": "FloatThreshold.FPos", "neg": "FloatThreshold.FNeg"}
    pos = sorted(fl(x) for x in case["pos"])
    neg = sorted(fl(x) for x in case["neg"])
    s = (f"(FloatThreshold.mkF {cq.f64list(pos)} {cq.f64list(neg)} {cq.z(case['ep'])} {cq.z(case['en'])} "
         f"{lab[case['sc']]} {lab[case['ec']]})")
    return f"(FloatEer.eer_agree (FloatEer.eer_f 200 {s}) {cq.f64(fl(r['t']))} {cq.f64(fl(r['e']))})"


def coq_term(case, res):
    if "ok" not in res:
        return "false"
    r = res["ok"]
    ft = _float_term(case, r)
    if not case.get("exact"):
        return ft          # arbitrary doubles: the binary64 model only
    # e is compared exactly; t within a few ulp (adding two sentinels, e.g. (pred a + succ b)/2, rounds in binary64)
    tol = tc.tau(dict(case, metric="topr"))
    q = f"eer_agree {cq.q(tol)} 0 {tc.scores_term(case)} {cq.q(F(r['t']))} {cq.q(F(r['e']))}"
    return q + (f" && {ft}" if ft else "")


def _gaps(vals):
    vals = sorted(vals)
    return [b - a for a, b in zip(vals, vals[1:])]


def oracle(case, res):
    if "ok" not in res:
        return [("C06/exception", f"eer() raised {res.get('err')}: {res.get('msg')}")]
    r = res["ok"]
    fails = []
    cfg = case["sc"] + "-" + case["ec"]
    pos, neg = [F(x) for x in case["pos"]], [F(x) for x in case["neg"]]
    t, e, fpr, fnr = F(r["t"]), F(r["e"]), F(r["fpr"]), F(r["fnr"])
    eps = Fraction(1, 10 ** 9)
    npa, nna = len(pos) + case["ep"], len(neg) + case["en"]
    cap = min(Fraction(len(pos), npa), Fraction(len(neg), nna))
    if not (0 <= e <= cap + eps) or e > 1:
        fails.append((f"C06/range/{cfg}", f"eer {e} outside [0, min hard fraction {cap}]"))
    if e == 0 and (fpr != 0 or fnr != 0):
        fails.append((f"C06/zero-clause/{cfg}", f"reported EER 0 at threshold {t} where FPR={fpr}, FNR={fnr}"))
    allv = pos + neg
    if len(set(allv)) == len(allv):   # crossing clauses: no value repeated within or across classes
        if abs(fpr - e) > Fraction(1, nna) + eps:
            fails.append((f"C06/fpr-side/{cfg}", f"FPR(t)={fpr} differs from eer {e} by more than one sample 1/{nna}"))
        if abs(fnr - e) > Fraction(1, npa) + eps:
            gp, gn = _gaps(pos), _gaps(neg)
            rho = (len(neg) * (max(gn) if gn else 0) * XTOL / min(gp)) if gp else 0
            kind = "xtol-exceeds-positive-gap" if rho >= Fraction(1, 4) else "separated"
            fails.append((f"C06/fnr-side/{kind}/{cfg}", f"FNR(t)={fnr} differs from eer {e} by more than one sample 1/{npa} (rho={float(rho):.3g})"))
        # conditioning of the crossing: the bisected function t_fpr(x) - t_fnr(x) has slope >= N * (smallest gap within a class),
        # so a rounding error of one ulp in a threshold moves the crossing by ulp / (N * gap); only for scores ~1e-10 apart does
        # this exceed the base tolerance
        gaps_ = [g_ for g_ in _gaps(pos) + _gaps(neg) if g_ > 0]
        a_abs = abs(F(case["a"])) if "a" in case else Fraction(1)
        scale_ = max([abs(v) for v in allv] + [Fraction(1)]) * max(a_abs, 1) + (abs(F(case["b"])) if "b" in case else 0)
        eps_e = eps + (16 * scale_ * Fraction(1, 2 ** 52) / (min(gaps_) * min(len(pos), len(neg))) if gaps_ else 0)
        if "aff" in r:
            a, b = F(case["a"]), F(case["b"])
            t2, e2 = F(r["aff"][0]), F(r["aff"][1])
            spread = max(allv) - min(allv) + 1
            if abs(e2 - e) > eps_e:
                fails.append((f"C06/affine-eer/{cfg}", f"eer {e} became {e2} under x -> {a}x+{b}"))
            if abs(t2 - (a * t + b)) > a * (eps * len(allv) * spread + Fraction(1, 2 ** 40)):
                fails.append((f"C06/affine-threshold/{cfg}", f"threshold {t} mapped to {t2}, expected {a * t + b}"))
        if "rev" in r:
            t3, e3 = F(r["rev"][0]), F(r["rev"][1])
            spread = max(allv) - min(allv) + 1
            if abs(e3 - e) > eps_e:
                fails.append((f"C06/reverse-eer/{cfg}", f"eer {e} became {e3} when the scores are negated and score_class flipped"))
            if abs(t3 + t) > eps * len(allv) * spread + Fraction(1, 2 ** 40):
                fails.append((f"C06/reverse-threshold/{cfg}", f"threshold {t}: the reversed object returns {t3}, expected {-t}"))
    return fails


def nontrivial(case, res):
    pos, neg = [F(x) for x in case["pos"]], [F(x) for x in case["neg"]]
    overlap = min(pos) <= max(neg) and min(neg) <= max(pos)
    return overlap or case["ep"] > 0 or case["en"] > 0


def distribution(cases, results):
    d = {"n": len(cases), "kind": {}, "exact_stream": 0, "cfg": {}, "with_easy": 0, "errors": 0, "eer_zero": 0, "eer_at_cap": 0,
         "fnr_theorem_hypothesis": {"exact_root": 0, "same_gap_only": 0, "separated": 0}}
    for c, r in zip(cases, results):
        d["kind"][c.get("kind", "?")] = d["kind"].get(c.get("kind", "?"), 0) + 1
        d["exact_stream"] += bool(c.get("exact"))
        k = c["sc"] + "/" + c["ec"]
        d["cfg"][k] = d["cfg"].get(k, 0) + 1
        d["with_easy"] += bool(c["ep"] or c["en"])
        d["errors"] += "ok" not in r
        if "ok" in r:
            d["eer_zero"] += F(r["ok"]["e"]) == 0
            hp, hn = (F(x) for x in r["ok"]["hard"])
            d["eer_at_cap"] += F(r["ok"]["e"]) == min(hp, hn)
            h = d["fnr_theorem_hypothesis"]
            h["exact_root" if r["ok"].get("exact_root") else ("same_gap_only" if r["ok"].get("same_gap") else "separated")] += 1
    return d
