"""C04 — binary metrics: defining algebra, complements, [0,1] range, NaN rule, normal-approximation CIs.

Ties (all inputs): every function of metrics.py + utils.binomial_ci regenerated and proved equal to the hand
model (Tie_metrics.v); the ConfusionMatrix wrapper table of cm.py (Tie_cm_wrappers.v).
Correspondence: model (vm_compute) vs metrics.* on generated matrices, stacked inputs elementwise.
Oracle: every clause of the property text on the outputs of metrics.* and of ConfusionMatrix(binary=True).*."""
import math
from fractions import Fraction
from statistics import NormalDist

from harness import coqio as cq
from harness.common import F, enc, fl

ID = "C04"
PROPS_FILE = "Props/C04.v"
COQ_IMPORTS = ("From SA Require Import Model.HarnessMetrics.\nFrom SA Require Model.FloatMetrics.\nFrom SA Require Model.NarrowInt.\n"
               "From Coq Require Import Floats.PrimFloat.")
GEN_AVAILABLE = set()
CHUNK = 14  # cases per generated .v file (literals with 2^53 denominators are slow to parse; files run in parallel)
RULE = ("structured 2x2 matrices (all-zero, each zero row / zero column, single non-zero cell, diagonal, anti-diagonal, "
        "all-equal, distinct positive, large counts up to 2^31, dyadic floats k/4, arbitrary doubles, tiny/huge floats) "
        "of dtype int64 or float64, stacked with leading shapes (), (k,), (j,k), (0,), two alphas in (0,1) per case; "
        "a case is non-trivial when some matrix has one zero and one non-zero denominator, or four distinct positive cells")
TRUSTED = ["NumPy elementwise arithmetic on a stacked array = the scalar operation at every index (checked elementwise)",
           "np.divide(n, d, out=full_like(nan), where=d != 0) = NaN-filled masked division (modelled as rdiv)",
           "scipy.stats.norm.isf and np.sqrt are oracles (Section variables): the CI theorems assume sqrt is a function "
           "of its argument's value, sqrt >= 0, isf antitone; the oracle compares z with the standard library's "
           "statistics.NormalDist().inv_cdf (1e-9 relative)",
           "IEEE-754: a rate of an integer matrix is one correctly rounded division (demanded exactly by the oracle)",
           "Model/FloatMetrics.v: binary64 model (Coq primitive floats, kernel-evaluated) of the eight two-term rates and of "
           "binomial_ci (p, sqrt((p(1-p))/n), z*std, p -+ dist) with the recorded z; compared bit for bit, NaN matching NaN, on "
           "every matrix whose cells are doubles (integer matrices below 2^53)"]
ASSUMPTIONS = ["finite non-negative cells whose sums do not overflow (|cell| < 2^200) and integer cells below 2^53",
               "float matrices whose sums round: definitions compared up to 4 ulp, identities '= 1' up to 2^-49",
               "alpha strictly inside (0,1); the two alphas of a case differ by at least 1%"]

Q_NAMES = ["tp", "tn", "fp", "fn", "p", "n", "top", "ton", "pop"]
R_NAMES = ["accuracy", "error_rate", "tpr", "tnr", "fpr", "fnr", "tar", "frr", "trr", "far", "topr", "tonr",
           "acceptance_rate", "rejection_rate", "ppv", "npv", "fdr", "for_"]
CI_NAMES = ["tpr_ci", "tnr_ci", "fpr_ci", "fnr_ci", "tar_ci", "frr_ci", "trr_ci", "far_ci"]
# functions documented (and tested) to reduce a 0-d result to a Python scalar; counts are plain selections / sums
SCALAR_RATES = set(R_NAMES) | {"class_accuracy", "class_error_rate"}
CM_EXTRA = {"class_accuracy": "accuracy", "class_error_rate": "error_rate"}
ALIAS = {"tar": "tpr", "frr": "fnr", "trr": "tnr", "far": "fpr", "acceptance_rate": "topr", "rejection_rate": "tonr"}


def _ties():
    from harness.translate import metrics_tr
    return [{"name": "metrics.py+utils.binomial_ci", "translate": metrics_tr.translate_metrics,
             "gen_file": "Gen_metrics.v", "tie_file": "Tie_metrics.v"},
            {"name": "cm.py:ConfusionMatrix wrappers", "translate": metrics_tr.translate_cm_wrappers,
             "gen_file": "Gen_cm_wrappers.v", "tie_file": "Tie_cm_wrappers.v"}]


TIES = _ties()

# ---------------------------------------------------------------------------------------------- generation
KINDS = ["zero", "row0", "row1", "col0", "col1", "single", "diag", "anti", "equal", "distinct", "small", "small"]


def _cells(rng, kind, val):
    v = [val() for _ in range(4)]
    while kind in ("distinct",) and (len(set(v)) < 4 or min(v) == 0):
        v = [val() for _ in range(4)]
    a, b, c, d = v
    nz = lambda x: x if x != 0 else val() + v[0] + 1  # noqa: E731
    if kind == "zero":
        return [0, 0, 0, 0]
    if kind == "row0":   # no positives: P = 0
        return [0, 0, nz(c), d]
    if kind == "row1":   # N = 0
        return [nz(a), b, 0, 0]
    if kind == "col0":   # TOP = 0
        return [0, nz(b), 0, d]
    if kind == "col1":   # TON = 0
        return [nz(a), 0, c, 0]
    if kind == "single":
        out = [0, 0, 0, 0]
        out[rng.randrange(4)] = nz(a)
        return out
    if kind == "diag":
        return [nz(a), 0, 0, nz(d)]
    if kind == "anti":
        return [0, nz(b), nz(c), 0]
    if kind == "equal":
        return [nz(a)] * 4
    return v


def _matrix(rng, dtype, flavour):
    kind = rng.choice(KINDS)
    if dtype == "int":
        if flavour == "big":
            val = lambda: rng.choice([0, 1, rng.randint(1, 2 ** 31), rng.randint(10 ** 5, 10 ** 7)])  # noqa: E731
        else:
            val = lambda: rng.randint(0, 12)  # noqa: E731
        return [enc(x) for x in _cells(rng, kind, val)]
    if flavour == "dyadic":
        val = lambda: Fraction(rng.randint(0, 40), 4)  # noqa: E731
    elif flavour == "double":
        val = lambda: Fraction(abs(rng.gauss(0, 3))) if rng.random() < 0.85 else Fraction(0)  # noqa: E731
    else:  # scale: tiny or huge magnitude, the same for the four cells of one matrix (no cancellation in 1 - p)
        mag = 10.0 ** rng.choice([-12, -6, 0, 6, 12])
        val = lambda: Fraction((0.05 + rng.random()) * mag) if rng.random() < 0.85 else Fraction(0)  # noqa: E731
    return [enc(x) for x in _cells(rng, kind, val)]


ALPHAS = [0.001, 0.01, 0.05, 0.1, 0.2, 0.5, 0.8, 0.95, 0.99]


def gen_cases(rng, tier):
    n = {"quick": 260, "thorough": 4000, "search": 1500}[tier]
    cases = []
    for k in range(n):
        dtype = "int" if (rng.random() < 0.55 or k < 24) else "float"   # small integer cases first: short replays
        flavour = ("small" if k < 24 else rng.choice(["small", "small", "big"])) if dtype == "int" else rng.choice(["dyadic", "dyadic", "double", "scale"])
        r = k % 8
        shape = [[], [], [1], [rng.randint(2, 4)], [rng.randint(2, 4)], [rng.randint(1, 3), rng.randint(1, 3)], [0],
                 [rng.choice([0, 2]), rng.choice([0, 2])]][r]
        size = 1
        for s in shape:
            size *= s
        mats = [_matrix(rng, dtype, flavour) for _ in range(size)]
        a1 = rng.choice(ALPHAS + [round(rng.uniform(0.002, 0.9), 4)])
        if k % 9 == 4:   # very high confidence levels: 1 - alpha/2 is not representable / rounds to 1.0
            a1 = rng.choice([1e-9, 1e-12, 1e-15, 1e-17, 1e-30, 1e-300])
        a2 = rng.choice([a for a in ALPHAS if a > a1 * 1.01 + 1e-9] + [min(0.995, a1 * 1.5 + 0.001)])
        cases.append({"dtype": dtype, "shape": shape, "mats": mats, "alphas": [enc(a1), enc(a2)]})
    return cases


# ---------------------------------------------------------------------------------------------- implementation
def _canon(res, want_tail):
    """-> {'type': scalar|array, 'pytype': name, 'shape': [...], 'vals': [exact or None]}"""
    import numpy as np

    arr = np.asarray(res)
    return {"type": "array" if isinstance(res, np.ndarray) else ("scalar" if np.isscalar(res) else type(res).__name__),
            "pytype": type(res).__name__, "shape": list(arr.shape),
            "vals": [enc(float(v)) for v in arr.reshape(-1)]}


def run_impl(case):
    import numpy as np
    import scipy.stats
    from score_analysis import ConfusionMatrix, metrics

    dt = np.int64 if case["dtype"] == "int" else np.float64
    flat = [[(int(Fraction(x)) if case["dtype"] == "int" else fl(x)) for x in m] for m in case["mats"]]
    arr = np.array(flat, dtype=dt).reshape(tuple(case["shape"]) + (2, 2))
    before = arr.copy()
    alphas = [fl(a) for a in case["alphas"]]
    out = {"metrics": {}, "cm": {}, "z": [enc(float(scipy.stats.norm.isf(a / 2.0))) for a in alphas]}
    for name in Q_NAMES + R_NAMES:
        out["metrics"][name] = _canon(getattr(metrics, name)(arr), ())
    for name in CI_NAMES:
        out["metrics"][name] = [_canon(getattr(metrics, name)(arr, a), (2,)) for a in alphas]
    cm = ConfusionMatrix(matrix=arr, binary=True)
    for name in Q_NAMES + R_NAMES + list(CM_EXTRA):
        out["cm"][name] = _canon(getattr(cm, name)(), ())
    for name in CI_NAMES:
        out["cm"][name] = [_canon(getattr(cm, name)(alpha=a), (2,)) for a in alphas]
    # bound methods taken from one matrix stay bound to it: the same names are looked up on ANOTHER matrix before they are called
    held = {name: getattr(cm, name) for name in Q_NAMES + R_NAMES + list(CM_EXTRA) + CI_NAMES}
    other = ConfusionMatrix(matrix=(arr[..., ::-1, :] * 2 + 1).copy(), binary=True)
    for name in held:
        getattr(other, name)
    held_bad = [name for name in Q_NAMES + R_NAMES + list(CM_EXTRA) if _canon(held[name](), ()) != out["cm"][name]]
    held_bad += [name for name in CI_NAMES if _canon(held[name](alpha=alphas[0]), (2,)) != out["cm"][name][0]]
    out["held_methods_bad"] = held_bad
    out["default_alpha"] = _canon(metrics.tpr_ci(arr), (2,))["vals"] == _canon(metrics.tpr_ci(arr, 0.05), (2,))["vals"]
    out["unchanged"] = bool(np.array_equal(arr, before))
    # the same kind of integer matrix held in a narrow integer dtype, cells up to the top of the dtype's range (sums of
    # two cells do not fit the dtype): every count and rate equals that of the same numbers held as int64
    narrow = []
    if case["dtype"] == "int" and arr.size:
        for ndt, mult in ((np.uint8, 37), (np.uint16, 9973), (np.int32, 104729 * 1009)):
            hi = int(np.iinfo(ndt).max)
            big = np.array([[(int(v) * mult + 11 * (i_ + 1)) % (hi + 1) for v in m_] for i_, m_ in enumerate(arr.reshape(-1, 4))],
                           dtype=np.int64).reshape(arr.shape)
            row = {"dtype": np.dtype(ndt).name, "matrix": [int(v) for v in big.reshape(-1)][:8], "promoting": [], "elementwise": []}
            for name in Q_NAMES + R_NAMES:
                try:
                    with np.errstate(all="ignore"):
                        same = bool(np.array_equal(np.asarray(getattr(metrics, name)(big.astype(ndt)), dtype=float),
                                                   np.asarray(getattr(metrics, name)(big), dtype=float), equal_nan=True))
                except Exception:
                    same = False
                if not same:
                    row["promoting" if name in ("tp", "tn", "fp", "fn", "pop", "accuracy", "error_rate") else "elementwise"].append(name)
            if np.dtype(ndt).kind == "u":
                first = big.reshape(-1, 2, 2)[:1].astype(ndt)
                row["obs"] = {"bits": int(np.dtype(ndt).itemsize * 8), "cells": [int(v) for v in first.reshape(-1)],
                              "sums": [int(np.asarray(getattr(metrics, nm_)(first)).reshape(-1)[0]) for nm_ in ("p", "n", "top", "ton", "pop")]}
            narrow.append(row)
    out["narrow_matrix"] = narrow
    return out


# ---------------------------------------------------------------------------------------------- model side
def _short_dyadic(fr):
    d = fr.denominator
    return d & (d - 1) == 0 and d <= 1 << 20


def _cm2(m):
    a, b, c, d = (F(x) for x in m)
    return f"(Build_cm2 {cq.q(a)} {cq.q(b)} {cq.q(c)} {cq.q(d)})"


def _exact_sums(m):
    """all partial sums of the four cells are representable doubles, so every count the code forms is exact"""
    v = [F(x) for x in m]
    for mask in range(1, 16):
        s = sum(v[i] for i in range(4) if mask >> i & 1)
        if Fraction(float(s)) != s:
            return False
    return True


F_RATES = ["tpr", "fnr", "tnr", "fpr", "ppv", "npv", "fdr", "for_"]
F_CIS = ["tpr_ci", "tnr_ci", "fpr_ci", "fnr_ci"]


def _f(v):
    return "PrimFloat.nan" if v is None else cq.f64(float(F(v)))


def _float_terms(case, res):
    """binary64 model (Model/FloatMetrics.v): the eight two-term rates and the four intervals, bit for bit"""
    r = res["ok"]["metrics"]
    mats = []
    for k, m in enumerate(case["mats"]):
        cells = [F(x) for x in m]
        if any(Fraction(float(c)) != c for c in cells) or (case["dtype"] == "int" and sum(cells) >= 2 ** 53):
            return []
        mats.append((k, "(FloatMetrics.mkFcm " + " ".join(cq.f64(float(c)) for c in (cells[0], cells[1], cells[2], cells[3])) + ")"))
    if not mats:
        return []
    rates = "; ".join(f"({t}, [{'; '.join(_f(r[nm]['vals'][k]) for nm in F_RATES)}])" for k, t in mats)
    terms = [f"FloatMetrics.frates_check [{rates}]"]
    for ai in range(len(case["alphas"])):
        z = F(res["ok"]["z"][ai])
        if z is None or z in (math.inf, -math.inf):
            continue
        rows = "; ".join("(%s, [%s])" % (t, "; ".join(
            f"({_f(r[nm][ai]['vals'][2 * k])}, {_f(r[nm][ai]['vals'][2 * k + 1])})" for nm in F_CIS)) for k, t in mats)
        terms.append(f"FloatMetrics.fcis_check {cq.f64(float(z))} [{rows}]")
    return terms


def coq_term(case, res):
    t = _coq_term_exact(case, res)
    if t is None or t == "false" or "ok" not in res:
        return t
    ft = _float_terms(case, res)
    # Model/NarrowInt.v (the wrap of the two-cell sums for unsigned narrow dtypes, used by C04_narrow_int_refuted) against the
    # sums the implementation returned for the derived uint8 / uint16 matrix
    for row in res["ok"].get("narrow_matrix") or []:
        o = row.get("obs")
        if o:
            c, sm, b = o["cells"], o["sums"], o["bits"]
            m_ = f"(NarrowInt.Build_cm2z {cq.z(c[0])} {cq.z(c[1])} {cq.z(c[2])} {cq.z(c[3])})"
            ft = list(ft) + [f"Z.eqb (NarrowInt.p_u {b} {m_}) {cq.z(sm[0])}", f"Z.eqb (NarrowInt.n_u {b} {m_}) {cq.z(sm[1])}",
                             f"Z.eqb (NarrowInt.top_u {b} {m_}) {cq.z(sm[2])}", f"Z.eqb (NarrowInt.ton_u {b} {m_}) {cq.z(sm[3])}",
                             f"Z.eqb (NarrowInt.pop_u {m_}) {cq.z(sm[4])}"]
    return f"({t} && " + " && ".join(ft) + ")" if ft else t


def _coq_term_exact(case, res):
    if "ok" not in res:
        return "false"
    r = res["ok"]["metrics"]
    if not case["mats"]:
        return None
    small = all(max(F(x) for x in m) < 2 ** 30 for m in case["mats"])
    exact = all(_exact_sums(m) for m in case["mats"])
    ms = "[" + "; ".join(_cm2(m) for m in case["mats"]) + "]"

    def qv(name):
        return "[" + "; ".join(f"({cq.b(exact)}, {cq.q(F(v))})" for v in r[name]["vals"]) + "]"

    def rv(name):
        out = []
        for v in r[name]["vals"]:
            if v is None:
                out.append("(true, None)")
            else:
                fr = F(v)
                out.append(f"({cq.b(exact and small and _short_dyadic(fr))}, Some {cq.q(fr)})")
        return "[" + "; ".join(out) + "]"

    def civ(name, k):
        vals = r[name][k]["vals"]
        pairs = [(vals[2 * i], vals[2 * i + 1]) for i in range(len(vals) // 2)]
        return "[" + "; ".join(f"({cq.rate(F(lo))}, {cq.rate(F(hi))})" for lo, hi in pairs) + "]"

    terms = [f"check_q ms [{'; '.join(qv(nm) for nm in Q_NAMES)}]", f"check_r ms [{'; '.join(rv(nm) for nm in R_NAMES)}]"]
    for m in case["mats"]:  # stream F: p(1-p) cancels in floating point, the fixed tolerance of ci_agree does not apply
        a, b, c, d = (F(x) for x in m)
        for x, y in ((a, b), (c, d)):
            if x + y > 0 and 0 < min(x, y) / (x + y) < Fraction(1, 10 ** 6) and x + y < 10 ** 6:
                return f"(let ms := {ms} in " + " && ".join(terms) + ")"
    for k, a in enumerate(case["alphas"]):
        z = F(res["ok"]["z"][k])
        if z is None or z <= 0:
            return "false"
        terms.append(f"check_ci ms {cq.q(F(a))} {cq.q(z)} [{'; '.join(civ(nm, k) for nm in CI_NAMES[:4])}]")
    return f"(let ms := {ms} in " + " && ".join(terms) + ")"


# ---------------------------------------------------------------------------------------------- oracle
TOL1 = Fraction(1, 2 ** 52)


def _rates(a, b, c, d):
    """name -> (numerator, denominator) of the defining quotient"""
    pop = a + b + c + d
    return {"accuracy": (a + d, pop), "error_rate": (b + c, pop), "tpr": (a, a + b), "fnr": (b, a + b),
            "tnr": (d, c + d), "fpr": (c, c + d), "topr": (a + c, pop), "tonr": (b + d, pop),
            "ppv": (a, a + c), "fdr": (c, a + c), "npv": (d, b + d), "for_": (b, b + d)}


COMPLEMENT = [("tpr", "fnr"), ("tnr", "fpr"), ("ppv", "fdr"), ("npv", "for_"), ("topr", "tonr"), ("accuracy", "error_rate")]
DIRECT = {"accuracy", "tpr", "fnr", "tnr", "fpr", "topr", "tonr", "ppv", "npv"}  # single division of two counts
CI_OF = {"tpr_ci": "tpr", "tnr_ci": "tnr", "fpr_ci": "fpr", "fnr_ci": "fnr",
         "tar_ci": "tpr", "frr_ci": "fnr", "trr_ci": "tnr", "far_ci": "fpr"}
MIRROR = [("tpr_ci", "fnr_ci"), ("tnr_ci", "fpr_ci"), ("tar_ci", "frr_ci"), ("trr_ci", "far_ci")]


def _zref(alpha):
    return -NormalDist().inv_cdf(float(alpha) / 2.0)


def _check_path(case, r, path, fails):
    shape = case["shape"]
    nm = len(case["mats"])
    is_int = case["dtype"] == "int"

    def bad(kind, msg):
        fails.append((f"C04/{kind}", f"[{path}] {msg}"))

    # ---- shapes and scalar/array return
    names = Q_NAMES + R_NAMES + (list(CM_EXTRA) if path == "cm" else [])
    for name in names:
        e = r[name]
        if e["shape"] != shape or len(e["vals"]) != nm:
            bad("shape", f"{name} on leading shape {shape} has shape {e['shape']}")
            return
        if shape == [] and name in SCALAR_RATES and e["type"] != "scalar":
            bad("scalar-return", f"{name} of a single 2x2 matrix returned {e['pytype']} (type {e['type']}), not a scalar")
        if shape != [] and e["type"] != "array":
            bad("shape", f"{name} on leading shape {shape} returned {e['pytype']}")
    for name in CI_NAMES:
        for e in r[name]:
            if e["shape"] != shape + [2] or e["type"] != "array":
                bad("shape", f"{name} on leading shape {shape} has shape {e['shape']} ({e['pytype']})")
                return
    for k, m in enumerate(case["mats"]):
        a, b, c, d = (F(x) for x in m)
        exact = is_int or _exact_sums(m)
        tol_def = Fraction(0) if exact else Fraction(4, 2 ** 53)
        tol_one = TOL1 if exact else Fraction(1, 2 ** 49)
        g = lambda name: F(r[name]["vals"][k])  # noqa: E731
        where = f"matrix {[str(x) for x in (a, b, c, d)]}"
        # ---- counts: definitions and P+N = TOP+TON = POP
        want_q = {"tp": a, "fn": b, "fp": c, "tn": d, "p": a + b, "n": c + d, "top": a + c, "ton": b + d, "pop": a + b + c + d}
        for name, w in want_q.items():
            v = g(name)
            if v is None or (v != w if exact else abs(v - w) > tol_def * 2 * abs(w)):
                bad(f"count/{name}", f"{name} = {v}, definition gives {w} on {where}")
        if None not in (g("p"), g("n"), g("top"), g("ton"), g("pop")):
            for lhs, nm2 in ((g("p") + g("n"), "P+N"), (g("top") + g("ton"), "TOP+TON")):
                if abs(lhs - g("pop")) > tol_def * 4 * abs(g("pop")):
                    bad("count/sum", f"{nm2} = {lhs} but POP = {g('pop')} on {where}")
        # ---- rates: definition, range, NaN locus
        defs = _rates(a, b, c, d)
        full = dict(defs)
        for al, base in ALIAS.items():
            full[al] = defs[base]
        if path == "cm":
            for al, base in CM_EXTRA.items():
                full[al] = defs[base]
        for name, (num, den) in full.items():
            v = g(name)
            if den == 0:
                if v is not None:
                    bad(f"nan/{name}", f"{name} = {v} although its denominator is 0 on {where}")
                continue
            if v is None:
                bad(f"nan/{name}", f"{name} is NaN although its denominator is {den} on {where}")
                continue
            if not (0 <= v <= 1):
                bad(f"range/{name}", f"{name} = {v} outside [0,1] on {where}")
            w = num / den
            base = ALIAS.get(name, CM_EXTRA.get(name, name))
            if base in DIRECT and exact:
                if v != Fraction(float(w)):
                    bad(f"def/{name}", f"{name} = {float(v)!r}, but {num}/{den} rounds to {float(w)!r} on {where}")
            elif abs(v - w) > max(tol_one, tol_def * w):
                bad(f"def/{name}", f"{name} = {float(v)!r}, definition gives {float(w)!r} on {where}")
        for x, y in COMPLEMENT:
            vx, vy = g(x), g(y)
            if (vx is None) != (vy is None):
                bad(f"complement/{x}+{y}", f"{x} = {vx}, {y} = {vy}: NaN in one only on {where}")
            elif vx is not None and abs(vx + vy - 1) > tol_one:
                bad(f"complement/{x}+{y}", f"{x} + {y} = {float(vx + vy)!r} on {where}")
        # ---- intervals
        cis = {}
        for ai, al in enumerate(case["alphas"]):
            alpha = F(al)
            z = _zref(alpha)
            cancel = {}
            for name in CI_NAMES:
                lo, hi = (F(x) for x in r[name][ai]["vals"][2 * k: 2 * k + 2])
                cis[(name, ai)] = (lo, hi)
                num, den = defs[CI_OF[name]]
                if den == 0:
                    if lo is not None or hi is not None:
                        bad(f"ci-nan/{name}", f"{name} = ({lo}, {hi}) although the rate is NaN on {where}")
                    continue
                if lo is None or hi is None:
                    bad(f"ci-nan/{name}", f"{name} has a NaN bound although the rate is {num}/{den} on {where}")
                    continue
                pr = num / den
                centre = (lo + hi) / 2
                if abs(centre - pr) > Fraction(1, 10 ** 12) * (1 + (hi - lo)):
                    bad(f"ci-centre/{name}", f"{name}(alpha={float(alpha)}) = ({float(lo)!r}, {float(hi)!r}) is centred on "
                        f"{float(centre)!r}, the rate is {float(pr)!r} on {where}")
                hw = float((hi - lo) / 2)
                want = z * math.sqrt(float(pr * (1 - pr) / den))
                # 1 - p is formed in floating point: when p is within 2^-k of 0 or 1 the factor p(1-p) loses k bits
                pm = min(pr, 1 - pr)
                cancel[name] = 0.0 if pm == 0 else 2.0 ** -50 / float(pm)
                if abs(hw - want) > 1e-9 * max(1.0, want) + want * cancel[name]:
                    bad(f"ci-width/{name}", f"{name}(alpha={float(alpha)}) half-width {hw!r}, z(alpha/2)*sqrt(p(1-p)/n) = {want!r} "
                        f"(p = {float(pr)!r}, n = {float(den)!r}) on {where}")
            for x, y in MIRROR:
                (l1, h1), (l2, h2) = cis[(x, ai)], cis[(y, ai)]
                if None in (l1, h1, l2, h2):
                    continue
                tolm = Fraction(1, 10 ** 12) * (1 + abs(h1 - l1)) + abs(h1 - l1) * Fraction(cancel.get(x, 0.0))
                if abs(l2 - (1 - h1)) > tolm or abs(h2 - (1 - l1)) > tolm:
                    bad(f"ci-mirror/{x}", f"{y} = ({float(l2)!r}, {float(h2)!r}) is not the mirror of {x} = ({float(l1)!r}, {float(h1)!r}) on {where}")
        # nested in alpha: alphas[0] < alphas[1] -> interval 0 contains interval 1
        if F(case["alphas"][0]) < F(case["alphas"][1]):
            for name in CI_NAMES:
                (l1, h1), (l2, h2) = cis[(name, 0)], cis[(name, 1)]
                if None in (l1, h1, l2, h2):
                    continue
                if not (l1 <= l2 and h2 <= h1):
                    bad(f"ci-nested/{name}", f"{name}: alpha={float(F(case['alphas'][0]))} gives ({float(l1)!r}, {float(h1)!r}), "
                        f"alpha={float(F(case['alphas'][1]))} gives ({float(l2)!r}, {float(h2)!r}) on {where}")


def oracle(case, res):
    if "ok" not in res:
        return [("C04/exception", f"metrics raised {res.get('err')}: {res.get('msg')}")]
    fails = []
    r = res["ok"]
    _check_path(case, r["metrics"], "metrics", fails)
    _check_path(case, r["cm"], "cm", fails)
    if r.get("held_methods_bad"):
        fails.append(("C04/history/held-bound-method", f"ConfusionMatrix methods {r['held_methods_bad'][:6]} taken from one object answer differently "
                      "after the same names were looked up on another ConfusionMatrix"))
    for row in r.get("narrow_matrix") or []:
        if row["promoting"]:
            fails.append(("C04/narrow-int-matrix/selections-and-totals", f"[{row['dtype']} matrix {row['matrix']}...] {row['promoting']} differ from the values "
                          "for the same numbers held as int64"))
        if row["elementwise"]:
            fails.append(("C04/narrow-int-matrix/two-cell-sums", f"[{row['dtype']} matrix {row['matrix']}...] {row['elementwise']} differ from the values for the "
                          "same numbers held as int64: P, N, TOP, TON are formed as cell + cell in the matrix's own narrow dtype"))
    for k, al in enumerate(case["alphas"]):
        z = F(r["z"][k])
        if z is None or abs(float(z) - _zref(F(al))) > 1e-9 * max(1.0, _zref(F(al))):
            fails.append(("C04/oracle-isf", f"scipy isf({float(F(al))}/2) = {z} vs NormalDist {_zref(F(al))}"))
    return fails


def nontrivial(case, res):
    for m in case["mats"]:
        a, b, c, d = (F(x) for x in m)
        dens = [a + b, c + d, a + c, b + d]
        if (any(x == 0 for x in dens) and any(x != 0 for x in dens)) or (len({a, b, c, d}) == 4 and min(a, b, c, d) > 0):
            return True
    return False


def distribution(cases, results):
    d = {"n": len(cases), "dtype": {}, "leading_shape": {}, "matrices": 0, "all_zero": 0, "P=0": 0, "N=0": 0, "TOP=0": 0,
         "TON=0": 0, "exact_sums": 0, "errors": 0}
    for c, r in zip(cases, results):
        d["dtype"][c["dtype"]] = d["dtype"].get(c["dtype"], 0) + 1
        k = str(tuple(c["shape"]))
        d["leading_shape"][k] = d["leading_shape"].get(k, 0) + 1
        for m in c["mats"]:
            a, b, cc, dd = (F(x) for x in m)
            d["matrices"] += 1
            d["all_zero"] += a + b + cc + dd == 0
            d["P=0"] += a + b == 0
            d["N=0"] += cc + dd == 0
            d["TOP=0"] += a + cc == 0
            d["TON=0"] += b + dd == 0
            d["exact_sums"] += _exact_sums(m)
        if "ok" not in r:
            d["errors"] += 1
    return d
