"""C14 — Scores.bootstrap_metric / bootstrap_ci: one row per sample, row j = metric of the j-th sample of the
configured sampler (names resolved on the object's own class, kwargs forwarded); bootstrap_ci = the documented CI
formula on those rows with metric(self) as estimate; identity sampler collapse; seeded reproducibility."""
import math
from fractions import Fraction

from harness import coqio as cq
from harness.common import CONFIGS, F, enc, fl
from harness.props import C13

ID = "C14"
PROPS_FILE = "Props/C14.v"
COQ_IMPORTS = ("From SA Require Import Model.BootHarness.\nFrom SA Require Model.FloatQuantile.\n"
               "From Coq Require Import Floats.PrimFloat.")
GEN_AVAILABLE = set()
RULE = ("Scores / a Scores subclass overriding tpr / GroupScores (2-3 groups) with small dyadic scores; metrics by name "
        "(tpr, fpr, fnr, tnr, eer, group_tpr, group_fpr) and callables with scalar / vector / matrix / integer output and "
        "kwargs (threshold scalar or array, a defaulted scale factor); custom deterministic counting samplers (shift by "
        "the call index, leave-one-out, identity), built-in samplers (replacement, single_pass, dynamic, proportion; "
        "stratified none / by_label / by_group; smoothing on Scores and, expecting the documented ValueError, on GroupScores) "
        "under np.random.seed; all three bootstrap methods; histories of 2-3 calls on one object with the same metric and "
        "kwarg names but other values (scalar and array thresholds).  A case is "
        "non-trivial when the replicate rows are not all equal, or the sampler is the identity with >= 2 samples")
TRUSTED = [
    "getattr(type(self), name) = first hit along the class chain [type(self), bases...] (modelled: lookup_mro)",
    "the for loop with res[j] = ... = list of rows in iteration order (modelled: for_rows); np.asarray/np.empty only fix "
    "shape and dtype",
    "a custom sampling_method callable may keep state: modelled as a function of the call index",
    "the built-in samplers are a parameter of this model (they are the subject of C11); the global NumPy RNG is a "
    "draw history: same seed and same call sequence = same history",
    "the harness records the samples by wrapping bootstrap_sample on the instance, the arguments of utils.bootstrap_ci by "
    "wrapping the module attribute, and norm.ppf/cdf as in C13 (pass-through wrappers in the driver process)",
    "translator whitelist of harness/translate/boot_tr.py (statement shapes of bootstrap_metric, bootstrap_ci and the "
    "tail of bootstrap_sample)",
] + C13.TRUSTED[:4]
ASSUMPTIONS = [
    "metrics are deterministic functions of (object, kwargs) returning arrays of a fixed shape",
    "alpha in (0,1); finite point estimates",
    "the CI formula is compared on the actual replicate rows handed to utils.bootstrap_ci, with the C13 tolerances",
]


def _ties():
    from harness.translate import boot_tr, bootci_tr
    return [{"name": "scores.bootstrap_metric/bootstrap_ci/bootstrap_sample-tail", "translate": boot_tr.translate_boot,
             "gen_file": "Gen_boot.v", "tie_file": "Tie_boot.v"},
            # the documented CI formula itself (property C13 carries its theorems)
            {"name": "utils.bootstrap_ci formulas", "translate": bootci_tr.translate_bootstrap_ci,
             "gen_file": "Gen_bootci.v", "tie_file": "Tie_bootci.v"}]


TIES = _ties()

NAME_METRICS = ["tpr", "fpr", "fnr", "tnr"]
ALPHAS = [0.05, 0.1, 0.2, 0.5, 0.25, 0.01]


# ------------------------------------------------------------------ generators
def _scores(rng, n):
    return [Fraction(rng.randint(-12, 12), 4) for _ in range(n)]


def _threshold(rng, pool):
    r = rng.random()
    if r < 0.5:
        return rng.choice(pool)
    if r < 0.8:
        return rng.choice(pool) + Fraction(1, 8)
    return Fraction(rng.randint(-14, 14), 4)


def _one_case(rng, k, force=None):
    force = force or {}
    kind = force.get("kind", rng.choice(["scores", "scores", "sub", "group", "group"]))
    npos, nneg = rng.randint(3, 10), rng.randint(3, 10)
    pos, neg = _scores(rng, npos), _scores(rng, nneg)
    sc, ec = rng.choice(CONFIGS)
    case = {"kind": kind, "pos": [enc(x) for x in pos], "neg": [enc(x) for x in neg], "sc": sc, "ec": ec,
            "ep": 0, "en": 0}
    if kind != "group" and rng.random() < 0.3:
        case["ep"], case["en"] = rng.choice([0, 1, 3]), rng.choice([0, 2])
    if kind == "group":
        g = rng.choice([2, 2, 3])
        pg = [i % g for i in range(npos)]
        ng = [i % g for i in range(nneg)]
        rng.shuffle(pg)
        rng.shuffle(ng)
        case["pos_groups"], case["neg_groups"] = pg, ng
    pool = pos + neg
    nthr = rng.choice([0, 0, 1, 2, 3])     # 0 = scalar threshold
    thr = [_threshold(rng, pool) for _ in range(max(nthr, 1))]
    thr_enc = enc(thr[0]) if nthr == 0 else [enc(t) for t in thr]
    # metric
    if kind == "group" and rng.random() < 0.6:
        metric = {"type": "name", "name": rng.choice(["group_tpr", "group_fpr", "group_fnr"]), "kwargs": {"threshold": thr_enc}}
    else:
        r = rng.random()
        if r < 0.4:
            metric = {"type": "name", "name": rng.choice(NAME_METRICS if kind != "sub" else ["tpr", "tpr", "fpr"]), "kwargs": {"threshold": thr_enc}}
        elif r < 0.5:
            metric = {"type": "name", "name": "eer", "kwargs": {}}
        elif r < 0.65:
            metric = {"type": "callable", "id": "tpr_c", "kwargs": {"threshold": thr_enc}}
        elif r < 0.8:
            kw = {"threshold": enc(thr[0])}
            if rng.random() < 0.6:
                kw["scale"] = enc(Fraction(rng.choice([2, 4, 1])))
            metric = {"type": "callable", "id": "rates_vec", "kwargs": kw}
        elif r < 0.86:
            metric = {"type": "callable", "id": "counts_mat", "kwargs": {"threshold": enc(thr[0])}}
        elif r < 0.89:      # a metric following NumPy's out= convention: the same preallocated array is returned by every call
            metric = {"type": "callable", "id": "rates_buf", "kwargs": {"threshold": enc(thr[0])}}
        elif r < 0.92:      # count-valued metric of unsigned dtype
            metric = {"type": "callable", "id": "counts_u16", "kwargs": {"threshold": enc(thr[0])}}
        else:
            metric = {"type": "callable", "id": "median_pos", "kwargs": {}}
    metric = force.get("metric", metric)
    # sampler
    r = rng.random()
    if r < 0.4:
        sampler = {"type": "shift", "step": enc(rng.choice([Fraction(1, 4), Fraction(1, 2), Fraction(-1, 4), Fraction(1)]))}
    elif r < 0.5:
        sampler = {"type": "loo"}
    elif r < 0.65:
        sampler = {"type": "identity"}
    else:
        sm = rng.choice(["replacement", "replacement", "dynamic", "single_pass", "proportion"])
        strat = rng.choice([None, None, "by_label"] + (["by_group"] if kind == "group" else []))
        if kind == "group" and sm in ("proportion", "single_pass"):
            sm = "replacement"
        if sm in ("single_pass", "proportion"):
            strat = None if sm == "proportion" else rng.choice([None, "by_label"])
        sampler = {"type": "builtin", "sampling_method": sm, "stratified": strat, "ratio": 0.5 if sm == "proportion" else None,
                   "seed": rng.randint(0, 10 ** 6)}
        # smoothing: replacement sampling + kernel noise on Scores; documented ValueError on GroupScores
        if sm in ("replacement", "dynamic") and rng.random() < 0.35:
            sampler["smoothing"] = True
        if sm == "single_pass" and metric.get("name") == "eer":
            metric = {"type": "name", "name": "tpr", "kwargs": {"threshold": thr_enc}}
    if sampler["type"] in ("shift", "loo", "identity") and rng.random() < 0.5:
        # a callable sampler is used whatever the other fields of the config say
        sampler["stratified"] = rng.choice(["by_label"] + (["by_group", "by_group"] if kind == "group" else []))
    if sampler["type"] in ("shift", "loo", "identity"):
        sampler["unhashable"] = rng.random() < 0.5
    sampler = force.get("sampler", sampler)
    if kind == "sub" and sampler["type"] == "builtin":
        # the built-in samplers of Scores return plain Scores objects; a user subclass is only exercised with custom samplers
        sampler = {"type": "shift", "step": enc(Fraction(1, 4))}
    case["metric"] = metric
    case["sampler"] = sampler
    case["nb_samples"] = force.get("nb_samples", rng.choice([1, 2, 3, 5, 8, 12]))
    case["bootstrap_method"] = force.get("bootstrap_method", C13.METHODS[k % 3])
    case["alpha"] = enc(Fraction(rng.choice(ALPHAS)))
    if case["bootstrap_method"] == "quantile" and rng.random() < 0.3:
        # an array of levels (utils.bootstrap_ci documents it for the quantile method; Scores.bootstrap_ci passes alpha through): the result gains the alpha axes between the metric axes and the last axis
        ks = sorted(rng.sample(range(len(ALPHAS)), min(len(ALPHAS), rng.choice([2, 3]))))
        case["alpha"] = {"shape": [len(ks)], "data": [enc(Fraction(ALPHAS[i])) for i in ks]}
    # history: further calls on the SAME object with the same metric and kwarg names but other values
    # (scalar -> scalar -> array threshold, another scale)
    more = []
    if "threshold" in metric["kwargs"] and metric.get("id") not in ("rates_vec", "counts_mat", "counts_u16", "rates_buf") and rng.random() < force.get("history", 0.3):
        more.append(dict(metric["kwargs"], threshold=enc(_threshold(rng, pool))))
        if rng.random() < 0.6:
            more.append(dict(metric["kwargs"], threshold=[enc(_threshold(rng, pool)) for _ in range(rng.choice([1, 2]))]))
    elif metric.get("id") == "rates_vec" and rng.random() < force.get("history", 0.3):
        kw2 = dict(metric["kwargs"], threshold=enc(_threshold(rng, pool)))
        if "scale" in kw2:
            kw2["scale"] = enc(F(kw2["scale"]) + 1)
        more.append(kw2)
    case["more_kwargs"] = more
    return case


def gen_cases(rng, tier):
    n = {"quick": 180, "thorough": 2600, "search": 1300}[tier]
    cases = []
    k = 0
    # aimed cases: identity collapse for every method; subclass override by name; group-wise names; big object (dynamic -> single pass)
    for m in C13.METHODS:
        cases.append(_one_case(rng, k, {"sampler": {"type": "identity"}, "bootstrap_method": m, "nb_samples": 4}))
        k += 1
        cases.append(_one_case(rng, k, {"kind": "sub", "bootstrap_method": m,
                                        "metric": {"type": "name", "name": "tpr", "kwargs": {"threshold": enc(Fraction(1, 2))}},
                                        "sampler": {"type": "shift", "step": enc(Fraction(1, 2))}}))
        k += 1
        cases.append(_one_case(rng, k, {"kind": "group", "bootstrap_method": m,
                                        "metric": {"type": "name", "name": "group_tpr", "kwargs": {"threshold": enc(Fraction(0))}}}))
        k += 1
    # smoothing on Scores (rows come from smoothed samples) and on GroupScores (must raise like bootstrap_sample); histories
    for kind_, sm_, m_ in (("scores", "replacement", "bca"), ("scores", "dynamic", "quantile"), ("group", "replacement", "bc")):
        cases.append(_one_case(rng, k, {"kind": kind_, "bootstrap_method": m_,
                                        "sampler": {"type": "builtin", "sampling_method": sm_, "stratified": None, "ratio": None,
                                                    "seed": rng.randint(0, 10 ** 6), "smoothing": True}}))
        k += 1
    for m_ in ("bc", "bca"):
        cases.append(_one_case(rng, k, {"kind": "scores", "bootstrap_method": m_, "history": 1.0, "nb_samples": 8,
                                        "metric": {"type": "name", "name": "fnr", "kwargs": {"threshold": enc(Fraction(1, 2))}}}))
        k += 1
    # tiny classes under explicit single-pass sampling, many replicates: the at-least-one rescue (all multiplicities 0, about one
    # sample in 16 per class) is part of the seeded stream, so two runs under one np.random.seed agree
    for j_ in range(2):
        c_ = _one_case(rng, k, {"kind": "scores", "bootstrap_method": "quantile", "nb_samples": 96,
                                "metric": {"type": "callable", "id": "median_pos", "kwargs": {}},
                                "sampler": {"type": "builtin", "sampling_method": "single_pass", "stratified": [None, "by_label"][j_],
                                            "ratio": None, "seed": rng.randint(0, 10 ** 6)}})
        c_["pos"], c_["neg"] = [enc(Fraction(1, 4)), enc(Fraction(3))], [enc(Fraction(-1)), enc(Fraction(2))]
        c_["ep"] = c_["en"] = 0
        cases.append(c_)
        k += 1
    big = _one_case(rng, k, {"kind": "scores", "sampler": {"type": "builtin", "sampling_method": "dynamic", "stratified": None,
                                                            "ratio": None, "seed": 7},
                             "metric": {"type": "name", "name": "tpr", "kwargs": {"threshold": enc(Fraction(0))}}, "nb_samples": 5})
    big["pos"] = [enc(x) for x in _scores(rng, 120)]
    big["neg"] = [enc(x) for x in _scores(rng, 110)]
    cases.append(big)
    k += 1
    # big GroupScores (>= 100 per class): 'dynamic' resolves by the GroupScores rule (by_group -> replacement, otherwise
    # single pass); the rows have to come from the sampler bootstrap_sample(config) itself uses
    for strat_ in ("by_group", None, "by_label"):
        bg = _one_case(rng, k, {"kind": "group", "nb_samples": 4,
                                "sampler": {"type": "builtin", "sampling_method": "dynamic", "stratified": strat_, "ratio": None,
                                            "seed": rng.randint(0, 10 ** 6)},
                                "metric": {"type": "name", "name": "group_tpr", "kwargs": {"threshold": enc(Fraction(0))}}})
        bg["pos"] = [enc(x) for x in _scores(rng, 115)]
        bg["neg"] = [enc(x) for x in _scores(rng, 104)]
        bg["pos_groups"] = [rng.randrange(3) for _ in range(115)]
        bg["neg_groups"] = [rng.randrange(3) for _ in range(104)]
        bg["more_kwargs"] = []
        cases.append(bg)
        k += 1
    while len(cases) < n:
        cases.append(_one_case(rng, k))
        k += 1
    return cases


# ------------------------------------------------------------------ implementation
def _kwargs_of(kwd, np):
    kw = {}
    for key, v in kwd.items():
        if isinstance(v, list):
            kw[key] = np.array([fl(x) for x in v], dtype=float)
        else:
            kw[key] = fl(v)
    return kw


def run_impl(case):
    import numpy as np
    import scipy.stats
    import score_analysis.utils as U
    from score_analysis import BootstrapConfig, GroupScores, Scores

    class TaggedScores(Scores):   # a subclass overriding a base-class metric
        def tpr(self, threshold):
            return super().tpr(threshold) + 100.0

    pos = np.array([fl(x) for x in case["pos"]], dtype=float)
    neg = np.array([fl(x) for x in case["neg"]], dtype=float)

    def make_obj():
        if case["kind"] == "group":
            return GroupScores(pos=pos.copy(), neg=neg.copy(), pos_groups=np.array(case["pos_groups"]),
                               neg_groups=np.array(case["neg_groups"]), score_class=case["sc"], equal_class=case["ec"])
        cls = TaggedScores if case["kind"] == "sub" else Scores
        return cls(pos=pos.copy(), neg=neg.copy(), nb_easy_pos=case["ep"], nb_easy_neg=case["en"],
                   score_class=case["sc"], equal_class=case["ec"])

    def rebuild(src, p, n, pg=None, ng=None):
        if isinstance(src, GroupScores):
            return GroupScores(pos=p, neg=n, pos_groups=src.pos_groups if pg is None else pg,
                               neg_groups=src.neg_groups if ng is None else ng, score_class=src.score_class,
                               equal_class=src.equal_class, group_names=src.groups)
        return type(src)(pos=p, neg=n, nb_easy_pos=src.nb_easy_pos, nb_easy_neg=src.nb_easy_neg,
                         score_class=src.score_class, equal_class=src.equal_class)

    _buf = np.zeros(3)

    def rates_buf(s, threshold):
        _buf[0], _buf[1], _buf[2] = s.tpr(threshold), s.fpr(threshold), s.tpr(threshold) - s.fpr(threshold)
        return _buf

    callables = {
        "rates_buf": rates_buf,
        "tpr_c": lambda s, threshold: s.tpr(threshold),
        "rates_vec": lambda s, threshold, scale=1.0: scale * np.array([s.tpr(threshold), s.fpr(threshold)]),
        "counts_mat": lambda s, threshold: np.array([[int(np.sum(s.pos >= threshold)), int(np.sum(s.neg >= threshold))],
                                                     [len(s.pos), len(s.neg)]]),
        "counts_u16": lambda s, threshold: np.array([np.sum(s.pos >= threshold), np.sum(s.neg >= threshold), np.sum(s.pos < threshold)]).astype(np.uint16),
        "median_pos": lambda s: float(np.median(s.pos)),
    }
    m = case["metric"]
    metric = m["name"] if m["type"] == "name" else callables[m["id"]]
    sp = case["sampler"]

    class Counting:
        def __init__(self):
            self.calls = 0

        if sp.get("unhashable"):      # a callable object that defines equality and is therefore not hashable
            def __eq__(self, other):
                return self is other
            __hash__ = None

        def __call__(self, source):
            j = self.calls
            self.calls += 1
            if sp["type"] == "shift":
                d = j * fl(sp["step"])
                return rebuild(source, source.pos + d, source.neg + d)
            if sp["type"] == "loo":
                ip, ineg = j % len(source.pos), j % len(source.neg)
                if isinstance(source, GroupScores):
                    return rebuild(source, np.delete(source.pos, ip), np.delete(source.neg, ineg),
                                   np.delete(source.pos_groups, ip), np.delete(source.neg_groups, ineg))
                return rebuild(source, np.delete(source.pos, ip), np.delete(source.neg, ineg))
            return source   # identity

    def make_config():
        if sp["type"] == "builtin":
            return None, BootstrapConfig(nb_samples=case["nb_samples"], bootstrap_method=case["bootstrap_method"],
                                         sampling_method=sp["sampling_method"], stratified_sampling=sp["stratified"],
                                         ratio=sp["ratio"], smoothing=bool(sp.get("smoothing", False)))
        if sp["type"] == "bad":
            return None, BootstrapConfig(nb_samples=case["nb_samples"], bootstrap_method=case["bootstrap_method"],
                                         sampling_method=sp["value"])
        c = Counting()
        return c, BootstrapConfig(nb_samples=case["nb_samples"], bootstrap_method=case["bootstrap_method"], sampling_method=c,
                                  stratified_sampling=sp.get("stratified"))

    def flat(a):
        a = np.asarray(a, dtype=float)
        return [enc(float(v)) for v in a.reshape(-1)]

    def session(obj, kwd, full):
        """one bootstrap_metric + one bootstrap_ci call on obj with the kwargs kwd; everything observed by pass-through
        wrappers.  full: also the replay / repeat / fresh-object runs."""
        kwargs = _kwargs_of(kwd, np)

        def direct(sample):
            if m["type"] == "name":
                return np.asarray(getattr(sample, m["name"])(**kwargs))   # the metric `name` of that object
            return np.array(metric(sample, **kwargs), copy=True)

        def run(target, which):
            counter, cfg = make_config()
            samples, cfg_bad = [], []

            def same_config(config):
                # equal as dataclasses, or differing only by "dynamic" already resolved the way the object resolves it
                if config == cfg:
                    return True
                try:
                    import dataclasses
                    return dataclasses.replace(cfg, sampling_method=type(target)._sampling_method(target, cfg)) == config
                except Exception:
                    return False

            def rec_sample(config):
                if not same_config(config):
                    cfg_bad.append(repr(config)[:300])
                s_ = type(target).bootstrap_sample(target, config=config)
                samples.append(s_)
                return s_

            target.bootstrap_sample = rec_sample
            if sp["type"] == "builtin":
                np.random.seed(sp["seed"])
            try:
                if which == "metric":
                    res = target.bootstrap_metric(metric, config=cfg, **kwargs)
                else:
                    al = case["alpha"]
                    al = np.array([fl(x) for x in al["data"]]).reshape(al["shape"]) if isinstance(al, dict) else fl(al)
                    res = target.bootstrap_ci(metric, alpha=al, config=cfg, **kwargs)
            finally:
                del target.bootstrap_sample
            return res, samples, (counter.calls if counter is not None else None), cfg_bad, repr(cfg)[:300]

        out = {}
        # what the configured sampler itself does on this object (same seed): does it raise? which samples does it give?
        if sp["type"] == "builtin":
            _, cfg0 = make_config()
            np.random.seed(sp["seed"])
            try:
                replay = [direct(type(obj).bootstrap_sample(obj, config=cfg0)) for _ in range(case["nb_samples"])]
                out["replay"] = [flat(d) for d in replay]
            except Exception as ex:
                out["sampler_err"] = type(ex).__name__
                out["sampler_msg"] = str(ex)[:200]
        hat = direct(make_obj())          # the metric of a fresh equal object
        out["hat"] = flat(hat)
        out["hat_shape"] = list(hat.shape)
        try:
            rows, samples, ncalls, cfg_bad, cfg_repr = run(obj, "metric")
        except Exception as ex:
            out["metric_err"] = type(ex).__name__
            out["metric_msg"] = str(ex)[:200]
            return out
        rows = np.asarray(rows)
        out.update({"rows": flat(rows), "rows_shape": list(rows.shape), "rows_dtype": str(rows.dtype), "ncalls": ncalls,
                    "nsamples_recorded": len(samples), "cfg_bad": cfg_bad, "cfg": cfg_repr,
                    "sample_types": sorted(set(type(s_).__name__ for s_ in samples))})
        dirs = [direct(s_) for s_ in samples]
        out["direct"] = [flat(d) for d in dirs]
        out["direct_shape"] = [list(d.shape) for d in dirs]

        # bootstrap_ci, with utils.bootstrap_ci and scipy.stats.norm observed (pass-through)
        norm = scipy.stats.norm
        orig_ppf, orig_cdf, orig_bci = norm.ppf, norm.cdf, U.bootstrap_ci
        rec = {"ppf": [], "cdf": [], "utils": []}

        def ppf(x, *a, **k):
            r = orig_ppf(x, *a, **k)
            rec["ppf"].append([flat(x), flat(r)])
            return r

        def cdf(x, *a, **k):
            r = orig_cdf(x, *a, **k)
            rec["cdf"].append([flat(x), flat(r)])
            return r

        def bci(*a, **k):
            r = orig_bci(*a, **k)
            entry = {"nargs": len(a), "keys": sorted(k)}
            if "theta" in k:
                th = np.asarray(k["theta"])
                entry["theta"], entry["theta_shape"] = flat(th), list(th.shape)
            if k.get("theta_hat") is not None:
                hh = np.asarray(k["theta_hat"])
                entry["theta_hat"], entry["theta_hat_shape"] = flat(hh), list(hh.shape)
            if "alpha" in k:
                ak = np.asarray(k["alpha"])
                entry["alpha"] = enc(float(ak)) if ak.ndim == 0 else {"shape": list(ak.shape), "data": [enc(float(x)) for x in ak.reshape(-1)]}
            if "method" in k:
                entry["method"] = str(k["method"])
            entry["ret"] = flat(r)
            rec["utils"].append(entry)
            return r

        norm.ppf, norm.cdf, U.bootstrap_ci = ppf, cdf, bci
        try:
            ci, _, ci_calls, ci_cfg_bad, _ = run(obj, "ci")
        except Exception as ex:   # reported to the oracle together with the rows
            out["ci_err"] = type(ex).__name__
            out["ci_msg"] = str(ex)[:200]
            return out
        finally:
            del norm.ppf
            del norm.cdf
            U.bootstrap_ci = orig_bci
        ci = np.asarray(ci)
        out.update({"ci": flat(ci), "ci_shape": list(ci.shape), "ci_ncalls": ci_calls, "ppf": rec["ppf"], "cdf": rec["cdf"],
                    "utils": rec["utils"], "ci_cfg_bad": ci_cfg_bad})
        if full:
            # the same calls again on the same object (same seed for built-in samplers, fresh counter for custom ones)
            rows_b, _, _, _, _ = run(obj, "metric")
            ci_b, _, _, _, _ = run(obj, "ci")
            out["rows_b"] = flat(rows_b)
            out["ci_b"] = flat(ci_b)
        # ... and on a fresh equal object: results must not depend on the object's call history
        fresh = make_obj()
        rows_f, _, _, _, _ = run(fresh, "metric")
        ci_f, _, _, _, _ = run(make_obj(), "ci")
        out["rows_fresh"] = flat(rows_f)
        out["ci_fresh"] = flat(ci_f)
        return out

    obj = make_obj()
    out = session(obj, m["kwargs"], True)
    more = []
    for kwd in case.get("more_kwargs", []):
        more.append(session(obj, kwd, False))      # SAME object: a history of calls
    out["more"] = more
    # reproducibility across interpreter processes: group-stratified sampling of string-labelled groups under a fixed
    # np.random.seed gives the same replicates whatever PYTHONHASHSEED is (nothing may depend on set / dict order of labels)
    if (case["kind"] == "group" and sp["type"] == "builtin" and sp.get("stratified") == "by_group" and "rows" in out
            and int(sp["seed"]) % 2 == 0):
        import json as _json
        import os as _os
        import subprocess as _sub
        import sys as _sys
        script = (
            "import json, sys, numpy as np\n"
            "from score_analysis import GroupScores, BootstrapConfig\n"
            "c = json.loads(sys.argv[1])\n"
            "names = ['zeta', 'a10', 'b2', 'Alpha']\n"
            "g = GroupScores(pos=np.array(c['pos']), neg=np.array(c['neg']), pos_groups=np.array([names[i] for i in c['pg']]),\n"
            "                neg_groups=np.array([names[i] for i in c['ng']]), score_class=c['sc'], equal_class=c['ec'])\n"
            "cfg = BootstrapConfig(nb_samples=4, sampling_method=c['sm'], stratified_sampling='by_group')\n"
            "np.random.seed(c['seed'])\n"
            "rows = g.bootstrap_metric('group_tpr', config=cfg, threshold=c['thr'])\n"
            "print(json.dumps([None if v != v else float(v) for v in np.asarray(rows, dtype=float).reshape(-1)]))\n")
        arg = _json.dumps({"pos": [float(v) for v in pos], "neg": [float(v) for v in neg], "pg": [int(v) for v in case["pos_groups"]],
                           "ng": [int(v) for v in case["neg_groups"]], "sc": case["sc"], "ec": case["ec"],
                           "sm": sp["sampling_method"], "seed": int(sp["seed"]), "thr": float(np.median(np.concatenate([pos, neg])))})
        outs = []
        for hs in ("1", "2", "3"):
            env_ = dict(_os.environ, PYTHONHASHSEED=hs)
            p_ = _sub.run([_sys.executable, "-W", "ignore", "-c", script, arg], env=env_, capture_output=True, text=True, timeout=120)
            outs.append(p_.stdout.strip().splitlines()[-1] if p_.returncode == 0 and p_.stdout.strip() else f"error: {p_.stderr[-200:]}")
        out["hashseed_runs"] = outs
    # the documented knob score_analysis.scores.SINGLE_PASS_SAMPLE_THRESHOLD (BootstrapConfig docstring), set by the user after
    # import: "dynamic" on a plain Scores object resolves against the CURRENT value
    if case["kind"] == "scores" and sp["type"] == "builtin" and sp["sampling_method"] == "dynamic" and not sp.get("smoothing") \
            and "metric_err" not in out and "sampler_err" not in out and m["type"] == "name" and m["name"] != "eer":
        import score_analysis.scores as SS
        saved_T = SS.SINGLE_PASS_SAMPLE_THRESHOLD
        knob = []
        try:
            o_ = make_obj()
            n_min = min(len(o_.pos), len(o_.neg))
            for T_ in (max(n_min, 1), n_min + 1):
                SS.SINGLE_PASS_SAMPLE_THRESHOLD = T_
                want = "replacement" if n_min < T_ else "single_pass"
                res2 = []
                for sm_ in ("dynamic", want):
                    cfg_ = BootstrapConfig(nb_samples=case["nb_samples"], bootstrap_method=case["bootstrap_method"], sampling_method=sm_,
                                           stratified_sampling=sp["stratified"])
                    np.random.seed(sp["seed"])
                    try:
                        res2.append(flat(make_obj().bootstrap_metric(metric, config=cfg_, **_kwargs_of(case["metric"]["kwargs"], np))))
                    except Exception as ex:
                        res2.append([type(ex).__name__])
                knob.append([T_, n_min, want, res2[0] == res2[1]])
        finally:
            SS.SINGLE_PASS_SAMPLE_THRESHOLD = saved_T
        out["knob"] = knob
    return out


# ------------------------------------------------------------------ exact reference for the simple rate metrics
def _dec(sc, ec, x, t):
    if sc == "pos":
        return x >= t if ec == "pos" else x > t
    return x <= t if ec == "pos" else x < t


def _rate(name, pos, neg, ep, en, sc, ec, t):
    tp = sum(_dec(sc, ec, x, t) for x in pos) + ep
    fn = len(pos) + ep - tp
    fp = sum(_dec(sc, ec, x, t) for x in neg)
    tn = len(neg) + en - fp
    num, den = {"tpr": (tp, tp + fn), "fnr": (fn, tp + fn), "fpr": (fp, fp + tn), "tnr": (tn, fp + tn)}[name]
    return math.nan if den == 0 else num / den


def _simple(case):
    """(rate name, thresholds list, scalar?) when the case's metric is one of the plain rates on a Scores object"""
    m = case["metric"]
    if case["kind"] == "group" or case["sampler"]["type"] not in ("shift", "identity"):
        return None
    if m["type"] == "name" and m["name"] in NAME_METRICS:
        name = m["name"]
    elif m["type"] == "callable" and m["id"] == "tpr_c":
        name = "tpr"
    else:
        return None
    thr = m["kwargs"]["threshold"]
    scalar = not isinstance(thr, list)
    return name, [F(t) for t in ([thr] if scalar else thr)], scalar


def _expected_rows(case):
    s = _simple(case)
    if s is None:
        return None
    name, thr, scalar = s
    pos = [F(x) for x in case["pos"]]
    neg = [F(x) for x in case["neg"]]
    step = F(case["sampler"]["step"]) if case["sampler"]["type"] == "shift" else Fraction(0)
    tag = 100.0 if (case["kind"] == "sub" and name == "tpr" and (case["metric"]["type"] == "name" or True)) else 0.0
    rows = []
    for j in range(case["nb_samples"]):
        d = j * step
        rows.append([_rate(name, [x + d for x in pos], [x + d for x in neg], case["ep"], case["en"], case["sc"], case["ec"], t) + tag
                     for t in thr])
    return rows


# ------------------------------------------------------------------ correspondence
RATE_COQ = {"tpr": "s_tpr", "fpr": "s_fpr", "fnr": "s_fnr", "tnr": "s_tnr"}


def _c13_view(case, r):
    """the CI call as a C13 case: the actual rows handed to utils.bootstrap_ci"""
    u = r["utils"][0] if r.get("utils") else None
    if not u or "theta" not in u or "theta_hat" not in u:
        return None, None
    Y = u["theta_shape"][1:]
    c13_case = {"N": u["theta_shape"][0], "Y": Y, "theta": u["theta"], "hat": u["theta_hat"], "alpha": case["alpha"],
                "method": case["bootstrap_method"], "exact": False, "comp": [], "alpha2": None}
    c13_res = {"shape": r["ci_shape"], "ci": r["ci"], "ppf": r["ppf"], "cdf": r["cdf"]}
    return c13_case, c13_res


def coq_term(case, res):
    if "ok" not in res or "metric_err" in res["ok"]:
        return None
    r = res["ok"]
    parts = []
    s = _simple(case)
    if s is not None and case["kind"] == "scores":
        name, thr, scalar = s
        step = F(case["sampler"]["step"]) if case["sampler"]["type"] == "shift" else Fraction(0)
        n = case["nb_samples"]
        size = len(thr)
        if r["rows_shape"] == [n] + ([] if scalar else [size]):
            src = (f"(mk_scores {cq.qlist(F(x) for x in case['pos'])} {cq.qlist(F(x) for x in case['neg'])} "
                   f"{cq.z(case['ep'])} {cq.z(case['en'])} {cq.label(case['sc'])} {cq.label(case['ec'])} false)")
            thr_t = "[" + "; ".join(f"(Fin {cq.q(t)})" for t in thr) + "]"
            rows = "[" + "; ".join("[" + "; ".join(cq.rate(None if v is None else F(v)) for v in r["rows"][j * size:(j + 1) * size]) + "]"
                                   for j in range(n)) + "]"
            by_name = case["metric"]["type"] == "name"
            marg = f"(ByName {cq.nat(NAME_METRICS.index(name))})" if by_name else f"(Callable (rate_metric {RATE_COQ[name]}))"
            parts.append(f"rows_close (model_bootstrap_metric {src} {marg} {cq.nat(n)} {cq.q(step)} {thr_t}) {rows}")
    if "ci_err" in r and isinstance(case["alpha"], dict):
        return "(" + " && ".join(parts) + ")" if parts else None
    if "ci_err" in r:
        size = len(r["hat"])
        n = case["nb_samples"]
        dt = "DInt" if r["rows_dtype"].startswith("int") else "DFloat"
        rows = "[" + "; ".join("[" + "; ".join(cq.rate(None if v is None else F(v)) for v in r["rows"][j * size:(j + 1) * size]) + "]"
                               for j in range(n)) + "]"
        hats = "[" + "; ".join(cq.rate(None if v is None else F(v)) for v in r["hat"]) + "]"
        parts.append(f"is_err (utils_ci_dt no_oracle no_oracle no_oracle {dt} {C13._natlist(r['hat_shape'])} {rows} (Some {hats}) "
                     f"{cq.q(F(case['alpha']))} {C13.METHOD_COQ[case['bootstrap_method']]})")
        return "(" + " && ".join(parts) + ")"
    c13_case, c13_res = _c13_view(case, r)
    if c13_case is not None and case["bootstrap_method"] in C13.METHODS:
        t = C13.coq_term(c13_case, {"ok": c13_res})
        if t is not None:
            parts.append(t)
    if not parts:
        return None
    return "(" + " && ".join(parts) + ")"


# ------------------------------------------------------------------ oracle
def _same(a, b):
    """bit-equal encoded floats (NaN equals NaN)"""
    return a == b


def oracle(case, res):
    sp = case["sampler"]
    if "ok" not in res:
        if sp["type"] == "bad":
            return []
        return [("C14/exception", f"bootstrap_metric/bootstrap_ci raised {res.get('err')}: {res.get('msg')}")]
    r = res["ok"]
    fails = list(_oracle_one(case, r))
    # a history of calls on ONE object: same metric and kwarg names, other values; every call is judged on its own
    for i, (kwd, ri) in enumerate(zip(case.get("more_kwargs", []), r.get("more", []))):
        case_i = dict(case, metric=dict(case["metric"], kwargs=kwd))
        for kind, msg in _oracle_one(case_i, ri):
            fails.append((kind.replace("C14/", "C14/history/", 1),
                          f"call {i + 2} on the same object (kwargs {kwd}, after {i + 1} earlier call(s) with other values): {msg}"))
    return fails


def _oracle_one(case, r):
    sp = case["sampler"]
    fails = []
    n = case["nb_samples"]
    # --- the configured sampler itself raises on this object (e.g. smoothing on GroupScores): so must bootstrap_metric
    if r.get("sampler_err"):
        if r.get("metric_err") == r["sampler_err"]:
            return []
        return [("C14/config/sampler-raises",
                 f"bootstrap_sample(config) raises {r['sampler_err']} ({r.get('sampler_msg')}) for the caller's config, but "
                 f"bootstrap_metric {'returned rows' if 'metric_err' not in r else 'raised ' + r['metric_err']}: the rows do not come "
                 "from the configured sampler")]
    if "metric_err" in r:
        return [("C14/exception", f"bootstrap_metric raised {r['metric_err']}: {r.get('metric_msg')}")]
    # --- every bootstrap_sample call receives a config equal to the caller's (up to "dynamic" resolved as the object resolves it)
    for key, what in (("cfg_bad", "bootstrap_metric"), ("ci_cfg_bad", "bootstrap_ci")):
        if r.get(key):
            fails.append(("C14/config/forwarded", f"{what} called bootstrap_sample with {r[key][0]}, the caller's config is {r.get('cfg')}"))
            break
    mshape = r["hat_shape"]
    size = 1
    for x in mshape:
        size *= x
    # --- bootstrap_metric: nb_samples rows of the metric's own shape
    if r["rows_shape"] != [n] + mshape:
        return [("C14/rows/shape", f"bootstrap_metric shape {r['rows_shape']}, want {[n] + mshape}")]
    if sp["type"] != "builtin" and r["ncalls"] != n:
        fails.append(("C14/rows/sampler-calls", f"the custom sampler was called {r['ncalls']} times for {n} rows"))
    if r["nsamples_recorded"] != n:
        fails.append(("C14/rows/sampler-calls", f"bootstrap_sample was called {r['nsamples_recorded']} times for {n} rows"))
    # row j = metric (resolved on the sample's own class, same kwargs) of the j-th sample
    for j in range(min(n, len(r["direct"]))):
        if r["direct_shape"][j] != mshape:
            continue
        row = r["rows"][j * size:(j + 1) * size]
        if r["rows_dtype"].startswith("int"):
            ok = all((a is None and b is None) or (a is not None and b is not None and F(a) == F(b)) for a, b in zip(row, r["direct"][j]))
        else:
            ok = all(_same(a, b) for a, b in zip(row, r["direct"][j]))
        if not ok:
            fails.append(("C14/rows/attribution", f"row {j} = {[C13._num(v) for v in row]} but the metric of the {j}-th sample is "
                                                  f"{[C13._num(v) for v in r['direct'][j]]}"))
            break
    # row j = metric of the j-th sample the configured sampler gives on this object under the same seed
    if "replay" in r and len(r["replay"]) == n:
        for j in range(n):
            row = r["rows"][j * size:(j + 1) * size]
            if len(r["replay"][j]) != size or not all(_same(a, b) for a, b in zip(row, r["replay"][j])):
                fails.append(("C14/rows/configured-sampler",
                              f"row {j} = {[C13._num(v) for v in row]} but the metric of the {j}-th sample drawn with "
                              f"bootstrap_sample(config) under the same seed is {[C13._num(v) for v in r['replay'][j]]} (config {r.get('cfg')})"))
                break
    # independent exact evaluation for the plain rates under the shifting sampler
    exp = _expected_rows(case)
    if exp is not None and len(exp) == n and size == len(exp[0]):
        for j in range(n):
            got = [C13._num(v) for v in r["rows"][j * size:(j + 1) * size]]
            if not all(C13._close(g, w, 0.0) for g, w in zip(got, exp[j])):
                fails.append(("C14/rows/value", f"row {j} = {got}, the metric of the source shifted by {j} steps is {exp[j]}"))
                break
    # --- bootstrap_ci = utils.bootstrap_ci(theta=rows, theta_hat=metric(self), alpha, method=config.bootstrap_method)
    if "ci_err" in r:
        if r["rows_dtype"].startswith("int") and case["bootstrap_method"] == "bca" and r["ci_err"] == "UFuncTypeError":
            fails.append(("C14/int-metric/bca-raises",
                          f"integer-valued metric with bootstrap_method='bca': bootstrap_ci raises {r['ci_err']} ({r['ci_msg']}) "
                          "instead of returning the interval of the replicates (regression of fix 4a7af20)"))
        elif (case["bootstrap_method"] in ("bc", "bca") and r["ci_err"] == "ValueError" and "Quantiles" in r.get("ci_msg", "")
              and any(all(r["rows"][j * size + c] is None for j in range(n)) for c in range(size))):
            fails.append(("C14/all-nan-component/raises",
                          f"a metric component is NaN in every bootstrap sample (e.g. a group without positives in the sample) and "
                          f"bootstrap_ci with method {case['bootstrap_method']} raises {r['ci_err']} ({r['ci_msg']}) for the whole metric "
                          "instead of NaN limits for that component (regression of fix fa251ac)"))
        else:
            fails.append(("C14/exception", f"bootstrap_ci raised {r['ci_err']}: {r['ci_msg']}"))
        return fails
    if len(r["utils"]) != 1:
        fails.append(("C14/ci/assembly", f"utils.bootstrap_ci was called {len(r['utils'])} times"))
        return fails
    u = r["utils"][0]
    if "theta" not in u or u["nargs"] != 0:
        fails.append(("C14/ci/assembly", f"utils.bootstrap_ci called with positional arguments / without theta: {u['keys']}"))
        return fails
    if u["theta_shape"] != r["rows_shape"] or not all(_same(a, b) for a, b in zip(u["theta"], r["rows"])):
        fails.append(("C14/ci/replicates", "the replicates handed to the CI formula differ from bootstrap_metric's rows "
                                           "(same sampler history)"))
    if case["bootstrap_method"] != "quantile" or "theta_hat" in u:
        if "theta_hat" not in u:
            fails.append(("C14/ci/estimate", "no point estimate handed to the CI formula"))
        elif not all(_same(a, b) for a, b in zip(u["theta_hat"], r["hat"])) or len(u["theta_hat"]) != len(r["hat"]):
            fails.append(("C14/ci/estimate", f"point estimate handed to the CI formula {[C13._num(v) for v in u['theta_hat']]} is not the "
                                             f"metric of the original object {[C13._num(v) for v in r['hat']]}"))
    if u.get("alpha") != case["alpha"]:
        fails.append(("C14/ci/alpha", f"alpha handed to the CI formula: {u.get('alpha')}, caller's alpha {case['alpha']}"))
    if u.get("method") != case["bootstrap_method"]:
        fails.append(("C14/ci/method", f"method handed to the CI formula: {u.get('method')}, configured {case['bootstrap_method']}"))
    if not all(_same(a, b) for a, b in zip(u["ret"], r["ci"])) or len(u["ret"]) != len(r["ci"]):
        fails.append(("C14/ci/assembly", "bootstrap_ci does not return what the CI formula returned"))
    ashape = case["alpha"]["shape"] if isinstance(case["alpha"], dict) else []
    nz = 1
    for d_ in ashape:
        nz *= d_
    if r["ci_shape"] != mshape + ashape + [2]:
        fails.append(("C14/ci/shape", f"bootstrap_ci shape {r['ci_shape']}, want {mshape + ashape + [2]}"))
        return fails
    # the documented formula on the actual rows, with metric(self) as estimate (independent evaluation)
    c13_case = {"N": n, "Y": mshape, "theta": r["rows"], "hat": r["hat"], "alpha": case["alpha"], "method": case["bootstrap_method"],
                "exact": False, "comp": [], "alpha2": None}
    if all(h is not None for h in r["hat"]):
        for kind, msg in C13.oracle(c13_case, {"ok": {"shape": r["ci_shape"], "ci": r["ci"]}}):
            fails.append((kind.replace("C13/", "C14/ci-formula/"), msg))
    # --- identity sampler: interval collapses to the point estimate
    if sp["type"] == "identity":
        ci = r["ci"]
        for j in range(size):
            h = r["hat"][j]
            if h is None:
                continue
            bad_k = [k_ for k_ in range(nz) if not (_same(ci[(j * nz + k_) * 2], h) and _same(ci[(j * nz + k_) * 2 + 1], h))]
            if bad_k:
                k_ = bad_k[0]
                fails.append(("C14/identity", f"identity sampler: component {j} interval ({C13._num(ci[(j * nz + k_) * 2])}, "
                                              f"{C13._num(ci[(j * nz + k_) * 2 + 1])}) is not the point estimate {C13._num(h)}"))
                break
    for T_, n_min, want, ok_ in r.get("knob") or []:
        if not ok_:
            fails.append(("C14/config/dynamic-threshold", f"with score_analysis.scores.SINGLE_PASS_SAMPLE_THRESHOLD = {T_} set after import, "
                          f"'dynamic' on a Scores object whose smaller class has {n_min} scores does not give the replicates of '{want}' under the same seed"))
            break
    hs = r.get("hashseed_runs")
    if hs and not all(o_.startswith("error") for o_ in hs) and len(set(hs)) > 1:
        fails.append(("C14/reproducible/across-processes",
                      f"the same seeded by_group bootstrap of string-labelled groups gives different replicates in interpreter processes "
                      f"with PYTHONHASHSEED = 1, 2, 3: {hs[0][:80]} / {hs[1][:80]} / {hs[2][:80]}"))
    # --- reproducibility: same seed (same sampler history) => identical results, on the same and on a fresh equal object
    for key_r, key_c, what in (("rows_b", "ci_b", "two runs on the same object"), ("rows_fresh", "ci_fresh", "this object and a fresh equal object")):
        if key_r in r and (not all(_same(a, b) for a, b in zip(r["rows"], r[key_r])) or len(r["rows"]) != len(r[key_r])):
            fails.append(("C14/reproducible", f"bootstrap_metric differs between {what} with the same seed / sampler history"))
        if key_c in r and (not all(_same(a, b) for a, b in zip(r["ci"], r[key_c])) or len(r["ci"]) != len(r[key_c])):
            fails.append(("C14/reproducible", f"bootstrap_ci differs between {what} with the same seed / sampler history: "
                                              f"{[C13._num(v) for v in r['ci']]} vs {[C13._num(v) for v in r[key_c]]}"))
    return fails


def nontrivial(case, res):
    if "ok" not in res:
        return False
    r = res["ok"]
    if "rows" not in r:
        return False
    n = case["nb_samples"]
    if case["sampler"]["type"] == "identity":
        return n >= 2
    size = max(1, len(r["hat"]))
    rows = {tuple(r["rows"][j * size:(j + 1) * size]) for j in range(n)}
    return len(rows) >= 2


def distribution(cases, results):
    d = {"n": len(cases), "kind": {}, "metric": {}, "sampler": {}, "method": {}, "metric_rank": {}, "nb_samples": {},
         "int_dtype_rows": 0, "subclass_sample_types": 0, "errors": 0, "model_rows_checked": 0,
         "smoothing": 0, "smoothing_on_group_raises": 0, "history_cases": 0, "history_extra_calls": 0, "history_shape_change": 0}
    for c, r in zip(cases, results):
        d["kind"][c["kind"]] = d["kind"].get(c["kind"], 0) + 1
        m = c["metric"]
        key = m.get("name") or m.get("id")
        d["metric"][key] = d["metric"].get(key, 0) + 1
        sp = c["sampler"]
        key = sp["type"] if sp["type"] != "builtin" else f"builtin:{sp['sampling_method']}/{sp['stratified']}"
        d["sampler"][key] = d["sampler"].get(key, 0) + 1
        d["method"][c["bootstrap_method"]] = d["method"].get(c["bootstrap_method"], 0) + 1
        d["nb_samples"][str(c["nb_samples"])] = d["nb_samples"].get(str(c["nb_samples"]), 0) + 1
        if sp.get("smoothing"):
            d["smoothing"] += 1
        if c.get("more_kwargs"):
            d["history_cases"] += 1
            d["history_extra_calls"] += len(c["more_kwargs"])
            if any(isinstance(kw.get("threshold"), list) != isinstance(m["kwargs"].get("threshold"), list) for kw in c["more_kwargs"]):
                d["history_shape_change"] += 1
        if "ok" not in r:
            d["errors"] += 1
            continue
        if "rows" not in r["ok"]:
            if r["ok"].get("sampler_err"):
                d["smoothing_on_group_raises"] += 1
            continue
        k = str(len(r["ok"]["hat_shape"]))
        d["metric_rank"][k] = d["metric_rank"].get(k, 0) + 1
        if r["ok"]["rows_dtype"].startswith("int"):
            d["int_dtype_rows"] += 1
        if "TaggedScores" in r["ok"]["sample_types"] or "GroupScores" in r["ok"]["sample_types"]:
            d["subclass_sample_types"] += 1
        if _simple(c) is not None and c["kind"] == "scores":
            d["model_rows_checked"] += 1
    return d
