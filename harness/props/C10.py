"""C10 — queries are vectorised elementwise, shape-preserving and side-effect free."""
from fractions import Fraction

from harness import coqio as cq
from harness import thr_common as tc
from harness.common import CONFIGS, F, enc, fl, score_list

ID = "C10"
PROPS_FILE = "Props/C10.v"
COQ_IMPORTS = "From SA Require Import Model.Harness."
GEN_AVAILABLE = set()
SHAPES = [[], [1], [3], [2, 2], [1, 3], [2, 1, 2], [0], [2, 0], [0, 3], [1, 0, 2]]
RATES = ["tpr", "fnr", "tnr", "fpr", "topr", "tonr"]
ALIASES = {"tar": "tpr", "frr": "fnr", "trr": "tnr", "far": "fpr", "acceptance_rate": "topr", "rejection_rate": "tonr"}
RULE = ("random Scores (incl. is_sorted=True so that the object aliases the caller's arrays), 4 configurations, threshold "
        "and target arrays of shapes 0-d to 3-d incl. size-0 axes; every deterministic public query is called on the "
        "array, on each element as a scalar, twice and in shuffled order; inputs and fields are snapshotted byte-wise "
        "before/after; non-trivial: array rank >= 1 or a size-0 axis (every case is a history of >= 3 calls)")
TRUSTED = ["numpy copy/view table of harness/translate/effects_tr.py (asarray aliases; astype, np.sort, arithmetic, fancy "
           "indexing, concatenate, empty allocate) — the static no-mutation tie is only as good as this table; the dynamic "
           "byte-wise snapshot check runs on every case as well"]
ASSUMPTIONS = ["deterministic public methods only (bootstrap methods use the global RNG)"]


def _ties():
    from harness.translate import effects_tr
    return [{"name": "effects.summaries", "translate": effects_tr.translate_effects, "gen_file": "Gen_effects.v",
             "tie_file": "Tie_effects.v"}]


TIES = _ties()


def gen_cases(rng, tier):
    n = {"quick": 200, "thorough": 3000, "search": 1500}[tier]
    cases = []
    for k in range(n):
        npos, nneg = rng.randint(1, 6), rng.randint(1, 6)
        style = rng.choice(["ties", "ints", "dyadic"])
        pos, neg = sorted(score_list(rng, npos, style)), sorted(score_list(rng, nneg, style))
        if k % 2:
            rng.shuffle(pos)
        sc, ec = rng.choice(CONFIGS)
        shape = rng.choice(SHAPES)
        size = 1
        for d in shape:
            size *= d
        allv = pos + neg
        thr = [enc(rng.choice(allv) if rng.random() < 0.5 else Fraction(rng.randint(-30, 30), 4)) for _ in range(size)]
        tg = [enc(Fraction(rng.randint(-2, 18), 16)) for _ in range(size)]
        if k % 7 == 3 and size >= 2:
            tg[0], tg[-1] = enc(Fraction(0)), enc(Fraction(1))      # both ends of the scale next to interior targets
        pshape = rng.choice([[len(allv)], [1, len(allv)], [len(allv), 1]])
        cases.append({"pos": [enc(x) for x in pos], "neg": [enc(x) for x in neg], "ep": rng.choice([0, 0, 2]),
                      "en": rng.choice([0, 0, 3]), "sc": sc, "ec": ec, "shape": shape, "thr": thr, "targets": tg,
                      "is_sorted": (k % 2 == 0), "pshape": pshape, "order_seed": rng.randint(0, 10 ** 6),
                      "int_dtype": k % 5 == 0 and style == "ints",
                      "narrow_float": (["f4", "f2"][k % 2] if k % 7 == 3 else None),
                      "groups": ([[rng.choice("ab") for _ in pos], [rng.choice("ab") for _ in neg]] if k % 3 == 1 else None)})
    return cases


def run_impl(case):
    import random

    import numpy as np
    from score_analysis import Scores
    from score_analysis.scores import pointwise_cm

    dt = int if case.get("int_dtype") else float
    if case.get("narrow_float"):
        dt = {"f4": np.float32, "f2": np.float16}[case["narrow_float"]]      # the generated values are small dyadics: exact
    pos_in = np.array([fl(x) for x in case["pos"]], dtype=dt)
    neg_in = np.array([fl(x) for x in case["neg"]], dtype=dt)
    T = np.array([fl(t) for t in case["thr"]], dtype=float).reshape(case["shape"])
    R = np.array([fl(t) for t in case["targets"]], dtype=float).reshape(case["shape"])
    if len(case["shape"]) >= 2 and case["order_seed"] % 3 == 0:
        T, R = np.asfortranarray(T), np.asfortranarray(R)        # same values, Fortran memory order
    elif len(case["shape"]) >= 2 and case["order_seed"] % 3 == 1:
        T = np.ascontiguousarray(np.moveaxis(T, 0, -1)).transpose(np.roll(np.arange(T.ndim), 1))   # non-contiguous view
    s = Scores(pos_in, neg_in, nb_easy_pos=case["ep"], nb_easy_neg=case["en"], score_class=case["sc"],
               equal_class=case["ec"], is_sorted=case["is_sorted"])

    def snap():
        return [a.tobytes() for a in (pos_in, neg_in, T, R, s.pos, s.neg)] + [
            repr((s.nb_easy_pos, s.nb_easy_neg, s.score_class, s.equal_class, s.pos.dtype, s.neg.dtype, T.shape, R.shape))]

    before = snap()
    out = {"problems": []}
    prob = out["problems"]

    def same(a, b):
        a, b = np.asarray(a), np.asarray(b)
        return a.shape == b.shape and bool(np.array_equal(a, b, equal_nan=True))

    calls = []
    for name in RATES + list(ALIASES):
        calls.append(("rate", name))
    for name in RATES:
        calls.append(("thr", name))
    calls += [("cm", "cm"), ("pw", "pw")]
    rnd = random.Random(case["order_seed"])
    results = {}
    for rep in range(2):
        order = list(calls)
        rnd.shuffle(order)
        for kind, name in order:
            if kind == "rate":
                v = getattr(s, name)(T)
            elif kind == "thr":
                v = getattr(s, "threshold_at_" + name)(R)
            elif kind == "cm":
                v = s.cm(T).matrix
            else:
                labels = np.array([1] * len(pos_in) + [0] * len(neg_in)).reshape(case["pshape"])
                sc_arr = np.concatenate([pos_in, neg_in]).astype(float).reshape(case["pshape"])
                v = pointwise_cm(labels, sc_arr, T, score_class=case["sc"], equal_class=case["ec"])
            key = kind + ":" + name
            if key in results and not same(results[key], v):
                prob.append(("repeat", f"{key}: repeated call returned a different result"))
            results[key] = v
    # a result belongs to the caller: later calls with OTHER inputs of the same sizes leave the arrays returned earlier alone
    snaps = {k: np.array(v, copy=True) for k, v in results.items() if isinstance(v, np.ndarray) and v.size}
    if snaps:
        T_o = T + 0.37
        for kind, name in calls:
            try:
                if kind == "rate":
                    getattr(s, name)(T_o)
                elif kind == "thr":
                    getattr(s, "threshold_at_" + name)(np.clip(R * 0.5 + 0.21, 0, 1))
                elif kind == "cm":
                    s.cm(T_o)
                else:
                    labels_o = np.array([0] * len(pos_in) + [1] * len(neg_in)).reshape(case["pshape"])
                    sc_o = (np.concatenate([pos_in, neg_in]).astype(float) * 0.5 - 0.3).reshape(case["pshape"])
                    pointwise_cm(labels_o, sc_o, T_o, score_class=case["sc"], equal_class=case["ec"])
            except ValueError:
                pass
        for k_, snap_ in snaps.items():
            if not same(results[k_], snap_):
                prob.append(("repeat", f"{k_}: the array returned earlier changed after a later call with other inputs of the same sizes"))
                break
    # shapes, scalar type, elementwise equality with scalar calls
    shp = tuple(case["shape"])
    for name in RATES:
        v = results["rate:" + name]
        if np.asarray(v).shape != shp:
            prob.append(("shape", f"{name}: shape {np.asarray(v).shape}, expected {shp}"))
        if shp == () and not isinstance(v, float):
            prob.append(("scalar-type", f"{name}(scalar) returned {type(v).__name__}"))
        flat = np.asarray(v).reshape(-1)
        for i, t in enumerate(T.reshape(-1)):
            sv = getattr(s, name)(float(t))
            if not isinstance(sv, float):
                prob.append(("scalar-type", f"{name}({t}) returned {type(sv).__name__}"))
            if not same(sv, flat[i]):
                prob.append(("elementwise", f"{name}: element {i} is {flat[i]}, scalar call gives {sv}"))
        tv = results["thr:" + name]
        if np.asarray(tv).shape != shp:
            prob.append(("shape", f"threshold_at_{name}: shape {np.asarray(tv).shape}, expected {shp}"))
        if shp == () and not isinstance(tv, float):
            prob.append(("scalar-type", f"threshold_at_{name}(scalar) returned {type(tv).__name__}"))
        tflat = np.asarray(tv).reshape(-1)
        for i, r in enumerate(R.reshape(-1)):
            sv = getattr(s, "threshold_at_" + name)(float(r))
            if not isinstance(sv, float):
                prob.append(("scalar-type", f"threshold_at_{name}({r}) returned {type(sv).__name__}"))
            if not same(sv, tflat[i]):
                prob.append(("elementwise", f"threshold_at_{name}: element {i} is {tflat[i]}, scalar call gives {sv}"))
    for alias, name in ALIASES.items():
        if not same(results["rate:" + alias], results["rate:" + name]):
            prob.append(("alias", f"{alias} differs from {name}"))
        # ... and the threshold-setting aliases, for every method (explicit and default)
        for m in ("linear", "lower", "higher", None):
            kw = {} if m is None else {"method": m}
            try:
                a = getattr(s, "threshold_at_" + alias)(R, **kw)
                b = getattr(s, "threshold_at_" + name)(R, **kw)
            except ValueError:
                continue   # empty class for that metric: both raise (checked elsewhere)
            if not same(a, b):
                prob.append(("alias", f"threshold_at_{alias}(method={m}) differs from threshold_at_{name}(method={m})"))
    # the alias names are accepted wherever a rate is named: auc() by alias = auc() by primary name
    if len(pos_in) and len(neg_in):
        for alias, name in ALIASES.items():
            try:
                ax = [s.auc(x_axis=alias), s.auc(x_axis=alias, lower=0.125, upper=0.625), s.auc(x_axis="fpr", y_axis=alias)]
                bx = [s.auc(x_axis=name), s.auc(x_axis=name, lower=0.125, upper=0.625), s.auc(x_axis="fpr", y_axis=name)]
            except (ValueError, AttributeError) as ex:
                prob.append(("alias", f"auc with the alias {alias}: {type(ex).__name__}"))
                continue
            if not same(np.array(ax), np.array(bx)):
                prob.append(("alias", f"auc(x_axis / y_axis = {alias!r}) = {ax} differs from auc with {name!r} = {bx}"))
    cmv = results["cm:cm"]
    if cmv.shape != shp + (2, 2):
        prob.append(("shape", f"cm: shape {cmv.shape}, expected {shp + (2, 2)}"))
    cflat = cmv.reshape((T.size, 2, 2)) if cmv.shape == shp + (2, 2) else np.zeros((0, 2, 2))
    for i, t in enumerate(T.reshape(-1)[: len(cflat)]):
        if not same(s.cm(float(t)).matrix, cflat[i]):
            prob.append(("elementwise", f"cm: block {i} differs from the scalar call"))
    # rates that are undefined at some thresholds and defined at others within ONE vectorised call (a threshold beyond all
    # scores in the middle of the array): every element equals the scalar call
    if len(pos_in) + len(neg_in):
        allv_ = np.concatenate([pos_in, neg_in]).astype(float)
        T_mix = np.concatenate([[allv_.max() + 1.0], T.reshape(-1)[:3], [allv_.min() - 1.0], [float(np.median(allv_))], [allv_.max() + 2.0], T.reshape(-1)[:2]])
        cm_mix = s.cm(T_mix)
        for nm_ in ("ppv", "npv", "fdr", "for_", "tpr", "tnr", "fpr", "fnr", "topr", "accuracy"):
            vec_ = np.asarray(getattr(cm_mix, nm_)(), dtype=float)
            one_ = np.array([float(getattr(s.cm(float(t_)), nm_)()) for t_ in T_mix])
            if vec_.shape != one_.shape or not same(vec_, one_):
                prob.append(("elementwise", f"cm(T).{nm_}() for T = {T_mix.tolist()}: {vec_.tolist()}, threshold by threshold: {one_.tolist()}"))
                break
    pw = results["pw:pw"]
    if pw.shape != tuple(case["pshape"]) + shp + (2, 2):
        prob.append(("shape", f"pointwise_cm: shape {pw.shape}, expected {tuple(case['pshape']) + shp + (2, 2)}"))
    elif pw.size:
        lab = np.array([1] * len(pos_in) + [0] * len(neg_in)).reshape(case["pshape"])
        sca = np.concatenate([pos_in, neg_in]).astype(float).reshape(case["pshape"])
        pwf = pw.reshape((lab.size, T.size, 2, 2))
        for i, t in enumerate(T.reshape(-1)):
            one = pointwise_cm(lab, sca, float(t), score_class=case["sc"], equal_class=case["ec"]).reshape((lab.size, 2, 2))
            if not same(one, pwf[:, i]):
                prob.append(("elementwise", f"pointwise_cm: slice for threshold element {i} differs from the scalar-threshold call"))
                break
    # the same threshold container passed again after being changed in place: the answer follows the contents
    if T.size:
        T2 = np.array(T, dtype=float, copy=True)
        for name in ("tpr", "fpr"):
            first = np.array(getattr(s, name)(T2), copy=True)
            T2 += 0.75
            if not same(getattr(s, name)(T2), getattr(s, name)(T2.copy())):
                prob.append(("repeat", f"{name}(T) after T was changed in place differs from {name} of a fresh array with the same contents"))
            T2 -= 0.75
            if not same(getattr(s, name)(T2), first):
                prob.append(("repeat", f"{name}(T) differs from its first answer after T was changed in place and changed back"))
    # threshold_at_metric: one entry per target, each equal to the scalar call on that target (attainable or not)
    if R.size >= 2 and len(pos_in) + len(neg_in) >= 2:
        tl = [float(x) for x in R.reshape(-1)][:6]
        for mname in ("tpr", "fnr", "tnr", "fpr", "topr"):
            try:
                many = s.threshold_at_metric(np.array(tl), mname)
                ones = [s.threshold_at_metric(x, mname) for x in tl]
            except ValueError:
                continue
            if len(many) != len(tl):
                prob.append(("elementwise", f"threshold_at_metric({tl}, {mname!r}) returned {len(many)} entries for {len(tl)} targets"))
            elif not all(same(a, b) for a, b in zip(many, ones)):
                j_ = [same(a, b) for a, b in zip(many, ones)].index(False)
                prob.append(("elementwise", f"threshold_at_metric({tl}, {mname!r})[{j_}] = {np.asarray(many[j_]).tolist()}, the scalar call on "
                                            f"{tl[j_]} gives {np.asarray(ones[j_]).tolist()}"))
    # derived objects (GroupScores: swap(), per-group views): queries on the original and on the derived object, in either
    # order, leave each other's results unchanged, and equal those of freshly built objects
    if case.get("groups"):
        from score_analysis import GroupScores
        pg, ng = np.array(case["groups"][0]), np.array(case["groups"][1])

        def build():
            return GroupScores(pos_in.astype(float), neg_in.astype(float), pos_groups=pg, neg_groups=ng,
                               score_class=case["sc"], equal_class=case["ec"])

        GM = ["group_tpr", "group_fnr", "group_tnr", "group_fpr", "group_topr", "group_tonr"]
        SW = {"group_tpr": "group_tnr", "group_fnr": "group_fpr", "group_tnr": "group_tpr", "group_fpr": "group_fnr",
              "group_topr": "group_tonr", "group_tonr": "group_topr"}
        ref = {m: getattr(build(), m)(T) for m in GM}
        ref_sw = {m: getattr(build().swap(), m)(T) for m in GM}
        for first in ("original", "derived"):
            g = build()
            d = g.swap()
            seq = [(g, ref, "original"), (d, ref_sw, "swapped")] if first == "original" else [(d, ref_sw, "swapped"), (g, ref, "original")]
            for rep in range(2):
                for obj, want, what in seq:
                    for m in GM:
                        v = getattr(obj, m)(T)
                        if not same(v, want[m]):
                            prob.append(("derived", f"{m} on the {what} GroupScores (queried {'first' if (obj is seq[0][0]) else 'second'}, "
                                                    f"round {rep}) differs from the same query on a freshly built object"))
            if prob:
                break
        for m in GM:
            if not same(ref_sw[m], ref[SW[m]]):
                prob.append(("derived", f"swap().{m} differs from {SW[m]} of the original"))
        g = build()
        names_ = sorted(set(pg.tolist()) | set(ng.tolist()))
        if len(names_) >= 2:
            g5 = build()
            _ = g5[names_[-1]].pos          # the last group indexed first: group-wise results still come in `groups` order
            for m in GM:
                if not same(getattr(g5, m)(T), ref[m]):
                    prob.append(("derived", f"{m} after indexing group {names_[-1]!r} first differs from the same query on a freshly built object"))
                    break
        v1 = {n_: (g[n_].pos.copy(), g[n_].neg.copy()) for n_ in names_}
        _ = g.swap()[names_[0]].pos
        for n_ in names_:
            if not (same(g[n_].pos, v1[n_][0]) and same(g[n_].neg, v1[n_][1])):
                prob.append(("derived", f"per-group view {n_!r} of the original changed after a view of swap() was taken"))
    after = snap()
    names = ["caller pos array", "caller neg array", "threshold array", "target array", "self.pos", "self.neg", "fields/dtypes/shapes"]
    for n_, b, a in zip(names, before, after):
        if a != b:
            prob.append(("mutation", f"{n_} changed during the queries"))
    out["cm_shape"] = list(cmv.shape)
    out["cm_flat"] = [int(v) for v in cmv.reshape(-1)]
    out["pw_shape"] = list(pw.shape)
    out["pw_flat"] = [int(v) for v in pw.reshape(-1)]
    out["problems"] = [list(p) for p in prob[:10]]
    return out


def coq_term(case, res):
    if "ok" not in res:
        return "false"
    r = res["ok"]
    s = (f"(mk_scores {cq.qlist(F(x) for x in case['pos'])} {cq.qlist(F(x) for x in case['neg'])} {cq.z(case['ep'])} "
         f"{cq.z(case['en'])} {cq.label(case['sc'])} {cq.label(case['ec'])} {cq.b(case['is_sorted'])})")
    if case["is_sorted"] and sorted(F(x) for x in case["pos"]) != [F(x) for x in case["pos"]]:
        return None   # is_sorted=True on unsorted data: numpy's binary search is not modelled
    sh = "[" + "; ".join(cq.nat(d) for d in case["shape"]) + "]"
    T = f"(mkArr {sh} [" + "; ".join(cq.ext(F(t)) for t in case["thr"]) + "])"
    esh = "[" + "; ".join(cq.nat(d) for d in r["cm_shape"]) + "]"
    psh = "[" + "; ".join(cq.nat(d) for d in case["pshape"]) + "]"
    epsh = "[" + "; ".join(cq.nat(d) for d in r["pw_shape"]) + "]"
    labels = cq.blist([True] * len(case["pos"]) + [False] * len(case["neg"]))
    xs = f"(mkArr {psh} {cq.qlist(F(x) for x in case['pos'] + case['neg'])})"
    return (f"(arrZ_eqb (cm_arr {s} {T}) {esh} {cq.zlist(r['cm_flat'])} && "
            f"arrZ_eqb (pointwise_cm_arr {cq.label(case['sc'])} {cq.label(case['ec'])} {labels} {xs} {T}) {epsh} {cq.zlist(r['pw_flat'])})")


def oracle(case, res):
    if "ok" not in res:
        return [("C10/exception", f"a query raised {res.get('err')}: {res.get('msg')}")]
    return [(f"C10/{k}", m) for k, m in res["ok"]["problems"]]


def nontrivial(case, res):
    return len(case["shape"]) >= 1


def distribution(cases, results):
    d = {"n": len(cases), "rank": {}, "size0": 0, "aliasing_is_sorted": 0, "int_dtype": 0, "errors": 0}
    for c, r in zip(cases, results):
        k = str(len(c["shape"]))
        d["rank"][k] = d["rank"].get(k, 0) + 1
        d["size0"] += 0 in c["shape"]
        d["aliasing_is_sorted"] += bool(c["is_sorted"])
        d["int_dtype"] += bool(c.get("int_dtype"))
        d["errors"] += "ok" not in r
    return d
